package main

import (
	"encoding/binary"
	"fmt"
	"math/big"

	"github.com/9elements/converged-security-suite/v2/pkg/test"
	"github.com/9elements/converged-security-suite/v2/pkg/tools"
	"github.com/linuxboot/fiano/pkg/intel/metadata/fit"
	"verifharness/gal"
)

type fe struct {
	T  uint8  `json:"type"`
	A  uint64 `json:"addr"`
	S  uint32 `json:"size24"`
	V  uint16 `json:"version"`
	CV bool   `json:"cv,omitempty"`
}

func (e fe) lit() string {
	return fmt.Sprintf("(%d, %s, %d, %d)", e.T, gal.U(e.A), e.S, e.V)
}

func tblLit(t []fe) string {
	s := make([]string, len(t))
	for i, e := range t {
		s[i] = e.lit()
	}
	return gal.List(s)
}

func toTable(t []fe) fit.Table {
	var out fit.Table
	for _, e := range t {
		var h fit.EntryHeaders
		h.Address = fit.Address64(e.A)
		h.Size.SetUint32(e.S & 0xffffff)
		h.Version = fit.EntryVersion(e.V)
		tv := e.T & 0x7f
		if e.CV {
			tv |= 0x80
		}
		h.TypeAndIsChecksumValid = fit.TypeAndIsChecksumValid(tv)
		out = append(out, h)
	}
	return out
}

// memory behind the FIT: a 64-byte module header for every startup ACM entry below
// 0xFFFFFF00 whose size field (offset 24, in dwords) states S*16 bytes; when two ACM
// entries name the same address the first one describes the module that is there.
// acmMem lists what the size reader can see: address of the size field -> its value.
type memWord struct {
	A uint64 `json:"addr"`
	D uint32 `json:"dword"`
}

func acmMem(t []fe) []memWord {
	var m []memWord
	seen := map[uint64]bool{}
	for _, e := range t {
		if e.T == 2 && e.A < 0xffffff00 && !seen[e.A] {
			seen[e.A] = true
			m = append(m, memWord{e.A + 24, e.S * 16 / 4})
		}
	}
	return m
}

func memLit(m []memWord) string {
	s := make([]string, len(m))
	for i, w := range m {
		s[i] = gal.Pair(gal.U(w.A), gal.U(uint64(w.D)))
	}
	return gal.List(s)
}

func fitHW(t []fe) *hw {
	h := newHW()
	for _, w := range acmMem(t) {
		b := make([]byte, 64)
		binary.LittleEndian.PutUint16(b[0:], 2)
		binary.LittleEndian.PutUint32(b[24:], w.D)
		h.mapMem(w.A-24, b)
	}
	return h
}

// ---------- oracle: exact interval arithmetic on unbounded integers ----------

type ival struct{ lo, hi *big.Int } // [lo, hi)

// the range a FIT entry denotes: a BIOS startup module is [addr, addr + 16*size field); a
// startup ACM is [addr, addr + size stated by the module header in memory) - ok=false when
// that header cannot be read (no memory there, or the address is not below 4 GiB)
func ivOf(t []fe, i int) (ival, bool) {
	e := t[i]
	lo := bi(e.A)
	if e.T != 2 {
		return ival{lo, new(big.Int).Add(lo, big.NewInt(int64(e.S)*16))}, true
	}
	if e.A >= 0xffffff00 {
		return ival{lo, lo}, false
	}
	for _, f := range t { // the module that is at this address
		if f.T == 2 && f.A == e.A {
			return ival{lo, new(big.Int).Add(lo, big.NewInt(int64(f.S)*16))}, true
		}
	}
	panic("unreachable")
}
func (a ival) overlaps(b ival) bool {
	// exists x: a.lo <= x < a.hi and b.lo <= x < b.hi
	lo := a.lo
	if b.lo.Cmp(lo) > 0 {
		lo = b.lo
	}
	hi := a.hi
	if b.hi.Cmp(hi) < 0 {
		hi = b.hi
	}
	return lo.Cmp(hi) < 0
}
func (a ival) contains(lo, hi *big.Int) bool { return a.lo.Cmp(lo) <= 0 && a.hi.Cmp(hi) >= 0 }
func (a ival) wraps64() bool                 { return a.hi.Cmp(two64) >= 0 }
func (a ival) empty() bool                   { return a.lo.Cmp(a.hi) == 0 }

// an empty range strictly inside the other one: no point is shared, but "the module lies
// inside the other" - the interval reading gives no verdict the checks could be held to
func emptyInside(a, b ival) bool {
	in := func(x, y ival) bool { return x.empty() && y.lo.Cmp(x.lo) < 0 && x.lo.Cmp(y.hi) < 0 }
	return in(a, b) || in(b, a)
}

func ofType(t []fe, ty uint8) []int {
	var r []int
	for i, e := range t {
		if e.T == ty {
			r = append(r, i)
		}
	}
	return r
}

const siteFit = "pkg/test/fit.go"

func oracleFit(c *gal.Ctx, idx int, k string, ptr uint32, t []fe, got verd, d interface{}) {
	ibb, acm := ofType(t, 7), ofType(t, 2)
	if got.Panic {
		c.OracleFail(idx, k+" panicked instead of giving a verdict: "+got.Msg, siteFit+":getFITDataSize", d)
		return
	}
	// a pair scan: verdict demanded by exact interval arithmetic
	pairVerdict := func(name string, overlap, degenerate, unreadable, anyPair bool) {
		switch {
		case overlap && got.OK:
			c.OracleFail(idx, fmt.Sprintf("%s: exact interval arithmetic says the ranges overlap, implementation returned %+v", name, got), siteFit+":"+name, d)
		case overlap:
			c.OracleOK() // rejected (test error, or internal error for an unreadable / wrapping entry met first)
		case unreadable && anyPair:
			// no overlap among the ranges that are known, but a range that cannot be determined: no pass
			if !got.OK && got.E2 || !got.OK && degenerate {
				c.OracleOK()
			} else {
				c.OracleFail(idx, fmt.Sprintf("%s: a range of the table cannot be determined (unreadable ACM header / range beyond 2^64), implementation returned %+v", name, got), siteFit+":"+name, d)
			}
		case degenerate:
			c.Count("fit_empty_module_inside_another_no_oracle")
		case exact(got, true):
			c.OracleOK()
		default:
			c.OracleFail(idx, fmt.Sprintf("%s: exact interval arithmetic says disjoint=true, implementation returned %+v", name, got), siteFit+":"+name, d)
		}
	}
	switch k {
	case "KNoIBBOverlap":
		overlap, degenerate, wrap := false, false, false
		for x := 0; x < len(ibb); x++ {
			for y := x + 1; y < len(ibb); y++ {
				a, _ := ivOf(t, ibb[x])
				b, _ := ivOf(t, ibb[y])
				overlap = overlap || a.overlaps(b)
				degenerate = degenerate || emptyInside(a, b)
				wrap = wrap || a.wraps64() || b.wraps64()
			}
		}
		pairVerdict("NoIBBOverlap", overlap, degenerate, wrap, len(ibb) > 1)
	case "KNoACMOverlap":
		overlap, degenerate, undet := false, false, false
		for _, x := range ibb {
			a, _ := ivOf(t, x)
			undet = undet || a.wraps64()
			for _, y := range acm {
				b, ok := ivOf(t, y)
				if !ok {
					undet = true
					continue
				}
				overlap = overlap || a.overlaps(b)
				degenerate = degenerate || emptyInside(a, b)
			}
		}
		pairVerdict("NoBIOSACMOverlap", overlap, degenerate, undet, len(ibb) > 0 && len(acm) > 0)
	case "KCoversRV", "KCoversFV", "KCoversFIT":
		var lo, hi *big.Int
		switch k {
		case "KCoversRV":
			lo, hi = big.NewInt(0xFFFFFFF0), big.NewInt(0xFFFFFFF4)
		case "KCoversFV":
			lo, hi = big.NewInt(0xFFFFFFC0), big.NewInt(0xFFFFFFC4)
		default:
			lo = bi(uint64(ptr))
			hi = new(big.Int).Add(lo, big.NewInt(int64(len(t))*16))
		}
		spec, wrap := false, false
		for _, x := range ibb {
			a, _ := ivOf(t, x)
			spec = spec || a.contains(lo, hi)
			wrap = wrap || a.wraps64()
		}
		switch {
		case !wrap && exact(got, spec):
			c.OracleOK()
		case wrap && !spec && !got.OK && (got.E1 != got.E2):
			c.OracleOK() // not covered: rejected, as test error or (module beyond 2^64 met) internal error
		case wrap && spec && (got.isPass() || !got.OK && got.E2):
			c.Count("fit_covers_with_module_beyond_2^64")
		default:
			c.OracleFail(idx, fmt.Sprintf("%s: exact interval arithmetic says covered=%v, implementation returned %+v", k, spec, got), siteFit, d)
		}
	case "KACMBelow4G":
		spec, undet := true, false
		for _, y := range acm {
			b, ok := ivOf(t, y)
			if !ok {
				undet = true
			} else if b.hi.Cmp(two32) > 0 {
				spec = false
			}
		}
		switch {
		case !undet && exact(got, spec):
			c.OracleOK()
		case undet && !got.OK && (got.E2 || !spec && got.E1):
			c.OracleOK() // an ACM whose size cannot be read: never a pass
		default:
			c.OracleFail(idx, fmt.Sprintf("BIOSACMIsBelow4G: every ACM ends at or below 4 GiB = %v (ACM header unreadable = %v), implementation %+v", spec, undet, got), siteFit+":BIOSACMIsBelow4G", d)
		}
	case "KHasMicrocode", "KHasACM", "KHasIBB":
		ty := map[string]uint8{"KHasMicrocode": 1, "KHasACM": 2, "KHasIBB": 7}[k]
		spec := len(ofType(t, ty)) > 0
		if !got.E2 && got.OK == spec && got.E1 == !spec {
			c.OracleOK()
		} else {
			c.OracleFail(idx, fmt.Sprintf("%s: FIT has entry of type %d = %v, implementation %+v", k, ty, spec, got), siteFit, d)
		}
	}
}

var fitChecks = []struct {
	k string
	f func(*hw, *test.PreSet) (bool, error, error)
}{
	{"KNoIBBOverlap", func(h *hw, p *test.PreSet) (bool, error, error) { return test.NoIBBOverlap(h, p) }},
	{"KNoACMOverlap", func(h *hw, p *test.PreSet) (bool, error, error) { return test.NoBIOSACMOverlap(h, p) }},
	{"KCoversRV", func(h *hw, p *test.PreSet) (bool, error, error) { return test.IBBCoversResetVector(h, p) }},
	{"KCoversFV", func(h *hw, p *test.PreSet) (bool, error, error) { return test.IBBCoversFITVector(h, p) }},
	{"KCoversFIT", func(h *hw, p *test.PreSet) (bool, error, error) { return test.IBBCoversFIT(h, p) }},
	{"KACMBelow4G", func(h *hw, p *test.PreSet) (bool, error, error) { return test.BIOSACMIsBelow4G(h, p) }},
	{"KHasMicrocode", func(h *hw, p *test.PreSet) (bool, error, error) { return test.HasMicroCode(h, p) }},
	{"KHasACM", func(h *hw, p *test.PreSet) (bool, error, error) { return test.HasBIOSACM(h, p) }},
	{"KHasIBB", func(h *hw, p *test.PreSet) (bool, error, error) { return test.HasIBB(h, p) }},
}

func runFit(k string, ptr uint32, t []fe) verd {
	test.SetFITStateForC05Verif(ptr, toTable(t))
	h := fitHW(t)
	p := &test.PreSet{}
	for _, fc := range fitChecks {
		if fc.k == k {
			return run3(func() (bool, error, error) { return fc.f(h, p) })
		}
	}
	panic("unknown fit check " + k)
}

func addFit(c *gal.Ctx, kind string, ks []string, ptr uint32, t []fe) {
	for _, k := range ks {
		got := runFit(k, ptr, t)
		mem := acmMem(t)
		d := map[string]interface{}{"check": k, "fitPointer": ptr, "fit": t, "acmSizeFields": mem, "got": got}
		idx := c.Add(kind+"/"+k, fmt.Sprintf("CFit %s %d %s %s %s", k, ptr, tblLit(t), memLit(mem), got.lit()), d, len(t) > 1)
		oracleFit(c, idx, k, ptr, t, got, d)
	}
}

var rangeKs = []string{"KNoIBBOverlap", "KNoACMOverlap", "KCoversRV", "KCoversFV", "KCoversFIT", "KACMBelow4G"}
var allKs = []string{"KNoIBBOverlap", "KNoACMOverlap", "KCoversRV", "KCoversFV", "KCoversFIT", "KACMBelow4G", "KHasMicrocode", "KHasACM", "KHasIBB"}

const gridBase = 0xFFF00000
const gridStep = 0x10000

func genFit(c *gal.Ctx) {
	r := c.Rng
	hdr := func(n int) fe { return fe{T: 0, A: 0x2020205f5449465f, S: uint32(n), V: 0x100, CV: true} }
	// --- documented good configuration: header, microcode, ACM, two IBBs up to 4 GiB
	good := []fe{hdr(5), {T: 1, A: 0xFFE00000, S: 0, V: 0x100}, {T: 2, A: 0xFFE40000, S: 0, V: 0x100},
		{T: 7, A: 0xFFF00000, S: 0x8000, V: 0x100}, {T: 7, A: 0xFFF80000, S: 0x8000, V: 0x100}}
	// 0x8000*16 = 0x80000: the two IBBs are ADJACENT ([FFF00000,FFF80000) and [FFF80000,4G))
	addFit(c, "fit_good_adjacent", allKs, 0xFFFD0000, good)
	good2 := append([]fe{}, good...)
	good2[3] = fe{T: 7, A: 0xFFF00000, S: 0x7000, V: 0x100} // one-page gap
	addFit(c, "fit_good_gap", allKs, 0xFFFD0000, good2)
	// ACM listed after the IBBs (the order most real FITs do NOT use, but legal)
	good3 := []fe{hdr(5), good[1], good2[3], good[4], good[2]}
	addFit(c, "fit_acm_after_ibb", rangeKs, 0xFFFD0000, good3)
	// ACM listed first and overlapping an IBB
	addFit(c, "fit_acm_first_overlap", rangeKs, 0xFFFD0000, []fe{hdr(3), {T: 2, A: 0xFFF10000, S: 0x1000, V: 0x100}, {T: 7, A: 0xFFF00000, S: 0x10000, V: 0x100}})
	// nested, identical, reversed order
	addFit(c, "fit_nested", rangeKs, 0xFFF00100, []fe{hdr(3), {T: 7, A: 0xFFF00000, S: 0x10000, V: 0x100}, {T: 7, A: 0xFFF40000, S: 0x100, V: 0x100}})
	addFit(c, "fit_nested_rev", rangeKs, 0xFFF00100, []fe{hdr(3), {T: 7, A: 0xFFF40000, S: 0x100, V: 0x100}, {T: 7, A: 0xFFF00000, S: 0x10000, V: 0x100}})
	// FIT reaching 4 GiB: uint32 end wraps (state excluded by HasFIT, reachable through the exported check)
	addFit(c, "fit_wrap32", []string{"KCoversFIT"}, 0xFFFFFFF0, []fe{hdr(2), {T: 7, A: 0xFFFF0000, S: 0x10, V: 0x100}})
	// 64-bit wrap of addr+size
	addFit(c, "fit_wrap64", rangeKs, 0xFFFD0000, []fe{hdr(3), {T: 7, A: 0xFFFFFFFFFFFFFFE0, S: 4, V: 0x100}, {T: 7, A: 0xFFFFFFFFFFFFFFF0, S: 1, V: 0x100}})
	// boundary: IBB ending exactly at reset vector + 4 / one short
	addFit(c, "fit_rv_edge", []string{"KCoversRV", "KCoversFV"}, 0xFFFD0000, []fe{hdr(2), {T: 7, A: 0xFFFFFF00, S: 0x10, V: 0x100}})
	addFit(c, "fit_rv_edge", []string{"KCoversRV", "KCoversFV"}, 0xFFFD0000, []fe{hdr(2), {T: 7, A: 0xFFFFFF00, S: 0xF, V: 0x100}})
	addFit(c, "fit_rv_edge", []string{"KCoversRV", "KCoversFV"}, 0xFFFD0000, []fe{hdr(2), {T: 7, A: 0xFFFFFFF0, S: 1, V: 0x100}})
	addFit(c, "fit_rv_edge", []string{"KCoversRV", "KCoversFV"}, 0xFFFD0000, []fe{hdr(2), {T: 7, A: 0xFFFFFFC0, S: 1, V: 0x100}})
	addFit(c, "fit_rv_edge", []string{"KCoversRV", "KCoversFV"}, 0xFFFD0000, []fe{hdr(2), {T: 7, A: 0xFFFFFFF1, S: 1, V: 0x100}})
	// exact-boundary families: module start at lo-16 / lo-12 / lo-1 / lo / lo+1, size k paragraphs, so that
	// the end falls on hi-1, hi, hi+1 ... (end == hi needs an address that is not 16-byte aligned)
	for _, lo := range []uint64{0xFFFFFFF0, 0xFFFFFFC0} {
		for _, d1 := range []int64{-16, -12, -11, -13, -1, 0, 1} {
			for k := uint32(0); k < 3; k++ {
				addFit(c, "fit_vector_edge", []string{"KCoversRV", "KCoversFV"}, 0xFFFD0000, []fe{hdr(2), {T: 7, A: uint64(int64(lo) + d1), S: k, V: 0x100}})
			}
		}
	}
	for _, n := range []int{2, 3} {
		for _, d1 := range []int64{-16, -1, 0, 1} {
			for k := -1; k < 3; k++ {
				ptr := uint32(0xFFFD0040)
				t := []fe{hdr(n), {T: 7, A: uint64(int64(ptr) + d1), S: uint32(n + k), V: 0x100}}
				if n == 3 {
					t = append(t, fe{T: 1, A: 0xFFE00000, S: 0, V: 0x100})
				}
				addFit(c, "fit_table_edge", []string{"KCoversFIT"}, ptr, t)
			}
		}
	}
	addFit(c, "fit_empty", allKs, 0xFFFD0000, nil)
	// startup ACM whose header cannot be read: above the mapped memory, size field ending exactly at /
	// beyond 4 GiB, address at and above 4 GiB, address whose int64 offset + 24 comes out small again
	for _, a := range []uint64{0xFFFFFF00, 0xFFFFFFE4, 0xFFFFFFE8, 0xFFFFFFE9, 0x100000000, 0x7FFFFFFFFFFFFFF0, 0x8000000000000000, 0xFFFFFFFFFFFFFFE8, 0xFFFFFFFFFFFFFFF8} {
		addFit(c, "fit_acm_unreadable", []string{"KNoACMOverlap", "KACMBelow4G"}, 0xFFFD0000, []fe{hdr(3), {T: 2, A: a, S: 0x100, V: 0x100}, {T: 7, A: 0xFFF00000, S: 0x1000, V: 0x100}})
		addFit(c, "fit_acm_unreadable", []string{"KNoACMOverlap", "KACMBelow4G"}, 0xFFFD0000, []fe{hdr(4), {T: 7, A: 0xFFF00000, S: 0x1000, V: 0x100}, {T: 2, A: 0xFFF00800, S: 0x10, V: 0x100}, {T: 2, A: a, S: 0x100, V: 0x100}})
	}
	// ACM ending exactly at / one paragraph beyond 4 GiB; ACM adjacent to / one paragraph into an IBB, both orders
	for _, s := range []uint32{0xFFF, 0x1000, 0x1001} {
		addFit(c, "fit_acm_4g_edge", []string{"KNoACMOverlap", "KACMBelow4G"}, 0xFFFD0000, []fe{hdr(3), {T: 2, A: 0xFFFF0000, S: s, V: 0x100}, {T: 7, A: 0xFFF00000, S: 0x1000, V: 0x100}})
		addFit(c, "fit_acm_ibb_edge", []string{"KNoACMOverlap"}, 0xFFFD0000, []fe{hdr(3), {T: 2, A: 0xFFF00000, S: s, V: 0x100}, {T: 7, A: 0xFFF10000, S: 0x1000, V: 0x100}})
		addFit(c, "fit_acm_ibb_edge", []string{"KNoACMOverlap"}, 0xFFFD0000, []fe{hdr(3), {T: 7, A: 0xFFF00000, S: s, V: 0x100}, {T: 2, A: 0xFFF10000, S: 0x1000, V: 0x100}})
	}
	// a module whose range leaves the 64-bit address space next to a healthy pair / before the covering module
	addFit(c, "fit_wrap64_mixed", rangeKs, 0xFFFD0000, []fe{hdr(4), {T: 7, A: 0xFFFFFFFFFFFFFFF0, S: 1, V: 0x100}, {T: 7, A: 0xFFF00000, S: 0x8000, V: 0x100}, {T: 7, A: 0xFFF80000, S: 0x8000, V: 0x100}})
	addFit(c, "fit_wrap64_mixed", rangeKs, 0xFFFD0000, []fe{hdr(4), {T: 7, A: 0xFFF00000, S: 0x8000, V: 0x100}, {T: 7, A: 0xFFF80000, S: 0x8000, V: 0x100}, {T: 7, A: 0xFFFFFFFFFFFFFFF0, S: 1, V: 0x100}})
	addFit(c, "fit_wrap64_mixed", rangeKs, 0xFFFD0000, []fe{hdr(2), {T: 7, A: 0xFFFFFFFFFFFFFFF0, S: 0, V: 0x100}})

	// --- random grid layouts: touching / overlapping / nested / reordered are all frequent
	n := c.Scale(110, 1500)
	for i := 0; i < n; i++ {
		var t []fe
		t = append(t, hdr(0))
		nibb := r.Intn(4)
		for j := 0; j < nibb; j++ {
			g := uint64(r.Intn(16))
			l := uint32(r.Intn(5)) * (gridStep / 16)
			if r.Intn(6) == 0 {
				l += uint32(r.Intn(3)) - 1 // off by one paragraph
			}
			if r.Intn(4) == 0 { // reach the top of the address space
				l = uint32((0x100000000 - (gridBase + g*gridStep)) / 16)
			}
			t = append(t, fe{T: 7, A: gridBase + g*gridStep, S: l & 0xffffff, V: 0x100, CV: r.Intn(2) == 0})
		}
		nacm := r.Intn(3)
		if r.Intn(3) == 0 {
			nacm = 0
		}
		for j := 0; j < nacm; j++ {
			g := uint64(r.Intn(16))
			t = append(t, fe{T: 2, A: gridBase + g*gridStep, S: uint32(r.Intn(3)) * (gridStep / 16), V: 0x100})
		}
		for j := r.Intn(3); j > 0; j-- {
			t = append(t, fe{T: []uint8{1, 9, 10, 11, 12, 0x7f, 8}[r.Intn(7)], A: gridBase + uint64(r.Intn(16))*gridStep, S: uint32(r.Intn(64)), V: uint16(r.Intn(3))})
		}
		// shuffle everything after the header
		r.Shuffle(len(t)-1, func(a, b int) { t[a+1], t[b+1] = t[b+1], t[a+1] })
		t[0].S = uint32(len(t))
		ptr := uint32(gridBase + uint64(r.Intn(16))*gridStep + uint64(r.Intn(4))*0x100)
		if r.Intn(12) == 0 {
			ptr = 0xFFFFFFFF - uint32(r.Intn(len(t)*16+1)) // end of table at / beyond 4 GiB
		}
		ks := rangeKs
		if i%5 == 0 {
			ks = allKs
		}
		addFit(c, "fit_grid", ks, ptr, t)
	}
	// --- fully random addresses/sizes (64-bit), including huge ones
	m := c.Scale(25, 300)
	for i := 0; i < m; i++ {
		var t []fe
		for j := r.Intn(4); j >= 0; j-- {
			a := r.Uint64()
			switch r.Intn(4) {
			case 0:
				a &= 0xffffffff
			case 1:
				a |= 0xffffffffff000000
			}
			t = append(t, fe{T: []uint8{7, 7, 7, 1}[r.Intn(4)], A: a, S: r.Uint32() & 0xffffff, V: uint16(r.Intn(0x200))})
		}
		addFit(c, "fit_random", []string{"KNoIBBOverlap", "KCoversRV", "KCoversFV", "KCoversFIT"}, r.Uint32(), t)
	}

	genFitMisc(c)
}

// HasBIOSPolicy, PolicyAllowsTXT, FITVectorIsSet, HasFIT
func genFitMisc(c *gal.Ctx) {
	r := c.Rng
	nrand := c.Scale(24, 200)
	for i := 0; i < nrand+8; i++ {
		var t []fe
		for j := r.Intn(5); j > 0; j-- {
			t = append(t, fe{T: []uint8{9, 9, 10, 7, 1}[r.Intn(5)], A: 0xFFF00000 + uint64(r.Intn(256)), S: 0, V: uint16(r.Intn(3))})
		}
		mode := r.Intn(2)
		if i >= nrand { // 0, 1, 2, 3 BIOS policy records between other entries, both TXT modes
			k := i - nrand
			mode = k & 1
			t = []fe{{T: 7, A: 0xFFF00000, S: 1, V: 0x100}}
			for j := 0; j < k/2; j++ {
				t = append(t, fe{T: 9, A: 0xFFF00100 + uint64(j)*16, S: 0, V: 1}, fe{T: 1, A: 0xFFE00000, S: 0, V: 0x100})
			}
		}
		test.SetFITStateForC05Verif(0, toTable(t))
		p := &test.PreSet{TXTMode: tools.TXTMode(mode)}
		got := run3(func() (bool, error, error) { return test.HasBIOSPolicy(newHW(), p) })
		d := map[string]interface{}{"check": "HasBIOSPolicy", "txtmode": mode, "fit": t, "got": got}
		idx := c.Add("fit_has_policy", fmt.Sprintf("CHasPolicy %d %s %s", mode, tblLit(t), got.lit()), d, true)
		spec := mode == 0 || len(ofType(t, 9)) == 1
		if !got.Panic && got.OK == spec && got.E1 == !spec && !got.E2 {
			c.OracleOK()
		} else {
			c.OracleFail(idx, fmt.Sprintf("HasBIOSPolicy: exactly one policy record (or auto-promotion) = %v, got %+v", spec, got), siteFit+":HasBIOSPolicy", d)
		}

		// PolicyAllowsTXT on the same table
		addPolicyTXT(c, "fit_policy_txt", t, r.Intn(5) != 0, uint8(r.Intn(256)), p)
	}
	// PolicyAllowsTXT: every decision of the first TXT policy record (version 0 / 1 / other, byte
	// readable or not, bit 0 of the byte against all other bits), a second record that must not matter
	for _, b := range []uint8{0, 1, 2, 3, 0x80, 0xFE, 0xFF, 0x55, 0xAA} {
		rec := fe{T: 10, A: 0xFFF00010, S: 0, V: 1}
		addPolicyTXT(c, "fit_policy_txt_v1", []fe{{T: 7, A: 0xFFF00000, S: 1, V: 0x100}, rec}, true, b, &test.PreSet{})
		addPolicyTXT(c, "fit_policy_txt_v1", []fe{rec, {T: 10, A: 0xFFF00020, S: 0, V: 2}}, true, b, &test.PreSet{})
	}
	for _, v := range []uint16{0, 1, 2, 0x100} {
		rec := fe{T: 10, A: 0xFFF00010, S: 0, V: v}
		addPolicyTXT(c, "fit_policy_txt_version", []fe{rec}, false, 1, &test.PreSet{})
		addPolicyTXT(c, "fit_policy_txt_version", []fe{{T: 9, A: 0xFFF00000, S: 0, V: 1}, rec, {T: 10, A: 0xFFF00020, S: 0, V: 1}}, true, 1, &test.PreSet{})
	}
	for i := 0; i < c.Scale(16, 160); i++ {
		var t []fe
		for j := 1 + r.Intn(3); j > 0; j-- {
			t = append(t, fe{T: []uint8{10, 10, 9, 7}[r.Intn(4)], A: 0xFFF00000 + uint64(r.Intn(256)), S: 0, V: uint16(r.Intn(3))})
		}
		addPolicyTXT(c, "fit_policy_txt_random", t, r.Intn(6) != 0, uint8(r.Intn(4))|uint8(r.Intn(2))<<7, &test.PreSet{})
	}

	// FITVectorIsSet
	ptrs := []uint32{0, 0xFEFFFFFF, 0xFF000000, 0xFF000001, 0xFFFFFFBF, 0xFFFFFFC0, 0xFFFFFFC1, 0xFFFFFFFF, 0xFFFD0000}
	for i := 0; i < c.Scale(12, 100); i++ {
		ptrs = append(ptrs, r.Uint32()|0xFE000000)
	}
	for i, pv := range append(ptrs, 0) {
		h := newHW()
		readable := i < len(ptrs)
		if readable {
			b := make([]byte, 4)
			binary.LittleEndian.PutUint32(b, pv)
			h.mapMem(0xFFFFFFC0, b)
		}
		test.SetFITStateForC05Verif(0x12345678, nil)
		got := run3(func() (bool, error, error) { return test.FITVectorIsSet(h, &test.PreSet{}) })
		after, _ := test.FITStateForC05Verif()
		d := map[string]interface{}{"check": "FITVectorIsSet", "pointer": pv, "readable": readable, "got": got}
		idx := c.Add("fit_vector", fmt.Sprintf("CFitVec %s %s", optZ(readable, uint64(pv)), got.lit()), d, true)
		spec := readable && pv >= 0xFF000000 && pv < 0xFFFFFFC0
		switch {
		case !readable && !got.Panic && !got.OK && got.E2:
			c.OracleOK()
		case readable && !got.Panic && !got.E2 && got.OK == spec && got.E1 == !spec && after == pv:
			c.OracleOK()
		default:
			c.OracleFail(idx, fmt.Sprintf("FITVectorIsSet: pointer in [4G-16M, 4G-40h) = %v, got %+v, fitPointer afterwards %#x", spec, got, after), siteFit+":FITVectorIsSet", d)
		}
	}

	// HasFIT bounds
	for i := 0; i < c.Scale(40, 400); i++ {
		ptr := uint32(0xFFFFFFC0 - uint32(r.Intn(64))*16)
		if r.Intn(3) == 0 {
			ptr = r.Uint32() | 0xFF000000
		}
		nent := uint32(r.Intn(70))
		if r.Intn(8) == 0 {
			nent = r.Uint32() & 0xffffff
		}
		rd1, rd2 := r.Intn(8) != 0, r.Intn(6) != 0
		h := newHW()
		total := uint64(nent) * 16
		var blob []byte
		if rd1 {
			n := uint64(16)
			if rd2 && total > 16 && total <= 0x2000 {
				n = total
			}
			blob = make([]byte, n)
			copy(blob, "_FIT_   ")
			blob[8], blob[9], blob[10] = byte(nent), byte(nent>>8), byte(nent>>16)
			blob[13], blob[14] = 0x01, 0x80
			for o := uint64(16); o+16 <= n; o += 16 {
				blob[o+14] = 0x7f
			}
			h.mapMem(uint64(ptr), blob)
		}
		canReadAll := rd1 && uint64(len(blob)) >= total
		test.SetFITStateForC05Verif(ptr, nil)
		got := run3(func() (bool, error, error) { return test.HasFIT(h, &test.PreSet{}) })
		_, hdrs := test.FITStateForC05Verif()
		d := map[string]interface{}{"check": "HasFIT", "fitPointer": ptr, "entries": nent, "hdrReadable": rd1, "tableReadable": canReadAll, "got": got}
		idx := c.Add("fit_hasfit", fmt.Sprintf("CHasFIT %d %d %s %s %s", ptr, nent, gal.Bool(rd1), gal.Bool(canReadAll), got.lit()), d, true)
		end := new(big.Int).Add(bi(uint64(ptr)), bi(total))
		inRange := end.Cmp(big.NewInt(0xFFFFFFC0)) <= 0
		spec := rd1 && inRange && canReadAll && nent > 0
		switch {
		case got.Panic:
			c.OracleFail(idx, "HasFIT panicked: "+got.Msg, siteFit+":HasFIT", d)
		case !rd1 && !got.OK && got.E2:
			c.OracleOK()
		case rd1 && got.OK == spec && got.E1 == !spec && !got.E2 && (!spec || len(hdrs) == int(nent)):
			c.OracleOK()
		default:
			c.OracleFail(idx, fmt.Sprintf("HasFIT: table inside [ptr, 4G-40h) and readable and non-empty = %v, got %+v (%d headers)", spec, got, len(hdrs)), siteFit+":HasFIT", d)
		}
	}
}

// PolicyAllowsTXT on table t; the byte behind the FIRST TXT policy record is rdB (readable iff rdOK)
func addPolicyTXT(c *gal.Ctx, kind string, t []fe, rdOK bool, rdB uint8, p *test.PreSet) {
	test.SetFITStateForC05Verif(0, toTable(t))
	h := newHW()
	first := -1
	for j, e := range t {
		if e.T == 10 {
			first = j
			break
		}
	}
	if rdOK && first >= 0 {
		h.mapMem(t[first].A, []byte{rdB})
	}
	got := run3(func() (bool, error, error) { return test.PolicyAllowsTXT(h, p) })
	d := map[string]interface{}{"check": "PolicyAllowsTXT", "fit": t, "readable": rdOK, "byte": rdB, "got": got}
	idx := c.Add(kind, fmt.Sprintf("CPolicyTXT %s %s %s", optZ(rdOK, uint64(rdB)), tblLit(t), got.lit()), d, first >= 0)
	var want verd
	switch {
	case first < 0:
		want = verd{OK: true}
	case t[first].V == 0:
		want = verd{E2: true}
	case t[first].V == 1 && !rdOK:
		want = verd{E2: true}
	case t[first].V == 1:
		want = verd{OK: rdB&1 == 1}
	default:
		want = verd{E1: true}
	}
	if got.Panic == want.Panic && got.OK == want.OK && got.E1 == want.E1 && got.E2 == want.E2 {
		c.OracleOK()
	} else {
		c.OracleFail(idx, fmt.Sprintf("PolicyAllowsTXT: expected %+v, got %+v", want, got), siteFit+":PolicyAllowsTXT", d)
	}
}
