package main

// PSIndexHasValidLCP / POIndexHasValidLCP on whole platforms: TPM family, NV public area of
// the index, and the BYTES stored in the index - policies of both layouts with every kind of
// version word (both families, their boundaries, the undefined words between them), served
// through an NV interface that behaves like a TPM (exactly the requested number of bytes, no
// read beyond the end of the index).  genLCP (nv.go) feeds parsed-looking policies through a
// TPM 1.2 only; here the path bytes -> tools.ParsePolicy -> verdict is exercised on both
// families, and the oracle decodes the bytes itself.

import (
	"encoding/binary"
	"fmt"

	"github.com/9elements/converged-security-suite/v2/pkg/test"
	"github.com/9elements/go-linux-lowlevel-hw/pkg/hwapi"
	"github.com/google/go-tpm/legacy/tpm2"
	"verifharness/gal"
)

// digest sizes of the LCP_POLICY2 hash algorithms (TPM_ALG_ID, TCG algorithm registry)
var lcpDigest = map[uint16]int{0x0004: 20, 0x000B: 32, 0x000C: 48, 0x000D: 64, 0x0012: 32}

const (
	pubAbsent = iota // the index is not defined
	pubFail          // the NV public read fails for another reason
	pubBlob
)

// lcpPlat: the hardware description one LCP check reads
type lcpPlat struct {
	PO      bool   `json:"poIndex"`
	TPM     int    `json:"tpmVersion"` // hwapi.TPMVersion: 1 = TPM 1.2, 2 = TPM 2.0
	Pub     int    `json:"nvPublicState"`
	NameAlg uint16 `json:"nameAlg"`
	PubCut  int    `json:"nvPublicCut"` // >= 0: the NV public blob is cut to that many bytes
	Data    []byte `json:"indexBytes"`  // nil: the data of the index cannot be read
	NoData  bool   `json:"dataUnreadable"`
	Preset  uint16 `json:"presetLCPHash"`
}

func (p lcpPlat) name() string {
	if p.PO {
		return "POIndexHasValidLCP"
	}
	return "PSIndexHasValidLCP"
}

func (p lcpPlat) pubBytes(k test.NVConstsForC05Verif) []byte {
	if p.TPM != 2 {
		return []byte{0} // the TPM 1.2 branch only asks whether the (PO) index is defined
	}
	idx, want := k.PS20Index, wantAttr[0]
	if p.PO {
		idx, want = k.PO20Index, wantAttr[2]
	}
	b := nvPublicBlob(idx, p.NameAlg, want, make([]byte, 32), uint16(len(p.Data)))
	if p.PubCut >= 0 && p.PubCut < len(b) {
		b = b[:p.PubCut]
	}
	return b
}

func (p lcpPlat) run(k test.NVConstsForC05Verif) verd {
	h := newHW()
	h.realNV = true
	h.nvPubFail = map[uint32]bool{}
	h.tpmVer = hwapi.TPMVersion(p.TPM)
	ps, po := k.PS12Index, k.PO12Index
	if p.TPM == 2 {
		ps, po = k.PS20Index, k.PO20Index
	}
	idx := ps
	if p.PO {
		idx = po
	}
	switch p.Pub {
	case pubFail:
		h.nvPubFail[idx] = true
	case pubBlob:
		h.nvPub[idx] = p.pubBytes(k)
	}
	if !p.NoData {
		h.nvVal[idx] = p.Data
	}
	pre := &test.PreSet{LCPHash: tpm2.Algorithm(p.Preset)}
	if p.PO {
		return run3(func() (bool, error, error) { return test.POIndexHasValidLCP(h, pre) })
	}
	return run3(func() (bool, error, error) { return test.PSIndexHasValidLCP(h, pre) })
}

func (p lcpPlat) lit(k test.NVConstsForC05Verif, got verd) string {
	pub := "NvAbsent"
	switch p.Pub {
	case pubFail:
		pub = "NvFail"
	case pubBlob:
		pub = "(NvBlob " + gal.Bytes(p.pubBytes(k)) + ")"
	}
	return fmt.Sprintf("CLcpIdx %s %d %s %s %d %s", gal.Bool(p.PO), p.TPM, pub, gal.OptionS(!p.NoData, gal.Bytes(p.Data)), p.Preset, got.lit())
}

// ---- the oracle: what the property text says about the bytes of the index ----

// window: the bytes of the index as Tables J-1 / J-2 size it (TPM 1.2: 54 bytes; TPM 2.0:
// 38 bytes + the digest of the index' name algorithm). ok = the index is defined, its size is
// known and that many bytes can be read from it.
func (p lcpPlat) window() (w []byte, ok bool, why string) {
	size := 0
	switch p.TPM {
	case 1:
		if p.PO && p.Pub != pubBlob {
			return nil, false, "the PO index is not defined / its public area cannot be read"
		}
		size = 54
	case 2:
		if p.Pub != pubBlob {
			return nil, false, "the index is not defined / its public area cannot be read"
		}
		if p.PubCut >= 0 {
			return nil, false, "the NV public area is truncated"
		}
		dg, known := tpmDigest[p.NameAlg]
		if !known {
			return nil, false, fmt.Sprintf("name algorithm %#x has no digest size", p.NameAlg)
		}
		size = 38 + dg
	default:
		return nil, false, fmt.Sprintf("TPM version %d is neither 1.2 nor 2.0", p.TPM)
	}
	if p.NoData {
		return nil, false, "the data of the index cannot be read"
	}
	if len(p.Data) < size {
		return nil, false, fmt.Sprintf("the index holds %d bytes, fewer than the %d of its table entry", len(p.Data), size)
	}
	return p.Data[:size], true, ""
}

// lcpBytesValid: do the bytes start with a complete policy of one of the two versions whose
// fields show the accepted pattern?  Written from the structure definitions (LCP_POLICY: 54
// bytes, version word up to 0x0204; LCP_POLICY2: 38 bytes + digest, version word from 0x0300),
// not from the parser.
func lcpBytesValid(w []byte, preset uint16) (bool, string) {
	if len(w) < 2 {
		return false, "no version word"
	}
	v := binary.LittleEndian.Uint16(w)
	switch {
	case v <= 0x0204:
		if len(w) < 54 {
			return false, "LCP_POLICY is 54 bytes"
		}
		hashAlg, ptype, sinitMin := w[2], w[3], w[4]
		polCtrl := binary.LittleEndian.Uint32(w[22:])
		maxSinit := w[26]
		zero := true
		for _, x := range w[34:54] {
			zero = zero && x == 0
		}
		switch {
		case v >= 0x0204:
			return false, "LCP_POLICY version must be below 0x0204"
		case hashAlg != 0:
			return false, "LCP_POLICY HashAlg must be 0 (SHA1)"
		case ptype != 0 && ptype != 1:
			return false, "PolicyType must be LIST (0) or ANY (1)"
		case sinitMin == 0:
			return false, "SINITMinVersion must not be 0"
		case ptype == 0 && polCtrl == 0:
			return false, "a LIST policy needs a PolicyControl"
		case maxSinit != 0:
			return false, "MaxSINITMinVersion must be 0"
		case zero:
			return false, "PolicyHash must not be all zero"
		}
		return true, "valid LCP_POLICY"
	case v >= 0x0300:
		if len(w) < 38 {
			return false, "LCP_POLICY2 has 38 bytes in front of its digest"
		}
		alg := binary.LittleEndian.Uint16(w[2:])
		ptype := w[4]
		hmask := binary.LittleEndian.Uint16(w[28:])
		smask := binary.LittleEndian.Uint32(w[30:])
		dg, known := lcpDigest[alg]
		switch {
		case !known:
			return false, fmt.Sprintf("LCP_POLICY2 HashAlg %#x is not a digest algorithm", alg)
		case len(w) < 38+dg:
			return false, fmt.Sprintf("LCP_POLICY2 with a %d-byte digest is %d bytes, the index gives %d", dg, 38+dg, len(w))
		case alg != preset:
			return false, fmt.Sprintf("HashAlg %#x is not the preset LCP hash %#x", alg, preset)
		case ptype != 0 && ptype != 1:
			return false, "PolicyType must be LIST (0) or ANY (1)"
		case hmask == 0:
			return false, "LcpHashAlgMask must not be 0"
		case smask == 0:
			return false, "LcpSignAlgMask must not be 0"
		}
		return true, "valid LCP_POLICY2"
	}
	return false, fmt.Sprintf("version word %#04x is neither a version of LCP_POLICY (up to 0x0204) nor of LCP_POLICY2 (from 0x0300)", v)
}

func (p lcpPlat) describe() string {
	tp := map[int]string{1: "TPM 1.2", 2: "TPM 2.0"}[p.TPM]
	if tp == "" {
		tp = fmt.Sprintf("TPM version %d", p.TPM)
	}
	ix := "PS"
	if p.PO {
		ix = "PO"
	}
	pub := map[int]string{pubAbsent: "not defined", pubFail: "public area unreadable", pubBlob: "defined"}[p.Pub]
	if p.Pub == pubBlob && p.TPM == 2 {
		pub = fmt.Sprintf("defined, name algorithm %#x", p.NameAlg)
		if p.PubCut >= 0 {
			pub += fmt.Sprintf(", public area cut to %d bytes", p.PubCut)
		}
	}
	data := "unreadable data"
	if !p.NoData {
		data = fmt.Sprintf("%d bytes %x", len(p.Data), p.Data)
	}
	return fmt.Sprintf("%s on a %s, %s index %s, holding %s, preset LCP hash %#x", p.name(), tp, ix, pub, data, p.Preset)
}

func addLCPIdx(c *gal.Ctx, k test.NVConstsForC05Verif, kind string, p lcpPlat) {
	got := p.run(k)
	d := map[string]interface{}{"check": p.name(), "platform": p, "got": got}
	id := c.Add(kind, p.lit(k, got), d, true)
	site := siteTPM + ":" + p.name() + " (pkg/tools/lcp.go:ParsePolicy)"
	w, readable, why := p.window()
	valid, reason := false, why
	if readable {
		valid, reason = lcpBytesValid(w, p.Preset)
	}
	clean := got.OK && !got.E1 && !got.E2
	switch {
	case got.Panic:
		c.OracleFail(id, fmt.Sprintf("%s: panic instead of a verdict: %s", p.describe(), got.Msg), site, d)
	case readable && valid && clean:
		c.OracleOK()
	case readable && valid && p.TPM == 2 && p.NameAlg == 0x0012 && !got.OK && got.E1 && !got.E2:
		c.OracleFailKnown(id, "C05-NVIndex-SM3-lib", p.name()+" rejects an index with a valid policy whose name algorithm is SM3-256: go-tpm's Algorithm.Hash() does not know the algorithm", site+" (go-tpm legacy/tpm2 constants.go:hashInfo)", d)
	case readable && valid && p.Preset == 0x0012 && !got.OK && (got.E1 != got.E2):
		// a valid LCP_POLICY2 whose hash algorithm is SM3-256, with SM3-256 as the preset LCP hash
		c.OracleFailKnown(id, "C05-NVIndex-SM3-lib", p.name()+" rejects a valid LCP_POLICY2 whose hash algorithm (and the preset LCP hash) is SM3-256: tools.ParsePolicy takes the digest size from go-tpm's Algorithm.Hash(), which does not know the algorithm", "pkg/tools/lcp.go:parsePolicy2 (go-tpm legacy/tpm2 constants.go:hashInfo)", d)
	case readable && valid:
		c.OracleFail(id, fmt.Sprintf("%s: the index holds a %s, got %+v", p.describe(), reason, got), site, d)
	case clean:
		c.OracleFail(id, fmt.Sprintf("%s: reported as a valid policy although %s", p.describe(), reason), site, d)
	case readable && got.OK:
		c.OracleFail(id, fmt.Sprintf("%s: result true (with an error) although the policy was read and %s", p.describe(), reason), site, d)
	case !p.PO && got.OK:
		c.OracleFail(id, fmt.Sprintf("%s: result true although %s (the PS index is mandatory)", p.describe(), reason), site, d)
	default:
		c.OracleOK()
	}
}

// ---- policy images ----

type lcpFields struct {
	Version            uint16
	HashAlg            uint16 // u8 in LCP_POLICY
	PolicyType         uint8
	SINITMin           uint8
	PolicyControl      uint32
	MaxSINITMin        uint8
	HashMask           uint16
	SignMask           uint32
	Hash               []byte
	Reserved, Counters bool // fill the reserved fields / revocation counters with non-zero bytes
}

func (f lcpFields) v1() []byte {
	b := make([]byte, 54)
	binary.LittleEndian.PutUint16(b, f.Version)
	b[2], b[3], b[4] = uint8(f.HashAlg), f.PolicyType, f.SINITMin
	binary.LittleEndian.PutUint32(b[22:], f.PolicyControl)
	b[26] = f.MaxSINITMin
	if f.Reserved {
		b[5], b[27], b[28], b[31] = 0x5A, 0xA5, 0x11, 0x22
	}
	if f.Counters {
		b[6], b[9], b[21] = 1, 2, 3
	}
	copy(b[34:], f.Hash)
	return b
}

func (f lcpFields) v2() []byte {
	b := make([]byte, 38)
	binary.LittleEndian.PutUint16(b, f.Version)
	binary.LittleEndian.PutUint16(b[2:], f.HashAlg)
	b[4], b[5] = f.PolicyType, f.SINITMin
	binary.LittleEndian.PutUint32(b[22:], f.PolicyControl)
	b[26] = f.MaxSINITMin
	binary.LittleEndian.PutUint16(b[28:], f.HashMask)
	binary.LittleEndian.PutUint32(b[30:], f.SignMask)
	if f.Reserved {
		b[27], b[34], b[37] = 0x5A, 0x11, 0x22
	}
	if f.Counters {
		b[6], b[9], b[21] = 1, 2, 3
	}
	return append(b, f.Hash...)
}

// sized pads (with zero bytes) or cuts the policy image to n bytes
func sized(b []byte, n int) []byte {
	if len(b) >= n {
		return append([]byte{}, b[:n]...)
	}
	return append(append([]byte{}, b...), make([]byte, n-len(b))...)
}

var lcpVersions = []uint16{0, 0x0100, 0x0200, 0x0202, 0x0203, 0x0204, 0x0205, 0x0206, 0x0250, 0x02FE, 0x02FF,
	0x0300, 0x0301, 0x0302, 0x0304, 0x03FF, 0x0400, 0x1000, 0xFFFF}

func genLCPIndex(c *gal.Ctx) {
	r := c.Rng
	k := test.GetNVConstsForC05Verif()
	rnd := func(n int) []byte { b := make([]byte, n); r.Read(b); b[0] |= 1; return b }
	good1 := func() lcpFields {
		return lcpFields{Version: 0x0202, HashAlg: 0, PolicyType: 1, SINITMin: 1, PolicyControl: 2, Hash: rnd(20)}
	}
	good2 := func(alg uint16) lcpFields {
		return lcpFields{Version: 0x0300, HashAlg: alg, PolicyType: 1, SINITMin: 1, HashMask: 0x8, SignMask: 0x8, Hash: rnd(lcpDigest[alg])}
	}
	size := func(tpm int, nameAlg uint16) int {
		if tpm == 2 {
			return 38 + tpmDigest[nameAlg]
		}
		return 54
	}
	plat := func(po bool, tpm int, nameAlg uint16, data []byte, preset uint16) lcpPlat {
		return lcpPlat{PO: po, TPM: tpm, Pub: pubBlob, NameAlg: nameAlg, PubCut: -1, Data: data, Preset: preset}
	}

	for _, po := range []bool{false, true} {
		for _, tpm := range []int{1, 2} {
			n := size(tpm, 0xB)
			// every kind of version word in front of either layout, all other fields good
			vs := append([]uint16{}, lcpVersions...)
			for i := 0; i < 3; i++ {
				vs = append(vs, uint16(0x0205+r.Intn(0x300-0x205)))
			}
			for _, v := range vs {
				f := good1()
				f.Version = v
				addLCPIdx(c, k, "lcpidx_version_v1layout", plat(po, tpm, 0xB, sized(f.v1(), n), 0xB))
				g := good2(0xB)
				g.Version = v
				addLCPIdx(c, k, "lcpidx_version_v2layout", plat(po, tpm, 0xB, sized(g.v2(), n), 0xB))
			}
			// one field off its accepted pattern at a time
			devs1 := []func(*lcpFields){
				func(f *lcpFields) {},
				func(f *lcpFields) { f.PolicyType = 0 },
				func(f *lcpFields) { f.PolicyType = 0; f.PolicyControl = 0 },
				func(f *lcpFields) { f.PolicyType = 2 },
				func(f *lcpFields) { f.HashAlg = 1 },
				func(f *lcpFields) { f.SINITMin = 0 },
				func(f *lcpFields) { f.MaxSINITMin = 1 },
				func(f *lcpFields) { f.Hash = make([]byte, 20) },
				func(f *lcpFields) { f.Hash = append(make([]byte, 19), 1) },
				func(f *lcpFields) { f.Reserved, f.Counters = true, true },
			}
			for _, dv := range devs1 {
				f := good1()
				dv(&f)
				addLCPIdx(c, k, "lcpidx_v1_fields", plat(po, tpm, 0xB, sized(f.v1(), n), 0xB))
			}
			devs2 := []func(*lcpFields){
				func(f *lcpFields) {},
				func(f *lcpFields) { f.PolicyType = 0 },
				func(f *lcpFields) { f.PolicyType = 2 },
				func(f *lcpFields) { f.HashMask = 0 },
				func(f *lcpFields) { f.SignMask = 0 },
				func(f *lcpFields) { f.SignMask = 0x10000 },
				func(f *lcpFields) { f.HashMask = 0x8000 },
				func(f *lcpFields) { f.SINITMin = 0; f.PolicyControl = 0 },
				func(f *lcpFields) { f.Reserved, f.Counters = true, true },
			}
			for _, dv := range devs2 {
				f := good2(0xB)
				dv(&f)
				addLCPIdx(c, k, "lcpidx_v2_fields", plat(po, tpm, 0xB, sized(f.v2(), n), 0xB))
			}
			// how much of the index can be read
			f := good1()
			g := good2(0xB)
			for _, img := range [][]byte{f.v1(), g.v2()} {
				for _, m := range []int{0, 1, 2, 37, 38, 53, n - 1, n + 1, n + 40} {
					addLCPIdx(c, k, "lcpidx_length", plat(po, tpm, 0xB, sized(img, m), 0xB))
				}
				p := plat(po, tpm, 0xB, sized(img, n), 0xB)
				p.NoData, p.Data = true, nil
				addLCPIdx(c, k, "lcpidx_unreadable", p)
				for _, st := range []int{pubAbsent, pubFail} {
					p = plat(po, tpm, 0xB, sized(img, n), 0xB)
					p.Pub = st
					addLCPIdx(c, k, "lcpidx_nopublic", p)
				}
			}
		}
		// TPM 2.0: name algorithm of the index x hash algorithm of the policy x preset
		algs := []uint16{0x4, 0xB, 0xC, 0xD}
		for _, na := range algs {
			for _, pa := range algs {
				g := good2(pa)
				addLCPIdx(c, k, "lcpidx20_algs", plat(po, 2, na, sized(g.v2(), size(2, na)), pa))
				addLCPIdx(c, k, "lcpidx20_algs_preset", plat(po, 2, na, sized(g.v2(), size(2, na)), algs[r.Intn(4)]))
			}
			addLCPIdx(c, k, "lcpidx20_v1_policy", plat(po, 2, na, sized(good1().v1(), size(2, na)), 0xB))
		}
		for _, na := range []uint16{0x12, 0x27, 0x10, 0, 0xFFFF} { // SM3-256, SHA3-256, Null, none, undefined
			n := 70
			if dg, ok := tpmDigest[na]; ok {
				n = 38 + dg
			}
			addLCPIdx(c, k, "lcpidx20_namealg", plat(po, 2, na, sized(good2(0xB).v2(), n), 0xB))
			addLCPIdx(c, k, "lcpidx20_namealg", plat(po, 2, na, sized(good1().v1(), n), 0xB))
		}
		for _, pa := range []uint16{0x12, 0x27, 0x10, 0, 0x1, 0xFFFF} { // policy hash algorithms without usable digest
			g := good2(0xB)
			g.HashAlg = pa
			addLCPIdx(c, k, "lcpidx20_policyalg", plat(po, 2, 0xB, sized(g.v2(), 70), pa))
			addLCPIdx(c, k, "lcpidx20_policyalg", plat(po, 2, 0xD, sized(g.v2(), 102), 0xB))
		}
		for _, cut := range []int{0, 3, 5, 9, 11, 12, 30, 44, 45} {
			p := plat(po, 2, 0xB, sized(good2(0xB).v2(), 70), 0xB)
			p.PubCut = cut
			addLCPIdx(c, k, "lcpidx20_public_truncated", p)
		}
		for _, tv := range []int{0, 3} {
			addLCPIdx(c, k, "lcpidx_tpm_version", plat(po, tv, 0xB, sized(good1().v1(), 54), 0xB))
		}
	}

	// random platforms, mostly valid
	verPool := func() uint16 {
		switch r.Intn(6) {
		case 0:
			return lcpVersions[r.Intn(len(lcpVersions))]
		case 1:
			return uint16(0x0205 + r.Intn(0x300-0x205))
		case 2:
			return uint16(r.Intn(0x10000))
		}
		return 0
	}
	for i := 0; i < c.Scale(160, 1600); i++ {
		po := r.Intn(2) == 0
		tpm := 1 + r.Intn(2)
		na := []uint16{0x4, 0xB, 0xB, 0xC, 0xD}[r.Intn(5)]
		if r.Intn(25) == 0 {
			na = []uint16{0x12, 0x27, uint16(r.Intn(32))}[r.Intn(3)]
		}
		n := 54
		if tpm == 2 {
			n = 70
			if dg, ok := tpmDigest[na]; ok {
				n = 38 + dg
			}
		}
		preset := []uint16{0x4, 0xB, 0xB, 0xC, 0xD, 0x10}[r.Intn(6)]
		var img []byte
		if (tpm == 1) != (r.Intn(5) == 0) {
			f := good1()
			if v := verPool(); v != 0 {
				f.Version = v
			} else {
				f.Version = []uint16{0x0100, 0x0200, 0x0202, 0x0203}[r.Intn(4)]
			}
			if r.Intn(3) == 0 {
				f.HashAlg = uint16(r.Intn(8) / 7)
				f.PolicyType = uint8(r.Intn(3))
				f.SINITMin = uint8(r.Intn(3))
				f.PolicyControl = uint32(r.Intn(3))
				f.MaxSINITMin = uint8(r.Intn(5) / 4)
				if r.Intn(4) == 0 {
					f.Hash = make([]byte, 20)
				}
			}
			f.Reserved, f.Counters = r.Intn(4) == 0, r.Intn(4) == 0
			img = f.v1()
		} else {
			pa := preset
			if _, ok := lcpDigest[pa]; !ok || r.Intn(6) == 0 {
				pa = []uint16{0x4, 0xB, 0xC, 0xD, 0x12}[r.Intn(5)]
			}
			g := good2(pa)
			if v := verPool(); v != 0 {
				g.Version = v
			} else {
				g.Version = uint16(0x0300 + r.Intn(6))
			}
			if r.Intn(3) == 0 {
				g.PolicyType = uint8(r.Intn(3))
				g.HashMask = uint16(r.Intn(3))
				g.SignMask = uint32(r.Intn(3)) << uint(r.Intn(17))
			}
			g.Reserved, g.Counters = r.Intn(4) == 0, r.Intn(4) == 0
			img = g.v2()
		}
		m := n
		switch r.Intn(10) {
		case 0:
			m = r.Intn(n + 1)
		case 1:
			m = n + 1 + r.Intn(40)
		case 2:
			m = len(img)
		}
		p := plat(po, tpm, na, sized(img, m), preset)
		switch r.Intn(30) {
		case 0:
			p.Pub = pubAbsent
		case 1:
			p.Pub = pubFail
		case 2:
			p.NoData, p.Data = true, nil
		case 3:
			if tpm == 2 {
				p.PubCut = r.Intn(46)
			}
		}
		addLCPIdx(c, k, "lcpidx_random", p)
	}
}
