// C05 correspondence harness: the platform verdict predicates of pkg/test and
// pkg/provisioning/bootguard against Model/Verdicts.v, with an independent
// oracle written from the property text (exact interval arithmetic with
// math/big, explicit accepted bit patterns, named disqualifying conditions).
package main

import (
	"bytes"
	"fmt"

	"github.com/9elements/converged-security-suite/v2/pkg/provisioning/bootguard"
	"github.com/9elements/converged-security-suite/v2/pkg/test"
	"github.com/9elements/converged-security-suite/v2/pkg/tools"
	"github.com/linuxboot/fiano/pkg/intel/metadata/cbnt"
	"github.com/linuxboot/fiano/pkg/intel/metadata/cbnt/cbntbootpolicy"
	"github.com/linuxboot/fiano/pkg/intel/metadata/common/bgheader"
	"verifharness/gal"
)

const header = "From CSS Require Import Lib.Base Lib.Cases Model.Verdicts Model.VerdictsLCP Model.VerdictsCases."

// fixed witnesses of the listed findings - the open ones and the repaired ones - re-run on the
// real code every time: a witness of an open finding that reproduces is reported as known, one
// of a repaired finding that reproduces again is a failure of the property (regression).
func probes(c *gal.Ctx) {
	hdr := fe{T: 0, A: 0x2020205f5449465f, S: 3, V: 0x100}
	// adjacent BIOS startup modules [FFF00000,FFF80000) and [FFF80000,4G)
	adj := []fe{hdr, {T: 7, A: 0xFFF00000, S: 0x8000, V: 0x100}, {T: 7, A: 0xFFF80000, S: 0x8000, V: 0x100}}
	g := runFit("KNoIBBOverlap", 0xFFFD0000, adj)
	c.Probe("C05-NoIBBOverlap-adjacent", !g.Panic && !g.OK, fmt.Sprintf("NoIBBOverlap on two adjacent, non-overlapping BIOS startup modules returned %+v", g))

	first := []fe{hdr, {T: 2, A: 0xFFF10000, S: 0x1000, V: 0x100}, {T: 7, A: 0xFFF00000, S: 0x10000, V: 0x100}}
	g = runFit("KNoACMOverlap", 0xFFFD0000, first)
	c.Probe("C05-NoBIOSACMOverlap-order", g.isPass(), fmt.Sprintf("NoBIOSACMOverlap with the ACM [FFF10000,+64K) listed before the IBB [FFF00000,+1M) that contains it returned %+v", g))

	after := []fe{hdr, {T: 7, A: 0xFFF00000, S: 0x10000, V: 0x100}, {T: 2, A: 0xFFE00000, S: 0x1000, V: 0x100}}
	g = runFit("KNoACMOverlap", 0xFFFD0000, after)
	g2 := runFit("KACMBelow4G", 0xFFFD0000, after)
	c.Probe("C05-FIT-ACM-size-panic", g.Panic && g2.Panic, fmt.Sprintf("healthy FIT (IBB, then a disjoint ACM below 4 GiB): NoBIOSACMOverlap -> %+v, BIOSACMIsBelow4G -> %+v", g, g2))

	g = runFit("KCoversFIT", 0xFFFFFFF0, []fe{hdr, {T: 7, A: 0xFFFF0000, S: 0x10, V: 0x100}})
	c.Probe("C05-IBBCoversFIT-wrap32", g.isPass(), fmt.Sprintf("IBBCoversFIT with fitPointer 0xFFFFFFF0, 2 entries (FIT ends at 4G+16) and one IBB [FFFF0000,FFFF0100) returned %+v", g))

	w64 := []fe{hdr, {T: 7, A: 0xFFFFFFFFFFFFFFE0, S: 4, V: 0x100}, {T: 7, A: 0xFFFFFFFFFFFFFFF0, S: 1, V: 0x100}}
	g = runFit("KNoIBBOverlap", 0xFFFD0000, w64)
	c.Probe("C05-FIT-overlap-wrap64", g.isPass(), fmt.Sprintf("NoIBBOverlap with nested modules [2^64-32,+64) and [2^64-16,+16) returned %+v", g))

	h := txtHW(txtRegs{HeapBase: 0xFFF00000, HeapSize: 0x200000, SinitBase: 0, SinitSize: 0x10000})
	g = run3(func() (bool, error, error) { return test.TXTHeapSpaceValid(h, &test.PreSet{}) })
	c.Probe("C05-heap-wrap32", g.isPass(), fmt.Sprintf("TXTHeapSpaceValid with HeapBase 0xFFF00000, HeapSize 0x200000 (end 4G+1M) returned %+v", g))

	h = txtHW(txtRegs{Dpr: 0x7FF00031, HeapBase: 0x7FD00000, HeapSize: 0x300000, SinitBase: 0, SinitSize: 0xF0000000})
	g = run3(func() (bool, error, error) { return test.TXTMemoryIsDPR(h, &test.PreSet{}) })
	c.Probe("C05-DPR-wrap32", g.isPass(), fmt.Sprintf("TXTMemoryIsDPR with DPR [7FD00000,80000000) 3 MiB, heap 3 MiB filling it, SinitSize 0xF0000000 (no room for a 2 MiB MLE) returned %+v", g))

	k := test.GetNVConstsForC05Verif()
	r := test.CheckTPM2NVAttrForC05Verif(0, k.PS20Attr, 1<<29)
	c.Probe("C05-NVAttr-precedence", r, fmt.Sprintf("checkTPM2NVAttr(0, PS attributes, Written) = %v", r))

	mk := func(which int, alg uint16, ds uint16) verd {
		hh := newHW()
		hh.tpmVer = 2 // TPMVersion20
		idx := []uint32{k.PS20Index, k.AUX20Index, k.PO20Index}[which]
		hh.nvPub[idx] = nvPublicBlob(idx, alg, wantAttr[which], make([]byte, 32), ds)
		return runIdx(which, hh)
	}
	g = mk(0, 0x0004, 20+38)
	g2 = mk(0, 0x0027, 70)
	c.Probe("C05-NVIndex-nameAlg-cryptoHash", !g.Panic && !g.OK && g2.Panic, fmt.Sprintf("PSIndexConfig: nameAlg SHA1 with the correct size 58 -> %+v; nameAlg 0x27 (SHA3-256) -> %+v", g, g2))
	g = mk(0, 0x0012, 32+38)
	c.Probe("C05-NVIndex-SM3-lib", !g.Panic && !g.OK, fmt.Sprintf("PSIndexConfig on a correctly configured PS index with name algorithm SM3-256 (data size 70) returned %+v", g))
	g = mk(2, 0x000B, 32+38)
	c.Probe("C05-POIndexConfig-never-passes", !g.Panic && !g.OK, fmt.Sprintf("POIndexConfig on a correctly configured TPM 2.0 PO index returned %+v", g))

	// LCP_POLICY2 with PolicyType LIST
	hasPanicked := false
	{
		var got verd
		genOnce := func() {
			hh := newHW()
			hh.tpmVer = 1
			pol := []byte{0x00, 0x03, 0x0B, 0x00, 0x00 /*LIST*/, 0x01}
			pol = append(pol, make([]byte, 16+4+1+1)...)
			pol = append(pol, 0x08, 0x00, 0x08, 0x00, 0x00, 0x00)
			pol = append(pol, make([]byte, 4+32)...)
			hh.nvVal[k.PS12Index] = pol
			got = run3(func() (bool, error, error) { return test.PSIndexHasValidLCP(hh, &test.PreSet{LCPHash: 0xB}) })
		}
		genOnce()
		hasPanicked = got.Panic
		c.Probe("C05-LCP2-nil-deref", hasPanicked, fmt.Sprintf("PSIndexHasValidLCP on a v3.0 SHA256 LIST policy returned %+v", got))
	}

	// SINITACMcomplyTPMSpec
	{
		sample := repoFile("pkg/tools/tests/sinit_acm.bin")
		a, err := tools.ParseACM(bytes.NewReader(sample))
		if err != nil {
			panic(err)
		}
		off := a.Info.TPMInfoList
		g = runSinitTPM(append(acmWithCaps(sample, off, 0x11), make([]byte, 0x10000)...), 2, true)
		c.Probe("C05-sinitACM-double-parse", !g.Panic && !g.OK, fmt.Sprintf("SINITACMcomplyTPMSpec, TPM 2.0 present, SINIT region = the bundled SINIT ACM with TPM capabilities 0x11 (both families) + zero padding: %+v", g))
		g = runSinitTPM(append(acmWithCaps(sample, off, 0x10), make([]byte, 0x10000)...), 1, true)
		c.Probe("C05-SINITTPMSpec-precedence", g.isPass(), fmt.Sprintf("SINITACMcomplyTPMSpec, TPM 1.2 in use, SINIT ACM with TPM capabilities 0x10 (TPM 2.0 family only): %+v", g))
	}

	// a platform without ME device: host bridge and LPC bridge only
	{
		ii := loadImage()
		p := platform{Devs: []pciDev{{0, 0, 0, make([]byte, 256)}, {0, 31, 0, make([]byte, 256)}}}
		st := runHFSTS(6, p.hw())
		g = run3(func() (bool, error, error) { return test.BootGuardValidateME(p.hw(), &test.PreSet{Firmware: ii.img}) })
		c.Probe(knownNoME, !st.Err && st.Word == 0 && g.isPass(), fmt.Sprintf("visible PCI devices 00:00.0 and 00:1f.0 only (no ME device): GetHFSTS6 -> %+v; test.BootGuardValidateME on the bundled image (CBnT, BPMSVN %d, KMSVN %d, KMID %d) -> %+v", st, ii.bpmsvn, ii.kmsvn, ii.kmid, g))
	}

	b := &bootguard.BootGuard{Version: bgheader.BootGuardVersion(0)}
	g = run2(func() (bool, error) { return b.KMCryptoSecure() })
	c.Probe("C05-BG-unknown-version-failopen", g.isPass(), fmt.Sprintf("KMCryptoSecure on BootGuard{Version: 0} (no manifests at all) returned %+v", g))

	b = &bootguard.BootGuard{Version: bgheader.Version20}
	bpm := &cbntbootpolicy.Manifest{}
	se := cbntbootpolicy.SE{}
	se.DigestList.List = []cbnt.HashStructure{{HashAlg: cbnt.AlgSHA1, HashBuffer: make([]byte, 20)}}
	se.DigestList.Size = uint16(se.DigestList.TotalSize())
	bpm.SE = []cbntbootpolicy.SE{se}
	bpm.PMSE.Signature.HashAlg = cbnt.AlgSHA256
	b.VData.CBNTbpm = bpm
	g = run2(func() (bool, error) { return b.BPMCryptoSecure() })
	c.Probe("C05-BPMCrypto-sha1-digestlist", g.isPass(), fmt.Sprintf("BPMCryptoSecure (CBnT) with a single SHA1 IBB digest (DigestList.Size = %d bytes) returned %+v", se.DigestList.Size, g))

	se.Flags, se.PBETValue = 0xD, 0xF
	se.IBBSegments = []cbntbootpolicy.IBBSegment{{}}
	bpm.SE = []cbntbootpolicy.SE{se}
	g = run2(func() (bool, error) { return b.SaneBPMSecurityProps() })
	c.Probe("C05-SaneBPM-nil-TXTE", g.Panic, fmt.Sprintf("SaneBPMSecurityProps on a CBnT BPM without TXT element returned %+v", g))

	hd := newHW()
	hd.sigFull = [4]uint32{0x906ea, 0, 1 << 11, 0}
	hd.msr[0xC80] = 1 // enabled, not locked
	g = run3(func() (bool, error, error) { return test.IA32DebugInterfaceLockedDisabled(hd, &test.PreSet{}) })
	c.Probe("C05-DebugInterface-inverted", g.isPass(), fmt.Sprintf("IA32DebugInterfaceLockedDisabled with CPUID.1:ECX[11]=1 (interface present) and IA32_DEBUG_INTERFACE = 1 (enabled, unlocked) returned %+v", g))

	// ValidSMRR on a Skylake host bridge with a correct setup
	hs := newHW()
	hs.msr[0x1F2], hs.msr[0x1F3] = 0x7B000006, 0xFF800800
	hs.pci["0:0:2"], hs.pci["0:2:2"] = []byte{0x86, 0x80}, []byte{0x18, 0x19}
	hs.pci["0:184:4"], hs.pci["0:188:4"] = []byte{0, 0, 0, 0x7B}, []byte{0, 0, 0x80, 0x7B}
	g = run3(func() (bool, error, error) { return test.ValidSMRR(hs, &test.PreSet{}) })
	c.Probe("C05-ValidSMRR-tseglimit-lib", !g.Panic && !g.OK, fmt.Sprintf("ValidSMRR on host bridge 8086:1918 with SMRR = TSEG = [7B000000,7B800000) returned %+v", g))
}

func main() {
	c := gal.New("C05", header, 330)
	genFit(c)
	genHeap(c)
	genDPR(c)
	genSMRR(c)
	genNVAttr(c)
	genNVIndex(c)
	genLCP(c)
	genLCPIndex(c)
	genSinitTPM(c)
	genME(c)
	genValidateME(c)
	genPlatforms(c)
	genCrypto(c)
	genSaneBPM(c)
	genBits(c)
	probes(c)
	c.Finish("every case: model verdict = implementation verdict (Coq, vm_compute); oracle: exact interval arithmetic / accepted bit patterns / named disqualifying conditions")
}
