package main

// Where the Boot Guard verdicts get the ME status from: platforms with several visible PCI
// devices, several of which may look like the ME device, driven through GetHFSTS1 / GetHFSTS6,
// the provisioning / manifest verdicts fed from them, and the pkg/test entry points
// BootGuardSaneMEConfig / BootGuardValidateME on the bundled firmware image.

import (
	"bytes"
	"encoding/binary"
	"fmt"
	"math/rand"
	"sort"

	"github.com/9elements/converged-security-suite/v2/pkg/provisioning/bootguard"
	"github.com/9elements/converged-security-suite/v2/pkg/test"
	"github.com/linuxboot/fiano/pkg/intel/metadata/common/bgheader"
	"github.com/linuxboot/fiano/pkg/intel/metadata/fit"
	"verifharness/gal"
)

const siteHFSTS = "pkg/provisioning/bootguard/hfsts.go:readHFSTSFromPCIConfigSpace"
const knownNoME = "C05-HFSTS-no-ME-device" // repaired by f889c7f; kept as a regression probe

// config offsets of the six host firmware status registers of the ME device (HFSTS1..HFSTS6)
var hfstsOff = [6]int{0x40, 0x48, 0x60, 0x64, 0x68, 0x6c}

type platform struct {
	Shape   string
	Devs    []pciDev
	EnumErr bool
	MSR     uint64
}

func (p platform) hw() *hw {
	h := newHW()
	h.devs = p.Devs
	h.enumErr = p.EnumErr
	h.msr[0x13a] = p.MSR
	return h
}

func (d pciDev) word(n int) uint32 { return binary.LittleEndian.Uint32(d.Cfg[hfstsOff[n-1]:]) }

func (p platform) lit() string {
	ds := make([]string, len(p.Devs))
	for i, d := range p.Devs {
		cfg := "None"
		if d.Cfg != nil {
			ws := make([]uint64, 6)
			for n := 1; n <= 6; n++ {
				ws[n-1] = uint64(d.word(n))
			}
			cfg = "(Some " + gal.UList(ws) + ")"
		}
		ds[i] = fmt.Sprintf("mkdev %d %d %d %s", d.Bus, d.Dev, d.Fn, cfg)
	}
	return gal.List(ds)
}

func (p platform) descr() interface{} {
	ds := make([]map[string]interface{}, len(p.Devs))
	for i, d := range p.Devs {
		m := map[string]interface{}{"bus:dev.fn(hex)": d.bdf(), "device": d.Dev, "function": d.Fn, "bus": d.Bus}
		if d.Cfg == nil {
			m["config"] = "unreadable"
		} else {
			m["hfsts1@0x40"] = fmt.Sprintf("%#x", d.word(1))
			m["hfsts6@0x6c"] = fmt.Sprintf("%#x", d.word(6))
		}
		ds[i] = m
	}
	return map[string]interface{}{"shape": p.Shape, "devicesInEnumerationOrder": ds, "enumerationError": p.EnumErr, "msr13a": p.MSR}
}

// ---------- the oracle's reading of a platform ----------

// meDevice: which device is the ME. me.go names it by PCI device number 16 (IntelCSMEDeviceID)
// or 22 (IntelSPSDeviceID), function 0 (IntelFunction), bus 0 (IntelBus); hfsts.go walks the
// visible devices and its callback asks the walk to abort (the `abort` result of the hwapi
// callback) at the first device with that device/function number; sysfs hands the devices over
// in ascending bus order, so a device on bus 0 is met before any look-alike (SR-IOV virtual
// function xx:10.0, a second HECI behind a bridge) on a higher bus. The status words therefore
// have to come from the FIRST device in enumeration order with device number 16 or 22 and
// function 0. judged: the oracle gives an opinion when that device sits on bus 0 - where the
// rule of the walk and the IntelBus constant agree - or when no device matches at all.
func meDevice(p platform) (idx int, judged bool) {
	for i, d := range p.Devs {
		if (d.Dev == 16 || d.Dev == 22) && d.Fn == 0 {
			return i, d.Bus == 0
		}
	}
	return -1, true
}

// whose: which device(s) of the platform hold the word w in register HFSTSn (for messages)
func (p platform) whose(n int, w uint32, mask uint32) string {
	var r []string
	for _, d := range p.Devs {
		if d.Cfg != nil && d.word(n)&mask == w&mask {
			r = append(r, d.bdf())
		}
	}
	if len(r) == 0 {
		return "no device of the platform"
	}
	return fmt.Sprintf("device %v", r)
}

// ---------- projections of the decoded status back to the register word ----------

func b2u(b bool, sh uint) uint32 {
	if b {
		return 1 << sh
	}
	return 0
}

func word6(f *bootguard.FirmwareStatus6) uint32 {
	return b2u(f.ForceACMBootPolicy, 0) | b2u(f.CPUDebugDisabled, 1) | b2u(f.BSPInitDisabled, 2) | b2u(f.ProtectBIOSEnvironment, 3) |
		b2u(f.BypassBootPolicy, 4) | b2u(f.BootPolicyInvalid, 5) | f.ErrorEnforcementPolicy<<6 | b2u(f.MeasuredBootPolicy, 8) |
		b2u(f.VerifiedBootPolicy, 9) | f.ACMSVN<<10 | f.KMSVN<<14 | f.BPMSVN<<18 | f.KMID<<22 |
		b2u(f.BootPolicyManifestExecutionStatus, 26) | b2u(f.Error, 27) | b2u(f.BootGuardDisable, 28) | b2u(f.FPFDisable, 29) |
		b2u(f.FPFLock, 30) | b2u(f.TXTSupported, 31)
}

func word1(f *bootguard.FirmwareStatus1) uint32 {
	return f.WorkingState | b2u(f.MfgMode, 4) | b2u(f.FPTBad, 5) | f.OperatingState<<6 | b2u(f.FWInitComplete, 9) |
		b2u(f.FTBUPLoaded, 10) | b2u(f.FWUpdateInProgress, 11) | f.ErrorCode<<12 | f.OperatingMode<<16 | f.ResetCount<<20 |
		b2u(f.BootOptionPresent, 24) | b2u(f.BISTFinished, 25) | b2u(f.BISTTestState, 26) | b2u(f.BISTResetRequest, 27)
}

const mask1 = 0x0fffffff // HFSTS1: bits 27..0 are decoded

// status: (error?, word put together from the decoded fields)
type status struct {
	Panic bool   `json:"panic,omitempty"`
	Err   bool   `json:"err"`
	Word  uint32 `json:"word"`
	Msg   string `json:"msg,omitempty"`
}

func (s status) lit() string { return gal.OptionS(!s.Err, gal.U(uint64(s.Word))) }

func runHFSTS(n int, h *hw) status {
	var s status
	p, msg := gal.Recover(func() {
		if n == 1 {
			f, err := bootguard.GetHFSTS1(h)
			if err != nil {
				s = status{Err: true, Msg: err.Error()}
			} else {
				s = status{Word: word1(f)}
			}
		} else {
			f, err := bootguard.GetHFSTS6(h)
			if err != nil {
				s = status{Err: true, Msg: err.Error()}
			} else {
				s = status{Word: word6(f)}
			}
		}
	})
	if p {
		return status{Panic: true, Err: true, Msg: msg}
	}
	return s
}

// the composition pkg/test uses (BootGuardSaneMEConfig / BootGuardValidateME) on the exported
// verdict functions: no status, no verdict
func saneOn(h *hw, strict bool, v int) verd {
	return run2(func() (bool, error) {
		fws, err := bootguard.GetHFSTS6(h)
		if err != nil {
			return false, err
		}
		bgi, err := bootguard.GetBGInfo(h)
		if err != nil {
			return false, err
		}
		if strict {
			return bootguard.StrictSaneBootGuardProvisioning(bgheader.BootGuardVersion(v), fws, bgi)
		}
		return bootguard.SaneMEBootGuardProvisioning(bgheader.BootGuardVersion(v), fws, bgi)
	})
}

func validateOn(h *hw, v int, bpmsvn, kmsvn, kmid uint8) verd {
	b := mkManifests(v, bpmsvn, kmsvn, kmid)
	return run2(func() (bool, error) {
		fws, err := bootguard.GetHFSTS6(h)
		if err != nil {
			return false, err
		}
		return b.ValidateMEAgainstManifests(fws)
	})
}

// ---------- the firmware image for the pkg/test entry points ----------

type imageInfo struct {
	img                 []byte
	v                   int
	bpmsvn, kmsvn, kmid uint8
}

func loadImage() imageInfo {
	img := repoFile("testdata/firmware/fake_intel_firmware.fd")
	entries, err := fit.GetEntries(img)
	if err != nil {
		panic(err)
	}
	var km, bpm *bytes.Reader
	for _, e := range entries {
		switch e := e.(type) {
		case *fit.EntryKeyManifestRecord:
			km = bytes.NewReader(e.DataSegmentBytes)
		case *fit.EntryBootPolicyManifestRecord:
			bpm = bytes.NewReader(e.DataSegmentBytes)
		}
	}
	b, err := bootguard.NewBPMAndKM(bpm, km)
	if err != nil {
		panic(err)
	}
	ii := imageInfo{img: img, v: int(b.Version)}
	switch b.Version {
	case bgheader.Version10:
		ii.bpmsvn, ii.kmsvn, ii.kmid = uint8(b.VData.BGbpm.BPMSVN), uint8(b.VData.BGkm.KMSVN), b.VData.BGkm.KMID
	case bgheader.Version20:
		ii.bpmsvn, ii.kmsvn, ii.kmid = uint8(b.VData.CBNTbpm.BPMSVN), uint8(b.VData.CBNTkm.KMSVN), b.VData.CBNTkm.KMID
	default:
		panic("bundled image: unknown Boot Guard version")
	}
	return ii
}

// ---------- generator ----------

var goodMSR = uint64(1<<4 | 1<<6 | 1<<32)

// saneWord: a status word none of whose provisioning conditions is disqualifying (strict
// included), the bits the verdict does not read taken from rnd; SVN / KM id fields as given
func saneWord(rnd uint32, bpmsvn, kmsvn, kmid uint8) uint32 {
	w := rnd&^(1<<4|1<<5|1<<28) | 1<<3 | 3<<6 | 1<<30
	return w&^(0xfff<<14) | uint32(kmsvn&15)<<14 | uint32(bpmsvn&15)<<18 | uint32(kmid&15)<<22
}

// spoil: one disqualifying condition switched on
func spoil(r *rand.Rand, w uint32) uint32 {
	switch r.Intn(6) {
	case 0:
		return w | 1<<4
	case 1:
		return w | 1<<5
	case 2:
		return w &^ (1 << 30)
	case 3:
		return w&^(3<<6) | uint32(r.Intn(2)*2)<<6
	case 4:
		return w &^ (1 << 3)
	default:
		return w | 1<<28
	}
}

type bdf struct{ b, d, f int }

// the devices around the candidates: ordinary ones and near misses of the ME's address
// (right device number with another function, neighbouring device numbers, 16/22 as FUNCTION
// number is impossible - functions are 0..7 - so 6 = 22&7 and 0 stand in)
var ordinary = []bdf{{0, 0, 0}, {0, 2, 0}, {0, 4, 0}, {0, 8, 0}, {0, 20, 0}, {0, 20, 2}, {0, 23, 0}, {0, 28, 0}, {0, 31, 0}, {0, 31, 3}, {0, 31, 4},
	{1, 0, 0}, {2, 0, 0}, {2, 0, 1}, {3, 0, 0}, {4, 0, 0}, {0x17, 0, 0}}
var nearMiss = []bdf{{0, 16, 1}, {0, 16, 3}, {0, 22, 1}, {0, 22, 2}, {0, 22, 3}, {0, 22, 4}, {0, 15, 0}, {0, 17, 0}, {0, 21, 0}, {0, 6, 0}, {0, 18, 0},
	{1, 16, 1}, {3, 22, 1}, {16, 0, 0}, {22, 0, 0}, {16, 1, 0}, {22, 3, 0}, {2, 6, 0}}

func meID(r *rand.Rand) int { return []int{16, 22}[r.Intn(2)] }

// genPlatform: a mostly realistic hardware description of the given shape; every random choice
// comes from r. tb/tk/ti: the manifest values the status words are (or are not) to agree with.
func genPlatform(r *rand.Rand, shape string, tb, tk, ti uint8) platform {
	p := platform{Shape: shape, MSR: goodMSR | uint64(r.Uint32())&^(1<<4|1<<6|1<<7) | uint64(r.Intn(4))<<33}
	if r.Intn(6) == 0 {
		p.MSR = r.Uint64()
	}
	var cands []bdf
	unreadable := map[bdf]bool{}
	higher := func(n int) {
		for i := 0; i < n; i++ {
			cands = append(cands, bdf{1 + r.Intn(40), meID(r), 0})
		}
	}
	sorted := true
	noise := 2 + r.Intn(4)
	switch shape {
	case "single":
		cands = []bdf{{0, meID(r), 0}}
	case "single-unreadable":
		cands = []bdf{{0, meID(r), 0}}
		unreadable[cands[0]] = true
	case "lookalikes-behind":
		cands = []bdf{{0, meID(r), 0}}
		higher(1 + r.Intn(3))
	case "both-ids-bus0":
		cands = []bdf{{0, 16, 0}, {0, 22, 0}}
		higher(r.Intn(2))
	case "none":
	case "first-unreadable":
		cands = []bdf{{0, meID(r), 0}}
		unreadable[cands[0]] = true
		higher(1 + r.Intn(2))
		if r.Intn(2) == 0 {
			cands = append(cands, bdf{0, 38 - cands[0].d, 0}) // the other id on bus 0
			if cands[0].d == 22 {                             // 00:10.0 precedes 00:16.0: it is the first one now
				delete(unreadable, cands[0])
				unreadable[bdf{0, 16, 0}] = true
			}
		}
	case "later-unreadable":
		cands = []bdf{{0, meID(r), 0}}
		higher(1 + r.Intn(2))
		for _, c := range cands[1:] {
			unreadable[c] = true
		}
	case "off-bus-only":
		higher(1 + r.Intn(3))
	case "enum-error":
		p.EnumErr = true
		switch r.Intn(3) {
		case 0:
			cands = []bdf{{0, meID(r), 0}}
		case 1:
			cands = []bdf{{0, meID(r), 0}}
			higher(1)
		}
	case "unsorted":
		sorted = false
		cands = []bdf{{0, meID(r), 0}}
		higher(1 + r.Intn(2))
		if r.Intn(2) == 0 {
			cands = append(cands, bdf{0, 38 - cands[0].d, 0})
		}
	case "many":
		cands = []bdf{{0, 16, 0}, {0, 22, 0}}
		higher(2 + r.Intn(3))
	case "me-first":
		cands = []bdf{{0, meID(r), 0}}
		higher(r.Intn(3))
		noise = 0
	case "me-last":
		cands = []bdf{{0, meID(r), 0}}
	default:
		panic("shape " + shape)
	}
	set := map[bdf]bool{}
	var all []bdf
	put := func(x bdf) {
		if !set[x] {
			set[x] = true
			all = append(all, x)
		}
	}
	for _, c := range cands {
		put(c)
	}
	switch shape {
	case "me-first":
		// nothing before the ME: only devices that sort behind it
		for i := 0; i < 3; i++ {
			x := ordinary[r.Intn(len(ordinary))]
			if x.b > 0 || x.d > cands[0].d {
				put(x)
			}
		}
	case "me-last":
		for i := 0; i < 4; i++ {
			x := append(ordinary, nearMiss...)[r.Intn(len(ordinary)+len(nearMiss))]
			if x.b == 0 && x.d < cands[0].d {
				put(x)
			}
		}
	default:
		put(bdf{0, 0, 0})
		for i := 0; i < noise; i++ {
			put(ordinary[r.Intn(len(ordinary))])
		}
		for i := 1 + r.Intn(3); i > 0; i-- {
			put(nearMiss[r.Intn(len(nearMiss))])
		}
	}
	if sorted {
		sort.Slice(all, func(i, j int) bool {
			a, b := all[i], all[j]
			if a.b != b.b {
				return a.b < b.b
			}
			if a.d != b.d {
				return a.d < b.d
			}
			return a.f < b.f
		})
	} else {
		r.Shuffle(len(all), func(i, j int) { all[i], all[j] = all[j], all[i] })
	}
	p.Devs = fillWords(r, all, unreadable, r.Intn(4), r.Intn(3), tb, tk, ti)
	return p
}

// fillWords: config spaces for the devices. theme: 0 the first candidate is sane and every other
// device is spoiled, 1 the first candidate is spoiled and every other device looks sane, 2
// everything sane (differing in the bits the verdicts do not read), 3 random words.
// svn: 0 the first candidate agrees with the manifest values, the others do not; 1 the other
// way round; 2 all agree
func fillWords(r *rand.Rand, all []bdf, unreadable map[bdf]bool, theme, svn int, tb, tk, ti uint8) []pciDev {
	var devs []pciDev
	firstSeen := false
	for _, x := range all {
		d := pciDev{Bus: x.b, Dev: x.d, Fn: x.f}
		isCand := (x.d == 16 || x.d == 22) && x.f == 0
		first := isCand && !firstSeen
		if isCand {
			firstSeen = true
		}
		if !unreadable[x] {
			d.Cfg = make([]byte, 256)
			r.Read(d.Cfg)
			agree := svn == 2 || (svn == 0) == first
			b, k, i := tb, tk, ti
			if !agree {
				switch r.Intn(3) {
				case 0:
					b = (b + 1 + uint8(r.Intn(15))) & 15
				case 1:
					k = (k + 1 + uint8(r.Intn(15))) & 15
				default:
					i = (i + 1 + uint8(r.Intn(15))) & 15
				}
			}
			w := saneWord(r.Uint32(), b, k, i)
			switch {
			case theme == 0 && !first, theme == 1 && first:
				w = spoil(r, w)
			case theme == 3:
				w = r.Uint32()
			}
			binary.LittleEndian.PutUint32(d.Cfg[0x6c:], w)
		}
		devs = append(devs, d)
	}
	return devs
}

var platShapes = []string{"single", "single-unreadable", "lookalikes-behind", "both-ids-bus0", "none", "first-unreadable",
	"later-unreadable", "off-bus-only", "enum-error", "unsorted", "many", "me-first", "me-last"}

func genPlatforms(c *gal.Ctx) {
	r := c.Rng
	ii := loadImage()
	// every two-candidate layout: first candidate 00:10.0 or 00:16.0; second one the other id on
	// bus 0, or either id behind a bridge; each of them readable or not; enumeration error or
	// not; the two themes in which the choice of the device decides the verdict
	n := 0
	for _, first := range []int{16, 22} {
		for _, second := range []bdf{{0, 38 - first, 0}, {5, first, 0}, {5, 38 - first, 0}} {
			for rd := 0; rd < 4; rd++ {
				for _, ee := range []bool{false, true} {
					all := []bdf{{0, 0, 0}, {0, first, 0}, second, {0, 31, 0}}
					sort.Slice(all, func(i, j int) bool {
						if all[i].b != all[j].b {
							return all[i].b < all[j].b
						}
						return all[i].d < all[j].d
					})
					unreadable := map[bdf]bool{{0, first, 0}: rd&1 == 1, second: rd&2 == 2}
					tb, tk, ti := uint8(r.Intn(16)), uint8(r.Intn(16)), uint8(r.Intn(16))
					if n%2 == 1 {
						tb, tk, ti = ii.bpmsvn, ii.kmsvn, ii.kmid
					}
					p := platform{Shape: "pair", MSR: goodMSR | uint64(r.Intn(4))<<33, EnumErr: ee}
					p.Devs = fillWords(r, all, unreadable, (n+1)%2, n/2%2, tb, tk, ti)
					runPlatform(c, p, 1+n/4%2, tb, tk, ti, ii)
					n++
				}
			}
		}
	}
	for round := 0; round < c.Scale(10, 60); round++ {
		for _, shape := range platShapes {
			// manifest values of the constructed manifests; every other round those of the image
			tb, tk, ti := uint8(r.Intn(16)), uint8(r.Intn(16)), uint8(r.Intn(16))
			if round%2 == 1 {
				tb, tk, ti = ii.bpmsvn, ii.kmsvn, ii.kmid
			}
			runPlatform(c, genPlatform(r, shape, tb, tk, ti), 1+r.Intn(2), tb, tk, ti, ii)
		}
	}
}

// runPlatform: every observation on one platform (a fresh mock per call), one case, the oracle
func runPlatform(c *gal.Ctx, p platform, v int, tb, tk, ti uint8, ii imageInfo) {
	h1, h6 := runHFSTS(1, p.hw()), runHFSTS(6, p.hw())
	sane, strict := saneOn(p.hw(), false, v), saneOn(p.hw(), true, v)
	val := validateOn(p.hw(), v, tb, tk, ti)
	tsane := run3(func() (bool, error, error) {
		return test.BootGuardSaneMEConfig(p.hw(), &test.PreSet{Firmware: ii.img})
	})
	tstrict := run3(func() (bool, error, error) {
		return test.BootGuardSaneMEConfig(p.hw(), &test.PreSet{Firmware: ii.img, Strict: true})
	})
	tval := run3(func() (bool, error, error) {
		return test.BootGuardValidateME(p.hw(), &test.PreSet{Firmware: ii.img})
	})

	me, judged := meDevice(p)
	d := map[string]interface{}{"platform": p.descr(), "bootGuardVersion": v,
		"manifest": map[string]interface{}{"bpmsvn": tb, "kmsvn": tk, "kmid": ti},
		"image":    map[string]interface{}{"file": "testdata/firmware/fake_intel_firmware.fd", "version": ii.v, "bpmsvn": ii.bpmsvn, "kmsvn": ii.kmsvn, "kmid": ii.kmid},
		"got": map[string]interface{}{"GetHFSTS1": h1, "GetHFSTS6": h6, "SaneMEBootGuardProvisioning": sane, "StrictSaneBootGuardProvisioning": strict,
			"ValidateMEAgainstManifests": val, "test.BootGuardSaneMEConfig": tsane, "test.BootGuardSaneMEConfig(strict)": tstrict, "test.BootGuardValidateME": tval}}
	if me >= 0 {
		d["meDevice"] = p.Devs[me].bdf()
	} else {
		d["meDevice"] = "none"
	}
	obs := []string{
		"OHfsts1 " + h1.lit(), "OHfsts6 " + h6.lit(),
		fmt.Sprintf("OSane false %d %s", v, sane.lit()), fmt.Sprintf("OSane true %d %s", v, strict.lit()),
		fmt.Sprintf("OValidate %d %d %d %d %s", v, tb, tk, ti, val.lit()),
		fmt.Sprintf("OTestSane false %d %s", ii.v, tsane.lit()), fmt.Sprintf("OTestSane true %d %s", ii.v, tstrict.lit()),
		fmt.Sprintf("OTestValidate %d %d %d %d %s", ii.v, ii.bpmsvn, ii.kmsvn, ii.kmid, tval.lit()),
	}
	idx := c.Add("plat_"+p.Shape, fmt.Sprintf("CPlat %s %s %s %s", p.lit(), gal.Bool(p.EnumErr), gal.U(p.MSR), gal.List(obs)), d, true)
	if !judged {
		c.Count("plat_first_candidate_off_bus0_not_judged")
		return
	}
	avail := me >= 0 && p.Devs[me].Cfg != nil

	// the verdicts: computed from the HFSTS6 of the ME device; no status, no success
	var w uint32
	if avail {
		w = p.Devs[me].word(6)
		d["meHFSTS6"] = fmt.Sprintf("%#x", w)
		if !h6.Err && h6.Word != w {
			d["note"] = fmt.Sprintf("GetHFSTS6 delivered the status word %#x of %s, not the one of the ME device %s", h6.Word, p.whose(6, h6.Word, 0xffffffff), p.Devs[me].bdf())
		}
	}
	where := ""
	if avail {
		var names []string
		for _, x := range p.Devs {
			names = append(names, x.bdf())
		}
		where = fmt.Sprintf(" on the platform %v, ME device %s with HFSTS6 %#x, MSR 13Ah %#x: ", names, p.Devs[me].bdf(), w, p.MSR)
		if n, ok := d["note"]; ok {
			where += fmt.Sprintf("(%v) ", n)
		}
	}
	noStatus := func(name string, got verd, zeroAgrees bool) {
		switch {
		case got.Panic:
			c.OracleFail(idx, name+" panicked: "+got.Msg, siteHFSTS, d)
		case got.OK && me < 0 && !p.EnumErr && zeroAgrees:
			c.OracleFail(idx, name+" reports success on a platform without ME device: an all-zero status made up by GetHFSTS6 agrees with manifests whose SVNs and key manifest id are 0 (repaired finding "+knownNoME+" is back)", siteHFSTS, d)
		case got.OK:
			c.OracleFail(idx, fmt.Sprintf("%s reports success (%+v) although the status of the ME device is not available (ME device: %v)", name, got, d["meDevice"]), siteHFSTS, d)
		case !got.E1 && !got.E2:
			c.OracleFail(idx, fmt.Sprintf("%s: negative result without error: %+v", name, got), siteHFSTS, d)
		default:
			c.OracleOK()
		}
	}
	for _, q := range []struct {
		name   string
		strict bool
		v      int
		got    verd
	}{{"SaneMEBootGuardProvisioning", false, v, sane}, {"StrictSaneBootGuardProvisioning", true, v, strict},
		{"test.BootGuardSaneMEConfig", false, ii.v, tsane}, {"test.BootGuardSaneMEConfig(strict)", true, ii.v, tstrict}} {
		if !avail {
			noStatus(q.name, q.got, false)
			continue
		}
		g := q.got
		g.E1 = g.E1 || g.E2 // pkg/test: the verdict's own error travels as second error
		judgeSaneAt(c, idx, q.name+where, q.strict, q.v, w, p.MSR, g, d)
	}
	for _, q := range []struct {
		name    string
		v       int
		b, k, i uint8
		got     verd
	}{{"ValidateMEAgainstManifests", v, tb, tk, ti, val}, {"test.BootGuardValidateME", ii.v, ii.bpmsvn, ii.kmsvn, ii.kmid, tval}} {
		if !avail {
			noStatus(q.name, q.got, len(validateDQ(q.v, 0, q.b, q.k, q.i)) == 0)
			continue
		}
		dq := validateDQ(q.v, w, q.b, q.k, q.i)
		switch {
		case q.got.Panic:
			c.OracleFail(idx, q.name+" panicked: "+q.got.Msg, siteBG, d)
		case q.got.isPass() == (len(dq) == 0) && (q.got.isPass() || !q.got.OK && (q.got.E1 || q.got.E2)):
			c.OracleOK()
		default:
			c.OracleFail(idx, fmt.Sprintf("%s%sthe disqualifying conditions are %v, got %+v", q.name, where, dq, q.got), siteBG+":ValidateMEAgainstManifests", d)
		}
	}
	// GetHFSTS1 / GetHFSTS6: the status of the ME device, or an error
	for _, q := range []struct {
		n    int
		got  status
		mask uint32
	}{{1, h1, mask1}, {6, h6, 0xffffffff}} {
		name := fmt.Sprintf("GetHFSTS%d", q.n)
		switch {
		case q.got.Panic:
			c.OracleFail(idx, name+" panicked: "+q.got.Msg, siteHFSTS, d)
		case avail && q.got.Err:
			c.OracleFail(idx, fmt.Sprintf("%s fails (%s) although the ME device %s is visible and its config space readable", name, q.got.Msg, p.Devs[me].bdf()), siteHFSTS, d)
		case avail && q.got.Word != p.Devs[me].word(q.n)&q.mask:
			c.OracleFail(idx, fmt.Sprintf("%s reports the status word %#x, held by %s; the ME is %s (first device 16/22 function 0 in enumeration order), its register at %#x holds %#x",
				name, q.got.Word, p.whose(q.n, q.got.Word, q.mask), p.Devs[me].bdf(), hfstsOff[q.n-1], p.Devs[me].word(q.n)&q.mask), siteHFSTS, d)
		case !avail && !q.got.Err && me < 0 && !p.EnumErr && q.got.Word == 0:
			c.OracleFail(idx, fmt.Sprintf("%s on a platform without ME device (no visible device 16/22 function 0) returns an all-zero status and no error (repaired finding %s is back)", name, knownNoME), siteHFSTS, d)
		case !avail && !q.got.Err:
			why := "the config space of the ME device cannot be read"
			if me < 0 {
				why = "there is no ME device and the enumeration failed"
			}
			c.OracleFail(idx, fmt.Sprintf("%s returns status %#x (%s) and no error although %s", name, q.got.Word, p.whose(q.n, q.got.Word, q.mask), why), siteHFSTS, d)
		default:
			c.OracleOK()
		}
	}
}
