package main

import (
	"fmt"

	"github.com/9elements/converged-security-suite/v2/pkg/provisioning/bootguard"
	"github.com/9elements/converged-security-suite/v2/pkg/test"
	"github.com/9elements/converged-security-suite/v2/pkg/tools"
	"verifharness/gal"
)

// single-register verdicts: selector k, arguments, the real call, the oracle's expectation
func genBits(c *gal.Ctx) {
	r := c.Rng
	// knownSig: the verdict a listed finding predicts (only consulted when knownID != "")
	knownSig := false
	add := func(kind string, k int, args []uint64, got verd, spec bool, site string, knownID, knownWhat string) {
		d := map[string]interface{}{"check": kind, "args": args, "got": got}
		idx := c.Add("bits_"+kind, fmt.Sprintf("CBits %d %s %s", k, gal.UList(args), got.lit()), d, true)
		switch {
		case exact(got, spec):
			c.OracleOK()
		case knownID != "" && exact(got, knownSig):
			c.OracleFailKnown(idx, knownID, knownWhat, site, d)
		default:
			c.OracleFail(idx, fmt.Sprintf("%s: specified verdict %v, got %+v", kind, spec, got), site, d)
		}
	}
	b64 := func(w uint64, i uint) bool { return w>>i&1 == 1 }
	pre := &test.PreSet{}

	// IBBMeasured / IBBIsTrusted: TXT.BOOTSTATUS bits 63, 62, 59 — all 8 assignments over random words
	for i := 0; i < c.Scale(3, 20); i++ {
		base := r.Uint64() &^ (1<<63 | 1<<62 | 1<<59)
		for m := uint64(0); m < 8; m++ {
			w := base | (m&1)<<63 | (m>>1&1)<<62 | (m>>2&1)<<59
			h := txtHW(txtRegs{BootStatus: w})
			test.ResetTXTRegsForC05Verif()
			got := run3(func() (bool, error, error) { return test.IBBMeasured(h, pre) })
			add("IBBMeasured", 0, []uint64{w}, got, b64(w, 63) && !b64(w, 62), "pkg/test/cpu.go:IBBMeasured", "", "")
			test.ResetTXTRegsForC05Verif()
			got = run3(func() (bool, error, error) { return test.IBBIsTrusted(h, pre) })
			add("IBBIsTrusted", 1, []uint64{w}, got, b64(w, 63) && b64(w, 59), "pkg/test/cpu.go:IBBIsTrusted", "", "")
		}
	}
	test.ResetTXTRegsForC05Verif()

	// IA32DebugInterfaceLockedDisabled: CPUID.1:ECX[11] (SDBG), MSR C80h bits 0, 30, 31 — all 16
	for i := 0; i < c.Scale(2, 10); i++ {
		ecxBase := r.Uint32() &^ (1 << 11)
		msrBase := r.Uint64() &^ (1<<0 | 1<<30 | 1<<31)
		for m := 0; m < 16; m++ {
			ecx := ecxBase | uint32(m&1)<<11
			msr := msrBase | uint64(m>>1&1) | uint64(m>>2&1)<<30 | uint64(m>>3&1)<<31
			h := newHW()
			h.sigFull = [4]uint32{0x906ea, 0, ecx, 0}
			h.msr[0xC80] = msr
			got := run3(func() (bool, error, error) { return test.IA32DebugInterfaceLockedDisabled(h, pre) })
			sdbg, en, lock, strap := m&1 == 1, b64(msr, 0), b64(msr, 30), b64(msr, 31)
			// SDM: ECX[11] = 1 means IA32_DEBUG_INTERFACE exists; then it must be locked and disabled
			// and not forced by the PCH strap. Without the MSR there is nothing to check.
			spec := !sdbg || (!strap && lock && !en)
			add("IA32DebugInterfaceLockedDisabled", 2, []uint64{uint64(ecx), msr}, got, spec, "pkg/test/cpu.go:IA32DebugInterfaceLockedDisabled", "", "")
		}
	}

	// bootguard.ValidTXTRegister: ACM status 31/15, ACM policy status 6, boot status 31 — all 16
	for i := 0; i < c.Scale(2, 10); i++ {
		a0, p0, b0 := r.Uint64()&^(1<<31|1<<15), r.Uint64()&^(1<<6), r.Uint64()&^(1<<31)
		for m := uint64(0); m < 16; m++ {
			a, p, b := a0|(m&1)<<31|(m>>1&1)<<15, p0|(m>>2&1)<<6, b0|(m>>3&1)<<31
			h := txtHW(txtRegs{ACMStatus: a, ACMPolicy: p, BootStatus: b})
			got := run2(func() (bool, error) { return bootguard.ValidTXTRegister(h) })
			spec := b64(a, 31) && b64(a, 15) && !b64(p, 6) && b64(b, 31)
			add("ValidTXTRegister", 3, []uint64{a, p, b}, got, spec, "pkg/provisioning/bootguard/me.go:ValidTXTRegister", "", "")
		}
	}

	for _, e := range []uint32{0xC0000001, 0xC0000000, 0x40000001, 0, 0xC0000003, r.Uint32()} {
		h := txtHW(txtRegs{ErrorCode: e})
		got := run3(func() (bool, error, error) { return test.NoSINITErrors(h, pre) })
		add("NoSINITErrors", 4, []uint64{uint64(e)}, got, e == 0xC0000001, "pkg/test/memory.go:NoSINITErrors", "", "")
	}
	for i := 0; i < 6; i++ {
		w := r.Uint32()&^1 | uint32(i&1)
		h := txtHW(txtRegs{Dpr: w})
		got := run3(func() (bool, error, error) { return test.TXTDPRisLock(h, pre) })
		add("TXTDPRisLock", 5, []uint64{uint64(w)}, got, w&1 == 1, "pkg/test/memory.go:TXTDPRisLock", "", "")
	}
	for _, t := range [][3]uint32{{2, 8, 1}, {1, 8, 1}, {2, 7, 1}, {2, 8, 0}, {6, 0x40, 16}, {0, 0, 0}, {3, 8, 0xffffffff}} {
		test.SetBIOSDataForC05Verif(tools.TXTBiosData{Version: t[0], BiosSinitSize: t[1], NumLogProcs: t[2]})
		got := run3(func() (bool, error, error) { return test.BIOSDATAREGIONValid(newHW(), pre) })
		add("BIOSDATAREGIONValid", 6, []uint64{uint64(t[0]), uint64(t[1]), uint64(t[2])}, got, t[0] >= 2 && t[1] >= 8 && t[2] != 0, "pkg/test/memory.go:BIOSDATAREGIONValid", "", "")
	}
	for f := uint32(0); f < 16; f++ {
		sig := r.Uint32()&^(0xf<<8) | f<<8
		h := newHW()
		h.sig = sig
		got := run3(func() (bool, error, error) { return test.WeybridgeOrLater(h, pre) })
		add("WeybridgeOrLater", 7, []uint64{uint64(sig)}, got, f == 6, "pkg/test/cpu.go:WeybridgeOrLater", "", "")
	}
	// IA32_FEATURE_CONTROL: TXTNotDisabled (bits 8..16), Ia32FeatureCtrl (lock + VMX-in-SMX bits 1, 5, 6)
	fc := []uint64{0xFF00, 0x1FF00, 0x10000, 0x7F00, 0xFE00, 0, 0xFF07}
	for i := 0; i < c.Scale(20, 200); i++ {
		w := r.Uint64()
		if i%2 == 0 {
			w |= 0xFF00 &^ (uint64(1) << uint(8+r.Intn(9)))
		}
		fc = append(fc, w)
	}
	for _, w := range fc {
		h := newHW()
		h.msr[0x3A] = w
		got := run3(func() (bool, error, error) { return test.TXTNotDisabled(h, pre) })
		t := w >> 8 & 0x1ff
		add("TXTNotDisabled", 8, []uint64{w}, got, t&0xff == 0xff || t&0x100 != 0, "pkg/test/cpu.go:TXTNotDisabled", "", "")
	}
	for m := uint64(0); m < 16; m++ {
		w := r.Uint64()&^(1|1<<1|1<<5|1<<6) | m&1 | (m>>1&1)<<1 | (m>>2&1)<<5 | (m>>3&1)<<6
		h := newHW()
		h.msr[0x3A] = w
		got := run3(func() (bool, error, error) { return test.Ia32FeatureCtrl(h, pre) })
		// the lock bit decides; hwapi.AllowsVMXInSMX (library) tests the empty mask
		// (1<<1)&(1<<5)&(1<<6), so the VMX-in-SMX bits are not looked at: counted as an observation
		spec := w&1 == 1
		if w>>1&1 == 0 {
			c.Count("ia32featurectrl_vmx_in_smx_bit_clear_not_checked_by_library")
		}
		add("Ia32FeatureCtrl", 9, []uint64{w}, got, spec, "pkg/test/cpu.go:Ia32FeatureCtrl", "", "")
	}
}
