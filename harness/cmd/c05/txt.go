package main

import (
	"encoding/binary"
	"fmt"
	"math/big"

	"github.com/9elements/converged-security-suite/v2/pkg/test"
	"verifharness/gal"
)

const siteMem = "pkg/test/memory.go"

type txtRegs struct {
	HeapBase, HeapSize, SinitBase, SinitSize, MleJoin, Dpr uint32
	BootStatus, ACMStatus, ACMPolicy                       uint64
	ErrorCode                                              uint32
}

// txtHW maps a TXT public space image at 0xFED30000
func txtHW(t txtRegs) *hw {
	img := make([]byte, 0x1000)
	le := binary.LittleEndian
	le.PutUint32(img[0x30:], t.ErrorCode)
	le.PutUint64(img[0xa0:], t.BootStatus)
	le.PutUint16(img[0x110:], 0x8086)
	le.PutUint16(img[0x112:], 0xb002)
	le.PutUint32(img[0x270:], t.SinitBase)
	le.PutUint32(img[0x278:], t.SinitSize)
	le.PutUint32(img[0x290:], t.MleJoin)
	le.PutUint32(img[0x300:], t.HeapBase)
	le.PutUint32(img[0x308:], t.HeapSize)
	le.PutUint64(img[0x328:], t.ACMStatus)
	le.PutUint32(img[0x330:], t.Dpr)
	le.PutUint64(img[0x378:], t.ACMPolicy)
	h := newHW()
	h.mapMem(0xFED30000, img)
	return h
}

func exact(got verd, spec bool) bool {
	return !got.Panic && !got.E2 && got.OK == spec && got.E1 == !spec
}

func genHeap(c *gal.Ctx) {
	r := c.Rng
	add := func(kind string, t txtRegs) {
		h := txtHW(t)
		got := run3(func() (bool, error, error) { return test.TXTHeapSpaceValid(h, &test.PreSet{}) })
		d := map[string]interface{}{"check": "TXTHeapSpaceValid", "regs": t, "got": got}
		idx := c.Add(kind, fmt.Sprintf("CHeap %d %d %d %d %d %s", t.HeapBase, t.HeapSize, t.SinitBase, t.SinitSize, t.MleJoin, got.lit()), d, true)
		hb, hs, sb, ss := bi(uint64(t.HeapBase)), bi(uint64(t.HeapSize)), bi(uint64(t.SinitBase)), bi(uint64(t.SinitSize))
		heapEnd := new(big.Int).Add(hb, hs)
		sinitEnd := new(big.Int).Add(sb, ss)
		spec := heapEnd.Cmp(two32) < 0 && t.HeapSize >= 0xE0000 &&
			t.SinitBase%4096 == 0 && sinitEnd.Cmp(two32) < 0 && t.SinitSize >= 0x10000 &&
			sb.Cmp(hb) < 0 && (t.SinitBase == 0 || sinitEnd.Cmp(hb) == 0)
		if exact(got, spec) {
			c.OracleOK()
		} else {
			c.OracleFail(idx, fmt.Sprintf("TXTHeapSpaceValid: exact arithmetic says valid=%v (heap end %s, SINIT end %s), got %+v", spec, heapEnd.Text(16), sinitEnd.Text(16), got), siteMem+":TXTHeapSpaceValid", d)
		}
	}
	// documented good layout: SINIT directly below the heap
	add("heap_good", txtRegs{HeapBase: 0x7B200000, HeapSize: 0xE0000, SinitBase: 0x7B1F0000, SinitSize: 0x10000, MleJoin: 0x1000})
	add("heap_good", txtRegs{HeapBase: 0x7B200000, HeapSize: 0xF0000, SinitBase: 0, SinitSize: 0x10000})
	add("heap_wrap", txtRegs{HeapBase: 0xFFF00000, HeapSize: 0x200000, SinitBase: 0, SinitSize: 0x10000})
	add("heap_wrap", txtRegs{HeapBase: 0xFFF00000, HeapSize: 0x100000, SinitBase: 0xFFEF0000, SinitSize: 0x10000})
	add("heap_edge", txtRegs{HeapBase: 0x7B200000, HeapSize: 0xDFFFF, SinitBase: 0x7B1F0000, SinitSize: 0x10000})
	add("heap_edge", txtRegs{HeapBase: 0x7B200000, HeapSize: 0xE0000, SinitBase: 0x7B1F0000, SinitSize: 0xFFFF})
	add("heap_edge", txtRegs{HeapBase: 0x7B200000, HeapSize: 0xE0000, SinitBase: 0x7B1F0800, SinitSize: 0xF800})
	add("heap_edge", txtRegs{HeapBase: 0x7B200000, HeapSize: 0xE0000, SinitBase: 0x7B1E0000, SinitSize: 0x10000})
	add("heap_edge", txtRegs{HeapBase: 0x7B200000, HeapSize: 0xE0000, SinitBase: 0x7B200000, SinitSize: 0x10000})
	add("heap_edge", txtRegs{HeapBase: 0, HeapSize: 0xE0000, SinitBase: 0, SinitSize: 0x10000})
	// SINIT ending at the heap, large enough, base misaligned by one bit at a time below 4 KiB
	for b := uint(0); b < 12; b++ {
		add("heap_edge_align", txtRegs{HeapBase: 0x7B200000, HeapSize: 0xE0000, SinitBase: 0x7B1F0000 - 1<<b, SinitSize: 0x10000 + 1<<b})
	}
	add("heap_edge_align", txtRegs{HeapBase: 0x7B200000, HeapSize: 0xE0000, SinitBase: 0x7B1EF000, SinitSize: 0x11000})
	for i := 0; i < c.Scale(80, 800); i++ {
		var t txtRegs
		t.HeapBase = (r.Uint32() >> uint(r.Intn(4))) &^ 0xfff
		if r.Intn(3) == 0 {
			t.HeapBase = 0xFFFFFFFF - uint32(r.Intn(0x400000))
		}
		t.HeapSize = 0xE0000 + uint32(r.Intn(0x400000)) - uint32(r.Intn(3))
		if r.Intn(6) == 0 {
			t.HeapSize = r.Uint32()
		}
		t.SinitSize = 0x10000 + uint32(r.Intn(5))*0x10000 - uint32(r.Intn(8)/7)
		switch r.Intn(5) {
		case 0:
			t.SinitBase = 0
		case 1:
			t.SinitBase = t.HeapBase - t.SinitSize + uint32(r.Intn(3)-1)*0x1000
		case 2:
			t.SinitBase = r.Uint32()
		default:
			t.SinitBase = t.HeapBase - t.SinitSize
		}
		if r.Intn(10) == 0 {
			t.SinitSize = r.Uint32()
		}
		if r.Intn(8) == 0 { // sub-page size: the base = HeapBase - size is then misaligned
			t.SinitSize = 0x10000 + uint32(r.Intn(0x2000))
			t.SinitBase = t.HeapBase - t.SinitSize
		}
		t.MleJoin = r.Uint32()
		add("heap_random", t)
	}
}

func genDPR(c *gal.Ctx) {
	r := c.Rng
	const MiB = 1 << 20
	add := func(kind string, t txtRegs) {
		h := txtHW(t)
		got := run3(func() (bool, error, error) { return test.TXTMemoryIsDPR(h, &test.PreSet{}) })
		d := map[string]interface{}{"check": "TXTMemoryIsDPR", "regs": t, "got": got}
		idx := c.Add(kind, fmt.Sprintf("CDpr %d %d %d %d %d %s", t.Dpr, t.HeapBase, t.HeapSize, t.SinitBase, t.SinitSize, got.lit()), d, true)
		size := big.NewInt(int64((t.Dpr>>4)&0xff) * MiB)
		limit := big.NewInt((int64((t.Dpr>>20)&0xfff) + 1) * MiB)
		base := new(big.Int).Sub(limit, size)
		hb, hs, sb, ss := bi(uint64(t.HeapBase)), bi(uint64(t.HeapSize)), bi(uint64(t.SinitBase)), bi(uint64(t.SinitSize))
		heapEnd := new(big.Int).Add(hb, hs)
		sinitEnd := new(big.Int).Add(sb, ss)
		room := new(big.Int).Add(big.NewInt(2*MiB), hs)
		room.Add(room, ss)
		// the DPR is the region [limit - size, limit): at least 3 MiB, its base an address (>= 0); heap and
		// (if set) SINIT start inside it, the heap ends at its top, SINIT ends inside it, and
		// 2 MiB + heap + SINIT fit into it
		spec := size.Cmp(big.NewInt(3*MiB)) >= 0 && base.Sign() >= 0 && base.Cmp(hb) <= 0 &&
			(t.SinitBase == 0 || base.Cmp(sb) <= 0) &&
			heapEnd.Cmp(limit) == 0 &&
			(t.SinitBase == 0 || sinitEnd.Cmp(limit) <= 0) &&
			room.Cmp(size) <= 0
		if exact(got, spec) {
			c.OracleOK()
		} else {
			c.OracleFail(idx, fmt.Sprintf("TXTMemoryIsDPR: exact arithmetic says valid=%v (DPR [%s,%s), heap end %s, SINIT end %s, 2 MiB + heap + SINIT = %s), got %+v", spec, base.Text(16), limit.Text(16), heapEnd.Text(16), sinitEnd.Text(16), room.Text(16), got), siteMem+":TXTMemoryIsDPR", d)
		}
	}
	dpr := func(topMiB, sizeMiB uint32, lock bool) uint32 {
		v := ((topMiB - 1) & 0xfff << 20) | (sizeMiB & 0xff << 4)
		if lock {
			v |= 1
		}
		return v
	}
	// good: DPR [0x7B000000, 0x7B400000) 4 MiB; heap at the top, SINIT below, 2 MiB + MLE room
	add("dpr_good", txtRegs{Dpr: dpr(0x7B4, 4, true), HeapBase: 0x7B320000, HeapSize: 0xE0000, SinitBase: 0x7B300000, SinitSize: 0x20000})
	add("dpr_underflow", txtRegs{Dpr: dpr(0x800, 3, true), HeapBase: 0x7FD00000, HeapSize: 0x300000, SinitBase: 0, SinitSize: 0xF0000000})
	add("dpr_top4g", txtRegs{Dpr: dpr(0x1000, 4, true), HeapBase: 0xFFF20000, HeapSize: 0xE0000, SinitBase: 0xFFF00000, SinitSize: 0x20000})
	add("dpr_top4g", txtRegs{Dpr: dpr(0x1000, 4, true), HeapBase: 0xFFF20000, HeapSize: 0xE0000, SinitBase: 0, SinitSize: 0x20000})
	// boundary families on a DPR [limit-size, limit): each comparison of the check at equality and one page off
	for _, ts := range [][2]uint32{{0x7B4, 4}, {0x800, 8}, {0x400, 3}} {
		limit := ts[0] * MiB
		size := ts[1] * MiB
		base := limit - size
		for _, d := range []uint32{0, 0x1000, ^uint32(0xfff)} { // 0, +4K, -4K
			// SINIT region ending at / around the DPR limit (it may overlap the heap: not this check's business)
			add("dpr_edge_sinit_end", txtRegs{Dpr: dpr(ts[0], ts[1], true), HeapBase: limit - 0xE0000, HeapSize: 0xE0000, SinitBase: limit - 0x10000 + d, SinitSize: 0x10000})
			// SINIT region starting at / around the DPR base
			add("dpr_edge_sinit_base", txtRegs{Dpr: dpr(ts[0], ts[1], true), HeapBase: limit - 0xE0000, HeapSize: 0xE0000, SinitBase: base + d, SinitSize: 0x10000})
			// heap + SINIT leave exactly / about 2 MiB for the MLE
			hs := size - 2*MiB - 0x20000 + d
			add("dpr_edge_mle_room", txtRegs{Dpr: dpr(ts[0], ts[1], true), HeapBase: limit - hs, HeapSize: hs, SinitBase: 0, SinitSize: 0x20000})
			add("dpr_edge_mle_room", txtRegs{Dpr: dpr(ts[0], ts[1], true), HeapBase: limit - hs, HeapSize: hs, SinitBase: limit - hs - 0x20000, SinitSize: 0x20000})
			// heap starting at / around the DPR base (fills the region)
			add("dpr_edge_heap_base", txtRegs{Dpr: dpr(ts[0], ts[1], true), HeapBase: base + d, HeapSize: size - d, SinitBase: 0, SinitSize: 0})
			// heap end at / around the limit
			add("dpr_edge_heap_end", txtRegs{Dpr: dpr(ts[0], ts[1], true), HeapBase: limit - 0xE0000 + d, HeapSize: 0xE0000, SinitBase: 0, SinitSize: 0x10000})
		}
	}
	// sums of 32-bit registers crossing 2^32 (the check must add them in 64 bits): on layouts that pass every
	// other comparison, 2 MiB + heap + SINIT size lands at / around 2^32 and at the largest values; with
	// SinitBase = 0 (SINIT containment skipped) the MLE-room comparison alone decides
	zero32 := uint32(r.Intn(1)) // 0, not a constant: the subtractions below wrap on purpose
	for _, ts := range [][2]uint32{{0x7B4, 4}, {0x800, 16}, {0x400, 3}, {0x1000, 255}} {
		limit := ts[0] * MiB // wraps to 0 for 0x1000
		size := ts[1] * MiB
		for _, hs := range []uint32{0xE0000, 0x100000, size - 2*MiB} {
			for _, d := range []uint32{0, 1, 0x1000, 0x10000, ^uint32(0), ^uint32(0xfff), size - 2*MiB - hs, size - 2*MiB - hs + 1} {
				ss := zero32 - 2*MiB - hs + d // 2 MiB + hs + ss = 2^32 + d (mod 2^32)
				add("dpr_wrap32_mle_room", txtRegs{Dpr: dpr(ts[0], ts[1], true), HeapBase: limit - hs, HeapSize: hs, SinitBase: 0, SinitSize: ss})
			}
			for _, ss := range []uint32{0xFFFFFFFF, 0xFFFFF000, 0xFFF00000, 0xFFE00000, 0xFFD00000, 0x80000000} {
				add("dpr_wrap32_mle_room", txtRegs{Dpr: dpr(ts[0], ts[1], true), HeapBase: limit - hs, HeapSize: hs, SinitBase: 0, SinitSize: ss})
				// SINIT base inside the DPR, its end beyond 2^32 (wrapping to a small address)
				add("dpr_wrap32_sinit_end", txtRegs{Dpr: dpr(ts[0], ts[1], true), HeapBase: limit - hs, HeapSize: hs, SinitBase: limit - size, SinitSize: ss})
				add("dpr_wrap32_sinit_end", txtRegs{Dpr: dpr(ts[0], ts[1], true), HeapBase: limit - hs, HeapSize: hs, SinitBase: limit - size, SinitSize: zero32 - (limit - size) + 0x10000})
			}
			// heap size so large that base + size crosses 2^32 and comes back to the limit modulo 2^32
			add("dpr_wrap32_heap_end", txtRegs{Dpr: dpr(ts[0], ts[1], true), HeapBase: limit - hs, HeapSize: hs, SinitBase: 0, SinitSize: 0x10000})
			add("dpr_wrap32_heap_end", txtRegs{Dpr: dpr(ts[0], ts[1], true), HeapBase: limit - size + 0x1000, HeapSize: 0xFFFFF000 + size, SinitBase: 0, SinitSize: 0})
		}
	}
	// DPR size larger than its top address (the base would be negative)
	add("dpr_size_gt_top", txtRegs{Dpr: dpr(1, 4, true), HeapBase: 0, HeapSize: 0x100000, SinitBase: 0, SinitSize: 0})
	add("dpr_size_gt_top", txtRegs{Dpr: dpr(3, 4, true), HeapBase: 0x200000, HeapSize: 0x100000, SinitBase: 0, SinitSize: 0x10000})
	add("dpr_size_eq_top", txtRegs{Dpr: dpr(4, 4, true), HeapBase: 0x300000, HeapSize: 0x100000, SinitBase: 0, SinitSize: 0x10000})
	add("dpr_edge_size", txtRegs{Dpr: dpr(0x7B4, 2, true), HeapBase: 0x7B320000, HeapSize: 0xE0000, SinitBase: 0, SinitSize: 0})
	add("dpr_edge_size", txtRegs{Dpr: dpr(0x7B4, 3, true), HeapBase: 0x7B320000, HeapSize: 0xE0000, SinitBase: 0, SinitSize: 0x10000})
	for i := 0; i < c.Scale(90, 900); i++ {
		top := uint32(0x100 + r.Intn(0xE00))
		if r.Intn(10) == 0 {
			top = uint32(1 + r.Intn(16))
		}
		if r.Intn(15) == 0 {
			top = 0x1000
		}
		size := uint32(r.Intn(12))
		if r.Intn(8) == 0 {
			size = uint32(r.Intn(256))
		}
		limit := top * MiB // may wrap for top = 0x1000
		base := limit - size*MiB
		var t txtRegs
		t.Dpr = dpr(top, size, r.Intn(2) == 0) | uint32(r.Intn(2))<<2 | uint32(r.Intn(2))<<13
		t.HeapSize = 0xE0000 + uint32(r.Intn(4))*0x20000
		t.HeapBase = limit - t.HeapSize
		t.SinitSize = 0x10000 * uint32(1+r.Intn(4))
		t.SinitBase = t.HeapBase - t.SinitSize
		switch r.Intn(8) {
		case 0:
			t.HeapBase += uint32(r.Intn(3)-1) * 0x1000
		case 1:
			t.SinitBase = 0
		case 2:
			t.SinitBase = base - uint32(r.Intn(3)-1)*0x1000
		case 3:
			t.HeapSize = size*MiB - uint32(r.Intn(3))*MiB + uint32(r.Intn(3)-1)*0x1000
			t.HeapBase = limit - t.HeapSize
		case 4:
			t.SinitSize = r.Uint32()
			if r.Intn(2) == 0 {
				t.SinitBase = 0
			}
		}
		add("dpr_random", t)
	}
}

func genSMRR(c *gal.Ctx) {
	r := c.Rng
	add := func(kind string, bdw bool, pbmsr, pmmsr uint64, tb, tlraw uint32) {
		h := newHW()
		h.msr[0x1F2], h.msr[0x1F3] = pbmsr, pmmsr
		h.pci["0:0:2"] = []byte{0x86, 0x80}
		dev, off := 0, 0xb8
		if bdw {
			h.pci["0:2:2"] = []byte{0x00, 0x6F}
			dev, off = 5, 0xa8
		} else {
			h.pci["0:2:2"] = []byte{0x18, 0x19} // Skylake 0x1918
		}
		b := make([]byte, 4)
		binary.LittleEndian.PutUint32(b, tb)
		h.pci[fmt.Sprintf("%d:%d:4", dev, off)] = b
		b2 := make([]byte, 4)
		binary.LittleEndian.PutUint32(b2, tlraw)
		h.pci[fmt.Sprintf("%d:%d:4", dev, off+4)] = b2
		got := run3(func() (bool, error, error) { return test.ValidSMRR(h, &test.PreSet{}) })
		d := map[string]interface{}{"check": "ValidSMRR", "broadwellDE": bdw, "smrrPhysBase": pbmsr, "smrrPhysMask": pmmsr, "tsegBase": tb, "tsegLimitRaw": tlraw, "got": got}
		idx := c.Add(kind, fmt.Sprintf("CSmrr %s %s %s %d %d %s", gal.Bool(bdw), gal.U(pbmsr), gal.U(pmmsr), tb, tlraw, got.lit()), d, true)
		// oracle: SMRR range {x | x & M == PB} with M = mask<<12; for a contiguous mask
		// that is the interval [PB, PB + (2^32 - M)); TSEG = [base, limit) must start at PB,
		// be non-empty and lie inside it; base and limit aligned to the SMRR granularity.
		pb := uint64(pbmsr>>12&0xfffff) << 12
		m := uint64(pmmsr>>12&0xfffff) << 12
		gran := uint64(1)<<32 - m
		contiguous := m != 0 && gran&(gran-1) == 0
		limit := uint64(tlraw)
		if bdw {
			limit = uint64(tlraw + 1<<20)
		}
		if !contiguous {
			// the interval reading of the mask does not apply; correspondence only
			c.Count("smrr_noncontiguous_mask_no_oracle")
			return
		}
		spec := pb != 0 && tb != 0 && tb != 0xffffffff && limit != 0 && limit != 0xffffffff &&
			uint64(tb) == pb && pb%gran == 0 && limit%gran == 0 && limit > uint64(tb) && limit <= pb+gran
		switch {
		case exact(got, spec):
			c.OracleOK()
		case !bdw && spec && !got.OK && !got.Panic:
			c.OracleFailKnown(idx, "C05-ValidSMRR-tseglimit-lib", "ValidSMRR rejects a correct SMRR/TSEG setup on every non-Broadwell-DE host bridge: hwapi.ReadHostBridgeTseg returns limit 0 there", siteMem+":ValidSMRR (go-linux-lowlevel-hw hostbridge.go:ReadHostBridgeTseg)", d)
		case !bdw && !spec && !got.OK && !got.Panic:
			c.OracleOK()
		default:
			c.OracleFail(idx, fmt.Sprintf("ValidSMRR: interval reading says valid=%v, got %+v", spec, got), siteMem+":ValidSMRR", d)
		}
	}
	// good: 8 MiB TSEG at 0x7B000000 (8 MiB aligned: 0x7B000000 = 123*16 MiB), mask 0xFF800
	add("smrr_good", true, 0x7B000006, 0xFF800800, 0x7B000000, 0x7B700000)
	add("smrr_good_sandy", false, 0x7B000006, 0xFF800800, 0x7B000000, 0x7B800000)
	for i := 0; i < c.Scale(70, 700); i++ {
		k := uint(20 + r.Intn(6)) // granularity 1..32 MiB
		gran := uint32(1) << k
		base := (uint32(0x40000000) + uint32(r.Intn(0x400))<<20) &^ (gran - 1)
		mask := uint64(^(gran - 1))
		pbmsr := uint64(base) | uint64(r.Intn(8))
		pmmsr := mask&0xfffff000 | uint64(r.Intn(2))<<11
		limit := base + gran
		tb := base
		switch r.Intn(10) {
		case 0:
			tb += 0x100000
		case 1:
			limit += gran
		case 2:
			limit = base + gran/2 // not aligned to the granularity
		case 3:
			pmmsr = uint64(r.Uint32()) & 0xfffff800 // arbitrary (mostly non-contiguous) mask
		case 4:
			pbmsr = 0 | uint64(r.Intn(8))
		case 5:
			tb = []uint32{0, 0xffffffff}[r.Intn(2)]
		case 6:
			limit = base
		case 7:
			pmmsr = 0x800
		}
		bdw := r.Intn(4) != 0
		raw := limit
		if bdw {
			raw = limit - 1<<20
		}
		add("smrr_random", bdw, pbmsr, pmmsr, tb, raw)
	}
}
