package main

import (
	"encoding/binary"
	"fmt"

	"github.com/9elements/converged-security-suite/v2/pkg/provisioning/bootguard"
	"github.com/linuxboot/fiano/pkg/intel/metadata/bg"
	"github.com/linuxboot/fiano/pkg/intel/metadata/bg/bgbootpolicy"
	"github.com/linuxboot/fiano/pkg/intel/metadata/bg/bgkey"
	"github.com/linuxboot/fiano/pkg/intel/metadata/cbnt"
	"github.com/linuxboot/fiano/pkg/intel/metadata/cbnt/cbntbootpolicy"
	"github.com/linuxboot/fiano/pkg/intel/metadata/cbnt/cbntkey"
	"github.com/linuxboot/fiano/pkg/intel/metadata/common/bgheader"
	"verifharness/gal"
)

const siteME = "pkg/provisioning/bootguard/me.go"
const siteBG = "pkg/provisioning/bootguard/bootguard.go"

// meHW: the plain platform - host bridge, graphics, one ME device (PCI 00:16.0) whose HFSTS6
// (config offset 0x6c) is w, LPC bridge; Boot Guard MSR 0x13a = msr
func meHW(hfsts6 uint32, msr uint64) *hw {
	h := newHW()
	me := make([]byte, 256)
	binary.LittleEndian.PutUint32(me[0x6c:], hfsts6)
	h.devs = []pciDev{{0, 0, 0, make([]byte, 256)}, {0, 2, 0, make([]byte, 256)}, {0, 22, 0, me}, {0, 31, 0, make([]byte, 256)}}
	h.msr[0x13a] = msr
	return h
}

func bitOf32(w uint32, i uint) bool { return w>>i&1 == 1 }
func bitOf64(w uint64, i uint) bool { return w>>i&1 == 1 }

// the disqualifying conditions named by SaneMEBootGuardProvisioning / Strict..., by register bit
func meDisqualified(strict bool, v int, hfsts6 uint32, msr uint64) []string {
	var r []string
	eep := hfsts6 >> 6 & 3
	if bitOf32(hfsts6, 4) {
		r = append(r, "bypass boot policy active (HFSTS6[4])")
	}
	if bitOf32(hfsts6, 5) {
		r = append(r, "boot policy invalid (HFSTS6[5])")
	}
	if !bitOf32(hfsts6, 30) {
		r = append(r, "FPF not locked (HFSTS6[30])")
	}
	if eep == 0 || eep == 2 {
		r = append(r, "lazy error enforcement policy (HFSTS6[7:6] in {0,2})")
	}
	if strict && eep != 3 {
		r = append(r, "strict: enforcement policy is not immediate shutdown (HFSTS6[7:6] != 3)")
	}
	if !bitOf32(hfsts6, 3) {
		r = append(r, "protect BIOS environment disabled (HFSTS6[3])")
	}
	if v == 2 && !bitOf64(msr, 4) {
		r = append(r, "force anchor boot disabled on CBnT (MSR 13Ah[4])")
	}
	if !bitOf64(msr, 6) {
		r = append(r, "verified boot disabled (MSR 13Ah[6])")
	}
	if bitOf64(msr, 7) {
		r = append(r, "module revoked (MSR 13Ah[7])")
	}
	if bitOf32(hfsts6, 28) {
		r = append(r, "Boot Guard disabled (HFSTS6[28])")
	}
	if !bitOf64(msr, 32) {
		r = append(r, "no Boot Guard capability (MSR 13Ah[32])")
	}
	return r
}

func runSaneME(strict bool, v int, hfsts6 uint32, msr uint64) verd {
	h := meHW(hfsts6, msr)
	return run2(func() (bool, error) {
		fws, err := bootguard.GetHFSTS6(h)
		if err != nil {
			panic(err)
		}
		bgi, err := bootguard.GetBGInfo(h)
		if err != nil {
			panic(err)
		}
		if strict {
			return bootguard.StrictSaneBootGuardProvisioning(bgheader.BootGuardVersion(v), fws, bgi)
		}
		return bootguard.SaneMEBootGuardProvisioning(bgheader.BootGuardVersion(v), fws, bgi)
	})
}

// judgeSane: the provisioning verdict against the named disqualifying conditions of the status
// word hfsts6 (the HFSTS6 of the ME device) and MSR 13Ah
func judgeSane(c *gal.Ctx, idx int, strict bool, v int, hfsts6 uint32, msr uint64, got verd, d interface{}) {
	judgeSaneAt(c, idx, "", strict, v, hfsts6, msr, got, d)
}

// where: what was called on which platform (prefix of the messages)
func judgeSaneAt(c *gal.Ctx, idx int, where string, strict bool, v int, hfsts6 uint32, msr uint64, got verd, d interface{}) {
	dq := meDisqualified(strict, v, hfsts6, msr)
	switch {
	case got.Panic:
		c.OracleFail(idx, where+"ME provisioning verdict panicked: "+got.Msg, siteME, d)
	case got.OK && len(dq) > 0:
		c.OracleFail(idx, where+fmt.Sprintf("fail-closed violated: success reported although %v", dq), siteME+":SaneMEBootGuardProvisioning", d)
	case !got.OK && len(dq) == 0:
		c.OracleFail(idx, where+"a correctly provisioned ME/Boot Guard configuration is rejected: "+got.Msg, siteME+":SaneMEBootGuardProvisioning", d)
	case got.OK == got.E1:
		c.OracleFail(idx, where+fmt.Sprintf("result and error disagree: %+v", got), siteME, d)
	default:
		c.OracleOK()
	}
}

// validateDQ: the conditions ValidateMEAgainstManifests names, for the status word w of the ME
func validateDQ(v int, w uint32, bpmsvn, kmsvn, kmid uint8) []string {
	fb, fk, fi := uint8(w>>18&15), uint8(w>>14&15), uint8(w>>22&15)
	var dq []string
	if v == 1 && fb != bpmsvn || v != 1 && fb > bpmsvn {
		dq = append(dq, "BPM SVN does not match the ME configuration")
	}
	if fk != kmsvn {
		dq = append(dq, "KM SVN does not match the ME configuration")
	}
	if fi != kmid {
		dq = append(dq, "KM ID does not match the ME configuration")
	}
	return dq
}

var meBits = []uint{3, 4, 5, 6, 7, 28, 30}

func setBits(base uint32, k int) uint32 {
	w := base
	for i, p := range meBits {
		if k>>uint(i)&1 == 1 {
			w |= 1 << p
		} else {
			w &^= 1 << p
		}
	}
	return w
}

func genME(c *gal.Ctx) {
	r := c.Rng
	oracle := func(idx int, strict bool, v int, hfsts6 uint32, msr uint64, got verd, d interface{}) {
		judgeSane(c, idx, strict, v, hfsts6, msr, got, d)
	}
	// all 2^7 assignments of the HFSTS6 bits the verdict reads, for every assignment of the
	// 4 MSR bits, 3 versions, strict/non-strict; unread bits random per block
	for _, strict := range []bool{false, true} {
		for _, v := range []int{1, 2, 0} {
			for mk := 0; mk < 16; mk++ {
				msr := r.Uint64() &^ (1<<4 | 1<<6 | 1<<7 | 1<<32)
				msr |= uint64(mk&1)<<4 | uint64(mk>>1&1)<<6 | uint64(mk>>2&1)<<7 | uint64(mk>>3&1)<<32
				base := r.Uint32()
				rs := make([]bool, 128)
				nOK := 0
				for k := 0; k < 128; k++ {
					w := setBits(base, k)
					got := runSaneME(strict, v, w, msr)
					rs[k] = got.isPass()
					if rs[k] {
						nOK++
					}
					oracle(-1, strict, v, w, msr, got, map[string]interface{}{"strict": strict, "version": v, "hfsts6": w, "msr13a": msr, "got": got})
				}
				d := map[string]interface{}{"check": "SaneMEBootGuardProvisioning(all 128 HFSTS6 assignments)", "strict": strict, "version": v, "msr13a": msr, "hfsts6Base": base, "accepted": nOK}
				c.Add("me_all128", fmt.Sprintf("CSaneMEAll %s %d %s %d %s", gal.Bool(strict), v, gal.U(msr), base, gal.BoolList(rs)), d, true)
			}
		}
	}
	// documented good configuration and single-bit deviations over the full words
	goodH := uint32(1<<3 | 3<<6 | 1<<30 | 1<<9 | 1<<8)
	goodM := uint64(1<<4 | 1<<6 | 1<<32 | 1<<0 | 1<<5)
	addOne := func(kind string, strict bool, v int, w uint32, m uint64) {
		got := runSaneME(strict, v, w, m)
		d := map[string]interface{}{"check": "SaneMEBootGuardProvisioning", "strict": strict, "version": v, "hfsts6": w, "msr13a": m, "got": got}
		idx := c.Add(kind, fmt.Sprintf("CSaneME %s %d %d %s %s", gal.Bool(strict), v, w, gal.U(m), got.lit()), d, true)
		oracle(idx, strict, v, w, m, got, d)
	}
	for _, strict := range []bool{false, true} {
		for _, v := range []int{1, 2} {
			addOne("me_good", strict, v, goodH, goodM)
			addOne("me_good_eep1", strict, v, goodH&^(3<<6)|1<<6, goodM)
			for b := uint(0); b < 32; b++ {
				addOne("me_1bit_hfsts6", strict, v, goodH^(1<<b), goodM)
			}
			for b := uint(0); b < 40; b++ {
				addOne("me_1bit_msr", strict, v, goodH, goodM^(1<<b))
			}
		}
	}
	for i := 0; i < c.Scale(40, 400); i++ {
		addOne("me_random", r.Intn(2) == 0, 1+r.Intn(2), r.Uint32(), r.Uint64())
	}
}

// mkManifests: a BootGuard value of version v whose manifests (both generations) state the given
// BPM SVN, KM SVN and key manifest id
func mkManifests(v int, bpmsvn, kmsvn, kmid uint8) *bootguard.BootGuard {
	b := &bootguard.BootGuard{Version: bgheader.BootGuardVersion(v)}
	b.VData.BGbpm = &bgbootpolicy.Manifest{}
	b.VData.BGbpm.BPMSVN = bg.SVN(bpmsvn)
	b.VData.BGkm = &bgkey.Manifest{KMSVN: bg.SVN(kmsvn), KMID: kmid}
	b.VData.CBNTbpm = &cbntbootpolicy.Manifest{}
	b.VData.CBNTbpm.BPMSVN = cbnt.SVN(bpmsvn)
	b.VData.CBNTkm = &cbntkey.Manifest{KMSVN: cbnt.SVN(kmsvn), KMID: kmid}
	return b
}

func genValidateME(c *gal.Ctx) {
	r := c.Rng
	add := func(kind string, v int, w uint32, bpmsvn, kmsvn, kmid uint8) {
		b := mkManifests(v, bpmsvn, kmsvn, kmid)
		h := meHW(w, 0)
		got := run2(func() (bool, error) {
			fws, err := bootguard.GetHFSTS6(h)
			if err != nil {
				panic(err)
			}
			return b.ValidateMEAgainstManifests(fws)
		})
		d := map[string]interface{}{"check": "ValidateMEAgainstManifests", "version": v, "hfsts6": w, "manifestBPMSVN": bpmsvn, "manifestKMSVN": kmsvn, "manifestKMID": kmid, "got": got}
		idx := c.Add(kind, fmt.Sprintf("CValidateME %d %d %d %d %d %s", v, w, bpmsvn, kmsvn, kmid, got.lit()), d, true)
		dq := validateDQ(v, w, bpmsvn, kmsvn, kmid)
		switch {
		case got.Panic:
			c.OracleFail(idx, "ValidateMEAgainstManifests panicked: "+got.Msg, siteBG, d)
		case v != 1 && v != 2:
			// no manifest of a known Boot Guard version: nothing can be validated, never a success
			if !got.OK && got.E1 {
				c.OracleOK()
			} else {
				c.OracleFail(idx, fmt.Sprintf("ValidateMEAgainstManifests reports %+v for a BootGuard value whose Version is neither 1.0 nor 2.0 (disqualifying: %v)", got, dq), siteBG+":ValidateMEAgainstManifests", d)
			}
		case got.OK == (len(dq) == 0) && got.E1 == !got.OK:
			c.OracleOK()
		default:
			c.OracleFail(idx, fmt.Sprintf("ValidateMEAgainstManifests: disqualifying %v, got %+v", dq, got), siteBG+":ValidateMEAgainstManifests", d)
		}
	}
	mk := func(bpm, km, id uint8, rest uint32) uint32 {
		return rest&^(0xfff<<14) | uint32(km&15)<<14 | uint32(bpm&15)<<18 | uint32(id&15)<<22
	}
	for _, v := range []int{1, 2, 0, 3} {
		add("vme_match", v, mk(2, 3, 1, 0x40000088), 2, 3, 1)
		add("vme_dev", v, mk(2, 3, 1, 0), 3, 3, 1)
		add("vme_dev", v, mk(2, 3, 1, 0), 1, 3, 1)
		add("vme_dev", v, mk(2, 3, 1, 0), 2, 4, 1)
		add("vme_dev", v, mk(2, 3, 1, 0), 2, 3, 0)
		add("vme_dev", v, mk(2, 3, 1, 0xffffffff), 18, 19, 17) // manifest values beyond 4 bits
	}
	for i := 0; i < c.Scale(60, 600); i++ {
		v := 1 + r.Intn(2)
		bpm, km, id := uint8(r.Intn(16)), uint8(r.Intn(16)), uint8(r.Intn(16))
		w := mk(bpm, km, id, r.Uint32())
		switch r.Intn(5) {
		case 0:
			bpm = uint8(r.Intn(20))
		case 1:
			km = uint8(r.Intn(20))
		case 2:
			id = uint8(r.Intn(20))
		}
		add("vme_random", v, w, bpm, km, id)
	}
}

func insecure(a uint16) bool { return a == 4 || a == 0x10 || a == 0 }

func genCrypto(c *gal.Ctx) {
	r := c.Rng
	algs := []uint16{0, 0x4, 0xB, 0xC, 0x10, 0x12, 0x1}
	pick := func() uint16 { return algs[r.Intn(len(algs))] }

	addBPM := func(kind string, v, nse int, list []uint16, lsize uint16, sig uint16, realistic bool) {
		b := &bootguard.BootGuard{Version: bgheader.BootGuardVersion(v)}
		bpm1 := &bgbootpolicy.Manifest{}
		bpm2 := &cbntbootpolicy.Manifest{}
		for i := 0; i < nse; i++ {
			se1 := bgbootpolicy.SE{}
			if len(list) > 0 {
				se1.Digest.HashAlg = bg.Algorithm(list[0])
			}
			bpm1.SE = append(bpm1.SE, se1)
			se2 := cbntbootpolicy.SE{}
			for _, a := range list {
				se2.DigestList.List = append(se2.DigestList.List, cbnt.HashStructure{HashAlg: cbnt.Algorithm(a), HashBuffer: make([]byte, 20)})
			}
			if realistic {
				lsize = uint16(se2.DigestList.TotalSize())
			}
			se2.DigestList.Size = lsize
			bpm2.SE = append(bpm2.SE, se2)
		}
		bpm1.PMSE.Signature.HashAlg = bg.Algorithm(sig)
		bpm2.PMSE.Signature.HashAlg = cbnt.Algorithm(sig)
		b.VData.BGbpm, b.VData.CBNTbpm = bpm1, bpm2
		got := run2(func() (bool, error) { return b.BPMCryptoSecure() })
		d := map[string]interface{}{"check": "BPMCryptoSecure", "version": v, "seElements": nse, "digestAlgs": list, "digestListSize": lsize, "sigHashAlg": sig, "got": got}
		al := make([]uint64, len(list))
		for i, a := range list {
			al[i] = uint64(a)
		}
		idx := c.Add(kind, fmt.Sprintf("CBpmCrypto %d %d %s %d %d %s", v, nse, gal.UList(al), lsize, sig, got.lit()), d, true)
		// named disqualifying conditions: the signed IBB digest - for CBnT: the only digest of the
		// list - or the BPM signature use SHA1/Null; no SE element / unknown version: nothing to vouch for
		digestInsecure := false
		if v == 1 {
			digestInsecure = len(list) == 0 || insecure(list[0])
		} else {
			digestInsecure = len(list) == 1 && insecure(list[0])
		}
		bad := digestInsecure || insecure(sig) || nse == 0 || (v != 1 && v != 2)
		switch {
		case got.Panic:
			c.OracleFail(idx, "BPMCryptoSecure panicked instead of giving a verdict: "+got.Msg, siteBG+":BPMCryptoSecure", d)
		case got.OK == !bad && got.E1 == !got.OK:
			c.OracleOK()
		default:
			c.OracleFail(idx, fmt.Sprintf("BPMCryptoSecure: insecure=%v (IBB digest %v, signature %v, SE elements %d, version %d), got %+v", bad, digestInsecure, insecure(sig), nse, v, got), siteBG+":BPMCryptoSecure", d)
		}
	}
	for _, v := range []int{1, 2} {
		addBPM("bpmcrypto_good", v, 1, []uint16{0xB}, 0, 0xB, true)
		addBPM("bpmcrypto_sha1_only", v, 1, []uint16{0x4}, 0, 0xB, true)
		addBPM("bpmcrypto_sha1_sig", v, 1, []uint16{0xB}, 0, 0x4, true)
		addBPM("bpmcrypto_no_se", v, 0, nil, 0, 0xB, true)
	}
	addBPM("bpmcrypto_sha1_and_sha256", 2, 1, []uint16{0x4, 0xB}, 0, 0xB, true)
	addBPM("bpmcrypto_null_only", 2, 1, []uint16{0x10}, 0, 0xB, true)
	addBPM("bpmcrypto_empty_list", 2, 1, nil, 0, 0xB, true)
	addBPM("bpmcrypto_sha256_and_sha1", 2, 2, []uint16{0xB, 0x4}, 0, 0xB, true)
	addBPM("bpmcrypto_sha1_size1", 2, 1, []uint16{0x4}, 1, 0xB, false)
	addBPM("bpmcrypto_sha1_size2", 2, 1, []uint16{0x4}, 2, 0xB, false)
	addBPM("bpmcrypto_unknown_version", 0, 1, []uint16{0x4}, 0, 0x4, true)
	for i := 0; i < c.Scale(60, 600); i++ {
		var list []uint16
		for j := r.Intn(4); j > 0; j-- {
			list = append(list, pick())
		}
		v := 1 + r.Intn(2)
		if v == 1 && len(list) == 0 {
			list = []uint16{pick()}
		}
		realistic := r.Intn(3) != 0
		addBPM("bpmcrypto_random", v, 1+r.Intn(2), list, uint16(r.Intn(4)), pick(), realistic)
	}

	addKM := func(kind string, v int, a1 uint16, list []uint16) {
		b := &bootguard.BootGuard{Version: bgheader.BootGuardVersion(v)}
		km1 := &bgkey.Manifest{}
		km1.KeyAndSignature.Signature.HashAlg = bg.Algorithm(a1)
		if len(list) > 0 {
			km1.BPKey.HashAlg = bg.Algorithm(list[0])
		}
		km2 := &cbntkey.Manifest{PubKeyHashAlg: cbnt.Algorithm(a1)}
		for _, a := range list {
			km2.Hash = append(km2.Hash, cbntkey.Hash{Usage: 1, Digest: cbnt.HashStructure{HashAlg: cbnt.Algorithm(a)}})
		}
		b.VData.BGkm, b.VData.CBNTkm = km1, km2
		got := run2(func() (bool, error) { return b.KMCryptoSecure() })
		al := make([]uint64, len(list))
		for i, a := range list {
			al[i] = uint64(a)
		}
		d := map[string]interface{}{"check": "KMCryptoSecure", "version": v, "alg1": a1, "algs": list, "got": got}
		idx := c.Add(kind, fmt.Sprintf("CKmCrypto %d %d %s %s", v, a1, gal.UList(al), got.lit()), d, true)
		bad := insecure(a1)
		if v == 1 {
			bad = bad || len(list) == 0 || insecure(list[0])
		} else {
			for _, a := range list {
				bad = bad || insecure(a)
			}
		}
		bad = bad || (v != 1 && v != 2)
		switch {
		case got.Panic:
			c.OracleFail(idx, "KMCryptoSecure panicked: "+got.Msg, siteBG, d)
		case got.OK == !bad && got.E1 == !got.OK:
			c.OracleOK()
		default:
			c.OracleFail(idx, fmt.Sprintf("KMCryptoSecure: insecure=%v (version %d), got %+v", bad, v, got), siteBG+":KMCryptoSecure", d)
		}
	}
	for _, v := range []int{1, 2, 0} {
		addKM("kmcrypto_good", v, 0xB, []uint16{0xB})
		addKM("kmcrypto_sha1", v, 0x4, []uint16{0xB})
		addKM("kmcrypto_sha1", v, 0xB, []uint16{0x4})
		addKM("kmcrypto_sha1", v, 0xB, []uint16{0xB, 0xC, 0x10})
	}
	for i := 0; i < c.Scale(40, 400); i++ {
		list := []uint16{pick()}
		for j := r.Intn(3); j > 0; j-- {
			list = append(list, pick())
		}
		addKM("kmcrypto_random", 1+r.Intn(2), pick(), list)
	}
}

func genSaneBPM(c *gal.Ctx) {
	r := c.Rng
	add := func(kind string, strict bool, v, nse int, flags uint32, pbet uint8, base0 uint32, vtdbar uint64, hasTXTE bool, cf uint32, nseg int) {
		b := &bootguard.BootGuard{Version: bgheader.BootGuardVersion(v)}
		bpm1 := &bgbootpolicy.Manifest{}
		bpm2 := &cbntbootpolicy.Manifest{}
		for i := 0; i < nse; i++ {
			se1 := bgbootpolicy.SE{Flags: bgbootpolicy.SEFlags(flags), PBETValue: bgbootpolicy.PBETValue(pbet)}
			se2 := cbntbootpolicy.SE{Flags: cbntbootpolicy.SEFlags(flags), PBETValue: cbntbootpolicy.PBETValue(pbet), DMAProtBase0: base0, VTdBAR: vtdbar}
			for j := 0; j < nseg; j++ {
				se1.IBBSegments = append(se1.IBBSegments, bgbootpolicy.IBBSegment{})
				se2.IBBSegments = append(se2.IBBSegments, cbntbootpolicy.IBBSegment{})
			}
			bpm1.SE = append(bpm1.SE, se1)
			bpm2.SE = append(bpm2.SE, se2)
		}
		if hasTXTE {
			bpm2.TXTE = &cbntbootpolicy.TXT{ControlFlags: cbntbootpolicy.TXTControlFlags(cf)}
		}
		b.VData.BGbpm, b.VData.CBNTbpm = bpm1, bpm2
		got := run2(func() (bool, error) {
			if strict {
				return b.StrictSaneBPMSecurityProps()
			}
			return b.SaneBPMSecurityProps()
		})
		d := map[string]interface{}{"check": "SaneBPMSecurityProps", "strict": strict, "version": v, "seElements": nse, "seFlags": flags, "pbet": pbet, "dmaProtBase0": base0, "vtdBar": vtdbar, "hasTXTE": hasTXTE, "txtControlFlags": cf, "ibbSegments": nseg, "got": got}
		idx := c.Add(kind, fmt.Sprintf("CSaneBpm %s %d %d %d %d %d %s %s %d %s", gal.Bool(strict), v, nse, flags, pbet, base0, gal.U(vtdbar), optZ(hasTXTE, uint64(cf)), nseg, got.lit()), d, true)
		// named disqualifying conditions
		var dq []string
		dma := flags&1 != 0
		if v == 2 {
			dma = dma || base0 != 0 || vtdbar != 0
		}
		if !dma {
			dq = append(dq, "DMA protection disabled")
		}
		if flags&4 == 0 {
			dq = append(dq, "authority measurement (PCR7) disabled")
		}
		if pbet&15 == 0 {
			dq = append(dq, "PBET is 0")
		}
		if nseg < 1 {
			dq = append(dq, "no IBB segments")
		}
		if v == 2 && hasTXTE && cf>>9&1 == 1 {
			dq = append(dq, "S-ACM not requested to extend static PCRs")
		}
		if strict && flags&8 == 0 {
			dq = append(dq, "strict: TPM failure does not leave hierarchies enabled")
		}
		if strict && v == 2 && hasTXTE && cf>>5&3 != 2 {
			dq = append(dq, "strict: memory scrubbing not by S-ACM")
		}
		if nse == 0 {
			dq = append(dq, "BPM has no SE element")
		}
		if v == 2 && !hasTXTE {
			dq = append(dq, "CBnT BPM has no TXT element (S-ACM static PCR extension cannot be established)")
		}
		if v != 1 && v != 2 {
			dq = append(dq, "unknown Boot Guard version")
		}
		switch {
		case got.Panic:
			c.OracleFail(idx, "SaneBPMSecurityProps panicked instead of giving a verdict: "+got.Msg, siteBG+":SaneBPMSecurityProps", d)
		case got.OK == (len(dq) == 0) && got.E1 == !got.OK:
			c.OracleOK()
		default:
			c.OracleFail(idx, fmt.Sprintf("SaneBPMSecurityProps: disqualifying %v, got %+v", dq, got), siteBG+":SaneBPMSecurityProps", d)
		}
	}
	goodCF := uint32(2 << 5)
	for _, strict := range []bool{false, true} {
		for _, v := range []int{1, 2} {
			add("sanebpm_good", strict, v, 1, 0xD, 0x0F, 0, 0, true, goodCF, 1)
			// all 2^4 flag assignments x pbet zero/non-zero x segments 0/1
			for fl := uint32(0); fl < 16; fl++ {
				for _, pb := range []uint8{0, 0x10, 5} {
					for _, ns := range []int{0, 1, 3} {
						add("sanebpm_flags", strict, v, 1, fl|uint32(r.Intn(4))<<4, pb, 0, 0, true, goodCF, ns)
					}
				}
			}
			for b := uint(0); b < 12; b++ {
				add("sanebpm_cf_1bit", strict, v, 1, 0xD, 0x0F, 0, 0, true, goodCF^(1<<b), 1)
			}
			add("sanebpm_dma_fallback", strict, v, 1, 0xC, 1, 0x1000, 0, true, goodCF, 1)
			add("sanebpm_dma_fallback", strict, v, 1, 0xC, 1, 0, 0xFED90000, true, goodCF, 1)
			add("sanebpm_no_txte", strict, v, 1, 0xD, 1, 0, 0, false, 0, 1)
			add("sanebpm_no_se", strict, v, 0, 0xD, 1, 0, 0, true, goodCF, 1)
		}
		add("sanebpm_unknown_version", strict, 0, 1, 0, 0, 0, 0, false, 0, 0)
	}
}
