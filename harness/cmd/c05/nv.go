package main

import (
	"bytes"
	"encoding/binary"
	"fmt"

	"github.com/9elements/converged-security-suite/v2/pkg/test"
	"github.com/9elements/converged-security-suite/v2/pkg/tools"
	"github.com/9elements/go-linux-lowlevel-hw/pkg/hwapi"
	"github.com/google/go-tpm/legacy/tpm2"
	tpm1 "github.com/google/go-tpm/tpm"
	"verifharness/gal"
)

const siteTPM = "pkg/test/tpm.go"

// TPM 2.0 digest sizes by TPM_ALG_ID (TCG algorithm registry), the oracle's table
var tpmDigest = map[uint16]int{0x0004: 20, 0x000B: 32, 0x000C: 48, 0x000D: 64, 0x0012: 32}

// accepted attribute words from Intel TXT SDG table J-2 as the code states them (explicit bit patterns)
const (
	aPPWrite        = 1 << 0
	aOwnerWrite     = 1 << 1
	aPolicyWrite    = 1 << 3
	aPolicyDelete   = 1 << 10
	aWriteSTClear   = 1 << 14
	aAuthRead       = 1 << 18
	aNoDA           = 1 << 25
	aWritten        = 1 << 29
	aPlatformCreate = 1 << 30
)

var wantAttr = [3]uint32{
	aPolicyWrite | aPolicyDelete | aAuthRead | aNoDA | aPlatformCreate | aWritten,
	aPolicyWrite | aPolicyDelete | aWriteSTClear | aAuthRead | aNoDA | aPlatformCreate,
	aOwnerWrite | aPolicyWrite | aAuthRead | aNoDA,
}
var baseSize = [3]int{38, 40, 38}
var idxName = [3]string{"PSIndexConfig", "AUXIndexConfig", "POIndexConfig"}

func genNVAttr(c *gal.Ctx) {
	r := c.Rng
	add := func(kind string, mask, want, opt uint32) {
		got := test.CheckTPM2NVAttrForC05Verif(mask, want, opt)
		d := map[string]interface{}{"check": "checkTPM2NVAttr", "mask": mask, "want": want, "optional": opt, "got": got}
		idx := c.Add(kind, fmt.Sprintf("CNVAttr %d %d %d %s", mask, want, opt, gal.Bool(got)), d, true)
		spec := mask|opt == want|opt
		if got == spec {
			c.OracleOK()
		} else {
			c.OracleFail(idx, fmt.Sprintf("checkTPM2NVAttr(%#x, %#x, %#x) = %v, the attribute word equals the wanted one up to the optional bits = %v", mask, want, opt, got, spec), siteTPM+":checkTPM2NVAttr", d)
		}
	}
	for w := 0; w < 3; w++ {
		want := wantAttr[w]
		add("nvattr_exact", want, want, aWritten)
		add("nvattr_exact", want^aWritten, want, aWritten)
		add("nvattr_zero", 0, want, aWritten)
		for b := uint(0); b < 32; b++ { // every single-bit deviation
			add("nvattr_1bit", want^(1<<b), want, aWritten)
		}
	}
	add("nvattr_odd_want", 0, 1, 0)
	add("nvattr_odd_want", 0, 0, 1)
	add("nvattr_odd_want", 1, 1, 0)
	add("nvattr_odd_want", 2, 3, 0)
	for i := 0; i < c.Scale(40, 400); i++ {
		m, w, o := r.Uint32(), r.Uint32(), r.Uint32()&r.Uint32()
		if r.Intn(3) == 0 {
			m = w
		}
		if r.Intn(5) == 0 {
			m = 0
		}
		add("nvattr_random", m, w, o)
	}
}

func nvPublicBlob(index uint32, nameAlg uint16, attrs uint32, hash []byte, dataSize uint16) []byte {
	var b bytes.Buffer
	binary.Write(&b, binary.BigEndian, index)
	binary.Write(&b, binary.BigEndian, nameAlg)
	binary.Write(&b, binary.BigEndian, attrs)
	binary.Write(&b, binary.BigEndian, uint16(len(hash)))
	b.Write(hash)
	binary.Write(&b, binary.BigEndian, dataSize)
	return b.Bytes()
}

var auxHash = []byte{0xEF, 0x9A, 0x26, 0xFC, 0x22, 0xD1, 0xAE, 0x8C, 0xEC, 0xFF, 0x59, 0xE9, 0x48, 0x1A, 0xC1, 0xEC, 0x53, 0x3D, 0xBE, 0x22, 0x8B, 0xEC, 0x6D, 0x17, 0x93, 0x0F, 0x4C, 0xB2, 0xCC, 0x5B, 0x97, 0x24}

func runIdx(which int, h *hw) verd {
	p := &test.PreSet{}
	switch which {
	case 0:
		return run3(func() (bool, error, error) { return test.PSIndexConfig(h, p) })
	case 1:
		return run3(func() (bool, error, error) { return test.AUXIndexConfig(h, p) })
	}
	return run3(func() (bool, error, error) { return test.POIndexConfig(h, p) })
}

func genNVIndex(c *gal.Ctx) {
	r := c.Rng
	k := test.GetNVConstsForC05Verif()
	idx20 := [3]uint32{k.PS20Index, k.AUX20Index, k.PO20Index}
	idx12 := [3]uint32{k.PS12Index, k.AUX12Index, k.PO12Index}

	add20 := func(kind string, which int, nameAlg uint16, attrs uint32, hash []byte, dataSize uint16, cut int) {
		blob := nvPublicBlob(idx20[which], nameAlg, attrs, hash, dataSize)
		if cut >= 0 && cut < len(blob) {
			blob = blob[:cut]
		}
		h := newHW()
		h.tpmVer = hwapi.TPMVersion20
		h.nvPub[idx20[which]] = blob
		got := runIdx(which, h)
		d := map[string]interface{}{"check": idxName[which], "tpm": "2.0", "nameAlg": nameAlg, "attributes": attrs, "hashLen": len(hash), "dataSize": dataSize, "blobLen": len(blob), "got": got}
		id := c.Add(kind, fmt.Sprintf("CNVIdx20 %d %s %s", which, gal.Bytes(blob), got.lit()), d, true)
		if cut >= 0 {
			if !got.Panic && !got.OK && got.E2 {
				c.OracleOK()
			} else {
				c.OracleFail(id, fmt.Sprintf("%s: truncated NV public must give an internal error, got %+v", idxName[which], got), siteTPM, d)
			}
			return
		}
		dg, knownAlg := tpmDigest[nameAlg]
		mult := 1
		if which == 1 {
			mult = 2
		}
		attrOK := attrs|aWritten == wantAttr[which]|aWritten
		sizeOK := knownAlg && int(dataSize) == dg*mult+baseSize[which]
		spec := attrOK && sizeOK
		switch {
		case exact(got, spec):
			c.OracleOK()
		case got.Panic:
			c.OracleFail(id, fmt.Sprintf("%s panicked instead of giving a verdict (name algorithm %#x): %s", idxName[which], nameAlg, got.Msg), siteTPM+":"+idxName[which], d)
		case nameAlg == 0x0012 && spec && !got.OK && got.E1 && !got.E2:
			c.OracleFailKnown(id, "C05-NVIndex-SM3-lib", idxName[which]+" rejects a correctly configured index whose name algorithm is SM3-256: go-tpm's Algorithm.Hash() does not know the algorithm", siteTPM+":"+idxName[which]+" (go-tpm legacy/tpm2 constants.go:hashInfo)", d)
		default:
			c.OracleFail(id, fmt.Sprintf("%s: spec accept=%v (attributes equal the required ones up to Written=%v, data size = base + digest size of the name algorithm=%v), got %+v", idxName[which], spec, attrOK, sizeOK, got), siteTPM+":"+idxName[which], d)
		}
	}
	for which := 0; which < 3; which++ {
		mult := 1
		if which == 1 {
			mult = 2
		}
		want := wantAttr[which]
		hash := make([]byte, 32)
		r.Read(hash)
		good := uint16(32*mult + baseSize[which])
		add20("nvidx20_good", which, 0x000B, want, hash, good, -1)
		add20("nvidx20_good", which, 0x000B, want|aWritten, hash, good, -1)
		add20("nvidx20_good_sha384", which, 0x000C, want, hash, uint16(48*mult+baseSize[which]), -1)
		add20("nvidx20_good_sha1", which, 0x0004, want, hash[:20], uint16(20*mult+baseSize[which]), -1)
		add20("nvidx20_sha1_gosize", which, 0x0004, want, hash[:20], uint16(28*mult+baseSize[which]), -1)
		add20("nvidx20_good_sha512", which, 0x000D, want, hash, uint16(64*mult+baseSize[which]), -1)
		add20("nvidx20_good_sm3", which, 0x0012, want, hash, uint16(32*mult+baseSize[which]), -1)
		add20("nvidx20_sm3_gosize", which, 0x0012, want, hash, uint16(48*mult+baseSize[which]), -1)
		for _, alg := range []uint16{0x27, 0x28, 0x29} { // SHA3: not a digest the TXT NV matrix knows
			add20("nvidx20_sha3", which, alg, want, hash, uint16(map[uint16]int{0x27: 32, 0x28: 48, 0x29: 64}[alg]*mult+baseSize[which]), -1)
		}
		add20("nvidx20_size_off", which, 0x000B, want, hash, good+1, -1)
		add20("nvidx20_size_off", which, 0x000B, want, hash, good-1, -1)
		add20("nvidx20_attr_zero", which, 0x000B, 0, hash, good, -1)
		for b := uint(0); b < 32; b++ {
			add20("nvidx20_attr_1bit", which, 0x000B, want^(1<<b), hash, good, -1)
		}
		for _, alg := range []uint16{0, 1, 3, 0x10, 0x12, 0x13, 0x14, 0x27, 0xFFFF} {
			add20("nvidx20_alg", which, alg, want, hash, good, -1)
		}
		for _, cut := range []int{0, 3, 5, 9, 11, 12, 20, 44, 45} {
			add20("nvidx20_truncated", which, 0x000B, want, hash, good, cut)
		}
		add20("nvidx20_nohash", which, 0x000B, want, nil, good, -1)
	}
	for i := 0; i < c.Scale(30, 300); i++ {
		which := r.Intn(3)
		alg := []uint16{0x4, 0xB, 0xB, 0xC, 0xD, 0x12, uint16(r.Intn(24))}[r.Intn(7)]
		attrs := wantAttr[which]
		if r.Intn(3) == 0 {
			attrs ^= 1 << uint(r.Intn(32))
		}
		hash := make([]byte, r.Intn(40))
		ds := uint16(r.Intn(200))
		if dg, ok := tpmDigest[alg]; ok && r.Intn(2) == 0 {
			ds = uint16(dg*(1+which%2) + baseSize[which])
		}
		add20("nvidx20_random", which, alg, attrs, hash, ds, -1)
	}

	// AUX index policy hash
	for i, hv := range [][]byte{auxHash, append([]byte{}, auxHash[:31]...), append(append([]byte{}, auxHash...), 0), nil} {
		hh := append([]byte{}, hv...)
		if i == 1 {
			hh = append(hh, 0x25)
		}
		blob := nvPublicBlob(idx20[1], 0x000B, wantAttr[1], hh, 104)
		h := newHW()
		h.tpmVer = hwapi.TPMVersion20
		h.nvPub[idx20[1]] = blob
		got := run3(func() (bool, error, error) { return test.AUXTPM2IndexCheckHash(h, &test.PreSet{}) })
		d := map[string]interface{}{"check": "AUXTPM2IndexCheckHash", "hash": hh, "got": got}
		id := c.Add("aux_hash", fmt.Sprintf("CAuxHash %s %s", gal.Bytes(blob), got.lit()), d, true)
		if exact(got, bytes.Equal(hh, auxHash)) {
			c.OracleOK()
		} else {
			c.OracleFail(id, fmt.Sprintf("AUXTPM2IndexCheckHash: hash equals the documented policy digest = %v, got %+v", bytes.Equal(hh, auxHash), got), siteTPM+":AUXTPM2IndexCheckHash", d)
		}
	}

	// TPM 1.2 branch
	add12 := func(kind string, which int, p1, p2 [3]byte, size, attrs uint32, rst, wst, wd bool) {
		var pub tpm1.NVDataPublic
		pub.Tag = 0x18
		pub.NVIndex = idx12[which]
		pub.PCRInfoRead.PCRsAtRelease.Size = 3
		pub.PCRInfoRead.PCRsAtRelease.Mask = p1
		pub.PCRInfoWrite.PCRsAtRelease.Size = 3
		pub.PCRInfoWrite.PCRsAtRelease.Mask = p2
		pub.Permission.Tag = 0x17
		pub.Permission.Attributes = tpm1.Permission(attrs)
		pub.ReadSTClear, pub.WriteSTClear, pub.WriteDefine = rst, wst, wd
		pub.Size = size
		var b bytes.Buffer
		if err := binary.Write(&b, binary.BigEndian, &pub); err != nil {
			panic(err)
		}
		h := newHW()
		h.tpmVer = hwapi.TPMVersion12
		h.nvPub[idx12[which]] = b.Bytes()
		got := runIdx(which, h)
		m := func(p [3]byte) uint32 { return uint32(p[0])<<16 | uint32(p[1])<<8 | uint32(p[2]) }
		d := map[string]interface{}{"check": idxName[which], "tpm": "1.2", "pcrRead": p1, "pcrWrite": p2, "size": size, "attributes": attrs, "readSTClear": rst, "writeSTClear": wst, "writeDefine": wd, "got": got}
		id := c.Add(kind, fmt.Sprintf("CNVIdx12 %d %d %d %d %d %s %s %s %s", which, m(p1), m(p2), size, attrs, gal.Bool(rst), gal.Bool(wst), gal.Bool(wd), got.lit()), d, true)
		// explicit accepted pattern per index (TXT SDG table J-1 as cited in tpm.go)
		var accept bool
		switch which {
		case 0:
			accept = m(p1) == 0 && m(p2) == 0 && size == 54 && attrs == 0x2000 && !rst && !wst
		case 1:
			accept = m(p1) == 0 && m(p2) == 0 && size == 64 && attrs == 0 && !rst && !wst
		case 2:
			accept = size == 54 && attrs == 0
		}
		switch {
		case got.Panic || got.E2:
			c.OracleFail(id, fmt.Sprintf("%s (TPM 1.2): unexpected %+v", idxName[which], got), siteTPM, d)
		case got.OK == accept && which != 2 && got.E1 != (!got.OK || (which == 0 && !wd) || (which == 1 && wd)):
			// accepted with / without the provisioning remark: PS wants WriteDefine set (remark when clear),
			// AUX wants it clear (remark when set)
			c.OracleFail(id, fmt.Sprintf("%s (TPM 1.2): WriteDefine=%v, verdict %+v: the WriteDefine remark is attached to the wrong state", idxName[which], wd, got), siteTPM, d)
		case got.OK == accept:
			c.OracleOK()
		default:
			c.OracleFail(id, fmt.Sprintf("%s (TPM 1.2): accepted pattern = %v, got %+v", idxName[which], accept, got), siteTPM+":"+idxName[which], d)
		}
	}
	z := [3]byte{}
	for which := 0; which < 3; which++ {
		sz := []uint32{54, 64, 54}[which]
		at := []uint32{0x2000, 0, 0}[which]
		for fl := 0; fl < 8; fl++ {
			add12("nvidx12_flags", which, z, z, sz, at, fl&1 != 0, fl&2 != 0, fl&4 != 0)
		}
		add12("nvidx12_dev", which, [3]byte{0, 0, 1}, z, sz, at, false, false, true)
		add12("nvidx12_dev", which, z, [3]byte{0x80, 0, 0}, sz, at, false, false, true)
		add12("nvidx12_dev", which, z, z, sz+1, at, false, false, true)
		add12("nvidx12_dev", which, z, z, sz-1, at, false, false, true)
		for b := uint(0); b < 32; b += 1 + uint(r.Intn(3)) {
			add12("nvidx12_attr_1bit", which, z, z, sz, at^(1<<b), false, false, which == 0)
		}
	}
}

// ---------- LCP policy validity (PS / PO index) ----------

func genLCP(c *gal.Ctx) {
	r := c.Rng
	k := test.GetNVConstsForC05Verif()
	run := func(po bool, data []byte, preset uint16) verd {
		h := newHW()
		h.tpmVer = hwapi.TPMVersion12
		p := &test.PreSet{LCPHash: tpm2.Algorithm(preset)}
		if po {
			h.nvPub[k.PO12Index] = []byte{0}
			h.nvVal[k.PO12Index] = data
			return run3(func() (bool, error, error) { return test.POIndexHasValidLCP(h, p) })
		}
		h.nvVal[k.PS12Index] = data
		return run3(func() (bool, error, error) { return test.PSIndexHasValidLCP(h, p) })
	}
	name := func(po bool) string {
		if po {
			return "POIndexHasValidLCP"
		}
		return "PSIndexHasValidLCP"
	}
	add1 := func(kind string, po bool, pol tools.LCPPolicy) {
		var b bytes.Buffer
		binary.Write(&b, binary.LittleEndian, pol)
		got := run(po, b.Bytes(), 0xB)
		hz := pol.PolicyHash == [20]byte{}
		d := map[string]interface{}{"check": name(po), "policy": pol, "got": got}
		id := c.Add(kind, fmt.Sprintf("CLcp1 %d %d %d %d %d %d %s %s", pol.Version, pol.HashAlg, pol.PolicyType, pol.SINITMinVersion, pol.PolicyControl, pol.MaxSINITMinVersion, gal.Bool(hz), got.lit()), d, true)
		spec := pol.Version < 0x204 && pol.HashAlg == 0 && (pol.PolicyType == 0 || pol.PolicyType == 1) && pol.SINITMinVersion != 0 &&
			!(pol.PolicyType == 0 && pol.PolicyControl == 0) && pol.MaxSINITMinVersion == 0 && !hz
		if pol.Version > 0x204 { // 0x205..0x2ff: not parseable
			spec = false
		}
		if exact(got, spec) {
			c.OracleOK()
		} else {
			c.OracleFail(id, fmt.Sprintf("%s: LCP_POLICY valid = %v, got %+v", name(po), spec, got), siteTPM+":"+name(po), d)
		}
	}
	add2 := func(kind string, po bool, pol tools.LCPPolicy2, preset uint16) {
		var b bytes.Buffer
		binary.Write(&b, binary.LittleEndian, pol)
		got := run(po, b.Bytes(), preset)
		d := map[string]interface{}{"check": name(po), "policy2": pol, "presetLCPHash": preset, "got": got}
		id := c.Add(kind, fmt.Sprintf("CLcp2 %d %d %d %d %d %d %s", preset, pol.Version, pol.HashAlg, pol.PolicyType, pol.LcpHashAlgMask, pol.LcpSignAlgMask, got.lit()), d, true)
		spec := pol.Version >= 0x300 && uint16(pol.HashAlg) == preset && (pol.PolicyType == 0 || pol.PolicyType == 1) && pol.LcpHashAlgMask != 0 && pol.LcpSignAlgMask != 0
		if exact(got, spec) {
			c.OracleOK()
		} else {
			c.OracleFail(id, fmt.Sprintf("%s: LCP_POLICY2 valid = %v, got %+v", name(po), spec, got), siteTPM+":"+name(po), d)
		}
	}
	g1 := tools.LCPPolicy{Version: 0x202, HashAlg: 0, PolicyType: 1, SINITMinVersion: 1, PolicyControl: 2, PolicyHash: [20]byte{1, 2, 3}}
	g2 := tools.LCPPolicy2{Version: 0x300, HashAlg: 0xB, PolicyType: 1, SINITMinVersion: 1, LcpHashAlgMask: 0x8, LcpSignAlgMask: 0x8, PolicyHash: [32]byte{9}}
	for _, po := range []bool{false, true} {
		add1("lcp1_good", po, g1)
		x := g1
		x.PolicyType = 0
		add1("lcp1_good_list", po, x)
		x.PolicyControl = 0
		add1("lcp1_dev", po, x)
		for _, v := range []uint16{0, 0x100, 0x203, 0x204, 0x205, 0x2ff} {
			if po && v > 0x204 {
				continue // PO reports a parse error as internal error; the gap is covered through PS
			}
			x = g1
			x.Version = v
			add1("lcp1_version", po, x)
		}
		x = g1
		x.HashAlg = 1
		add1("lcp1_dev", po, x)
		x = g1
		x.PolicyType = 2
		add1("lcp1_dev", po, x)
		x = g1
		x.SINITMinVersion = 0
		add1("lcp1_dev", po, x)
		x = g1
		x.MaxSINITMinVersion = 1
		add1("lcp1_dev", po, x)
		x = g1
		x.PolicyHash = [20]byte{}
		add1("lcp1_dev", po, x)
		x.PolicyHash[19] = 1
		add1("lcp1_dev", po, x)

		add2("lcp2_good_any", po, g2, 0xB)
		y := g2
		y.PolicyType = 0
		add2("lcp2_good_list", po, y, 0xB)
		y.PolicyType = 2
		add2("lcp2_dev", po, y, 0xB)
		y = g2
		y.Version = 0x301
		add2("lcp2_dev", po, y, 0xB)
		add2("lcp2_dev", po, g2, 0x4)
		y = g2
		y.HashAlg = 0x4
		add2("lcp2_dev", po, y, 0x4)
		y = g2
		y.LcpHashAlgMask = 0
		add2("lcp2_dev", po, y, 0xB)
		y = g2
		y.LcpSignAlgMask = 0
		add2("lcp2_dev", po, y, 0xB)
	}
	for i := 0; i < c.Scale(40, 400); i++ {
		po := r.Intn(2) == 0
		if r.Intn(2) == 0 {
			x := g1
			x.Version = []uint16{0x100, 0x202, 0x203, 0x204}[r.Intn(4)]
			x.HashAlg = uint8(r.Intn(8) / 7)
			x.PolicyType = tools.LCPPolicyType(r.Intn(3))
			x.SINITMinVersion = uint8(r.Intn(3))
			x.PolicyControl = uint32(r.Intn(3))
			x.MaxSINITMinVersion = uint8(r.Intn(5) / 4)
			if r.Intn(4) == 0 {
				x.PolicyHash = [20]byte{}
			}
			add1("lcp1_random", po, x)
		} else {
			y := g2
			y.Version = uint16(0x300 + r.Intn(3))
			y.HashAlg = tpm2.Algorithm([]uint16{0x4, 0xB}[r.Intn(2)])
			y.PolicyType = tools.LCPPolicyType(r.Intn(3))
			y.LcpHashAlgMask = uint16(r.Intn(3))
			y.LcpSignAlgMask = tools.LCPPol2Sig(r.Intn(3))
			add2("lcp2_random", po, y, []uint16{0x4, 0xB, 0xC}[r.Intn(3)])
		}
	}
}
