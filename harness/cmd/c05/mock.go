package main

import (
	"encoding/binary"
	"fmt"
	"io"
	"math/big"

	"github.com/9elements/go-linux-lowlevel-hw/pkg/hwapi"
	"verifharness/gal"
)

// hw is a programmable hwapi.LowLevelHardwareInterfaces: the embedded nil
// interface makes every method that a check is not supposed to use panic.
type hw struct {
	hwapi.LowLevelHardwareInterfaces
	segs    []seg             // readable physical memory
	msr     map[int64]uint64  // MSR values
	pci     map[string][]byte // "dev:off:len" -> bytes (direct reads of the host bridge, no enumeration)
	devs    []pciDev          // the visible PCI devices, in the order the enumeration hands them over
	enumErr bool              // the enumeration reports an error behind the last device
	pciLog  []string          // every config-space read that was made: "bb:dd.f@off"
	tpmVer  hwapi.TPMVersion
	nvPub   map[uint32][]byte
	nvVal   map[uint32][]byte
	// realNV: the NV part behaves like a TPM rather than like a lookup table - NVReadValue
	// hands over exactly the requested number of bytes and refuses a read beyond the end of the
	// index; an index that is not defined is reported with the error text of the TPM family
	// in use; nvPubFail: the NV public read of the index fails for another reason.
	realNV    bool
	nvPubFail map[uint32]bool
	sig       uint32
	sigFull   [4]uint32
}

type seg struct {
	base uint64
	data []byte
}

func newHW() *hw {
	return &hw{msr: map[int64]uint64{}, pci: map[string][]byte{}, nvPub: map[uint32][]byte{}, nvVal: map[uint32][]byte{}}
}

func (h *hw) mapMem(base uint64, data []byte) { h.segs = append(h.segs, seg{base, data}) }

func (h *hw) ReadPhysBuf(addr int64, buf []byte) error {
	a := uint64(addr)
	for _, s := range h.segs {
		if a >= s.base && a+uint64(len(buf)) <= s.base+uint64(len(s.data)) {
			copy(buf, s.data[a-s.base:])
			return nil
		}
	}
	return fmt.Errorf("mock: physical range %#x+%d not readable", a, len(buf))
}

func (h *hw) ReadPhys(addr int64, data hwapi.UintN) error {
	buf := make([]byte, data.Size())
	if err := h.ReadPhysBuf(addr, buf); err != nil {
		return err
	}
	switch d := data.(type) {
	case *hwapi.Uint8:
		*d = hwapi.Uint8(buf[0])
	case *hwapi.Uint16:
		*d = hwapi.Uint16(binary.LittleEndian.Uint16(buf))
	case *hwapi.Uint32:
		*d = hwapi.Uint32(binary.LittleEndian.Uint32(buf))
	case *hwapi.Uint64:
		*d = hwapi.Uint64(binary.LittleEndian.Uint64(buf))
	default:
		return fmt.Errorf("unknown UintN")
	}
	return nil
}

func (h *hw) ReadMSR(msr int64) []uint64 {
	v, ok := h.msr[msr]
	if !ok {
		panic(fmt.Sprintf("mock: unexpected MSR %#x", msr))
	}
	return []uint64{v}
}

// pciDev: one visible PCI device with its 256-byte config space (nil: the config space
// cannot be read). The mock knows nothing about which device numbers the code looks for.
type pciDev struct {
	Bus, Dev, Fn int
	Cfg          []byte
}

func (d pciDev) bdf() string { return fmt.Sprintf("%02x:%02x.%x", d.Bus, d.Dev, d.Fn) }

func (h *hw) PCIReadConfigSpace(d hwapi.PCIDevice, off int, n int) ([]byte, error) {
	for _, p := range h.devs {
		if p.Bus == d.Bus && p.Dev == d.Device && p.Fn == d.Function {
			h.pciLog = append(h.pciLog, fmt.Sprintf("%s@%#x", p.bdf(), off))
			if p.Cfg == nil || off < 0 || n < 0 || off+n > len(p.Cfg) {
				return nil, fmt.Errorf("mock: config space of %s not readable at %#x+%d", p.bdf(), off, n)
			}
			return append([]byte{}, p.Cfg[off:off+n]...), nil
		}
	}
	b, ok := h.pci[fmt.Sprintf("%d:%d:%d", d.Device, off, n)]
	if !ok {
		return nil, fmt.Errorf("mock: PCI config %d:%#x:%d not set", d.Device, off, n)
	}
	return append([]byte{}, b...), nil
}

// the walk hands the devices over in the order of h.devs and stops when the callback asks for it
// (hwapi: filepath.Walk over /sys/bus/pci/devices, SkipDir on abort)
func (h *hw) PCIEnumerateVisibleDevices(cb func(d hwapi.PCIDevice) (abort bool)) error {
	for _, p := range h.devs {
		if cb(hwapi.PCIDevice{Bus: p.Bus, Device: p.Dev, Function: p.Fn}) {
			return nil
		}
	}
	if h.enumErr {
		return fmt.Errorf("mock: PCI enumeration failed")
	}
	return nil
}

type nopRWC struct{}

func (nopRWC) Read(b []byte) (int, error)  { return 0, io.EOF }
func (nopRWC) Write(b []byte) (int, error) { return len(b), nil }
func (nopRWC) Close() error                { return nil }

func (h *hw) NewTPM() (*hwapi.TPM, error) {
	return &hwapi.TPM{Version: h.tpmVer, RWC: nopRWC{}}, nil
}
func (h *hw) ReadNVPublic(t *hwapi.TPM, index uint32) ([]byte, error) {
	if h.nvPubFail[index] {
		return nil, fmt.Errorf("mock: NV public %#x: transmission failed", index)
	}
	b, ok := h.nvPub[index]
	if !ok {
		if h.realNV && h.tpmVer == hwapi.TPMVersion12 {
			return nil, fmt.Errorf("mock: NV public %#x: tpm: the index to a PCR, DIR or other register is incorrect", index)
		}
		return nil, fmt.Errorf("mock: NV public %#x: error code 0xb", index)
	}
	return append([]byte{}, b...), nil
}
func (h *hw) NVReadValue(t *hwapi.TPM, index uint32, password string, size, offhandle uint32) ([]byte, error) {
	b, ok := h.nvVal[index]
	if !ok {
		return nil, fmt.Errorf("mock: NV value %#x not present", index)
	}
	if h.realNV {
		if uint64(size) > uint64(len(b)) {
			return nil, fmt.Errorf("mock: NV read of %d bytes from index %#x, which holds %d", size, index, len(b))
		}
		return append([]byte{}, b[:size]...), nil
	}
	return append([]byte{}, b...), nil
}
func (h *hw) CPUSignature() uint32 { return h.sig }
func (h *hw) CPUSignatureFull() (uint32, uint32, uint32, uint32) {
	return h.sigFull[0], h.sigFull[1], h.sigFull[2], h.sigFull[3]
}

// ---------- verdict projection ----------

type verd struct {
	Panic bool   `json:"panic,omitempty"`
	OK    bool   `json:"ok"`
	E1    bool   `json:"err,omitempty"`
	E2    bool   `json:"ierr,omitempty"`
	Msg   string `json:"msg,omitempty"`
}

func (v verd) lit() string {
	if v.Panic {
		return "VPanic"
	}
	return fmt.Sprintf("(V %s %s %s)", gal.Bool(v.OK), gal.Bool(v.E1), gal.Bool(v.E2))
}

func (v verd) isPass() bool { return !v.Panic && v.OK && !v.E1 && !v.E2 }

// run3 runs a (bool, error, error) check, recovering panics.
func run3(f func() (bool, error, error)) verd {
	var v verd
	p, msg := gal.Recover(func() {
		ok, e1, e2 := f()
		v = verd{OK: ok, E1: e1 != nil, E2: e2 != nil}
		if e1 != nil {
			v.Msg = e1.Error()
		} else if e2 != nil {
			v.Msg = e2.Error()
		}
	})
	if p {
		return verd{Panic: true, Msg: msg}
	}
	return v
}

// run2 runs a (bool, error) verdict function.
func run2(f func() (bool, error)) verd {
	return run3(func() (bool, error, error) { ok, e := f(); return ok, e, nil })
}

// ---------- literals ----------

func optZ(present bool, v uint64) string { return gal.OptionS(present, gal.U(v)) }

func bi(v uint64) *big.Int { return new(big.Int).SetUint64(v) }

var two32 = new(big.Int).Lsh(big.NewInt(1), 32)
var two64 = new(big.Int).Lsh(big.NewInt(1), 64)
