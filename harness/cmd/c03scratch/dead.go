package main

import (
	"context"
	"crypto/sha1"
	"fmt"
	"os"
	"runtime"
	"time"

	"github.com/9elements/converged-security-suite/v2/pkg/bootflow/subsystems/trustchains/tpm"
	"github.com/9elements/converged-security-suite/v2/pkg/bootflow/subsystems/trustchains/tpm/pcrbruteforcer"
	"github.com/google/go-tpm/legacy/tpm2"
)

func deadlockTest() {
	ctx := context.Background()
	const reg = 0x0000000200108681
	nd := 7
	if len(os.Args) > 2 {
		fmt.Sscan(os.Args[2], &nd)
	}
	gmp := 5
	if len(os.Args) > 3 {
		fmt.Sscan(os.Args[3], &gmp)
	}
	dec := uint64(30000)
	t := boot(reg, 0)
	d := sha1.Sum([]byte("dup"))
	for i := 0; i < nd; i++ {
		t.TPMExtend(ctx, 0, tpm2.AlgSHA1, d[:], nil)
	}
	t2 := boot(reg-dec, 0)
	for i := 0; i < nd-1; i++ {
		t2.TPMExtend(ctx, 0, tpm2.AlgSHA1, d[:], nil)
	}
	target := append([]byte(nil), t2.PCRValues[0][tpm2.AlgSHA1]...)
	runtime.GOMAXPROCS(gmp)
	s := pcrbruteforcer.DefaultSettingsReproducePCR0()
	s.MaxACMPolicyLinearDistance = 100000
	done := make(chan struct{})
	t0 := time.Now()
	go func() {
		r, err := pcrbruteforcer.ReproduceExpectedPCR0(ctx, t.CommandLog, tpm2.AlgSHA1, target, s)
		fmt.Println("result", r != nil, err, time.Since(t0))
		close(done)
	}()
	select {
	case <-done:
	case <-time.After(60 * time.Second):
		fmt.Println("HANG: no answer after 60s; goroutines:", runtime.NumGoroutine())
		buf := make([]byte, 1<<16)
		n := runtime.Stack(buf, true)
		os.Stdout.Write(buf[:n])
	}
	_ = tpm.NewTPM
}
