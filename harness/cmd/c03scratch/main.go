package main

import (
	"context"
	"crypto/sha1"
	"encoding/binary"
	"fmt"
	"os"
	"runtime"
	"sync"
	"time"

	"github.com/9elements/converged-security-suite/v2/pkg/bootflow/actors"
	"github.com/9elements/converged-security-suite/v2/pkg/bootflow/actors/intelactors"
	"github.com/9elements/converged-security-suite/v2/pkg/bootflow/bootengine"
	"github.com/9elements/converged-security-suite/v2/pkg/bootflow/datasources"
	"github.com/9elements/converged-security-suite/v2/pkg/bootflow/steps/commonsteps"
	"github.com/9elements/converged-security-suite/v2/pkg/bootflow/steps/intelsteps"
	"github.com/9elements/converged-security-suite/v2/pkg/bootflow/steps/tpmsteps"
	"github.com/9elements/converged-security-suite/v2/pkg/bootflow/subsystems/trustchains/intelpch"
	"github.com/9elements/converged-security-suite/v2/pkg/bootflow/subsystems/trustchains/tpm"
	"github.com/9elements/converged-security-suite/v2/pkg/bootflow/subsystems/trustchains/tpm/pcrbruteforcer"
	"github.com/9elements/converged-security-suite/v2/pkg/bootflow/systemartifacts/biosimage"
	"github.com/9elements/converged-security-suite/v2/pkg/bootflow/systemartifacts/txtpublic"
	"github.com/9elements/converged-security-suite/v2/pkg/bootflow/types"
	"github.com/9elements/converged-security-suite/v2/pkg/registers"
	"github.com/9elements/converged-security-suite/v2/pkg/tpmeventlog"
	"github.com/9elements/converged-security-suite/v2/testdata/firmware"
	"github.com/google/go-tpm/legacy/tpm2"
)

func flow(extra int) types.Flow {
	steps := types.Steps{
		commonsteps.SetActor(intelactors.PCH{}),
		commonsteps.SetActor(intelactors.ACM{}),
		tpmsteps.InitTPM(3, true),
		intelsteps.MeasurePCR0DATA{},
		commonsteps.SetActor(actors.PEI{}),
	}
	for i := 0; i < extra; i++ {
		steps = append(steps, tpmsteps.Measure(0, tpmeventlog.EV_S_CRTM_VERSION, datasources.Bytes([]byte{byte(i), 1, 2, 3})))
	}
	return types.NewFlow("verif-flow", steps)
}

func boot(acm uint64, extra int) *tpm.TPM {
	ctx := context.Background()
	t := tpm.NewTPM()
	st := types.NewState()
	st.IncludeSubSystem(t)
	st.IncludeSubSystem(intelpch.NewPCH())
	st.IncludeSystemArtifact(biosimage.New(firmware.FakeIntelFirmware))
	st.IncludeSystemArtifact(&txtpublic.TXTPublic{Registers: registers.Registers{registers.ParseACMPolicyStatusRegister(acm)}})
	st.SetFlow(flow(extra))
	p := bootengine.NewBootProcess(st)
	p.Finish(ctx)
	if err := p.Log.Error(); err != nil {
		panic(err)
	}
	return t
}

func main() {
	if len(os.Args) > 1 && os.Args[1] == "dead" {
		deadlockTest()
		return
	}
	ctx := context.Background()
	const reg = 0x0000000200108681
	t := boot(reg, 3)
	for i, e := range t.CommandLog {
		fmt.Println(i, e.String(), e.CauseCoordinates.StepIndex)
	}
	// target: decrement 2, locality 3
	fm := pcrbruteforcer.VerifFilteredMeasurements(t.CommandLog, tpm2.AlgSHA1)
	fmt.Println("filtered", len(fm))
	act := fm[0].CauseAction
	fmt.Printf("%T\n", act)
	t2 := boot(reg-2, 3)
	target := t2.PCRValues[0][tpm2.AlgSHA1]
	fmt.Printf("target %x\n", target)
	for _, gmp := range []int{1, 2, 3, 4, 5, 16} {
		runtime.GOMAXPROCS(gmp)
		s := pcrbruteforcer.DefaultSettingsReproducePCR0()
		s.MaxACMPolicyLinearDistance = 2
		t0 := time.Now()
		r, err := pcrbruteforcer.ReproduceExpectedPCR0(ctx, t.CommandLog, tpm2.AlgSHA1, target, s)
		fmt.Println("GOMAXPROCS", gmp, "limit 2 decrement 2 ->", r != nil, err, time.Since(t0))
		if r != nil {
			fmt.Printf("   %+v acm=%x\n", r, r.ACMPolicyStatus.Raw())
		}
	}
	// hook: record tried decrements
	for _, gmp := range []int{1, 2, 4, 8} {
		runtime.GOMAXPROCS(gmp)
		for _, limit := range []int{0, 1, 2, 3, 5, 8} {
			var mu sync.Mutex
			tried := map[uint64]int{}
			init := func() ([]byte, any, error) {
				b := make([]byte, 8)
				binary.LittleEndian.PutUint64(b, 1000)
				return b, nil, nil
			}
			check := func(_ any, d []byte) (bool, error) {
				mu.Lock()
				tried[1000-binary.LittleEndian.Uint64(d)]++
				mu.Unlock()
				return false, nil
			}
			r, err := pcrbruteforcer.VerifLinearSearch(limit, nil, init, check)
			mx := -1
			for k := range tried {
				if int(k) > mx {
					mx = int(k)
				}
			}
			fmt.Println("hook GOMAXPROCS", gmp, "limit", limit, "tried", len(tried), "max", mx, r, err)
		}
	}
	_ = sha1.New
}
