package main

import (
	"fmt"
	"math/rand"

	"github.com/9elements/converged-security-suite/v2/pkg/bootflow/systemartifacts/biosimage"
	"github.com/9elements/converged-security-suite/v2/pkg/diff"
	pkgbytes "github.com/linuxboot/fiano/pkg/bytes"
)

type noMapper struct{}

func (noMapper) Resolve(_ interface{ }, ranges ...pkgbytes.Range) (pkgbytes.Ranges, error) { return ranges, nil }

func main() {
	r := rand.New(rand.NewSource(1))
	for _, n := range []int{0, 1, 10, 100, 4096} {
		g := make([]byte, n)
		b := make([]byte, n)
		r.Read(g)
		r.Read(b)
		func() {
			defer func() { if x := recover(); x != nil { fmt.Println("panic", x) } }()
			rep, err := diff.Analyze(pkgbytes.Ranges{{Offset: 0x100000000 - uint64(n), Length: uint64(n)}}, biosimage.PhysMemMapper{}, nil, biosimage.New(g), biosimage.New(b))
			fmt.Println(n, err, len(rep.Entries), rep.BytesChanged, rep.HammingDistance)
			if len(rep.Entries) > 0 { fmt.Println(rep.Entries[0].Nodes) }
		}()
	}
	z := make([]byte, 16)
	_, err := diff.Analyze(nil, biosimage.PhysMemMapper{}, nil, biosimage.New(z), biosimage.New(z))
	fmt.Println("zero", err)
}
