// Package gal is the shared part of the correspondence harness: it prints
// Gallina literals, writes the Cases_*.v shards and the per-run report that the
// ./check driver reads.
package gal

import (
	"encoding/json"
	"flag"
	"fmt"
	"hash/fnv"
	"math/big"
	"math/rand"
	"os"
	"path/filepath"
	"sort"
	"strings"
)

// ---------- Gallina literals ----------

func Z(v int64) string {
	if v < 0 {
		return fmt.Sprintf("(%d)", v)
	}
	return fmt.Sprintf("%d", v)
}

func U(v uint64) string { return new(big.Int).SetUint64(v).String() }

func Big(v *big.Int) string {
	if v.Sign() < 0 {
		return "(" + v.String() + ")"
	}
	return v.String()
}

func Nat(v int) string { return fmt.Sprintf("%d%%nat", v) }

func Bool(b bool) string {
	if b {
		return "true"
	}
	return "false"
}

func List(items []string) string { return "[" + strings.Join(items, "; ") + "]" }

func ZList64(v []int64) string {
	s := make([]string, len(v))
	for i, x := range v {
		s[i] = Z(x)
	}
	return List(s)
}

func UList(v []uint64) string {
	s := make([]string, len(v))
	for i, x := range v {
		s[i] = U(x)
	}
	return List(s)
}

func IntList(v []int) string {
	s := make([]string, len(v))
	for i, x := range v {
		s[i] = Z(int64(x))
	}
	return List(s)
}

func Bytes(v []byte) string {
	s := make([]string, len(v))
	for i, x := range v {
		s[i] = fmt.Sprintf("%d", x)
	}
	return List(s)
}

func BoolList(v []bool) string {
	s := make([]string, len(v))
	for i, x := range v {
		s[i] = Bool(x)
	}
	return List(s)
}

func Pair(a, b string) string { return "(" + a + ", " + b + ")" }

func OptionS(present bool, v string) string {
	if !present {
		return "None"
	}
	return "(Some " + v + ")"
}

// String renders a Go string as a list of byte values (models use list Z).
func Str(s string) string { return Bytes([]byte(s)) }

// ---------- digest shared with Lib/Base.v ----------

const DigestMask = uint64(2305843009213693951) // 2^61-1

// DStep is Lib/Base.v dstep: the low 61 bits of h*1000003 + x + 1 (x >= 0).
// uint64 wrap-around keeps the low 64 bits exact, so no big integers are needed.
func DStep(h uint64, x uint64) uint64 {
	return (h*1000003 + x + 1) & DigestMask
}

// ---------- run context ----------

type OracleFailure struct {
	Case  int         `json:"case"`            // index into the case list, -1 if not tied to a case
	What  string      `json:"what"`            // which clause of the property fails
	Site  string      `json:"site,omitempty"`  // where in the implementation
	Input interface{} `json:"input"`           // closed input that replays it
	Known string      `json:"known,omitempty"` // id in KNOWN_FINDINGS.json when it matches a listed finding
}

type Probe struct {
	ID         string `json:"id"`
	Reproduced bool   `json:"reproduced"`
	What       string `json:"what"`
}

type Report struct {
	Property          string            `json:"property"`
	Seed              int64             `json:"seed"`
	Tier              string            `json:"tier"`
	Cases             int               `json:"cases"`
	DistinctNontriv   int               `json:"distinct_nontrivial"`
	Rule              string            `json:"rule"`
	Distribution      map[string]int    `json:"distribution"`
	Samples           []interface{}     `json:"samples"`
	Shards            []string          `json:"shards"`
	ShardSizes        []int             `json:"shard_sizes"`
	OracleChecks      int               `json:"oracle_checks"`
	OracleFailures    []OracleFailure   `json:"oracle_failures"`
	Probes            []Probe           `json:"probes"`
	CaseDescr         []string          `json:"-"`
	Notes             []string          `json:"notes,omitempty"`
	Extra             map[string]interface{} `json:"extra,omitempty"`
}

type Ctx struct {
	Prop    string
	Seed    int64
	Tier    string
	OutDir  string
	Rng     *rand.Rand
	Rep     Report
	cases   []string
	descr   []string
	seen    map[uint64]bool
	header  string
	perShard int
}

// New parses the common flags: -seed -tier -out.
func New(prop string, header string, perShard int) *Ctx {
	seed := flag.Int64("seed", 1, "PRNG seed")
	tier := flag.String("tier", "quick", "quick|thorough")
	out := flag.String("out", "../coq/gen", "output directory for Cases_*.v and the report")
	flag.Parse()
	c := &Ctx{Prop: prop, Seed: *seed, Tier: *tier, OutDir: *out, header: header, perShard: perShard}
	c.Rng = rand.New(rand.NewSource(*seed))
	c.seen = map[uint64]bool{}
	c.Rep = Report{Property: prop, Seed: *seed, Tier: *tier, Distribution: map[string]int{}, Extra: map[string]interface{}{}}
	return c
}

// Begin records the closed input that is about to be run on the real code in
// <out>/<prop>.current.json. A panic in a goroutine started by the code under
// test cannot be recovered and kills the harness; the driver then reports this
// input as the failing input of the crash.
func (c *Ctx) Begin(what, site string, input interface{}) {
	b, err := json.Marshal(map[string]interface{}{"what": what, "site": site, "input": input})
	if err != nil {
		return
	}
	_ = os.WriteFile(filepath.Join(c.OutDir, c.Prop+".current.json"), b, 0o644)
}

func (c *Ctx) Thorough() bool { return c.Tier == "thorough" }

// Scale returns q in the quick tier and t in the thorough tier.
func (c *Ctx) Scale(q, t int) int {
	if c.Thorough() {
		return t
	}
	return q
}

// Add registers one case: kind is counted in the distribution, lit is the
// Gallina term of type `case`, descr is a human-readable closed description
// (JSON) kept for replays. nontrivial says whether the case counts towards
// distinct_nontrivial. Returns the case index.
func (c *Ctx) Add(kind string, lit string, descr interface{}, nontrivial bool) int {
	idx := len(c.cases)
	c.cases = append(c.cases, lit)
	d, _ := json.Marshal(descr)
	c.descr = append(c.descr, string(d))
	c.Rep.Distribution[kind]++
	if nontrivial {
		h := fnv.New64a()
		h.Write([]byte(lit))
		k := h.Sum64()
		if !c.seen[k] {
			c.seen[k] = true
			c.Rep.DistinctNontriv++
		}
	}
	if len(c.Rep.Samples) < 6 && (idx%97 == 0 || len(c.Rep.Samples) == 0) {
		c.Rep.Samples = append(c.Rep.Samples, map[string]interface{}{"kind": kind, "case": descr})
	}
	return idx
}

func (c *Ctx) Count(key string) { c.Rep.Distribution[key]++ }

func (c *Ctx) OracleOK() { c.Rep.OracleChecks++ }

func (c *Ctx) OracleFail(caseIdx int, what, site string, input interface{}) {
	c.Rep.OracleChecks++
	c.Rep.OracleFailures = append(c.Rep.OracleFailures, OracleFailure{Case: caseIdx, What: what, Site: site, Input: input})
}

func (c *Ctx) OracleFailKnown(caseIdx int, known, what, site string, input interface{}) {
	c.Rep.OracleChecks++
	c.Rep.OracleFailures = append(c.Rep.OracleFailures, OracleFailure{Case: caseIdx, What: what, Site: site, Input: input, Known: known})
}

func (c *Ctx) Probe(id string, reproduced bool, what string) {
	c.Rep.Probes = append(c.Rep.Probes, Probe{ID: id, Reproduced: reproduced, What: what})
}

// Finish writes the shards, the case descriptions and the report.
func (c *Ctx) Finish(rule string) {
	c.Rep.Rule = rule
	c.Rep.Cases = len(c.cases)
	if err := os.MkdirAll(c.OutDir, 0o755); err != nil {
		panic(err)
	}
	old, _ := filepath.Glob(filepath.Join(c.OutDir, "Cases_"+c.Prop+"_*"))
	for _, f := range old {
		os.Remove(f)
	}
	per := c.perShard
	if per <= 0 {
		per = 500
	}
	for start, shard := 0, 0; start < len(c.cases) || shard == 0; start, shard = start+per, shard+1 {
		end := start + per
		if end > len(c.cases) {
			end = len(c.cases)
		}
		name := fmt.Sprintf("Cases_%s_%d", c.Prop, shard)
		var b strings.Builder
		b.WriteString("(* generated by harness/cmd/" + strings.ToLower(c.Prop) + " — do not edit *)\n")
		b.WriteString(c.header + "\n")
		b.WriteString("Definition cases : list case := [\n")
		for i := start; i < end; i++ {
			b.WriteString("  " + c.cases[i])
			if i+1 < end {
				b.WriteString(";")
			}
			b.WriteString("\n")
		}
		b.WriteString("].\n")
		b.WriteString("Definition M := Eval vm_compute in mismatches cases.\nPrint M.\n")
		if err := os.WriteFile(filepath.Join(c.OutDir, name+".v"), []byte(b.String()), 0o644); err != nil {
			panic(err)
		}
		c.Rep.Shards = append(c.Rep.Shards, name)
		c.Rep.ShardSizes = append(c.Rep.ShardSizes, end-start)
		if end >= len(c.cases) {
			break
		}
	}
	// case descriptions, one JSON per line
	if err := os.WriteFile(filepath.Join(c.OutDir, c.Prop+".cases.jsonl"), []byte(strings.Join(c.descr, "\n")+"\n"), 0o644); err != nil {
		panic(err)
	}
	// stable key order for the distribution is provided by encoding/json (sorted map keys)
	keys := make([]string, 0, len(c.Rep.Distribution))
	for k := range c.Rep.Distribution {
		keys = append(keys, k)
	}
	sort.Strings(keys)
	out, err := json.MarshalIndent(c.Rep, "", " ")
	if err != nil {
		panic(err)
	}
	if err := os.WriteFile(filepath.Join(c.OutDir, c.Prop+".harness.json"), out, 0o644); err != nil {
		panic(err)
	}
	fmt.Printf("harness %s: %d cases in %d shard(s), %d distinct non-trivial, %d oracle checks, %d oracle failures\n",
		c.Prop, len(c.cases), len(c.Rep.Shards), c.Rep.DistinctNontriv, c.Rep.OracleChecks, len(c.Rep.OracleFailures))
}

// Recover runs f and reports whether it panicked (with the panic value rendered).
func Recover(f func()) (panicked bool, msg string) {
	defer func() {
		if r := recover(); r != nil {
			panicked = true
			msg = fmt.Sprint(r)
		}
	}()
	f()
	return
}

// Str2 renders a Go string as a Coq string literal (string_scope).
func Str2(s string) string { return "\"" + strings.ReplaceAll(s, "\"", "\"\"") + "\"" }
