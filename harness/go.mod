module verifharness

go 1.22

require github.com/9elements/converged-security-suite/v2 v2.0.0

replace github.com/9elements/converged-security-suite/v2 => /repo

require (
	github.com/9elements/go-linux-lowlevel-hw v0.0.0-20240812193855-7e0a5df7e2d0
	github.com/alecthomas/kong v0.7.1
	github.com/bxcodec/faker v2.0.1+incompatible
	github.com/davecgh/go-spew v1.1.1
	github.com/digitalocean/go-smbios v0.0.0-20180907143718-390a4f403a8e
	github.com/edsrzf/mmap-go v1.1.0
	github.com/facebookincubator/go-belt v0.0.0-20230703220829-b6b46c95ec1f
	github.com/fearful-symmetry/gomsr v0.0.1
	github.com/go-ng/slices v0.0.0-20230703171042-6195d35636a2
	github.com/go-ng/xmath v0.0.0-20230704233441-028f5ea62335
	github.com/golang-collections/go-datastructures v0.0.0-20150211160725-59788d5eb259
	github.com/google/go-attestation v0.5.2-0.20250122162710-c7aee80c5d76
	github.com/google/go-tpm v0.9.3
	github.com/google/uuid v1.3.0
	github.com/hashicorp/go-multierror v1.1.1
	github.com/linuxboot/fiano v1.2.1-0.20250121191917-5620ca1697c5
	github.com/logrusorgru/aurora v2.0.3+incompatible
	github.com/marcoguerri/go-tpm-tcti v0.0.0-20210425104733-8e8c8fe68e60
	github.com/sirupsen/logrus v1.9.3
	github.com/steakknife/hamming v0.0.0-20180906055917-c99c65617cd3
	github.com/stretchr/testify v1.8.4
	github.com/tidwall/pretty v1.2.1
	github.com/tjfoc/gmsm v1.4.1
	github.com/ulikunitz/xz v0.5.11
	github.com/xaionaro-facebook/go-dmidecode v0.0.0-20220413144237-c42d5bef2498
	github.com/xaionaro-go/bytesextra v0.0.0-20220103144954-846e454ddea9
	github.com/xaionaro-go/unhash v0.0.0-20230427202706-0195a574c620
	github.com/xaionaro-go/unsafetools v0.0.0-20210722164218-75ba48cf7b3c
	golang.org/x/crypto v0.31.0
	golang.org/x/exp v0.0.0-20230626212559-97b1e661b5df
	golang.org/x/term v0.27.0
	gopkg.in/yaml.v3 v3.0.1
)

require (
	github.com/DataDog/gostackparse v0.6.0 // indirect
	github.com/dustin/go-humanize v1.0.0 // indirect
	github.com/go-ng/sort v0.0.0-20220617173827-2cc7cd04f7c7 // indirect
	github.com/go-ng/xatomic v0.0.0-20230519181013-85c0ec87e55f // indirect
	github.com/go-ng/xsort v0.0.0-20220617174223-1d146907bccc // indirect
	github.com/godbus/dbus/v5 v5.0.4 // indirect
	github.com/google/certificate-transparency-go v1.1.2 // indirect
	github.com/google/go-tspi v0.3.0 // indirect
	github.com/hashicorp/errwrap v1.0.0 // indirect
	github.com/intel-go/cpuid v0.0.0-20220614022739-219e067757cb // indirect
	github.com/jedib0t/go-pretty/v6 v6.4.6 // indirect
	github.com/mattn/go-runewidth v0.0.13 // indirect
	github.com/pierrec/lz4 v2.6.1+incompatible // indirect
	github.com/pmezard/go-difflib v1.0.0 // indirect
	github.com/rivo/uniseg v0.2.0 // indirect
	golang.org/x/sync v0.10.0 // indirect
	golang.org/x/sys v0.29.0 // indirect
	golang.org/x/text v0.21.0 // indirect
)
