#!/bin/sh
# Offline setup after a fresh restore: build the whole Coq development (full .vo),
# refuse forbidden vernacular, pre-build the Go harness binaries.
set -e
ulimit -s unlimited 2>/dev/null || true
cd "$(dirname "$0")"
export GOFLAGS=-mod=mod GOPROXY=off GOSUMDB=off GOTOOLCHAIN=local
if grep -rnE '\b(Admitted|admit|Axiom|Parameter|Conjecture|Admit Obligations)\b|Unset Guard|bypass_check|type-in-type|impredicative-set' coq/Lib coq/Spec coq/Model coq/Proofs coq/Props coq/templates --include='*.v' | grep -v '^\S*:[0-9]*:\s*(\*' ; then
  echo "forbidden vernacular found" >&2; exit 1
fi
python3 lib/mkspec.py --check || { echo "coq/Spec/RegisterSpec.v is out of sync with spec/registers.json" >&2; exit 1; }
mkdir -p coq/gen evidence replays harness/bin
(cd coq && ./mk.sh -k) || echo "WARNING: some Coq files did not build; the checks depending on them will report it" >&2
cp /repo/go.sum harness/go.sum
(cd harness && for d in cmd/*/; do n=$(basename $d); go build -tags verif -o bin/$n ./cmd/$n || echo "WARNING: harness $n does not build" >&2; done)
(cd tools/go2coq && go build -o ../../harness/bin/go2coq . )
(cd tools/goconsts && go build -o ../../harness/bin/goconsts . )
echo "setup ok"
