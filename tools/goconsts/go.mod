module goconsts

go 1.22
