// go2coq: translator from a whitelisted subset of Go (shift/mask accessors on
// integer register types, "struct.field = expr" decoders, field-description
// tables) to terms of the deep embedding in coq/Lib/SymBits.v.
//
// It is re-run on every ./check C04 / C16, so the generated Coq file always
// reflects what /repo says NOW; the obligations in coq/gen/Oblig_C04.v are then
// re-checked against the frozen specification coq/Spec/RegisterSpec.v.
//
// Anything outside the subset is reported in the generated `untranslated` list
// (never silently dropped); the obligation file fails on entries that the
// specification does not explicitly allow.
package main

import (
	"flag"
	"fmt"
	"go/ast"
	"go/constant"
	"go/importer"
	"go/parser"
	"go/token"
	"go/types"
	"os"
	"path/filepath"
	"sort"
	"strings"
)

type accessor struct {
	name  string
	width int
	val   string // Coq term of type value
	src   string
}

type table struct {
	name   string
	bits   int
	fields []struct {
		name string
		off  int64
	}
}

var (
	accessors    []accessor
	tables       []table
	untranslated []string
	regWidths    = map[string]int{}
)

type fakeImporter struct{ def types.Importer }

func (f fakeImporter) Import(path string) (*types.Package, error) {
	if p, err := f.def.Import(path); err == nil {
		return p, nil
	}
	// unknown (third-party) packages: an empty package; uses become invalid types, which is fine
	// for the whitelisted code (it only computes on local integers)
	name := path[strings.LastIndex(path, "/")+1:]
	p := types.NewPackage(path, name)
	p.MarkComplete()
	return p, nil
}

type pkgInfo struct {
	fset  *token.FileSet
	files []*ast.File
	info  *types.Info
	pkg   *types.Package
}

func load(dir string) *pkgInfo {
	fset := token.NewFileSet()
	pkgs, err := parser.ParseDir(fset, dir, func(fi os.FileInfo) bool {
		return !strings.HasSuffix(fi.Name(), "_test.go") && !strings.HasSuffix(fi.Name(), "_verif.go")
	}, parser.ParseComments)
	if err != nil {
		fatal("parse %s: %v", dir, err)
	}
	var files []*ast.File
	var names []string
	for _, p := range pkgs {
		for n := range p.Files {
			names = append(names, n)
		}
	}
	sort.Strings(names)
	for _, p := range pkgs {
		_ = p
	}
	for _, n := range names {
		for _, p := range pkgs {
			if f, ok := p.Files[n]; ok {
				files = append(files, f)
			}
		}
	}
	info := &types.Info{Types: map[ast.Expr]types.TypeAndValue{}, Defs: map[*ast.Ident]types.Object{}, Uses: map[*ast.Ident]types.Object{}}
	conf := types.Config{Importer: fakeImporter{importer.Default()}, Error: func(error) {}, FakeImportC: true}
	pkg, _ := conf.Check(dir, fset, files, info)
	return &pkgInfo{fset, files, info, pkg}
}

func fatal(f string, a ...interface{}) {
	fmt.Fprintf(os.Stderr, "go2coq: "+f+"\n", a...)
	os.Exit(2)
}

func uintWidth(t types.Type) (int, bool) {
	if t == nil {
		return 0, false
	}
	b, ok := t.Underlying().(*types.Basic)
	if !ok {
		return 0, false
	}
	switch b.Kind() {
	case types.Uint8:
		return 8, true
	case types.Uint16:
		return 16, true
	case types.Uint32:
		return 32, true
	case types.Uint64, types.Uint, types.Uintptr:
		return 64, true
	}
	return 0, false
}

type tr struct {
	p      *pkgInfo
	isRaw  func(e ast.Expr) bool
	rawW   int
	locals map[string]texpr
}

type texpr struct {
	s      string
	w      int
	isBool bool
}

type trErr struct{ msg string }

func (t *tr) fail(n ast.Node, f string, a ...interface{}) {
	panic(trErr{fmt.Sprintf("%s: ", t.p.fset.Position(n.Pos())) + fmt.Sprintf(f, a...)})
}

func (t *tr) constOf(e ast.Expr) (string, bool) {
	tv, ok := t.p.info.Types[e]
	if !ok || tv.Value == nil {
		return "", false
	}
	switch tv.Value.Kind() {
	case constant.Int:
		v := constant.ToInt(tv.Value)
		if constant.Sign(v) < 0 {
			return "", false
		}
		return v.ExactString(), true
	case constant.Bool:
		return "", false
	}
	return "", false
}

func (t *tr) widthOf(e ast.Expr, fallback int) int {
	if tv, ok := t.p.info.Types[e]; ok {
		if w, ok := uintWidth(tv.Type); ok {
			return w
		}
		if b, ok := tv.Type.Underlying().(*types.Basic); ok && b.Info()&types.IsUntyped != 0 {
			return fallback
		}
		if tv.Type != types.Typ[types.Invalid] {
			if b, ok := tv.Type.Underlying().(*types.Basic); ok && b.Info()&types.IsInteger != 0 {
				t.fail(e, "signed integer type %s is outside the subset", tv.Type)
			}
		}
	}
	return fallback
}

func (t *tr) expr(e ast.Expr) texpr {
	if t.isRaw(e) {
		return texpr{"Raw", t.rawW, false}
	}
	if c, ok := t.constOf(e); ok {
		return texpr{"(Const " + c + ")", t.widthOf(e, 64), false}
	}
	switch x := e.(type) {
	case *ast.ParenExpr:
		return t.expr(x.X)
	case *ast.Ident:
		if l, ok := t.locals[x.Name]; ok {
			return l
		}
		if tv, ok := t.p.info.Types[e]; ok && tv.Value != nil && tv.Value.Kind() == constant.Bool {
			return texpr{"(BConst " + fmt.Sprint(constant.BoolVal(tv.Value)) + ")", 0, true}
		}
		t.fail(e, "identifier %s is neither the raw value, a constant nor a local defined before", x.Name)
	case *ast.CallExpr:
		// conversion T(e)
		if len(x.Args) == 1 {
			if tv, ok := t.p.info.Types[x.Fun]; ok && tv.IsType() {
				wt, ok := uintWidth(tv.Type)
				if !ok {
					t.fail(e, "conversion to non-unsigned type %s", tv.Type)
				}
				in := t.expr(x.Args[0])
				if in.isBool {
					t.fail(e, "conversion of a boolean")
				}
				if wt < in.w {
					return texpr{fmt.Sprintf("(Trunc %s %d)", in.s, wt), wt, false}
				}
				return texpr{in.s, wt, false}
			}
		}
		t.fail(e, "call outside the subset")
	case *ast.UnaryExpr:
		in := t.expr(x.X)
		switch x.Op {
		case token.NOT:
			if !in.isBool {
				t.fail(e, "! of a non-boolean")
			}
			return texpr{"(BNot " + in.s + ")", 0, true}
		case token.XOR:
			ones := new(strings.Builder)
			fmt.Fprintf(ones, "(N.ones %d)", in.w)
			return texpr{fmt.Sprintf("(Xor %s (Const %s))", in.s, ones.String()), in.w, false}
		}
		t.fail(e, "unary operator %s", x.Op)
	case *ast.BinaryExpr:
		switch x.Op {
		case token.SHR, token.SHL:
			n, ok := t.constOf(x.Y)
			if !ok {
				t.fail(e, "shift by a non-constant")
			}
			l := t.expr(x.X)
			if l.isBool {
				t.fail(e, "shift of a boolean")
			}
			w := t.widthOf(e, l.w)
			if x.Op == token.SHR {
				return texpr{fmt.Sprintf("(Shr %s %s)", l.s, n), w, false}
			}
			return texpr{fmt.Sprintf("(Shl %s %s %d)", l.s, n, w), w, false}
		case token.AND, token.OR, token.XOR:
			l, r := t.expr(x.X), t.expr(x.Y)
			if l.isBool || r.isBool {
				t.fail(e, "bitwise operator on booleans")
			}
			w := t.widthOf(e, max(l.w, r.w))
			op := map[token.Token]string{token.AND: "And", token.OR: "Or", token.XOR: "Xor"}[x.Op]
			return texpr{fmt.Sprintf("(%s %s %s)", op, l.s, r.s), w, false}
		case token.AND_NOT:
			l, r := t.expr(x.X), t.expr(x.Y)
			if l.isBool || r.isBool {
				t.fail(e, "bitwise operator on booleans")
			}
			w := t.widthOf(e, max(l.w, r.w))
			return texpr{fmt.Sprintf("(And %s (Xor %s (Const (N.ones %d))))", l.s, r.s, w), w, false}
		case token.EQL, token.NEQ:
			l, r := t.expr(x.X), t.expr(x.Y)
			if l.isBool || r.isBool {
				t.fail(e, "comparison of booleans")
			}
			op := "BEq"
			if x.Op == token.NEQ {
				op = "BNe"
			}
			return texpr{fmt.Sprintf("(%s %s %s)", op, l.s, r.s), 0, true}
		case token.LAND, token.LOR:
			l, r := t.expr(x.X), t.expr(x.Y)
			if !l.isBool || !r.isBool {
				t.fail(e, "logical operator on non-booleans")
			}
			op := "BAnd"
			if x.Op == token.LOR {
				op = "BOr"
			}
			return texpr{fmt.Sprintf("(%s %s %s)", op, l.s, r.s), 0, true}
		}
		t.fail(e, "binary operator %s is outside the subset", x.Op)
	}
	t.fail(e, "expression form %T is outside the subset", e)
	return texpr{}
}

func max(a, b int) int {
	if a > b {
		return a
	}
	return b
}

// stmts translates `x := e ; if c { return a } ; return b` shaped bodies.
func (t *tr) stmts(ss []ast.Stmt) texpr {
	if len(ss) == 0 {
		panic(trErr{"function body falls off the end"})
	}
	switch s := ss[0].(type) {
	case *ast.ReturnStmt:
		if len(s.Results) != 1 {
			t.fail(s, "return with %d results", len(s.Results))
		}
		return t.expr(s.Results[0])
	case *ast.AssignStmt:
		if s.Tok == token.DEFINE && len(s.Lhs) == 1 && len(s.Rhs) == 1 {
			if id, ok := s.Lhs[0].(*ast.Ident); ok {
				t.locals[id.Name] = t.expr(s.Rhs[0])
				return t.stmts(ss[1:])
			}
		}
		t.fail(s, "assignment form outside the subset")
	case *ast.DeclStmt:
		// local `const c = e` (uses are folded by constOf) and `var x [T] = e` (a local like x := e,
		// with the conversion to T made explicit)
		gd, ok := s.Decl.(*ast.GenDecl)
		if !ok {
			t.fail(s, "declaration form outside the subset")
		}
		switch gd.Tok {
		case token.CONST, token.TYPE:
			return t.stmts(ss[1:])
		case token.VAR:
			for _, sp := range gd.Specs {
				vs := sp.(*ast.ValueSpec)
				if len(vs.Names) != len(vs.Values) {
					t.fail(s, "var declaration without initialiser is outside the subset")
				}
				for i, id := range vs.Names {
					v := t.expr(vs.Values[i])
					if obj := t.p.info.Defs[id]; obj != nil && !v.isBool {
						wt, ok := uintWidth(obj.Type())
						if !ok {
							t.fail(s, "local of non-unsigned type %s", obj.Type())
						}
						if wt < v.w {
							v = texpr{fmt.Sprintf("(Trunc %s %d)", v.s, wt), wt, false}
						} else {
							v.w = wt
						}
					}
					t.locals[id.Name] = v
				}
			}
			return t.stmts(ss[1:])
		}
		t.fail(s, "declaration form outside the subset")
	case *ast.IfStmt:
		if s.Init != nil || len(s.Body.List) != 1 {
			t.fail(s, "if form outside the subset")
		}
		ret, ok := s.Body.List[0].(*ast.ReturnStmt)
		if !ok || len(ret.Results) != 1 {
			t.fail(s, "if body must be a single return")
		}
		c := t.expr(s.Cond)
		if !c.isBool {
			t.fail(s, "non-boolean condition")
		}
		a := t.expr(ret.Results[0])
		var b texpr
		switch el := s.Else.(type) {
		case nil:
			b = t.stmts(ss[1:])
		case *ast.BlockStmt:
			// if c { return a } else { ...; return b }: the statements after the if are dead
			saved := map[string]texpr{}
			for k, v := range t.locals {
				saved[k] = v
			}
			b = t.stmts(el.List)
			t.locals = saved
		case *ast.IfStmt:
			b = t.stmts([]ast.Stmt{el})
		default:
			t.fail(s, "else form outside the subset")
		}
		if a.isBool != b.isBool {
			t.fail(s, "branches of different kinds")
		}
		if a.isBool {
			return texpr{fmt.Sprintf("(BOr (BAnd %s %s) (BAnd (BNot %s) %s))", c.s, a.s, c.s, b.s), 0, true}
		}
		return texpr{fmt.Sprintf("(Ite %s %s %s)", c.s, a.s, b.s), max(a.w, b.w), false}
	}
	t.fail(ss[0], "statement form %T outside the subset", ss[0])
	return texpr{}
}

// pkgVarInit: the initialiser expression of a package-level variable declared as `var v = expr`
func pkgVarInit(p *pkgInfo, v *types.Var) ast.Expr {
	for _, f := range p.files {
		for _, d := range f.Decls {
			gd, ok := d.(*ast.GenDecl)
			if !ok || gd.Tok != token.VAR {
				continue
			}
			for _, sp := range gd.Specs {
				vs := sp.(*ast.ValueSpec)
				for i, n := range vs.Names {
					if p.info.Defs[n] == v && i < len(vs.Values) {
						return vs.Values[i]
					}
				}
			}
		}
	}
	return nil
}

func value(x texpr) string {
	if x.isBool {
		return "VBool " + x.s
	}
	return "VNum " + x.s
}

func src(p *pkgInfo, n ast.Node) string {
	pos := p.fset.Position(n.Pos())
	return fmt.Sprintf("%s:%d", filepath.Base(pos.Filename), pos.Line)
}

var skipMethods = map[string]bool{"ID": true, "Value": true, "Address": true, "Fields": true, "BitSize": true, "String": true}

// mode A: methods on named unsigned-integer types of a package
func methods(p *pkgInfo, prefix string) {
	bitsize := map[string]int{}
	for _, f := range p.files {
		for _, d := range f.Decls {
			fd, ok := d.(*ast.FuncDecl)
			if !ok || fd.Recv == nil || len(fd.Recv.List) != 1 || fd.Body == nil {
				continue
			}
			recvT := fd.Recv.List[0].Type
			rid, ok := recvT.(*ast.Ident)
			if !ok {
				continue
			}
			tv := p.info.Types[recvT]
			w, isU := uintWidth(tv.Type)
			if !isU {
				continue
			}
			if _, named := tv.Type.(*types.Named); !named {
				continue
			}
			regWidths[prefix+"."+rid.Name] = w
			name := prefix + "." + rid.Name + "." + fd.Name.Name
			if fd.Name.Name == "BitSize" {
				// `return 64` or `uint8(binary.Size(reg) * 8)`
				bitsize[rid.Name] = w
				if len(fd.Body.List) == 1 {
					if r, ok := fd.Body.List[0].(*ast.ReturnStmt); ok && len(r.Results) == 1 {
						if lit, ok := r.Results[0].(*ast.BasicLit); ok {
							var v int
							fmt.Sscanf(lit.Value, "%v", &v)
							bitsize[rid.Name] = v
						}
					}
				}
				continue
			}
			if fd.Name.Name == "Fields" {
				tb := table{name: prefix + "." + rid.Name, bits: -1}
				// the table literal stands in the body, or in the initialiser of a package-level
				// variable the body mentions (a table hoisted out of the method)
				roots := []ast.Node{fd.Body}
				ast.Inspect(fd.Body, func(n ast.Node) bool {
					if id, ok := n.(*ast.Ident); ok {
						if v, ok := p.info.Uses[id].(*types.Var); ok && !v.IsField() && v.Pkg() != nil && v.Parent() == v.Pkg().Scope() {
							if init := pkgVarInit(p, v); init != nil {
								roots = append(roots, init)
							}
						}
					}
					return true
				})
				for _, root := range roots {
					ast.Inspect(root, func(n ast.Node) bool {
						cl, ok := n.(*ast.CompositeLit)
						if !ok {
							return true
						}
						at, ok := cl.Type.(*ast.ArrayType)
						if !ok {
							return true
						}
						id, ok := at.Elt.(*ast.Ident)
						if !ok || (id.Name != "FieldDescription" && id.Name != "Field") {
							return true
						}
						if id.Name == "Field" && len(cl.Elts) != 1 {
							// a hand-built []Field is only understood as "one field spanning the whole register"
							untranslated = append(untranslated, prefix+"."+rid.Name+".Fields: hand-built []Field with more than one element")
							return false
						}
						for _, el := range cl.Elts {
							ecl, ok := el.(*ast.CompositeLit)
							if !ok {
								continue
							}
							var fn string
							var off int64 = -1
							for _, kv := range ecl.Elts {
								k, ok := kv.(*ast.KeyValueExpr)
								if !ok {
									continue
								}
								key := k.Key.(*ast.Ident).Name
								tvv := p.info.Types[k.Value]
								if tvv.Value == nil {
									continue
								}
								if key == "Name" {
									fn = constant.StringVal(tvv.Value)
								}
								if key == "BitOffset" {
									off, _ = constant.Int64Val(constant.ToInt(tvv.Value))
								}
							}
							tb.fields = append(tb.fields, struct {
								name string
								off  int64
							}{fn, off})
						}
						return false
					})
				}
				tables = append(tables, tb)
				continue
			}
			if skipMethods[fd.Name.Name] || fd.Type.Params.NumFields() != 0 || fd.Type.Results == nil || fd.Type.Results.NumFields() != 1 {
				continue
			}
			var recvName string
			if len(fd.Recv.List[0].Names) == 1 {
				recvName = fd.Recv.List[0].Names[0].Name
			}
			t := &tr{p: p, rawW: w, locals: map[string]texpr{}}
			t.isRaw = func(e ast.Expr) bool {
				id, ok := e.(*ast.Ident)
				return ok && recvName != "" && id.Name == recvName
			}
			func() {
				defer func() {
					if r := recover(); r != nil {
						if te, ok := r.(trErr); ok {
							untranslated = append(untranslated, name+": "+te.msg)
							return
						}
						panic(r)
					}
				}()
				// `x := e; ...; return T{Field: expr, ...}`: one accessor per field
				if n := len(fd.Body.List); n > 0 {
					if ret, ok := fd.Body.List[n-1].(*ast.ReturnStmt); ok && len(ret.Results) == 1 {
						if cl, ok := ret.Results[0].(*ast.CompositeLit); ok {
							for _, st := range fd.Body.List[:n-1] {
								as, ok := st.(*ast.AssignStmt)
								if !ok || as.Tok != token.DEFINE || len(as.Lhs) != 1 || len(as.Rhs) != 1 {
									t.fail(st, "statement before a composite return must be `x := e`")
								}
								t.locals[as.Lhs[0].(*ast.Ident).Name] = t.expr(as.Rhs[0])
							}
							for _, el := range cl.Elts {
								kv, ok := el.(*ast.KeyValueExpr)
								if !ok {
									t.fail(el, "positional composite literal")
								}
								res := t.expr(kv.Value)
								accessors = append(accessors, accessor{name + "." + kv.Key.(*ast.Ident).Name, w, value(res), src(p, kv)})
							}
							return
						}
					}
				}
				res := t.stmts(fd.Body.List)
				accessors = append(accessors, accessor{name, w, value(res), src(p, fd)})
			}()
		}
	}
	for i := range tables {
		if tables[i].bits < 0 && strings.HasPrefix(tables[i].name, prefix+".") {
			short := strings.TrimPrefix(tables[i].name, prefix+".")
			if b, ok := bitsize[short]; ok {
				tables[i].bits = b
			} else {
				tables[i].bits = regWidths[tables[i].name]
			}
		}
	}
}

// mode B: `recv.Field = expr` assignments inside one function, expr over one raw source
func assigns(p *pkgInfo, prefix, fn, rawSrc string, rawW int) {
	found := false
	for _, f := range p.files {
		for _, d := range f.Decls {
			fd, ok := d.(*ast.FuncDecl)
			if !ok || fd.Name.Name != fn || fd.Body == nil {
				continue
			}
			found = true
			ast.Inspect(fd.Body, func(n ast.Node) bool {
				as, ok := n.(*ast.AssignStmt)
				if !ok || as.Tok != token.ASSIGN || len(as.Lhs) != 1 || len(as.Rhs) != 1 {
					return true
				}
				sel, ok := as.Lhs[0].(*ast.SelectorExpr)
				if !ok {
					return true
				}
				if _, ok := sel.X.(*ast.Ident); !ok {
					return true
				}
				// does the right-hand side mention the raw source at all?
				mentions := false
				ast.Inspect(as.Rhs[0], func(m ast.Node) bool {
					if e, ok := m.(ast.Expr); ok && types.ExprString(e) == rawSrc {
						mentions = true
					}
					return true
				})
				if !mentions {
					return true
				}
				name := prefix + "." + fn + "." + sel.Sel.Name
				t := &tr{p: p, rawW: rawW, locals: map[string]texpr{}}
				t.isRaw = func(e ast.Expr) bool { return types.ExprString(e) == rawSrc }
				func() {
					defer func() {
						if r := recover(); r != nil {
							if te, ok := r.(trErr); ok {
								untranslated = append(untranslated, name+": "+te.msg)
								return
							}
							panic(r)
						}
					}()
					res := t.expr(as.Rhs[0])
					accessors = append(accessors, accessor{name, rawW, value(res), src(p, as)})
				}()
				return true
			})
		}
	}
	if !found {
		untranslated = append(untranslated, prefix+"."+fn+": function not found")
	}
}

func coqStr(s string) string { return "\"" + strings.ReplaceAll(s, "\"", "\"\"") + "\"" }

func main() {
	repo := flag.String("repo", "/repo", "repository root")
	out := flag.String("out", "", "output .v file")
	listing := flag.String("json", "", "optional: also write a plain listing (name<TAB>width<TAB>term) here")
	originsSpec := flag.String("origins", "", "result-origin tie: the frozen specification (spec/origins.json); selects the -origins mode (origins_main.go)")
	originsProp := flag.String("prop", "", "-origins mode: only the entries of this property (default all)")
	originsDump := flag.String("origins-dump", "", "-origins mode: instead of checking, list the summaries of all functions of this package")
	flag.Parse()
	if *originsSpec != "" || *originsDump != "" {
		runOrigins(*originsSpec, *originsProp, *repo, *out, *originsDump)
		return
	}
	if *out == "" {
		fatal("-out required")
	}
	regs := load(filepath.Join(*repo, "pkg/registers"))
	methods(regs, "registers")
	freshness(regs, "registers", map[string]bool{"NumberToFieldValue": true, "CalculateRegisterFields": true}, map[string]bool{"Fields": true, "Raw": true})
	tools := load(filepath.Join(*repo, "pkg/tools"))
	assigns(tools, "tools", "ParseTXTRegs", "ests", 8)
	assigns(tools, "tools", "readTXTStatus", "u64", 64)
	assigns(tools, "tools", "readTXTErrorCode", "u32", 32)
	assigns(tools, "tools", "readDMAProtectedRange", "u32", 32)
	assigns(tools, "tools", "ReadACMStatus", "u64", 64)
	assigns(tools, "tools", "ParseBIOSDataRegion", "mleFlags", 32)
	bg := load(filepath.Join(*repo, "pkg/provisioning/bootguard"))
	assigns(bg, "bootguard", "GetHFSTS1", "configSpace", 32)
	assigns(bg, "bootguard", "GetHFSTS6", "configSpace", 32)
	assigns(bg, "bootguard", "GetBGInfo", "msr[0]", 64)

	sort.SliceStable(accessors, func(i, j int) bool { return accessors[i].name < accessors[j].name })
	sort.SliceStable(tables, func(i, j int) bool { return tables[i].name < tables[j].name })
	sort.Strings(untranslated)

	var b strings.Builder
	b.WriteString("(* generated by tools/go2coq from " + *repo + " — do not edit *)\n")
	b.WriteString("From Coq Require Import NArith List String.\nFrom CSS Require Import Lib.SymBits Lib.RegTypes Lib.RegFresh.\nImport ListNotations.\nOpen Scope N_scope.\nOpen Scope string_scope.\n\n")
	b.WriteString("Definition accessors : list accessor := [\n")
	for i, a := range accessors {
		sep := ";"
		if i == len(accessors)-1 {
			sep = ""
		}
		fmt.Fprintf(&b, "  (* %s *)\n  {| a_name := %s; a_width := %d; a_val := %s |}%s\n", a.src, coqStr(a.name), a.width, a.val, sep)
	}
	b.WriteString("].\n\nDefinition tables : list table := [\n")
	for i, t := range tables {
		sep := ";"
		if i == len(tables)-1 {
			sep = ""
		}
		var fs []string
		for _, f := range t.fields {
			fs = append(fs, fmt.Sprintf("(%s, %d)", coqStr(f.name), f.off))
		}
		fmt.Fprintf(&b, "  {| t_name := %s; t_bits := %d; t_fields := [%s] |}%s\n", coqStr(t.name), t.bits, strings.Join(fs, "; "), sep)
	}
	b.WriteString("].\n\nDefinition untranslated : list string := [\n")
	for i, u := range untranslated {
		sep := ";"
		if i == len(untranslated)-1 {
			sep = ""
		}
		b.WriteString("  " + coqStr(u) + sep + "\n")
	}
	b.WriteString("].\n")
	emitFresh(&b)
	if err := os.MkdirAll(filepath.Dir(*out), 0o755); err != nil {
		fatal("%v", err)
	}
	if err := os.WriteFile(*out, []byte(b.String()), 0o644); err != nil {
		fatal("%v", err)
	}
	if *listing != "" {
		var l strings.Builder
		for _, a := range accessors {
			fmt.Fprintf(&l, "%s\t%d\t%s\n", a.name, a.width, a.val)
		}
		os.WriteFile(*listing, []byte(l.String()), 0o644)
	}
	fmt.Printf("go2coq: %d accessors, %d tables, %d result-origin summaries, %d untranslated\n", len(accessors), len(tables), len(allocFns), len(untranslated))
	for _, u := range untranslated {
		fmt.Println("  untranslated:", u)
	}
}
