// Package loading for the result-origin tie (-origins mode).
//
// A small module-aware importer that needs neither `go list` nor the source importer of
// go/importer: an import path is resolved to a directory by hand —
//
//	standard library        $GOROOT/src/<path>   (or $GOROOT/src/vendor/<path>)
//	the module of -repo     <repo>/<path relative to the module path of <repo>/go.mod>
//	a dependency            $GOMODCACHE/<module>@<version>/<rest>, module and version taken from
//	                        the require lines of <repo>/go.mod (longest matching module path)
//
// the files of the directory are selected with go/build (build constraints for the host
// platform, cgo disabled, no test files, no *_verif.go hook files), parsed and type-checked
// with go/types.  Function bodies are type-checked only for the packages whose functions the
// analysis may have to look into (the module of -repo and the allow-list bodyPkgs); every
// other package is checked with IgnoreFuncBodies, which is what keeps a run within a few
// seconds.  Type errors are ignored (the analysis is conservative about invalid types); a
// package that cannot be found at all becomes an empty package.
package main

import (
	"fmt"
	"go/ast"
	"go/build"
	"go/parser"
	"go/token"
	"go/types"
	"os"
	"os/exec"
	"path/filepath"
	"sort"
	"strings"
	"sync"
)

// third-party packages whose function bodies are analysed too (callee summaries)
var bodyPkgs = map[string]bool{
	"github.com/linuxboot/fiano/pkg/bytes": true,
	"github.com/go-ng/slices":              true,
}

type lpkg struct {
	path  string
	dir   string
	files []*ast.File
	info  *types.Info // nil when bodies were not checked
	pkg   *types.Package
	decls map[*types.Func]*ast.FuncDecl
}

type loader struct {
	repo     string
	modPath  string
	goroot   string
	modcache string
	requires [][2]string // module path, version — longest first
	replaces map[string]string
	fset     *token.FileSet
	pkgs     map[string]*lpkg
	bctx     build.Context
	missing  []string
}

func newLoader(repo string) *loader {
	l := &loader{repo: repo, fset: token.NewFileSet(), pkgs: map[string]*lpkg{}, replaces: map[string]string{}}
	l.goroot, l.modcache = os.Getenv("GOROOT"), os.Getenv("GOMODCACHE")
	if l.goroot == "" || l.modcache == "" {
		if out, err := exec.Command("go", "env", "GOROOT", "GOMODCACHE").Output(); err == nil {
			f := strings.Split(strings.TrimSpace(string(out)), "\n")
			if len(f) == 2 {
				if l.goroot == "" {
					l.goroot = f[0]
				}
				if l.modcache == "" {
					l.modcache = f[1]
				}
			}
		}
	}
	if l.goroot == "" {
		l.goroot = build.Default.GOROOT
	}
	if l.modcache == "" {
		home, _ := os.UserHomeDir()
		l.modcache = filepath.Join(home, "go", "pkg", "mod")
	}
	l.bctx = build.Default
	l.bctx.GOROOT = l.goroot
	l.bctx.CgoEnabled = false
	l.parseGoMod()
	return l
}

func (l *loader) parseGoMod() {
	b, err := os.ReadFile(filepath.Join(l.repo, "go.mod"))
	if err != nil {
		fatal("%v", err)
	}
	block := ""
	for _, line := range strings.Split(string(b), "\n") {
		if i := strings.Index(line, "//"); i >= 0 {
			line = line[:i]
		}
		f := strings.Fields(line)
		if len(f) == 0 {
			continue
		}
		if block != "" {
			if f[0] == ")" {
				block = ""
				continue
			}
			f = append([]string{block}, f...)
		} else if len(f) == 2 && f[1] == "(" {
			block = f[0]
			continue
		}
		switch f[0] {
		case "module":
			if len(f) >= 2 {
				l.modPath = strings.Trim(f[1], "\"")
			}
		case "require":
			if len(f) >= 3 {
				l.requires = append(l.requires, [2]string{f[1], f[2]})
			}
		case "replace":
			// replace old [v] => new [v]
			for i, x := range f {
				if x == "=>" && i >= 2 && i+1 < len(f) {
					tgt := f[i+1]
					if i+2 < len(f) {
						tgt += "@" + f[i+2]
					}
					l.replaces[f[1]] = tgt
				}
			}
		}
	}
	sort.Slice(l.requires, func(i, j int) bool { return len(l.requires[i][0]) > len(l.requires[j][0]) })
}

// module cache directories escape upper-case letters as !lower
func escapeMod(s string) string {
	var b strings.Builder
	for _, r := range s {
		if r >= 'A' && r <= 'Z' {
			b.WriteByte('!')
			b.WriteRune(r + 'a' - 'A')
		} else {
			b.WriteRune(r)
		}
	}
	return b.String()
}

func isDir(p string) bool {
	st, err := os.Stat(p)
	return err == nil && st.IsDir()
}

// dirOf resolves an import path to a directory; inRepo tells whether it belongs to the module of -repo.
func (l *loader) dirOf(path string) (dir string, inRepo bool) {
	if path == l.modPath {
		return l.repo, true
	}
	if strings.HasPrefix(path, l.modPath+"/") {
		return filepath.Join(l.repo, strings.TrimPrefix(path, l.modPath+"/")), true
	}
	if !strings.Contains(strings.SplitN(path, "/", 2)[0], ".") {
		if d := filepath.Join(l.goroot, "src", path); isDir(d) {
			return d, false
		}
	}
	if d := filepath.Join(l.goroot, "src", "vendor", path); isDir(d) {
		return d, false
	}
	for _, r := range l.requires {
		if path == r[0] || strings.HasPrefix(path, r[0]+"/") {
			rest := strings.TrimPrefix(strings.TrimPrefix(path, r[0]), "/")
			if tgt, ok := l.replaces[r[0]]; ok {
				if strings.HasPrefix(tgt, ".") || strings.HasPrefix(tgt, "/") {
					base := strings.SplitN(tgt, "@", 2)[0]
					if !filepath.IsAbs(base) {
						base = filepath.Join(l.repo, base)
					}
					return filepath.Join(base, rest), false
				}
				if i := strings.Index(tgt, "@"); i >= 0 {
					return filepath.Join(l.modcache, escapeMod(tgt[:i])+"@"+tgt[i+1:], rest), false
				}
			}
			return filepath.Join(l.modcache, escapeMod(r[0])+"@"+r[1], rest), false
		}
	}
	return "", false
}

// Import implements types.Importer.
func (l *loader) Import(path string) (*types.Package, error) {
	if path == "unsafe" {
		return types.Unsafe, nil
	}
	if path == "C" {
		p := types.NewPackage("C", "C")
		p.MarkComplete()
		return p, nil
	}
	return l.load(path).pkg, nil
}

func (l *loader) load(path string) *lpkg {
	if p, ok := l.pkgs[path]; ok {
		return p
	}
	dir, inRepo := l.dirOf(path)
	lp := &lpkg{path: path, dir: dir, decls: map[*types.Func]*ast.FuncDecl{}}
	l.pkgs[path] = lp // (import cycles do not occur in compiling code)
	empty := func() *lpkg {
		l.missing = append(l.missing, path)
		lp.pkg = types.NewPackage(path, path[strings.LastIndex(path, "/")+1:])
		lp.pkg.MarkComplete()
		return lp
	}
	if dir == "" || !isDir(dir) {
		return empty()
	}
	bp, err := l.bctx.ImportDir(dir, 0)
	if err != nil && (bp == nil || len(bp.GoFiles) == 0) {
		return empty()
	}
	var names []string
	for _, n := range bp.GoFiles {
		if strings.HasSuffix(n, "_verif.go") {
			continue
		}
		names = append(names, n)
	}
	sort.Strings(names)
	files := make([]*ast.File, len(names))
	var wg sync.WaitGroup
	for i, n := range names {
		wg.Add(1)
		go func(i int, n string) {
			defer wg.Done()
			f, err := parser.ParseFile(l.fset, filepath.Join(dir, n), nil, parser.SkipObjectResolution)
			if err == nil || f != nil {
				files[i] = f
			}
		}(i, n)
	}
	wg.Wait()
	for _, f := range files {
		if f != nil {
			lp.files = append(lp.files, f)
		}
	}
	withBodies := inRepo || bodyPkgs[path]
	conf := types.Config{Importer: l, Error: func(error) {}, FakeImportC: true, IgnoreFuncBodies: !withBodies,
		Sizes: types.SizesFor("gc", "amd64")}
	if withBodies {
		lp.info = &types.Info{Types: map[ast.Expr]types.TypeAndValue{}, Defs: map[*ast.Ident]types.Object{}, Uses: map[*ast.Ident]types.Object{},
			Selections: map[*ast.SelectorExpr]*types.Selection{}, Implicits: map[ast.Node]types.Object{}, Instances: map[*ast.Ident]types.Instance{}}
	}
	lp.pkg, _ = conf.Check(path, l.fset, lp.files, lp.info)
	if lp.pkg == nil {
		return empty()
	}
	if withBodies {
		for _, f := range lp.files {
			for _, d := range f.Decls {
				if fd, ok := d.(*ast.FuncDecl); ok {
					if fn, ok := lp.info.Defs[fd.Name].(*types.Func); ok {
						lp.decls[fn] = fd
					}
				}
			}
		}
	}
	return lp
}

// pkgPathOf turns the "pkg" of a spec entry (a directory under the repository, or an import path) into an import path.
func (l *loader) pkgPathOf(p string) string {
	p = strings.TrimSuffix(strings.TrimPrefix(p, "./"), "/")
	if isDir(filepath.Join(l.repo, p)) && !strings.HasPrefix(p, l.modPath) {
		return l.modPath + "/" + p
	}
	return p
}

func (l *loader) pos(n ast.Node) string {
	p := l.fset.Position(n.Pos())
	return fmt.Sprintf("%s:%d", filepath.Base(p.Filename), p.Line)
}
