// Models of functions whose body the -origins analysis does not look into (standard library,
// interface methods).  This table is part of the trusted base of the result-origin tie: each line
// states what the documentation of the function says about the memory of its results and about the
// arguments it writes to.  A callee that is neither analysable nor listed here is opaque: its
// results are reported as fn:<name> (which a specification entry has to allow explicitly) and its
// effects on its arguments are not tracked.
//
// result terms:  fresh        newly allocated, references nothing of the caller
//
//	arg:i        the i-th argument itself
//	recv         the receiver itself
//	recvmem      memory owned by the receiver object (bytes.Buffer.Bytes)
//	appendto:i   append semantics on argument i: a new array or the spare capacity of argument i
//	wrap:i       a new object that keeps a reference to argument i
//	clone:i      a new array holding copies of the elements of argument i
//	pooled       an object taken from a sync.Pool: scratch memory while the call owns it (writes to
//	             it are not writes to the caller's memory), reported as global:pooled-object when it
//	             can reach a result
//
// writes terms:  arg:i / recv  — the memory referenced directly by that argument is written.
// appends terms: arg:i         — the spare capacity of that argument may be written (append semantics).
package main

import (
	"strconv"
	"strings"
)

type extModel struct {
	results []string
	writes  []string
	appends []string
}

var extModels = map[string]extModel{
	// hash.Hash: "Sum appends the current hash to b and returns the resulting slice"
	"hash.Hash.Sum": {results: []string{"appendto:0"}, appends: []string{"arg:0"}},
	// cipher.AEAD: "Seal/Open ... appends the result to dst, returning the updated slice"
	"crypto/cipher.AEAD.Seal": {results: []string{"appendto:0"}, appends: []string{"arg:0"}},
	"crypto/cipher.AEAD.Open": {results: []string{"appendto:0"}, appends: []string{"arg:0"}},
	// constructors of hash states and readers
	"crypto.Hash.New":           {results: []string{"fresh"}},
	"crypto/sha1.New":           {results: []string{"fresh"}},
	"crypto/sha256.New":         {results: []string{"fresh"}},
	"crypto/sha512.New":         {results: []string{"fresh"}},
	"crypto/sha512.New384":      {results: []string{"fresh"}},
	"bytes.NewReader":           {results: []string{"wrap:0"}},
	"bytes.NewBuffer":           {results: []string{"wrap:0"}},
	"bytes.Buffer.Bytes":        {results: []string{"recvmem"}},
	"bytes.Clone":               {results: []string{"clone:0"}},
	"slices.Clone":              {results: []string{"clone:0"}},
	"os.ReadFile":               {results: []string{"fresh"}},
	"io.ReadAll":                {results: []string{"fresh"}},
	"encoding/hex.DecodeString": {results: []string{"fresh"}},
	"math/big.NewInt":           {results: []string{"fresh"}},
	"encoding/json.Marshal":     {results: []string{"fresh"}},
	// reflect: New "returns a Value representing a pointer to a new zero value"; Elem, Interface,
	// Addr give access to the same memory as the Value they are called on
	"reflect.New":             {results: []string{"fresh"}},
	"reflect.Value.Elem":      {results: []string{"recv"}},
	"reflect.Value.Addr":      {results: []string{"recv"}},
	"reflect.Value.Interface": {results: []string{"recv"}},
	"reflect.Value.Slice":     {results: []string{"recv"}},
	"reflect.ValueOf":         {results: []string{"arg:0"}},
	// sync.Pool: "Get selects an arbitrary item from the Pool, removes it from the Pool, and
	// returns it to the caller" — an object other calls have used before and will use again
	"sync.Pool.Get": {results: []string{"pooled"}},
	"sync.Pool.Put": {},
	// in-place mutators
	"sort.Slice":                          {writes: []string{"arg:0"}},
	"sort.SliceStable":                    {writes: []string{"arg:0"}},
	"sort.Sort":                           {writes: []string{"arg:0"}},
	"sort.Stable":                         {writes: []string{"arg:0"}},
	"sort.Ints":                           {writes: []string{"arg:0"}},
	"sort.Strings":                        {writes: []string{"arg:0"}},
	"sort.Float64s":                       {writes: []string{"arg:0"}},
	"slices.Sort":                         {writes: []string{"arg:0"}},
	"slices.SortFunc":                     {writes: []string{"arg:0"}},
	"slices.Reverse":                      {writes: []string{"arg:0"}},
	"encoding/binary.Read":                {writes: []string{"arg:2"}},
	"encoding/binary.ByteOrder.PutUint16": {writes: []string{"arg:0"}},
	"encoding/binary.ByteOrder.PutUint32": {writes: []string{"arg:0"}},
	"encoding/binary.ByteOrder.PutUint64": {writes: []string{"arg:0"}},
	"io.ReadFull":                         {writes: []string{"arg:1"}},
	"io.Reader.Read":                      {writes: []string{"arg:0"}},
	"io.ReaderAt.ReadAt":                  {writes: []string{"arg:0"}},
	"bytes.Reader.Read":                   {writes: []string{"arg:0"}},
	"bytes.Reader.ReadAt":                 {writes: []string{"arg:0"}},
	"bytes.Buffer.Read":                   {writes: []string{"arg:0"}},
	"os.File.Read":                        {writes: []string{"arg:0"}},
	"os.File.ReadAt":                      {writes: []string{"arg:0"}},
	"crypto/rand.Read":                    {writes: []string{"arg:0"}},
	"math/rand.Read":                      {writes: []string{"arg:0"}},
}

func (a *funcAn) modelVal(term string, ctx callCtx) aval {
	arg := func() aval {
		i, err := strconv.Atoi(term[strings.Index(term, ":")+1:])
		if err != nil || i < 0 || i >= len(ctx.args) {
			return unknownVal("model " + term)
		}
		return ctx.args[i]
	}
	switch {
	case term == "fresh":
		return aval{setOf(aFresh), aset{}}
	case term == "pooled":
		return aval{setOf(aPooled), setOf(aPooled)}
	case term == "recv":
		return ctx.recv
	case term == "recvmem":
		return aval{ctx.recv.all(), union(ctx.recv.D)}
	case strings.HasPrefix(term, "arg:"):
		return arg()
	case strings.HasPrefix(term, "appendto:"):
		v := arg()
		return aval{union(setOf(aFresh), v.T), union(v.D)}
	case strings.HasPrefix(term, "wrap:"):
		return aval{setOf(aFresh), arg().all()}
	case strings.HasPrefix(term, "clone:"):
		return aval{setOf(aFresh, aNil), union(arg().D)}
	}
	return unknownVal("model " + term)
}
