// The -origins mode: result-origin tie.
//
//	go2coq -origins spec/origins.json -prop Cxx -repo <repo> -out <file.v>
//
// reads the frozen specification, analyses the CURRENT source of every listed function
// (origins.go) and writes a self-checking Coq file in the format of the constants tie:
//
//	Definition R : list (string * string * bool) := Eval vm_compute in [ origin_row "<pkg>.<func>" <spec> <summary> ; ... ].
//	Definition FAILED := Eval vm_compute in List.filter (fun r => negb (snd r)) R.
//	Print FAILED.
//
// The comparison (Lib/Origins.v: origin_row) is evaluated by Coq; this program only translates
// the JSON entry and the summary into terms.  A function that is not found is a failing row.
package main

import (
	"encoding/json"
	"fmt"
	"go/types"
	"os"
	"path/filepath"
	"sort"
	"strings"
	"time"
)

type originEntry struct {
	Pkg       string   `json:"pkg"`
	Func      string   `json:"func"`
	Props     []string `json:"props"`
	Results   []string `json:"results"`
	Deep      []string `json:"deep,omitempty"`
	Writes    []string `json:"writes,omitempty"`
	Appends   []string `json:"appends,omitempty"`
	Globals   []string `json:"globals"`
	MustAlias []string `json:"must_alias,omitempty"`
	Note      string   `json:"note,omitempty"`
}

func parseAtom(s string) (atom, error) {
	s = strings.TrimSpace(s)
	deep := false
	base := s
	if strings.HasPrefix(s, "recv") || strings.HasPrefix(s, "param:") {
		if strings.HasSuffix(s, ".deep") {
			deep = true
			base = strings.TrimSuffix(s, ".deep")
		}
	}
	switch {
	case base == "fresh":
		return aFresh, nil
	case base == "nil":
		return aNil, nil
	case base == "recv":
		return atom{kind: "recv", deep: deep}, nil
	case base == "reused":
		return atom{kind: "reused"}, nil
	case strings.HasPrefix(base, "param:") && len(base) > 6:
		return atom{kind: "param", name: base[6:], deep: deep}, nil
	case strings.HasPrefix(base, "global:") && len(base) > 7:
		return atom{kind: "global", name: base[7:]}, nil
	case strings.HasPrefix(base, "fn:") && len(base) > 3:
		return atom{kind: "call", name: base[3:]}, nil
	case strings.HasPrefix(base, "reused:"):
		return atom{kind: "reused", name: base[7:]}, nil
	}
	return atom{}, fmt.Errorf("origin %q is not one of fresh, nil, recv[.deep], param:<name>[.deep], global:<pkg.Var>, fn:<callee>, reused", s)
}

func coqAtoms(l []atom) string {
	var s []string
	for _, a := range l {
		s = append(s, a.coq())
	}
	return "[" + strings.Join(s, "; ") + "]"
}

func coqStrs(l []string) string {
	var s []string
	for _, x := range l {
		s = append(s, coqStr(x))
	}
	return "[" + strings.Join(s, "; ") + "]"
}

func showAtoms(l []atom) string {
	var s []string
	for _, a := range l {
		s = append(s, a.String())
	}
	return "[" + strings.Join(s, ", ") + "]"
}

func contains(l []string, x string) bool {
	for _, y := range l {
		if y == x {
			return true
		}
	}
	return false
}

// flat summary of a function for the comparison: all results together
type flatSum struct {
	results, deep, writes, appends []atom
	globals                        []string
}

func flatten(s *fsum) flatSum {
	t, d := aset{}, aset{}
	for _, r := range s.results {
		t.add(r.T)
		d.add(r.D)
	}
	var gl []string
	for g := range s.globals {
		gl = append(gl, g)
	}
	sort.Strings(gl)
	return flatSum{t.sorted(), d.sorted(), s.writes.sorted(), s.appends.sorted(), gl}
}

func (l *loader) findFunc(lp *lpkg, name string) *types.Func {
	rel := strings.TrimPrefix(lp.path, l.modPath+"/")
	for fn := range lp.decls {
		if l.qualName(fn) == rel+"."+name {
			return fn
		}
	}
	return nil
}

func runOrigins(specPath, prop, repo, out, dump string) {
	t0 := time.Now()
	if abs, err := filepath.Abs(repo); err == nil {
		repo = abs
	}
	l := newLoader(repo)
	an := &analysis{l: l, sums: map[*types.Func]*fsum{}, stack: map[*types.Func]bool{}}
	if dump != "" {
		// listing of every function of a package that returns references (to derive entries from)
		lp := l.load(l.pkgPathOf(dump))
		var fns []*types.Func
		for fn := range lp.decls {
			fns = append(fns, fn)
		}
		sort.Slice(fns, func(i, j int) bool { return l.qualName(fns[i]) < l.qualName(fns[j]) })
		for _, fn := range fns {
			s := an.summary(fn)
			if s == nil {
				continue
			}
			f := flatten(s)
			if len(f.results)+len(f.deep)+len(f.writes)+len(f.appends)+len(f.globals) == 0 {
				continue
			}
			fmt.Printf("%s (%s)\n    results=%s deep=%s writes=%s appends=%s globals=%v\n", s.name, s.pos, showAtoms(f.results), showAtoms(f.deep), showAtoms(f.writes), showAtoms(f.appends), f.globals)
		}
		return
	}
	if out == "" {
		fatal("-out required")
	}
	b, err := os.ReadFile(specPath)
	if err != nil {
		fatal("%v", err)
	}
	var es []originEntry
	if err := json.Unmarshal(b, &es); err != nil {
		fatal("%s: %v", specPath, err)
	}
	var rows []string
	n, notFound, hints := 0, 0, 0
	for _, e := range es {
		if prop != "" && !contains(e.Props, prop) {
			continue
		}
		n++
		name := strings.TrimSuffix(e.Pkg, "/") + "." + e.Func
		// the specification entry as a term
		var specErr error
		parse := func(l []string) []atom {
			var r []atom
			for _, s := range l {
				a, err := parseAtom(s)
				if err != nil && specErr == nil {
					specErr = err
				}
				r = append(r, a)
			}
			return r
		}
		sr, sd, sw, sa, sm := parse(e.Results), parse(e.Deep), parse(e.Writes), parse(e.Appends), parse(e.MustAlias)
		if specErr != nil {
			rows = append(rows, fmt.Sprintf("  (%s, %s, false)", coqStr(name), coqStr("malformed specification entry: "+specErr.Error())))
			fmt.Printf("ORIGIN %s MALFORMED SPEC %v\n", name, specErr)
			continue
		}
		spec := fmt.Sprintf("{| s_results := %s; s_deep := %s; s_writes := %s; s_appends := %s; s_globals := %s; s_must := %s |}",
			coqAtoms(sr), coqAtoms(sd), coqAtoms(sw), coqAtoms(sa), coqStrs(e.Globals), coqAtoms(sm))
		lp := l.load(l.pkgPathOf(e.Pkg))
		var fn *types.Func
		if lp.info != nil {
			fn = l.findFunc(lp, e.Func)
		}
		var s *fsum
		if fn != nil {
			s = an.summary(fn)
		}
		if s == nil {
			notFound++
			why := "function not found in the source"
			if lp.info == nil || len(lp.files) == 0 {
				why = "package not found in the source"
			}
			fmt.Printf("ORIGIN %s NOT FOUND (%s)\n", name, why)
			rows = append(rows, fmt.Sprintf("  origin_row %s\n    %s\n    {| o_found := false; o_results := []; o_deep := []; o_writes := []; o_appends := []; o_globals := [] |}", coqStr(name), spec))
			continue
		}
		f := flatten(s)
		// a hint on stdout only (the verdict is Coq's)
		hint := ""
		if goSideDiffers(f, sr, sd, sw, sa, e.Globals, sm) {
			hint = "   <-- differs from the specification"
			hints++
		}
		fmt.Printf("ORIGIN %s (%s) results=%s deep=%s writes=%s appends=%s globals=%v%s\n", name, s.pos, showAtoms(f.results), showAtoms(f.deep), showAtoms(f.writes), showAtoms(f.appends), f.globals, hint)
		rows = append(rows, fmt.Sprintf("  (* %s *)\n  origin_row %s\n    %s\n    {| o_found := true; o_results := %s; o_deep := %s; o_writes := %s; o_appends := %s; o_globals := %s |}",
			s.pos, coqStr(name), spec, coqAtoms(f.results), coqAtoms(f.deep), coqAtoms(f.writes), coqAtoms(f.appends), coqStrs(f.globals)))
	}
	var sb strings.Builder
	sb.WriteString("(* generated by tools/go2coq -origins from " + repo + " and " + filepath.Base(specPath) + " -- do not edit.\n" +
		"   One obligation per function that a model treats as a value-level function: where the memory of\n" +
		"   its results comes from, what it writes to and which package state it mentions, according to the\n" +
		"   source NOW, is within what the reviewed specification allows (Lib/Origins.v). *)\n")
	sb.WriteString("From Coq Require Import List String Bool.\nFrom CSS Require Import Lib.Origins.\nImport ListNotations.\nOpen Scope string_scope.\n\n")
	sb.WriteString("Definition R : list (string * string * bool) := Eval vm_compute in [\n" + strings.Join(rows, ";\n") + "\n].\n")
	sb.WriteString("Definition FAILED := Eval vm_compute in List.filter (fun r => negb (snd r)) R.\nPrint FAILED.\n")
	if err := os.MkdirAll(filepath.Dir(out), 0o755); err != nil {
		fatal("%v", err)
	}
	if err := os.WriteFile(out, []byte(sb.String()), 0o644); err != nil {
		fatal("%v", err)
	}
	if len(l.missing) > 0 {
		fmt.Printf("go2coq -origins: packages not found (treated as empty): %v\n", l.missing)
	}
	fmt.Printf("go2coq -origins: %d functions, %d not found, %d differ (hint), %d packages loaded, %.2fs\n", n, notFound, hints, len(l.pkgs), time.Since(t0).Seconds())
}

// goSideDiffers mirrors Lib/Origins.v for the hint printed on stdout; it decides nothing.
func goSideDiffers(f flatSum, sr, sd, sw, sa []atom, sg []string, must []atom) bool {
	allowed := func(a atom, l []atom) bool {
		switch a.kind {
		case "nil":
			return true
		case "unknown":
			return false
		}
		for _, x := range l {
			if x.kind == a.kind && (a.kind == "fresh" || a.kind == "reused" || x == a) {
				return true
			}
		}
		return false
	}
	for _, a := range f.results {
		if !allowed(a, sr) {
			return true
		}
	}
	for _, a := range f.deep {
		if !allowed(a, append(append([]atom{}, sr...), sd...)) {
			return true
		}
	}
	for _, a := range f.writes {
		if !allowed(a, sw) {
			return true
		}
	}
	for _, a := range f.appends {
		if !allowed(a, sa) {
			return true
		}
	}
	for _, g := range f.globals {
		if !contains(sg, g) {
			return true
		}
	}
	for _, m := range must {
		found := false
		for _, a := range append(append([]atom{}, f.results...), f.deep...) {
			if a == m {
				found = true
			}
		}
		if !found {
			return true
		}
	}
	return false
}
