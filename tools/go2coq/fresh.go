// Origin summary of the reference-typed results of the register decoders
// (coq/Lib/RegFresh.v): for NumberToFieldValue, CalculateRegisterFields, every
// Fields() method and every Raw() method that returns a slice, where does each
// slice / pointer that the function returns, or stores into what it returns,
// come from — allocated by this call, nil, another function's result, the
// caller's memory, a package-level variable, or unknown — and which
// package-level variables does the body mention at all.
//
// The analysis is intra-procedural and flow-insensitive: a local variable has
// the union of the origins of everything ever assigned to it or stored into
// one of its fields/elements.  It is deliberately conservative: whatever it
// does not understand becomes OUnknown, which the obligation rejects.
//
// This file serves the C04 translator mode only (gen/FromSource_registers.v,
// Lib/RegFresh.v) and is kept as it is.  Its generalisation to every package —
// module-aware loading, results/deep/writes/appends/globals per function, callee
// summaries, models of library functions, the frozen spec/origins.json and the
// self-checking gen/Origins_Cxx.v — is the -origins mode: origins.go,
// origins_load.go, origins_ext.go, origins_main.go, coq/Lib/Origins.v.
package main

import (
	"fmt"
	"go/ast"
	"go/token"
	"go/types"
	"sort"
	"strings"
)

type origin struct{ kind, what string }

func (o origin) coq() string {
	if o.kind == "ONil" {
		return "ONil"
	}
	return fmt.Sprintf("%s %s", o.kind, coqStr(o.what))
}

type allocFn struct {
	name    string
	results []origin
	globals []string
	src     string
}

var allocFns []allocFn

// hasRefs: can a value of this type give access to shared mutable memory?
func hasRefs(t types.Type, depth int) bool {
	if t == nil || depth > 8 {
		return true
	}
	switch u := t.Underlying().(type) {
	case *types.Basic:
		return u.Kind() == types.UnsafePointer || u.Kind() == types.Invalid
	case *types.Slice, *types.Pointer, *types.Map, *types.Chan, *types.Interface, *types.Signature:
		return true
	case *types.Array:
		return hasRefs(u.Elem(), depth+1)
	case *types.Struct:
		for i := 0; i < u.NumFields(); i++ {
			if hasRefs(u.Field(i).Type(), depth+1) {
				return true
			}
		}
		return false
	case *types.Tuple:
		for i := 0; i < u.Len(); i++ {
			if hasRefs(u.At(i).Type(), depth+1) {
				return true
			}
		}
		return false
	}
	return true
}

type freshAn struct {
	p       *pkgInfo
	prefix  string
	fd      *ast.FuncDecl
	locals  map[types.Object][]ast.Expr // everything assigned to / stored into the local
	ranged  map[types.Object]ast.Expr   // range variables: the container they iterate over
	params  map[types.Object]bool
	visit   map[types.Object]bool
	results []origin
	seen    map[origin]bool
	globals map[string]bool
}

func (a *freshAn) typeOf(e ast.Expr) types.Type {
	if tv, ok := a.p.info.Types[e]; ok {
		return tv.Type
	}
	if id, ok := e.(*ast.Ident); ok {
		if o := a.obj(id); o != nil {
			return o.Type()
		}
	}
	return nil
}

func (a *freshAn) obj(id *ast.Ident) types.Object {
	if o := a.p.info.Uses[id]; o != nil {
		return o
	}
	return a.p.info.Defs[id]
}

func (a *freshAn) isPkgVar(o types.Object) bool {
	v, ok := o.(*types.Var)
	return ok && !v.IsField() && v.Parent() != nil && v.Pkg() != nil && v.Parent() == v.Pkg().Scope()
}

// root local of x, x.f, x[i], x[a:b], *x, (x)
func (a *freshAn) rootIdent(e ast.Expr) *ast.Ident {
	for {
		switch x := e.(type) {
		case *ast.Ident:
			return x
		case *ast.SelectorExpr:
			e = x.X
		case *ast.IndexExpr:
			e = x.X
		case *ast.SliceExpr:
			e = x.X
		case *ast.StarExpr:
			e = x.X
		case *ast.ParenExpr:
			e = x.X
		default:
			return nil
		}
	}
}

func (a *freshAn) calleeName(fun ast.Expr) string {
	switch f := fun.(type) {
	case *ast.Ident:
		if o := a.obj(f); o != nil {
			if _, ok := o.(*types.Func); ok {
				return a.prefix + "." + f.Name
			}
		}
	case *ast.SelectorExpr:
		if id, ok := f.X.(*ast.Ident); ok {
			if _, isPkg := a.obj(id).(*types.PkgName); isPkg {
				return id.Name + "." + f.Sel.Name
			}
		}
		// method call: receiver's named type
		if t := a.typeOf(f.X); t != nil {
			if p, ok := t.(*types.Pointer); ok {
				t = p.Elem()
			}
			if n, ok := t.(*types.Named); ok {
				if _, isIface := n.Underlying().(*types.Interface); !isIface {
					return a.prefix + "." + n.Obj().Name() + "." + f.Sel.Name
				}
			}
		}
	}
	return ""
}

// origins of the memory that the reference-typed expression e gives access to
func (a *freshAn) origins(e ast.Expr) []origin {
	switch x := e.(type) {
	case *ast.ParenExpr:
		return a.origins(x.X)
	case *ast.Ident:
		if x.Name == "nil" {
			return []origin{{"ONil", ""}}
		}
		o := a.obj(x)
		if o == nil {
			return []origin{{"OUnknown", x.Name}}
		}
		if a.isPkgVar(o) {
			return []origin{{"OGlobal", x.Name}}
		}
		if a.params[o] {
			if !hasRefs(o.Type(), 0) {
				// a parameter or value receiver without references is this call's own copy
				return []origin{{"OFresh", "copy of " + x.Name}}
			}
			return []origin{{"OArg", x.Name}}
		}
		if c, ok := a.ranged[o]; ok {
			return a.origins(c)
		}
		if _, isVar := o.(*types.Var); isVar {
			if a.visit[o] {
				return nil
			}
			a.visit[o] = true
			defer delete(a.visit, o)
			var out []origin
			if !hasRefs(o.Type(), 0) {
				// a local without references (e.g. an array): its memory belongs to this call
				return []origin{{"OFresh", "local " + x.Name}}
			}
			for _, rhs := range a.locals[o] {
				out = append(out, a.origins(rhs)...)
			}
			if len(out) == 0 {
				// declared without a value (var x T): the zero value
				out = append(out, origin{"ONil", ""})
			}
			return out
		}
		return []origin{{"OUnknown", x.Name}}
	case *ast.CompositeLit:
		return []origin{{"OFresh", "literal"}}
	case *ast.FuncLit:
		return []origin{{"OUnknown", "closure"}}
	case *ast.UnaryExpr:
		if x.Op == token.AND {
			if _, ok := x.X.(*ast.CompositeLit); ok {
				return []origin{{"OFresh", "literal"}}
			}
			return a.origins(x.X)
		}
		return []origin{{"OUnknown", types.ExprString(e)}}
	case *ast.StarExpr:
		return a.origins(x.X)
	case *ast.SelectorExpr:
		if id, ok := x.X.(*ast.Ident); ok {
			if _, isPkg := a.obj(id).(*types.PkgName); isPkg {
				return []origin{{"OGlobal", id.Name + "." + x.Sel.Name}}
			}
		}
		return a.origins(x.X)
	case *ast.IndexExpr:
		return a.origins(x.X)
	case *ast.SliceExpr:
		return a.origins(x.X)
	case *ast.TypeAssertExpr:
		return a.origins(x.X)
	case *ast.CallExpr:
		if tv, ok := a.p.info.Types[x.Fun]; ok && tv.IsType() && len(x.Args) == 1 {
			if !hasRefs(a.typeOf(x.Args[0]), 0) {
				return []origin{{"OFresh", "converted value"}}
			}
			return a.origins(x.Args[0]) // conversion keeps the memory
		}
		if id, ok := x.Fun.(*ast.Ident); ok {
			if _, isBuiltin := a.obj(id).(*types.Builtin); isBuiltin {
				switch id.Name {
				case "make", "new":
					return []origin{{"OFresh", id.Name}}
				case "append":
					out := []origin{{"OFresh", "append"}}
					if len(x.Args) > 0 {
						out = append(out, a.origins(x.Args[0])...)
					}
					return out
				}
				return []origin{{"OUnknown", "builtin " + id.Name}}
			}
		}
		if n := a.calleeName(x.Fun); n != "" {
			return []origin{{"OCall", n}}
		}
		return []origin{{"OUnknown", "call of " + types.ExprString(x.Fun)}}
	}
	return []origin{{"OUnknown", types.ExprString(e)}}
}

func (a *freshAn) addResult(e ast.Expr) {
	if t := a.typeOf(e); t != nil && !hasRefs(t, 0) {
		return
	}
	for _, o := range a.origins(e) {
		if !a.seen[o] {
			a.seen[o] = true
			a.results = append(a.results, o)
		}
	}
}

func (a *freshAn) run() {
	bind := func(lhs ast.Expr, rhs ast.Expr) {
		id := a.rootIdent(lhs)
		if id == nil {
			return
		}
		o := a.obj(id)
		if o == nil || a.isPkgVar(o) {
			return
		}
		if t := a.typeOf(rhs); t != nil && !hasRefs(t, 0) {
			return // plain numbers, strings, booleans carry no memory
		}
		a.locals[o] = append(a.locals[o], rhs)
	}
	// parameters and receiver
	addParams := func(fl *ast.FieldList) {
		if fl == nil {
			return
		}
		for _, f := range fl.List {
			for _, n := range f.Names {
				if o := a.p.info.Defs[n]; o != nil {
					a.params[o] = true
				}
			}
		}
	}
	addParams(a.fd.Recv)
	addParams(a.fd.Type.Params)
	// pass 1: bindings, package-level variables
	ast.Inspect(a.fd.Body, func(n ast.Node) bool {
		switch s := n.(type) {
		case *ast.AssignStmt:
			if len(s.Lhs) == len(s.Rhs) {
				for i := range s.Lhs {
					bind(s.Lhs[i], s.Rhs[i])
				}
			} else if len(s.Rhs) == 1 {
				for i := range s.Lhs {
					bind(s.Lhs[i], s.Rhs[0])
				}
			}
		case *ast.ValueSpec:
			for i, n := range s.Names {
				if i < len(s.Values) {
					bind(n, s.Values[i])
				} else if len(s.Values) == 1 {
					bind(n, s.Values[0])
				}
			}
		case *ast.RangeStmt:
			for _, v := range []ast.Expr{s.Key, s.Value} {
				if id, ok := v.(*ast.Ident); ok && id.Name != "_" {
					if o := a.obj(id); o != nil {
						a.ranged[o] = s.X
					}
				}
			}
		case *ast.Ident:
			if o := a.obj(s); o != nil && a.isPkgVar(o) && o.Pkg() == a.p.pkg && !readOnlyTable(a.p, o) {
				a.globals[s.Name] = true
			}
		case *ast.SelectorExpr:
			if id, ok := s.X.(*ast.Ident); ok {
				if _, isPkg := a.obj(id).(*types.PkgName); isPkg {
					a.globals[id.Name+"."+s.Sel.Name] = true
				}
			}
		}
		return true
	})
	// pass 2: what is returned or stored
	ast.Inspect(a.fd.Body, func(n ast.Node) bool {
		switch s := n.(type) {
		case *ast.ReturnStmt:
			for _, r := range s.Results {
				a.addResult(r)
			}
		case *ast.AssignStmt:
			for i, l := range s.Lhs {
				if _, plain := l.(*ast.Ident); plain {
					continue
				}
				// store into a field / element
				if len(s.Lhs) == len(s.Rhs) {
					a.addResult(s.Rhs[i])
				} else if len(s.Rhs) == 1 {
					a.addResult(s.Rhs[0])
				}
			}
		case *ast.CompositeLit:
			for _, el := range s.Elts {
				if kv, ok := el.(*ast.KeyValueExpr); ok {
					a.addResult(kv.Value)
				} else {
					a.addResult(el)
				}
			}
		case *ast.CallExpr:
			if id, ok := s.Fun.(*ast.Ident); ok && id.Name == "append" {
				if _, isBuiltin := a.obj(id).(*types.Builtin); isBuiltin {
					for _, arg := range s.Args[1:] {
						a.addResult(arg)
					}
				}
			}
			if id, ok := s.Fun.(*ast.Ident); ok && id.Name == "copy" {
				// copy(dst, src) copies element values; elements that are references keep their origin
				if _, isBuiltin := a.obj(id).(*types.Builtin); isBuiltin && len(s.Args) == 2 {
					if t := a.typeOf(s.Args[1]); t != nil {
						if sl, ok := t.Underlying().(*types.Slice); ok && hasRefs(sl.Elem(), 0) {
							a.addResult(s.Args[1])
						}
					}
				}
			}
		}
		return true
	})
}

func returnsSlice(p *pkgInfo, fd *ast.FuncDecl) bool {
	if fd.Type.Results == nil {
		return false
	}
	for _, r := range fd.Type.Results.List {
		if tv, ok := p.info.Types[r.Type]; ok && tv.Type != nil {
			if _, ok := tv.Type.Underlying().(*types.Slice); ok {
				return true
			}
		} else if _, ok := r.Type.(*ast.ArrayType); ok {
			return true
		}
	}
	return false
}

// freshness summarises the functions of the package whose results have to be fresh.
func freshness(p *pkgInfo, prefix string, plainFuncs map[string]bool, methodNames map[string]bool) {
	for _, f := range p.files {
		for _, d := range f.Decls {
			fd, ok := d.(*ast.FuncDecl)
			if !ok || fd.Body == nil {
				continue
			}
			name := ""
			if fd.Recv == nil {
				if !plainFuncs[fd.Name.Name] {
					continue
				}
				name = prefix + "." + fd.Name.Name
			} else {
				if !methodNames[fd.Name.Name] || len(fd.Recv.List) != 1 || !returnsSlice(p, fd) {
					continue
				}
				rt := fd.Recv.List[0].Type
				if st, ok := rt.(*ast.StarExpr); ok {
					rt = st.X
				}
				rid, ok := rt.(*ast.Ident)
				if !ok {
					continue
				}
				name = prefix + "." + rid.Name + "." + fd.Name.Name
			}
			a := &freshAn{p: p, prefix: prefix, fd: fd, locals: map[types.Object][]ast.Expr{}, ranged: map[types.Object]ast.Expr{},
				params: map[types.Object]bool{}, visit: map[types.Object]bool{}, seen: map[origin]bool{}, globals: map[string]bool{}}
			a.run()
			var gl []string
			for g := range a.globals {
				gl = append(gl, g)
			}
			sort.Strings(gl)
			allocFns = append(allocFns, allocFn{name: name, results: a.results, globals: gl, src: src(p, fd)})
		}
	}
	sort.SliceStable(allocFns, func(i, j int) bool { return allocFns[i].name < allocFns[j].name })
}

func emitFresh(b *strings.Builder) {
	b.WriteString("\nDefinition alloc_fns : list allocfn := [\n")
	for i, f := range allocFns {
		sep := ";"
		if i == len(allocFns)-1 {
			sep = ""
		}
		var rs, gs []string
		for _, o := range f.results {
			rs = append(rs, o.coq())
		}
		for _, g := range f.globals {
			gs = append(gs, coqStr(g))
		}
		fmt.Fprintf(b, "  (* %s *)\n  {| f_name := %s; f_results := [%s]; f_globals := [%s] |}%s\n", f.src, coqStr(f.name), strings.Join(rs, "; "), strings.Join(gs, "; "), sep)
	}
	b.WriteString("].\n")
}

// readOnlyTable: an unexported package-level variable holding plain data only (basic values,
// strings, arrays / slices / structs of such — no pointer, map, interface, func or channel) that no
// file of the package ever writes: no occurrence is (the root of) the left side of an assignment or
// of ++/--, has its address taken, is the destination of copy / append / clear, or is handed to a
// sort function.  A lookup table hoisted out of a method (`var acmStatusFields =
// []FieldDescription{...}`) is such a variable: reading it is not reading state.
var roTableCache = map[types.Object]bool{}

func plainData(t types.Type, depth int) bool {
	if depth > 6 {
		return false
	}
	switch u := t.Underlying().(type) {
	case *types.Basic:
		return u.Kind() != types.UnsafePointer
	case *types.Slice:
		return plainData(u.Elem(), depth+1)
	case *types.Array:
		return plainData(u.Elem(), depth+1)
	case *types.Struct:
		for i := 0; i < u.NumFields(); i++ {
			if !plainData(u.Field(i).Type(), depth+1) {
				return false
			}
		}
		return true
	}
	return false
}

func readOnlyTable(p *pkgInfo, o types.Object) bool {
	if v, ok := roTableCache[o]; ok {
		return v
	}
	res := !o.Exported() && plainData(o.Type(), 0)
	rootIs := func(e ast.Expr) bool {
		for {
			switch x := e.(type) {
			case *ast.ParenExpr:
				e = x.X
			case *ast.IndexExpr:
				e = x.X
			case *ast.SliceExpr:
				e = x.X
			case *ast.SelectorExpr:
				e = x.X
			case *ast.StarExpr:
				e = x.X
			case *ast.Ident:
				return p.info.Uses[x] == o
			default:
				return false
			}
		}
	}
	for _, f := range p.files {
		if !res {
			break
		}
		ast.Inspect(f, func(n ast.Node) bool {
			switch s := n.(type) {
			case *ast.AssignStmt:
				for _, l := range s.Lhs {
					if rootIs(l) {
						res = false
					}
				}
			case *ast.IncDecStmt:
				if rootIs(s.X) {
					res = false
				}
			case *ast.UnaryExpr:
				if s.Op == token.AND && rootIs(s.X) {
					res = false
				}
			case *ast.RangeStmt:
				if (s.Key != nil && rootIs(s.Key)) || (s.Value != nil && rootIs(s.Value)) {
					res = false
				}
			case *ast.CallExpr:
				name := ""
				switch fn := s.Fun.(type) {
				case *ast.Ident:
					name = fn.Name
				case *ast.SelectorExpr:
					if x, ok := fn.X.(*ast.Ident); ok {
						name = x.Name + "." + fn.Sel.Name
					}
					if rootIs(fn.X) {
						res = false // a method called on it
					}
				}
				if len(s.Args) > 0 && rootIs(s.Args[0]) {
					switch {
					case name == "copy" || name == "append" || name == "clear" || strings.HasPrefix(name, "sort.") || strings.HasPrefix(name, "slices."):
						res = false
					}
				}
			}
			return res
		})
	}
	roTableCache[o] = res
	return res
}
