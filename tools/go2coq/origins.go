// Result-origin analysis (generalisation of fresh.go, used by the -origins mode).
//
// For a function it computes a summary
//
//	results  for every result: the regions the memory DIRECTLY referenced by the result may lie in
//	         (backing array of a returned slice, pointee of a returned pointer, the slices/pointers
//	         held in a returned struct value)
//	deep     the regions of the memory reachable THROUGH that memory (elements of a returned slice
//	         of structs/pointers/slices, fields behind a returned pointer ...)
//	appends  the regions of pre-existing memory onto which the body appends (builtin append and the
//	         append-like externals of the model table) without limiting the capacity with a full slice
//	         expression x[:n:n]: the spare capacity of somebody else's array may be overwritten
//	writes   the regions of pre-existing memory the body writes to otherwise (stores through a pointer/
//	         slice/map, copy, clear, delete, the mutators of the model table, and the writes of
//	         the callees it could resolve)
//	globals  the package-level variables mentioned by the body or by a resolved callee
//
// (error sentinels and variables of an empty struct type, e.g. io.EOF and binary.LittleEndian, are
// not state and are not listed among the globals).
//
// Regions ("origins"):
//
//	fresh            allocated by this call (make, new, composite literal, append's new array,
//	                 address of a local, a local array, results of modelled allocating externals)
//	nil
//	recv / param:x   the memory referenced directly by the receiver / by parameter x
//	recv.deep / param:x.deep   memory reachable through it (two or more dereferences)
//	global:p.V       a package-level variable (at any depth)
//	fn:F             whatever the call of F returns, F being a callee without a body at hand
//	                 (interface method, function value, external package) and without a model
//	reused:e         a fresh buffer that is re-sliced to length 0 (`e[:0]`) and written again,
//	                 i.e. one array that successive iterations / calls share
//	unknown:why      the analysis cannot tell
//
// The analysis is syntactic over the type-checked AST, flow-insensitive (a local has the union of
// everything ever assigned to it or stored into it), field-insensitive (struct and array values are
// transparent: their regions are the union of their fields'), and inter-procedural only through
// summaries of callees whose body is at hand (packages of the repository and bodyPkgs), with the
// formal parameters substituted by the actual arguments.  Effects of callees without body and
// without model are NOT tracked (their results become fn:F).  Results of type `error` and values
// whose type cannot hold a reference are ignored.
package main

import (
	"fmt"
	"go/ast"
	"go/token"
	"go/types"
	"os"
	"sort"
	"strings"
)

type atom struct {
	kind string // fresh nil param recv global call reused unknown
	name string
	deep bool
}

func (a atom) String() string {
	d := ""
	if a.deep {
		d = ".deep"
	}
	switch a.kind {
	case "fresh", "nil":
		return a.kind
	case "recv":
		return "recv" + d
	case "param":
		return "param:" + a.name + d
	case "global":
		return "global:" + a.name
	case "call":
		return "fn:" + a.name
	case "reused":
		return "reused:" + a.name
	}
	return "unknown:" + a.name
}

func (a atom) coq() string {
	b := "false"
	if a.deep {
		b = "true"
	}
	switch a.kind {
	case "fresh":
		return "OFresh"
	case "nil":
		return "ONil"
	case "recv":
		return "ORecv " + b
	case "param":
		return "OParam " + coqStr(a.name) + " " + b
	case "global":
		return "OGlobal " + coqStr(a.name)
	case "call":
		return "OCall " + coqStr(a.name)
	case "reused":
		return "OReused " + coqStr(a.name)
	}
	return "OUnknown " + coqStr(a.name)
}

var (
	aFresh = atom{kind: "fresh"}
	aNil   = atom{kind: "nil"}
)

type aset map[atom]bool

func (s aset) add(o aset) {
	for a := range o {
		s[a] = true
	}
}

func (s aset) sorted() []atom {
	var l []atom
	for a := range s {
		l = append(l, a)
	}
	order := map[string]int{"fresh": 0, "nil": 1, "recv": 2, "param": 3, "global": 4, "call": 5, "reused": 6, "unknown": 7}
	sort.Slice(l, func(i, j int) bool {
		if order[l[i].kind] != order[l[j].kind] {
			return order[l[i].kind] < order[l[j].kind]
		}
		if l[i].name != l[j].name {
			return l[i].name < l[j].name
		}
		return !l[i].deep && l[j].deep
	})
	return l
}

func setOf(as ...atom) aset {
	s := aset{}
	for _, a := range as {
		s[a] = true
	}
	return s
}

func union(ss ...aset) aset {
	r := aset{}
	for _, s := range ss {
		r.add(s)
	}
	return r
}

// aval: T = regions of the memory referenced directly, D = regions of the memory behind it
type aval struct{ T, D aset }

func newVal() aval { return aval{aset{}, aset{}} }

func (v aval) add(o aval) {
	v.T.add(o.T)
	v.D.add(o.D)
}

func (v aval) all() aset { return union(v.T, v.D) }

func unknownVal(why string) aval {
	u := atom{kind: "unknown", name: why}
	return aval{setOf(u), setOf(u)}
}

type fsum struct {
	name    string
	pos     string
	results []aval
	writes  aset
	appends aset            // regions whose spare capacity an append (or an append-like external) may overwrite
	stores  map[string]aset // "recv" / parameter name -> what the body stores into memory reachable from it
	globals map[string]bool
}

// ---- types ---------------------------------------------------------------------------------

func isErrorType(t types.Type) bool {
	n, ok := t.(*types.Named)
	return ok && n.Obj().Pkg() == nil && n.Obj().Name() == "error"
}

// refDepth: 0 = a value of this type holds no reference; 1 = it references memory that itself
// holds no reference ([]byte, *uint32, struct{b []byte}); 2 = deeper (or unknown).
func refDepth(t types.Type, seen map[types.Type]bool) int {
	if t == nil {
		return 2
	}
	if isErrorType(t) {
		return 0
	}
	if seen[t] {
		return 2
	}
	if _, named := t.(*types.Named); named {
		seen[t] = true
		defer delete(seen, t)
	}
	inc := func(e types.Type) int {
		if refDepth(e, seen) == 0 {
			return 1
		}
		return 2
	}
	switch u := t.Underlying().(type) {
	case *types.Basic:
		if u.Kind() == types.UnsafePointer || u.Kind() == types.Invalid {
			return 2
		}
		if u.Kind() == types.UntypedNil {
			return 1
		}
		return 0
	case *types.Slice:
		return inc(u.Elem())
	case *types.Pointer:
		return inc(u.Elem())
	case *types.Map:
		if refDepth(u.Key(), seen) == 0 && refDepth(u.Elem(), seen) == 0 {
			return 1
		}
		return 2
	case *types.Chan:
		return inc(u.Elem())
	case *types.Array:
		return refDepth(u.Elem(), seen)
	case *types.Struct:
		d := 0
		for i := 0; i < u.NumFields(); i++ {
			if x := refDepth(u.Field(i).Type(), seen); x > d {
				d = x
			}
		}
		return d
	case *types.Tuple:
		d := 0
		for i := 0; i < u.Len(); i++ {
			if x := refDepth(u.At(i).Type(), seen); x > d {
				d = x
			}
		}
		return d
	}
	return 2 // interfaces, functions, type parameters
}

func depthOf(t types.Type) int { return refDepth(t, map[types.Type]bool{}) }

func trim(t types.Type, v aval) aval {
	if t == nil {
		return v
	}
	switch depthOf(t) {
	case 0:
		return newVal()
	case 1:
		return aval{v.T, aset{}}
	}
	return v
}

func isNilable(t types.Type) bool {
	if t == nil {
		return false
	}
	switch t.Underlying().(type) {
	case *types.Slice, *types.Pointer, *types.Map, *types.Chan, *types.Interface, *types.Signature:
		return true
	}
	return false
}

func isPointer(t types.Type) bool {
	if t == nil {
		return false
	}
	_, ok := t.Underlying().(*types.Pointer)
	return ok
}

// ---- the analyser ----------------------------------------------------------------------------

type bind struct {
	e      ast.Expr
	idx    int  // >= 0: the idx-th value of a multi-valued expression
	elem   bool // an element / pointee of e rather than e itself
	store  *ast.CallExpr
	sparam string // with store: what the callee stores into memory reachable from this parameter
}

type analysis struct {
	l     *loader
	sums  map[*types.Func]*fsum
	stack map[*types.Func]bool
	ro    map[types.Object]bool
}

type funcAn struct {
	an       *analysis
	lp       *lpkg
	fd       *ast.FuncDecl
	fn       *types.Func
	params   map[types.Object]atom
	assigned map[types.Object][]bind
	stored   map[types.Object][]bind
	alias    map[types.Object][]types.Object
	vals     map[types.Object]aval
	zeroDecl map[types.Object]bool
	fields   map[types.Object]map[*types.Var]types.Object // struct-typed local -> field -> pseudo-variable of that field
	sum      *fsum
	resVars  []types.Object
	depth    int
}

func (l *loader) qualName(fn *types.Func) string {
	p := ""
	if fn.Pkg() != nil {
		p = strings.TrimPrefix(fn.Pkg().Path(), l.modPath+"/")
	}
	sig, _ := fn.Type().(*types.Signature)
	if sig != nil && sig.Recv() != nil {
		t := sig.Recv().Type()
		if pt, ok := t.(*types.Pointer); ok {
			t = pt.Elem()
		}
		switch n := t.(type) {
		case *types.Named:
			return p + "." + n.Obj().Name() + "." + fn.Name()
		case *types.Alias:
			return p + "." + n.Obj().Name() + "." + fn.Name()
		}
		return p + ".?." + fn.Name()
	}
	return p + "." + fn.Name()
}

func (an *analysis) summary(fn *types.Func) *fsum {
	fn = fn.Origin()
	if s, ok := an.sums[fn]; ok {
		return s
	}
	if fn.Pkg() == nil {
		return nil
	}
	lp := an.l.pkgs[fn.Pkg().Path()]
	if lp == nil || lp.info == nil {
		return nil
	}
	fd := lp.decls[fn]
	if fd == nil || fd.Body == nil {
		return nil
	}
	if an.stack[fn] || len(an.stack) > 12 {
		return nil // recursion: the caller treats the callee as opaque
	}
	an.stack[fn] = true
	defer delete(an.stack, fn)
	fa := &funcAn{an: an, lp: lp, fd: fd, fn: fn, params: map[types.Object]atom{}, assigned: map[types.Object][]bind{}, stored: map[types.Object][]bind{},
		alias: map[types.Object][]types.Object{}, vals: map[types.Object]aval{}, zeroDecl: map[types.Object]bool{},
		fields: map[types.Object]map[*types.Var]types.Object{}}
	fa.sum = &fsum{name: an.l.qualName(fn), pos: an.l.pos(fd), writes: aset{}, appends: aset{}, stores: map[string]aset{}, globals: map[string]bool{}}
	fa.run()
	an.sums[fn] = fa.sum
	return fa.sum
}

func (a *funcAn) typeOf(e ast.Expr) types.Type {
	if tv, ok := a.lp.info.Types[e]; ok && tv.Type != nil {
		return tv.Type
	}
	if id, ok := e.(*ast.Ident); ok {
		if o := a.obj(id); o != nil {
			return o.Type()
		}
	}
	return nil
}

func (a *funcAn) obj(id *ast.Ident) types.Object {
	if o := a.lp.info.Uses[id]; o != nil {
		return o
	}
	return a.lp.info.Defs[id]
}

func isPkgVar(o types.Object) bool {
	v, ok := o.(*types.Var)
	return ok && !v.IsField() && v.Pkg() != nil && v.Parent() == v.Pkg().Scope()
}

// statelessVar: a package-level variable that cannot carry state between calls — an error
// sentinel (io.EOF) or a value of an empty struct type (binary.LittleEndian).  Such variables are
// not reported among the globals a function mentions.
func statelessVar(o types.Object) bool {
	t := o.Type()
	if isErrorType(t) {
		return true
	}
	if st, ok := t.Underlying().(*types.Struct); ok && st.NumFields() == 0 {
		return true
	}
	return false
}

// poolVar: a package-level sync.Pool.  What Get hands out is tracked as the region `pooled`
// (see extModels): it may be used as scratch memory, and it is reported when it can reach a
// result.  The pool variable itself carries no value a result could depend on.
func poolVar(o types.Object) bool { return poolType(o.Type(), 0) }

// a sync.Pool, a pointer to one, or an array / slice / map of pools (one pool per algorithm)
func poolType(t types.Type, depth int) bool {
	if depth > 3 {
		return false
	}
	switch u := t.(type) {
	case *types.Pointer:
		return poolType(u.Elem(), depth+1)
	case *types.Array:
		return poolType(u.Elem(), depth+1)
	case *types.Slice:
		return poolType(u.Elem(), depth+1)
	case *types.Map:
		return poolType(u.Elem(), depth+1)
	case *types.Named:
		if u.Obj().Pkg() != nil && u.Obj().Pkg().Path() == "sync" && u.Obj().Name() == "Pool" {
			return true
		}
		if _, isStruct := u.Underlying().(*types.Struct); isStruct {
			return false
		}
		return poolType(u.Underlying(), depth+1)
	}
	return false
}

var aPooled = atom{kind: "global", name: "pooled-object"}

func globalName(o types.Object) string { return o.Pkg().Name() + "." + o.Name() }

func unparen(e ast.Expr) ast.Expr {
	for {
		p, ok := e.(*ast.ParenExpr)
		if !ok {
			return e
		}
		e = p.X
	}
}

// elemVal: the value of an element / pointee of a container of type t with value v
func elemVal(t types.Type, v aval) aval {
	if t != nil {
		switch t.Underlying().(type) {
		case *types.Slice, *types.Pointer, *types.Map, *types.Chan:
			return aval{union(v.D), union(v.D)}
		case *types.Array:
			return aval{union(v.T), union(v.D)}
		case *types.Basic:
			return newVal() // string, integer ranges
		}
	}
	all := v.all()
	return aval{all, union(all)}
}

func (a *funcAn) evalBind(b bind) aval {
	if b.store != nil {
		return a.callStores(b.store, b.sparam)
	}
	var v aval
	if b.idx >= 0 {
		switch x := unparen(b.e).(type) {
		case *ast.CallExpr:
			v = a.evalCall(x, b.idx)
		default:
			if b.idx == 0 {
				v = a.eval(b.e)
			} else {
				v = newVal() // the `ok` of v, ok := ...
			}
		}
	} else {
		v = a.eval(b.e)
	}
	if b.elem {
		v = elemVal(a.typeOf(b.e), v)
	}
	return v
}

// evalVar: the current value of a local in the fixpoint iteration of solve
func (a *funcAn) evalVar(o types.Object) aval {
	if v, ok := a.vals[o]; ok {
		return v
	}
	v := a.initVal(o)
	a.vals[o] = v
	return v
}

func (a *funcAn) initVal(o types.Object) aval {
	v := newVal()
	if p, ok := a.params[o]; ok {
		v.T[p] = true
		pd := p
		pd.deep = true
		v.D[pd] = true
	} else if (len(a.assigned[o]) == 0 || a.zeroDecl[o]) && isNilable(o.Type()) {
		v.T[aNil] = true // declared without a value
	}
	return trim(o.Type(), v)
}

// solve: least fixpoint of "a local has the union of everything assigned to it or stored into it"
func (a *funcAn) solve() {
	var vars []types.Object
	seen := map[types.Object]bool{}
	add := func(o types.Object) {
		if o != nil && !seen[o] {
			seen[o] = true
			vars = append(vars, o)
		}
	}
	for o := range a.params {
		add(o)
	}
	for o := range a.assigned {
		add(o)
	}
	for o := range a.stored {
		add(o)
	}
	sort.Slice(vars, func(i, j int) bool { return vars[i].Pos() < vars[j].Pos() })
	for round := 0; round < 50; round++ {
		changed := false
		for _, o := range vars {
			v := newVal()
			v.add(a.evalVar(o))
			n0, n1 := len(v.T), len(v.D)
			for _, b := range a.assigned[o] {
				v.add(a.evalBind(b))
			}
			for _, b := range a.stored[o] {
				v.D.add(a.evalBind(b).all())
			}
			v = trim(o.Type(), v)
			if len(v.T) != n0 || len(v.D) != n1 {
				changed = true
				a.vals[o] = v
			}
		}
		if !changed {
			if debugOrigins {
				for _, o := range vars {
					fmt.Fprintf(os.Stderr, "  [%s] var %s T=%v D=%v\n", a.sum.name, o.Name(), a.vals[o].T.sorted(), a.vals[o].D.sorted())
				}
			}
			return
		}
	}
	for _, o := range vars {
		a.vals[o].T[atom{kind: "unknown", name: "no fixpoint"}] = true
	}
}

// localField: e is `x.f...` (no pointer followed) where x is a struct-typed local and f one of its
// own fields; assignments to it are kept per field, so that x.f does not see what x.g was given.
func (a *funcAn) localField(e ast.Expr) (root types.Object, field *types.Var) {
	for {
		switch x := unparen(e).(type) {
		case *ast.SelectorExpr:
			if id, ok := unparen(x.X).(*ast.Ident); ok {
				o, isVar := a.obj(id).(*types.Var)
				if !isVar || isPkgVar(o) {
					return nil, nil
				}
				if _, isStruct := o.Type().Underlying().(*types.Struct); !isStruct {
					return nil, nil
				}
				sel, ok := a.lp.info.Selections[x]
				if !ok || sel.Kind() != types.FieldVal || len(sel.Index()) != 1 {
					return nil, nil
				}
				f, _ := sel.Obj().(*types.Var)
				if f == nil {
					return nil, nil
				}
				return o, f
			}
			if sel, ok := a.lp.info.Selections[x]; !ok || selDerefs(sel) > 0 {
				return nil, nil
			}
			e = x.X
		case *ast.IndexExpr:
			if t := a.typeOf(x.X); t == nil {
				return nil, nil
			} else if _, isArr := t.Underlying().(*types.Array); !isArr {
				return nil, nil
			}
			e = x.X
		default:
			return nil, nil
		}
	}
}

func (a *funcAn) fieldObj(root types.Object, f *types.Var) types.Object {
	m := a.fields[root]
	if m == nil {
		m = map[*types.Var]types.Object{}
		a.fields[root] = m
	}
	if o, ok := m[f]; ok {
		return o
	}
	o := types.NewVar(root.Pos(), root.Pkg(), root.Name()+"."+f.Name(), f.Type())
	m[f] = o
	a.zeroDecl[o] = false
	return o
}

// varValue: a local as a whole, i.e. with what its fields were given
func (a *funcAn) varValue(o types.Object) aval {
	v := newVal()
	v.add(a.evalVar(o))
	for _, fo := range a.fields[o] {
		v.add(a.evalVar(fo))
	}
	return v
}

func (a *funcAn) isParam(o types.Object) bool { _, ok := a.params[o]; return ok }

// addr: the region in which the storage of the addressable expression e lies
func (a *funcAn) addr(e ast.Expr) aset {
	switch x := unparen(e).(type) {
	case *ast.Ident:
		o := a.obj(x)
		if o == nil {
			return setOf(atom{kind: "unknown", name: x.Name})
		}
		if isPkgVar(o) {
			return setOf(atom{kind: "global", name: globalName(o)})
		}
		return setOf(aFresh) // a local variable, a parameter (this call's own copy)
	case *ast.SelectorExpr:
		if id, ok := x.X.(*ast.Ident); ok {
			if _, isPkg := a.obj(id).(*types.PkgName); isPkg {
				if o := a.obj(x.Sel); o != nil && isPkgVar(o) {
					return setOf(atom{kind: "global", name: globalName(o)})
				}
				return setOf(atom{kind: "unknown", name: types.ExprString(e)})
			}
		}
		if sel, ok := a.lp.info.Selections[x]; ok {
			switch selDerefs(sel) {
			case 0:
				return a.addr(x.X)
			case 1:
				return union(a.eval(x.X).T)
			}
			return union(a.eval(x.X).D) // through an embedded pointer
		}
		return a.addr(x.X)
	case *ast.IndexExpr:
		if t := a.typeOf(x.X); t != nil {
			if _, isArr := t.Underlying().(*types.Array); isArr {
				return a.addr(x.X)
			}
		}
		return union(a.eval(x.X).T)
	case *ast.SliceExpr:
		return a.addr(x.X)
	case *ast.StarExpr:
		return union(a.eval(x.X).T)
	case *ast.CompositeLit:
		return setOf(aFresh)
	}
	return setOf(atom{kind: "unknown", name: "address of " + types.ExprString(e)})
}

// selDerefs: how many pointers the (possibly promoted) field or method selection follows, not
// counting what happens to the selected thing itself
func selDerefs(sel *types.Selection) int {
	t := sel.Recv()
	n := 0
	idx := sel.Index()
	for k, i := range idx {
		if p, ok := t.Underlying().(*types.Pointer); ok {
			n++
			t = p.Elem()
		}
		if k == len(idx)-1 && sel.Kind() != types.FieldVal {
			break
		}
		st, ok := t.Underlying().(*types.Struct)
		if !ok || i >= st.NumFields() {
			return n + 1
		}
		t = st.Field(i).Type()
	}
	return n
}

func isZeroLit(e ast.Expr) bool {
	l, ok := unparen(e).(*ast.BasicLit)
	return ok && l.Kind == token.INT && l.Value == "0"
}

func (a *funcAn) eval(e ast.Expr) aval {
	t := a.typeOf(e)
	if t != nil && depthOf(t) == 0 {
		return newVal()
	}
	return trim(t, a.eval1(e))
}

func (a *funcAn) eval1(e ast.Expr) aval {
	switch x := e.(type) {
	case *ast.ParenExpr:
		return a.eval(x.X)
	case *ast.Ident:
		if x.Name == "nil" && a.obj(x) == types.Universe.Lookup("nil") {
			return aval{setOf(aNil), aset{}}
		}
		o := a.obj(x)
		switch o := o.(type) {
		case *types.Var:
			if isPkgVar(o) {
				g := atom{kind: "global", name: globalName(o)}
				return aval{setOf(g), setOf(g)}
			}
			return a.varValue(o)
		case *types.Func:
			return newVal() // a top-level function used as a value carries no memory
		case *types.Nil:
			return aval{setOf(aNil), aset{}}
		}
		return unknownVal(x.Name)
	case *ast.BasicLit:
		return newVal()
	case *ast.CompositeLit:
		inner := newVal()
		for _, el := range x.Elts {
			if kv, ok := el.(*ast.KeyValueExpr); ok {
				if t := a.typeOf(x); t != nil {
					if _, isMap := t.Underlying().(*types.Map); isMap {
						inner.add(a.evalElt(kv.Key))
					}
				}
				inner.add(a.evalElt(kv.Value))
			} else {
				inner.add(a.evalElt(el))
			}
		}
		if t := a.typeOf(x); t != nil {
			switch t.Underlying().(type) {
			case *types.Slice, *types.Map:
				return aval{setOf(aFresh), inner.all()}
			}
		}
		return inner // struct / array value: transparent
	case *ast.FuncLit:
		return unknownVal("closure")
	case *ast.UnaryExpr:
		switch x.Op {
		case token.AND:
			in := a.eval(x.X)
			return aval{a.addr(x.X), in.all()}
		case token.ARROW:
			return unknownVal("channel receive")
		}
		return unknownVal(types.ExprString(e))
	case *ast.StarExpr:
		v := a.eval(x.X)
		return aval{union(v.D), union(v.D)}
	case *ast.SelectorExpr:
		if id, ok := x.X.(*ast.Ident); ok {
			if _, isPkg := a.obj(id).(*types.PkgName); isPkg {
				switch o := a.obj(x.Sel).(type) {
				case *types.Var:
					g := atom{kind: "global", name: globalName(o)}
					return aval{setOf(g), setOf(g)}
				case *types.Func:
					return newVal()
				}
				return unknownVal(types.ExprString(e))
			}
		}
		sel, ok := a.lp.info.Selections[x]
		if ok && sel.Kind() != types.FieldVal {
			return unknownVal("method value " + types.ExprString(e))
		}
		if r, f := a.localField(x); r != nil && len(a.fields[r]) > 0 {
			if id, isId := unparen(x.X).(*ast.Ident); isId && a.obj(id) == r {
				v := newVal()
				v.add(a.evalVar(r)) // whole-struct assignments (and what was stored behind it)
				if fo, ok := a.fields[r][f]; ok {
					v.add(a.evalVar(fo))
				}
				return v
			}
		}
		v := a.eval(x.X)
		if ok && selDerefs(sel) > 0 {
			return aval{union(v.D), union(v.D)}
		}
		return v
	case *ast.IndexExpr:
		if tv, ok := a.lp.info.Types[x.X]; ok && tv.Type != nil {
			if _, isSig := tv.Type.Underlying().(*types.Signature); isSig {
				return newVal() // instantiated generic function used as a value
			}
		}
		return elemVal(a.typeOf(x.X), a.eval(x.X))
	case *ast.IndexListExpr:
		return newVal()
	case *ast.SliceExpr:
		t := a.typeOf(x.X)
		var v aval
		isArr := false
		if t != nil {
			_, isArr = t.Underlying().(*types.Array)
		}
		if isArr {
			v = aval{a.addr(x.X), a.eval(x.X).all()}
		} else {
			v = a.eval(x.X) // slice, string, pointer to array
			v = aval{union(v.T), union(v.D)}
		}
		if x.Slice3 && x.Max != nil && isZeroLit(x.Max) {
			// e[:0:0]: no capacity left — append onto it always allocates (the clone idiom)
			return aval{setOf(aNil), union(v.D)}
		}
		if x.Low == nil && x.High != nil && isZeroLit(x.High) && len(v.T) > 0 {
			// e[:0]: the array is kept in order to be filled again
			v.T[atom{kind: "reused", name: types.ExprString(x)}] = true
		}
		return v
	case *ast.TypeAssertExpr:
		return a.eval(x.X)
	case *ast.CallExpr:
		return a.evalCall(x, -1)
	case *ast.BinaryExpr:
		return unknownVal(types.ExprString(e))
	case *ast.KeyValueExpr:
		return a.eval(x.Value)
	}
	return unknownVal(types.ExprString(e))
}

// element of a composite literal (an elided inner literal has no recorded type of its own sometimes)
func (a *funcAn) evalElt(e ast.Expr) aval { return a.eval(e) }

// ---- calls -----------------------------------------------------------------------------------

type callee struct {
	fn      *types.Func
	recv    ast.Expr // receiver expression of a method call
	sel     *types.Selection
	name    string // for opaque callees
	funcLit *ast.FuncLit
}

func (a *funcAn) resolve(call *ast.CallExpr) callee {
	fun := unparen(call.Fun)
	switch f := fun.(type) {
	case *ast.IndexExpr:
		if _, isSig := a.typeOf(f.X).(*types.Signature); isSig {
			fun = unparen(f.X)
		}
	case *ast.IndexListExpr:
		fun = unparen(f.X)
	}
	switch f := fun.(type) {
	case *ast.FuncLit:
		return callee{funcLit: f, name: "closure"}
	case *ast.Ident:
		if fn, ok := a.obj(f).(*types.Func); ok {
			return callee{fn: fn}
		}
		return callee{name: "func value " + f.Name}
	case *ast.SelectorExpr:
		if sel, ok := a.lp.info.Selections[f]; ok {
			if fn, ok := sel.Obj().(*types.Func); ok && sel.Kind() == types.MethodVal {
				return callee{fn: fn, recv: f.X, sel: sel}
			}
			return callee{name: "func value " + types.ExprString(f)}
		}
		if fn, ok := a.obj(f.Sel).(*types.Func); ok {
			return callee{fn: fn}
		}
		return callee{name: "func value " + types.ExprString(f)}
	}
	return callee{name: types.ExprString(call.Fun)}
}

// receiver argument of a method call: the value the callee sees as its receiver
func (a *funcAn) recvArg(c callee) aval {
	v := a.eval(c.recv)
	var pv aval // the receiver object (possibly an embedded one) as a value
	var pa aset // where it lives
	n := 0
	if c.sel != nil {
		n = selDerefs(c.sel)
	} else if isPointer(a.typeOf(c.recv)) {
		n = 1
	}
	switch n {
	case 0:
		pv, pa = v, a.addr(c.recv)
	case 1:
		pv, pa = aval{union(v.D), union(v.D)}, union(v.T)
	default:
		pv, pa = aval{union(v.D), union(v.D)}, union(v.D)
	}
	sig := c.fn.Type().(*types.Signature)
	if sig.Recv() != nil && isPointer(sig.Recv().Type()) {
		return aval{pa, pv.all()}
	}
	if sig.Recv() != nil {
		if _, isIface := sig.Recv().Type().Underlying().(*types.Interface); isIface {
			return v
		}
	}
	return pv
}

// the abstract values of the actual arguments, per formal parameter index
func (a *funcAn) argVals(call *ast.CallExpr, sig *types.Signature) []aval {
	n := sig.Params().Len()
	out := make([]aval, n)
	for i := range out {
		out[i] = newVal()
	}
	if len(call.Args) == 1 && n > 1 {
		if _, isTuple := a.typeOf(call.Args[0]).(*types.Tuple); isTuple {
			for i := range out {
				out[i] = unknownVal("multi-valued argument")
			}
			return out
		}
	}
	for i, arg := range call.Args {
		switch {
		case sig.Variadic() && i >= n-1:
			if call.Ellipsis.IsValid() {
				out[n-1].add(a.eval(arg))
			} else {
				out[n-1].T[aFresh] = true
				out[n-1].D.add(a.eval(arg).all())
			}
		case i < n:
			out[i] = a.eval(arg)
		}
	}
	return out
}

func substSet(s aset, recv aval, params map[string]aval) aset {
	out := aset{}
	for at := range s {
		switch at.kind {
		case "recv":
			if at.deep {
				out.add(recv.D)
			} else {
				out.add(recv.T)
			}
		case "param":
			v, ok := params[at.name]
			if !ok {
				out[atom{kind: "unknown", name: "parameter " + at.name}] = true
				continue
			}
			if at.deep {
				out.add(v.D)
			} else {
				out.add(v.T)
			}
		default:
			out[at] = true
		}
	}
	return out
}

type callCtx struct {
	recv   aval
	params map[string]aval
	args   []aval
}

func (a *funcAn) context(call *ast.CallExpr, c callee) callCtx {
	sig := c.fn.Type().(*types.Signature)
	ctx := callCtx{recv: newVal(), params: map[string]aval{}}
	if c.recv != nil {
		ctx.recv = a.recvArg(c)
	}
	ctx.args = a.argVals(call, sig)
	// names of the formals: those of the declaration (Origin) of the callee
	osig := c.fn.Origin().Type().(*types.Signature)
	for i := 0; i < osig.Params().Len() && i < len(ctx.args); i++ {
		if n := osig.Params().At(i).Name(); n != "" && n != "_" {
			ctx.params[n] = ctx.args[i]
		}
	}
	return ctx
}

func (a *funcAn) evalCall(call *ast.CallExpr, idx int) aval {
	// conversion
	if tv, ok := a.lp.info.Types[call.Fun]; ok && tv.IsType() && len(call.Args) == 1 {
		at := a.typeOf(call.Args[0])
		if at != nil && depthOf(at) == 0 {
			if depthOf(tv.Type) == 0 {
				return newVal()
			}
			return aval{setOf(aFresh), aset{}} // []byte("...")
		}
		return a.eval(call.Args[0])
	}
	if id, ok := unparen(call.Fun).(*ast.Ident); ok {
		if _, isBuiltin := a.obj(id).(*types.Builtin); isBuiltin {
			switch id.Name {
			case "make", "new":
				return aval{setOf(aFresh), aset{}}
			case "append":
				out := aval{setOf(aFresh), aset{}}
				if len(call.Args) > 0 {
					out.add(a.eval(call.Args[0]))
				}
				for i, arg := range call.Args {
					if i == 0 {
						continue
					}
					v := a.eval(arg)
					if call.Ellipsis.IsValid() && i == len(call.Args)-1 {
						out.D.add(v.D)
					} else {
						out.D.add(v.all())
					}
				}
				return out
			case "min", "max", "len", "cap", "copy", "real", "imag", "complex":
				return newVal()
			}
			return unknownVal("builtin " + id.Name)
		}
	}
	c := a.resolve(call)
	if c.fn == nil {
		u := atom{kind: "call", name: c.name}
		return aval{setOf(u), setOf(u)}
	}
	name := a.an.l.qualName(c.fn)
	pick := func(n int) int {
		if idx < 0 {
			return 0
		}
		return idx
	}
	if s := a.an.summary(c.fn); s != nil {
		ctx := a.context(call, c)
		i := pick(len(s.results))
		if i >= len(s.results) {
			return newVal()
		}
		r := s.results[i]
		return aval{substSet(r.T, ctx.recv, ctx.params), substSet(r.D, ctx.recv, ctx.params)}
	}
	if m, ok := extModels[name]; ok {
		ctx := a.context(call, c)
		i := pick(len(m.results))
		if i >= len(m.results) {
			return newVal()
		}
		return a.modelVal(m.results[i], ctx)
	}
	u := atom{kind: "call", name: name}
	return aval{setOf(u), setOf(u)}
}

// callStores: what the (resolved) callee of call stores into memory reachable from its parameter
func (a *funcAn) callStores(call *ast.CallExpr, param string) aval {
	c := a.resolve(call)
	if c.fn == nil {
		return newVal()
	}
	s := a.an.summary(c.fn)
	if s == nil {
		return newVal()
	}
	st, ok := s.stores[param]
	if !ok {
		return newVal()
	}
	ctx := a.context(call, c)
	r := substSet(st, ctx.recv, ctx.params)
	return aval{r, union(r)}
}

// ---- the pass over the body ------------------------------------------------------------------

// root local of an expression that denotes (part of) a variable or memory reachable from it;
// deref tells whether a pointer / slice / map is followed on the way
func (a *funcAn) rootOf(e ast.Expr) (root types.Object, deref bool) {
	for {
		switch x := e.(type) {
		case *ast.ParenExpr:
			e = x.X
		case *ast.Ident:
			o := a.obj(x)
			if _, isVar := o.(*types.Var); isVar {
				return o, deref
			}
			return nil, deref
		case *ast.SelectorExpr:
			if id, ok := x.X.(*ast.Ident); ok {
				if _, isPkg := a.obj(id).(*types.PkgName); isPkg {
					o := a.obj(x.Sel)
					if _, isVar := o.(*types.Var); isVar {
						return o, deref
					}
					return nil, deref
				}
			}
			if sel, ok := a.lp.info.Selections[x]; ok && selDerefs(sel) > 0 {
				deref = true
			}
			e = x.X
		case *ast.IndexExpr:
			if t := a.typeOf(x.X); t != nil {
				if _, isArr := t.Underlying().(*types.Array); !isArr {
					deref = true
				}
			} else {
				deref = true
			}
			e = x.X
		case *ast.SliceExpr:
			e = x.X
		case *ast.StarExpr:
			deref = true
			e = x.X
		case *ast.UnaryExpr:
			if x.Op != token.AND {
				return nil, deref
			}
			e = x.X
		case *ast.TypeAssertExpr:
			e = x.X
		case *ast.CallExpr:
			if tv, ok := a.lp.info.Types[x.Fun]; ok && tv.IsType() && len(x.Args) == 1 {
				e = x.Args[0]
				continue
			}
			if id, ok := unparen(x.Fun).(*ast.Ident); ok && id.Name == "append" && len(x.Args) > 0 {
				if _, isBuiltin := a.obj(id).(*types.Builtin); isBuiltin {
					e = x.Args[0]
					continue
				}
			}
			return nil, deref
		default:
			return nil, deref
		}
	}
}

func (a *funcAn) noteWrite(region aset, at ast.Node) {
	for r := range region {
		if r.kind == "fresh" || r.kind == "nil" || r.kind == "reused" || r == aPooled {
			continue
		}
		if debugOrigins && !a.sum.writes[r] {
			fmt.Fprintf(os.Stderr, "  [%s] writes %s at %s\n", a.sum.name, r, a.an.l.pos(at))
		}
		a.sum.writes[r] = true
	}
}

func (a *funcAn) noteAppend(region aset, at ast.Node) {
	for r := range region {
		if r.kind == "fresh" || r.kind == "nil" || r.kind == "reused" || r == aPooled {
			continue
		}
		if debugOrigins && !a.sum.appends[r] {
			fmt.Fprintf(os.Stderr, "  [%s] appends onto %s at %s\n", a.sum.name, r, a.an.l.pos(at))
		}
		a.sum.appends[r] = true
	}
}

var debugOrigins = os.Getenv("ORIGINS_DEBUG") != ""

func (a *funcAn) run() {
	info := a.lp.info
	sig := a.fn.Type().(*types.Signature)
	// parameters and receiver
	if a.fd.Recv != nil {
		for _, f := range a.fd.Recv.List {
			for _, n := range f.Names {
				if o := info.Defs[n]; o != nil {
					a.params[o] = atom{kind: "recv"}
				}
			}
		}
	}
	for _, f := range a.fd.Type.Params.List {
		for _, n := range f.Names {
			if o := info.Defs[n]; o != nil && n.Name != "_" {
				a.params[o] = atom{kind: "param", name: n.Name}
			}
		}
	}
	if a.fd.Type.Results != nil {
		for _, f := range a.fd.Type.Results.List {
			if len(f.Names) == 0 {
				a.resVars = append(a.resVars, nil)
			}
			for _, n := range f.Names {
				a.resVars = append(a.resVars, info.Defs[n])
			}
		}
	}
	type storeRec struct {
		root types.Object
		b    bind
	}
	var stores []storeRec
	assign := func(lhs ast.Expr, b bind) {
		lhs = unparen(lhs)
		if id, ok := lhs.(*ast.Ident); ok {
			if id.Name == "_" {
				return
			}
			o := a.obj(id)
			if o == nil || isPkgVar(o) {
				return // a write to a global is recorded by the second pass
			}
			a.assigned[o] = append(a.assigned[o], b)
			if b.store == nil {
				if r, _ := a.rootOf(b.e); r != nil && r != o && !isPkgVar(r) {
					a.alias[o] = append(a.alias[o], r)
				}
			}
			return
		}
		root, deref := a.rootOf(lhs)
		if root == nil || isPkgVar(root) {
			return
		}
		if !deref {
			if r, f := a.localField(lhs); r != nil {
				fo := a.fieldObj(r, f)
				a.assigned[fo] = append(a.assigned[fo], b)
				return
			}
			a.assigned[root] = append(a.assigned[root], b)
			return
		}
		stores = append(stores, storeRec{root, b})
	}
	bindTuple := func(lhs []ast.Expr, rhs []ast.Expr) {
		if len(lhs) == len(rhs) {
			for i := range lhs {
				assign(lhs[i], bind{e: rhs[i], idx: -1})
			}
		} else if len(rhs) == 1 {
			for i := range lhs {
				assign(lhs[i], bind{e: rhs[0], idx: i})
			}
		}
	}
	// pass 1: bindings
	ast.Inspect(a.fd.Body, func(n ast.Node) bool {
		switch s := n.(type) {
		case *ast.AssignStmt:
			bindTuple(s.Lhs, s.Rhs)
		case *ast.ValueSpec:
			var lhs []ast.Expr
			for _, n := range s.Names {
				lhs = append(lhs, n)
			}
			if len(s.Values) > 0 {
				bindTuple(lhs, s.Values)
			} else {
				for _, n := range s.Names {
					if o := info.Defs[n]; o != nil {
						a.zeroDecl[o] = true
					}
				}
			}
		case *ast.RangeStmt:
			for _, v := range []ast.Expr{s.Key, s.Value} {
				if v != nil {
					assign(v, bind{e: s.X, idx: -1, elem: true})
				}
			}
		case *ast.SendStmt:
			// ch <- v: v is stored behind the channel
			if root, _ := a.rootOf(s.Chan); root != nil && !isPkgVar(root) {
				stores = append(stores, storeRec{root, bind{e: s.Value, idx: -1}})
			}
		case *ast.TypeSwitchStmt:
			var guard ast.Expr
			switch g := s.Assign.(type) {
			case *ast.AssignStmt:
				if len(g.Rhs) == 1 {
					if ta, ok := unparen(g.Rhs[0]).(*ast.TypeAssertExpr); ok {
						guard = ta.X
					}
				}
			}
			if guard != nil {
				for _, cl := range s.Body.List {
					if o := info.Implicits[cl]; o != nil {
						a.assigned[o] = append(a.assigned[o], bind{e: guard, idx: -1})
					}
				}
			}
		case *ast.CallExpr:
			if fl, ok := unparen(s.Fun).(*ast.FuncLit); ok {
				// go func(x T) {...}(arg): the literal's parameters get the arguments
				i := 0
				for _, f := range fl.Type.Params.List {
					for _, n := range f.Names {
						if i < len(s.Args) {
							if o := info.Defs[n]; o != nil {
								a.assigned[o] = append(a.assigned[o], bind{e: s.Args[i], idx: -1})
							}
						}
						i++
					}
				}
			}
			if id, ok := unparen(s.Fun).(*ast.Ident); ok {
				if _, isBuiltin := a.obj(id).(*types.Builtin); isBuiltin {
					if id.Name == "copy" && len(s.Args) == 2 {
						if root, _ := a.rootOf(s.Args[0]); root != nil && !isPkgVar(root) {
							stores = append(stores, storeRec{root, bind{e: s.Args[1], idx: -1, elem: true}})
						}
					}
					break
				}
			}
			if tv, ok := info.Types[s.Fun]; ok && tv.IsType() {
				break // a conversion
			}
			// what a resolved callee stores into memory reachable from its arguments / receiver
			c := a.resolve(s)
			if c.fn == nil {
				break
			}
			osig, _ := c.fn.Origin().Type().(*types.Signature)
			if osig == nil {
				break
			}
			// a callee that stores through a pointer to a local (x.M() with a pointer receiver, f(&x))
			// assigns to the local itself
			toLocal := func(root types.Object, b bind) {
				a.assigned[root] = append(a.assigned[root], b)
			}
			if c.recv != nil {
				if root, deref := a.rootOf(c.recv); root != nil && !isPkgVar(root) {
					b := bind{store: s, sparam: "recv"}
					if !deref && !isPointer(a.typeOf(c.recv)) && osig.Recv() != nil && isPointer(osig.Recv().Type()) {
						toLocal(root, b)
					} else {
						stores = append(stores, storeRec{root, b})
					}
				}
			}
			for i, arg := range s.Args {
				pi := i
				if pi >= osig.Params().Len() {
					pi = osig.Params().Len() - 1
				}
				if pi < 0 {
					break
				}
				pn := osig.Params().At(pi).Name()
				if pn == "" || pn == "_" {
					continue
				}
				if root, deref := a.rootOf(arg); root != nil && !isPkgVar(root) {
					b := bind{store: s, sparam: pn}
					if u, isAddr := unparen(arg).(*ast.UnaryExpr); isAddr && u.Op == token.AND && !deref {
						toLocal(root, b)
					} else {
						stores = append(stores, storeRec{root, b})
					}
				}
			}
		}
		return true
	})
	// a store through a local that may alias (part of) another local reaches that one too
	for _, st := range stores {
		seen := map[types.Object]bool{}
		var visit func(o types.Object)
		visit = func(o types.Object) {
			if seen[o] {
				return
			}
			seen[o] = true
			a.stored[o] = append(a.stored[o], st.b)
			for _, r := range a.alias[o] {
				visit(r)
			}
		}
		visit(st.root)
	}

	for _, o := range a.resVars {
		if o != nil {
			a.zeroDecl[o] = true
		}
	}
	a.solve()

	// pass 2: results, writes, globals
	nres := sig.Results().Len()
	a.sum.results = make([]aval, nres)
	for i := range a.sum.results {
		a.sum.results[i] = newVal()
	}
	addResult := func(i int, v aval) {
		if i < nres {
			a.sum.results[i].add(trim(sig.Results().At(i).Type(), v))
		}
	}
	var walk func(n ast.Node, inLit bool)
	walk = func(root ast.Node, inLit bool) {
		ast.Inspect(root, func(n ast.Node) bool {
			switch s := n.(type) {
			case *ast.FuncLit:
				if n != root {
					walk(s.Body, true)
					return false
				}
			case *ast.ReturnStmt:
				if inLit {
					break
				}
				switch {
				case len(s.Results) == 0:
					for i, o := range a.resVars {
						if o != nil {
							addResult(i, a.varValue(o))
						}
					}
				case len(s.Results) == nres:
					for i, r := range s.Results {
						addResult(i, a.eval(r))
					}
				case len(s.Results) == 1:
					if call, ok := unparen(s.Results[0]).(*ast.CallExpr); ok {
						for i := 0; i < nres; i++ {
							addResult(i, a.evalCall(call, i))
						}
					}
				}
			case *ast.AssignStmt:
				for _, l := range s.Lhs {
					l = unparen(l)
					if id, ok := l.(*ast.Ident); ok {
						if o := a.obj(id); o != nil && isPkgVar(o) {
							a.noteWrite(a.addr(l), l)
						}
						continue
					}
					a.noteWrite(a.addr(l), l)
				}
			case *ast.IncDecStmt:
				if _, ok := unparen(s.X).(*ast.Ident); !ok {
					a.noteWrite(a.addr(s.X), s)
				} else if o := a.obj(unparen(s.X).(*ast.Ident)); o != nil && isPkgVar(o) {
					a.noteWrite(a.addr(s.X), s)
				}
			case *ast.RangeStmt:
				if s.Tok == token.ASSIGN {
					for _, v := range []ast.Expr{s.Key, s.Value} {
						if v != nil {
							if _, ok := unparen(v).(*ast.Ident); !ok {
								a.noteWrite(a.addr(v), v)
							}
						}
					}
				}
			case *ast.Ident:
				if o := a.obj(s); o != nil && isPkgVar(o) && !statelessVar(o) && !poolVar(o) && !a.an.readOnlyVar(o) {
					a.sum.globals[globalName(o)] = true
				}
			case *ast.CallExpr:
				a.callEffects(s)
			}
			return true
		})
	}
	walk(a.fd.Body, false)
	// what the body stores into memory reachable from its own parameters (for the callers)
	for o, p := range a.params {
		if len(a.stored[o]) == 0 {
			continue
		}
		key := p.name
		if p.kind == "recv" {
			key = "recv"
		}
		set := aset{}
		for _, b := range a.stored[o] {
			set.add(a.evalBind(b).all())
		}
		delete(set, aNil)
		if len(set) > 0 {
			a.sum.stores[key] = set
		}
	}
}

// writes and globals that a call contributes
func (a *funcAn) callEffects(call *ast.CallExpr) {
	if tv, ok := a.lp.info.Types[call.Fun]; ok && tv.IsType() {
		return
	}
	if id, ok := unparen(call.Fun).(*ast.Ident); ok {
		if _, isBuiltin := a.obj(id).(*types.Builtin); isBuiltin {
			switch id.Name {
			case "append":
				if len(call.Args) < 2 {
					return
				}
				if se, ok := unparen(call.Args[0]).(*ast.SliceExpr); ok && se.Slice3 && se.High != nil && se.Max != nil &&
					types.ExprString(se.High) == types.ExprString(se.Max) {
					return // append(x[:n:n], ...) cannot write into x's array
				}
				a.noteAppend(a.eval(call.Args[0]).T, call)
			case "copy", "clear", "delete":
				if len(call.Args) > 0 {
					a.noteWrite(a.eval(call.Args[0]).T, call)
				}
			}
			return
		}
	}
	c := a.resolve(call)
	if c.fn == nil {
		return
	}
	if s := a.an.summary(c.fn); s != nil {
		for g := range s.globals {
			a.sum.globals[g] = true
		}
		if len(s.writes) > 0 {
			ctx := a.context(call, c)
			if debugOrigins {
				fmt.Fprintf(os.Stderr, "  [%s] call %s at %s: recv T=%v D=%v callee writes %v\n", a.sum.name, s.name, a.an.l.pos(call), ctx.recv.T.sorted(), ctx.recv.D.sorted(), s.writes.sorted())
			}
			a.noteWrite(substSet(s.writes, ctx.recv, ctx.params), call)
		}
		if len(s.appends) > 0 {
			ctx := a.context(call, c)
			a.noteAppend(substSet(s.appends, ctx.recv, ctx.params), call)
		}
		return
	}
	if m, ok := extModels[a.an.l.qualName(c.fn)]; ok && len(m.writes)+len(m.appends) > 0 {
		ctx := a.context(call, c)
		for _, w := range m.writes {
			a.noteWrite(a.modelVal(w, ctx).T, call)
		}
		for _, w := range m.appends {
			a.noteAppend(a.modelVal(w, ctx).T, call)
		}
	}
}

// readOnlyVar: an unexported package-level variable that holds no reference to anything but its own
// bytes (a basic value, or a slice / array of basic values) and that the files of its package only
// ever READ: every occurrence outside its declaration is the argument of len / cap, of a conversion,
// of one of the comparing functions of bytes / strings, the spread argument of append, the source of
// copy, an operand of a comparison, or is indexed / sliced in such a position.  Such a variable is a
// named constant of a type Go has no constants for (`var magic = []byte("...")`) and is not
// reported among the globals.  Anything else — an assignment to it or to an element, its address,
// a method call on it, being handed to any other function, a range with it on the left — leaves it
// state.
func (an *analysis) readOnlyVar(o types.Object) bool {
	if an.ro == nil {
		an.ro = map[types.Object]bool{}
	}
	if v, ok := an.ro[o]; ok {
		return v
	}
	res := an.readOnlyVar1(o)
	an.ro[o] = res
	return res
}

func plainBytes(t types.Type) bool {
	switch u := t.Underlying().(type) {
	case *types.Basic:
		return u.Kind() != types.UnsafePointer
	case *types.Slice:
		_, ok := u.Elem().Underlying().(*types.Basic)
		return ok
	case *types.Array:
		_, ok := u.Elem().Underlying().(*types.Basic)
		return ok
	}
	return false
}

var readingFuncs = map[string]bool{
	"bytes.Equal": true, "bytes.HasPrefix": true, "bytes.HasSuffix": true, "bytes.Contains": true,
	"bytes.Index": true, "bytes.Compare": true, "bytes.IndexByte": true, "bytes.Count": true,
	"strings.HasPrefix": true, "strings.HasSuffix": true, "strings.Contains": true, "strings.Index": true,
	"strings.EqualFold": true, "strings.Compare": true,
}

// immutableStd: values of these standard-library types cannot be changed through any of their
// methods (reflect.Type, *regexp.Regexp); a package-level variable of such a type that is only
// ever assigned in its declaration or in init() is a named constant.
func immutableStd(t types.Type) bool {
	if p, ok := t.(*types.Pointer); ok {
		t = p.Elem()
	}
	n, ok := t.(*types.Named)
	if !ok || n.Obj().Pkg() == nil {
		return false
	}
	switch n.Obj().Pkg().Path() + "." + n.Obj().Name() {
	case "reflect.Type", "regexp.Regexp", "time.Duration", "time.Location":
		return true
	}
	return false
}

func isBigNum(t types.Type) bool {
	p, ok := t.(*types.Pointer)
	if !ok {
		return false
	}
	n, ok := p.Elem().(*types.Named)
	if !ok || n.Obj().Pkg() == nil || n.Obj().Pkg().Path() != "math/big" {
		return false
	}
	switch n.Obj().Name() {
	case "Int", "Rat", "Float":
		return true
	}
	return false
}

var bigObservers = map[string]bool{"Cmp": true, "CmpAbs": true, "Sign": true, "IsInt64": true, "IsUint64": true,
	"Int64": true, "Uint64": true, "BitLen": true, "Bit": true, "String": true, "Text": true, "TrailingZeroBits": true}

// inInit: the innermost function declaration around the node at the top of the stack is init()
func inInit(stack []ast.Node) bool {
	for i := len(stack) - 1; i >= 0; i-- {
		if fd, ok := stack[i].(*ast.FuncDecl); ok {
			return fd.Recv == nil && fd.Name.Name == "init"
		}
		if _, ok := stack[i].(*ast.FuncLit); ok {
			return false
		}
	}
	return false
}

func (an *analysis) readOnlyVar1(o types.Object) bool {
	immutable := immutableStd(o.Type())
	bigNum := isBigNum(o.Type())
	table := !plainBytes(o.Type()) && plainData(o.Type(), 0)
	if o.Exported() || !(plainBytes(o.Type()) || immutable || bigNum || table) || o.Pkg() == nil {
		return false
	}
	lp := an.l.pkgs[o.Pkg().Path()]
	if lp == nil || lp.info == nil {
		return false
	}
	if table {
		// a table of plain records (`var layout = []FieldDescription{...}`): a named constant as long
		// as no file of the package writes it (same rule as fresh.go's readOnlyTable)
		return readOnlyTable(&pkgInfo{fset: an.l.fset, files: lp.files, info: lp.info, pkg: lp.pkg}, o)
	}
	ok := true
	for _, f := range lp.files {
		var stack []ast.Node
		ast.Inspect(f, func(n ast.Node) bool {
			if n == nil {
				stack = stack[:len(stack)-1]
				return true
			}
			stack = append(stack, n)
			id, isID := n.(*ast.Ident)
			if !isID || !ok {
				return true
			}
			if lp.info.Defs[id] == o {
				return true // the declaration
			}
			if lp.info.Uses[id] != o {
				return true
			}
			// climb through parentheses, index and slice expressions in which the variable is the operand
			i := len(stack) - 2
			var cur ast.Node = id
			for i >= 0 {
				switch p := stack[i].(type) {
				case *ast.ParenExpr:
					cur = p
					i--
					continue
				case *ast.IndexExpr:
					if p.X == cur {
						cur = p
						i--
						continue
					}
				case *ast.SliceExpr:
					if p.X == cur {
						cur = p
						i--
						continue
					}
				}
				break
			}
			if i < 0 {
				ok = false
				return true
			}
			if as, isAs := stack[i].(*ast.AssignStmt); isAs && inInit(stack) {
				for _, l := range as.Lhs {
					if l == cur && cur == ast.Node(id) {
						return true // initialised in init()
					}
				}
			}
			if bigNum {
				// math/big: a method changes its receiver only and reads its operands.  The variable
				// stays a constant while it is an operand, or the receiver of an observer.
				if call, isCall := stack[i].(*ast.CallExpr); isCall && call.Fun != cur {
					if sel, isSel := unparen(call.Fun).(*ast.SelectorExpr); isSel {
						if tv, has := lp.info.Types[sel.X]; has && isBigNum(tv.Type) {
							return true
						}
					}
				}
				if sel, isSel := stack[i].(*ast.SelectorExpr); isSel && sel.X == cur && i > 0 {
					if call, isCall := stack[i-1].(*ast.CallExpr); isCall && call.Fun == ast.Expr(sel) && bigObservers[sel.Sel.Name] {
						return true
					}
				}
				ok = false
				return true
			}
			if immutable {
				// only a new value (outside init) or its address being taken makes it state
				switch p := stack[i].(type) {
				case *ast.AssignStmt:
					for _, l := range p.Lhs {
						if l == cur {
							ok = false
						}
					}
				case *ast.UnaryExpr:
					if p.Op == token.AND {
						ok = false
					}
				case *ast.IncDecStmt:
					ok = false
				}
				return true
			}
			switch p := stack[i].(type) {
			case *ast.CallExpr:
				if p.Fun == cur {
					ok = false
					return true
				}
				if tv, isT := lp.info.Types[p.Fun]; isT && tv.IsType() {
					return true // conversion: string(x), []byte(x) copy
				}
				name := ""
				switch fn := unparen(p.Fun).(type) {
				case *ast.Ident:
					if _, isB := lp.info.Uses[fn].(*types.Builtin); isB {
						name = fn.Name
					}
				case *ast.SelectorExpr:
					if pk, isP := fn.X.(*ast.Ident); isP {
						if pn, isPN := lp.info.Uses[pk].(*types.PkgName); isPN {
							name = pn.Imported().Path() + "." + fn.Sel.Name
						}
					}
				}
				switch {
				case name == "len" || name == "cap":
				case name == "append" && len(p.Args) >= 2 && p.Args[0] != cur && p.Ellipsis.IsValid():
				case name == "copy" && len(p.Args) == 2 && p.Args[1] == cur:
				case readingFuncs[name]:
				default:
					ok = false
				}
			case *ast.BinaryExpr:
				switch p.Op {
				case token.EQL, token.NEQ, token.LSS, token.LEQ, token.GTR, token.GEQ, token.ADD, token.AND, token.OR, token.XOR, token.SHL, token.SHR, token.SUB, token.MUL, token.QUO, token.REM, token.AND_NOT, token.LAND, token.LOR:
				default:
					ok = false
				}
			case *ast.ValueSpec, *ast.ReturnStmt, *ast.AssignStmt, *ast.CompositeLit, *ast.KeyValueExpr:
				// its value is copied somewhere: fine for a basic value (and for an element taken by
				// an index expression), an alias for a slice
				if _, basic := o.Type().Underlying().(*types.Basic); !basic {
					if _, isIdx := cur.(*ast.IndexExpr); !isIdx {
						ok = false
					}
				}
				if as, isAs := p.(*ast.AssignStmt); isAs {
					for _, l := range as.Lhs {
						if l == cur {
							ok = false
						}
					}
				}
			case *ast.IfStmt, *ast.SwitchStmt, *ast.CaseClause, *ast.ForStmt:
			case *ast.RangeStmt:
				if p.X != cur {
					ok = false
				}
			default:
				ok = false
			}
			return true
		})
		if !ok {
			break
		}
	}
	return ok
}
