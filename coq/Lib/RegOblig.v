(** Obligations that tie the generated register model (tools/go2coq output) to
    the frozen specification (coq/Spec/RegisterSpec.v).  Everything here is
    computable; the soundness of an [ok] verdict is proved in Proofs/Registers.v. *)
From Coq Require Import NArith List String Ascii Bool.
From CSS Require Import Lib.SymBits Lib.RegTypes.
Import ListNotations.
Open Scope N_scope.

Inductive aspec := Sp (s : spec) | SpUnchecked.

(** name, verdict, and on failure a counter-example (raw, expected, got); booleans as 0/1;
    (0,0,0) with [false] means "no witness among the candidates" or a structural failure. *)
Definition result := (string * bool * option (N * N * N))%type.

Definition b2n (b : bool) : N := if b then 1 else 0.

Definition expected_at (W : N) (s : spec) (x : N) : N :=
  match spec_num s W x with
  | Some n => n
  | None => match spec_bool s x with Some b => b2n b | None => 0 end
  end.
Definition got_at (v : value) (x : N) : N :=
  match v with VNum e => eval e x | VBool b => b2n (beval b x) end.

Definition oblig_accessor (gen : list accessor) (entry : string * N * aspec) : result :=
  let '(n, W, sp) := entry in
  match find_accessor n gen with
  | None => (n, false, None)
  | Some a =>
      if negb (N.eqb (a_width a) W) then (n, false, None) else
      match sp with
      | SpUnchecked => (n, true, None)
      | Sp s =>
          if check W (a_val a) s then (n, true, None)
          else (n, false,
                match witness W (a_val a) s with
                | Some x => Some (x, expected_at W s x, got_at (a_val a) x)
                | None => None
                end)
      end
  end.

Fixpoint spec_has (n : string) (l : list (string * N * aspec)) : bool :=
  match l with
  | [] => false
  | (m, _, _) :: t => String.eqb n m || spec_has n t
  end.

(** generated accessors that the specification does not mention *)
Definition unspecified (gen : list accessor) (sp : list (string * N * aspec)) : list string :=
  map a_name (filter (fun a => negb (spec_has (a_name a) sp)) gen).

(** * Field tables *)

Fixpoint fields_eqb (a b : list (string * N)) : bool :=
  match a, b with
  | [], [] => true
  | (n, o) :: a', (m, p) :: b' => String.eqb n m && N.eqb o p && fields_eqb a' b'
  | _, _ => false
  end.
Definition table_eqb (a b : table) : bool :=
  String.eqb (t_name a) (t_name b) && N.eqb (t_bits a) (t_bits b) && fields_eqb (t_fields a) (t_fields b).

(** strictly increasing offsets starting at 0, all below the register size, size <= 64 *)
Fixpoint offsets_incr (prev : N) (l : list (string * N)) : bool :=
  match l with
  | [] => true
  | (_, o) :: t => (prev <? o) && offsets_incr o t
  end.
Definition table_wf (t : table) : bool :=
  match t_fields t with
  | [] => false
  | (_, o) :: rest =>
      N.eqb o 0 && offsets_incr 0 rest && (t_bits t <=? 64) && (0 <? t_bits t) &&
      forallb (fun f => snd f <? t_bits t) (t_fields t)
  end.

Definition oblig_table (gen : list table) (s : table) : result :=
  match find_table (t_name s) gen with
  | None => (t_name s, false, None)
  | Some g => (t_name s, table_eqb g s && table_wf g, None)
  end.

(** (offset, size) of every field *)
Fixpoint field_ranges (bits : N) (l : list (string * N)) : list (N * N) :=
  match l with
  | [] => []
  | (_, o) :: t =>
      match t with
      | [] => [(o, bits - o)]
      | (_, o') :: _ => (o, o' - o) :: field_ranges bits t
      end
  end.

(** register type name of "pkg.Type.Accessor[.Field]" *)
Fixpoint split_dots (s : string) (cur : string) : list string :=
  match s with
  | EmptyString => [cur]
  | String c r => if Ascii.eqb c "."%char then cur :: split_dots r EmptyString
                  else split_dots r (cur ++ String c EmptyString)
  end.
Definition reg_of (n : string) : string :=
  match split_dots n EmptyString with
  | p :: t :: _ => (p ++ "." ++ t)%string
  | _ => n
  end.

(** An accessor specified as bits [lo, lo+w) of a register that has a field
    table must coincide with one field of the table (clipped to the Go type's
    width, for registers whose declared size exceeds their Go type). *)
Definition aligned (tabs : list table) (entry : string * N * aspec) : bool :=
  let '(n, W, sp) := entry in
  match sp with
  | Sp (SBits lo w) | Sp (SNonZero lo w) | Sp (SZero lo w) =>
      match find_table (reg_of n) tabs with
      | None => true
      | Some t => existsb (fun r => N.eqb (fst r) lo && N.eqb (N.min (fst r + snd r) W) (lo + w))
                          (field_ranges (t_bits t) (t_fields t))
      end
  | _ => true
  end.

Fixpoint smem (n : string) (l : list string) : bool :=
  match l with [] => false | h :: t => String.eqb n h || smem n t end.

Definition oblig_aligned (tabs : list table) (entry : string * N * aspec) : result :=
  let '(n, _, _) := entry in ((n ++ "@table")%string, aligned tabs entry, None).
