(** Where the reference-typed results of the register decoders come from — the summary that
    tools/go2coq extracts from the source on every run for [NumberToFieldValue],
    [CalculateRegisterFields], every [Fields()] method and every [Raw()] method that returns
    a slice, and the obligation that ties it to the slice-level model (Model/RegisterHeap.v):
    every byte slice / field slice that such a function returns, or stores into what it
    returns, is made by THIS call ([make], composite literal, [append] to such, a slice of a
    local array copy), is [nil], or is the result of another function of the list; and the
    function reads no package-level variable.  Everything here is computable. *)
From Coq Require Import NArith List String Bool.
From CSS Require Import Lib.SymBits Lib.RegTypes Lib.RegOblig.
Import ListNotations.
Open Scope string_scope.

Inductive origin :=
| OFresh (what : string)     (* allocated by this call *)
| ONil
| OCall (fn : string)        (* result of calling fn *)
| OArg (what : string)       (* (part of) a parameter or a pointer receiver: the caller's memory *)
| OGlobal (what : string)    (* a package-level variable, or reached through one *)
| OUnknown (what : string).  (* the translator cannot tell *)

(** [f_results]: origins of everything reference-typed that is returned or stored into a
    returned structure; [f_globals]: package-level variables (and selectors on imported
    packages) mentioned anywhere in the body. *)
Record allocfn := { f_name : string; f_results : list origin; f_globals : list string }.

Fixpoint find_allocfn (n : string) (l : list allocfn) : option allocfn :=
  match l with
  | [] => None
  | a :: t => if String.eqb n (f_name a) then Some a else find_allocfn n t
  end.

Definition origin_ok (fns : list string) (o : origin) : bool :=
  match o with
  | OFresh _ | ONil => true
  | OCall g => smem g fns
  | _ => false
  end.

Definition origin_descr (o : origin) : string :=
  match o with
  | OFresh w => "fresh " ++ w
  | ONil => "nil"
  | OCall g => "result of " ++ g ++ " (not a checked function)"
  | OArg w => "caller's memory " ++ w
  | OGlobal w => "package-level " ++ w
  | OUnknown w => "unknown origin " ++ w
  end.

Definition join (l : list string) : string := fold_right (fun a b => a ++ "; " ++ b) "" l.

(** [ext]: selectors on imported packages that are known to carry no state
    (binary.LittleEndian, binary.Size); [fns]: the functions whose results must be fresh. *)
Definition oblig_fresh (ext fns : list string) (gen : list allocfn) (n : string) : result :=
  match find_allocfn n gen with
  | None => ("fresh:" ++ n ++ " -- not found in the source", false, None)
  | Some f =>
      let bad := filter (fun o => negb (origin_ok fns o)) (f_results f) in
      let badg := filter (fun g => negb (smem g ext)) (f_globals f) in
      match bad, badg with
      | [], [] => ("fresh:" ++ n, true, None)
      | _, _ => ("fresh:" ++ n ++ " -- hands out: " ++ join (map origin_descr bad)
                  ++ " reads package state: " ++ join badg, false, None)
      end
  end.

(** functions the translator summarised but the specification does not list *)
Definition unlisted_fresh (fns : list string) (gen : list allocfn) : list string :=
  map f_name (filter (fun f => negb (smem (f_name f) fns)) gen).
