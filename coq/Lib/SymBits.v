(** SymBits — a reflective decision procedure for "this shift/mask expression
    returns exactly bits [lo, lo+w) of the raw register value".

    Expressions are what tools/go2coq emits for register accessors: Go's typed
    integer arithmetic with every truncation written out.  [sym] computes, for
    each output bit, a symbolic value: constant, "input bit i", or [Top]
    (unknown).  [check_*] compare that with the specification; the soundness
    theorems turn [check_* = true] (decided by [vm_compute]) into a statement
    for ALL raw values.  [witness] searches a small set of patterns for a raw
    value on which expression and specification differ. *)
From Coq Require Import NArith List Lia Bool ZifyN ZifyBool String.
Import ListNotations.
Open Scope N_scope.

Inductive expr :=
| Raw
| Const (c : N)
| Shr (e : expr) (n : N)
| Shl (e : expr) (n : N) (w : N)      (* result truncated to w bits *)
| And (a b : expr)
| Or  (a b : expr)
| Xor (a b : expr)
| Trunc (e : expr) (w : N)            (* uintW(e) *)
| Ite (c : bexpr) (a b : expr)        (* if c { return a }; return b *)
with bexpr :=
| BConst (b : bool)
| BEq (a b : expr)
| BNe (a b : expr)
| BNot (b : bexpr)
| BAnd (a b : bexpr)
| BOr (a b : bexpr).

Fixpoint eval (e : expr) (x : N) : N :=
  match e with
  | Raw => x
  | Const c => c
  | Shr e n => N.shiftr (eval e x) n
  | Shl e n w => N.land (N.shiftl (eval e x) n) (N.ones w)
  | And a b => N.land (eval a x) (eval b x)
  | Or a b => N.lor (eval a x) (eval b x)
  | Xor a b => N.lxor (eval a x) (eval b x)
  | Trunc e w => N.land (eval e x) (N.ones w)
  | Ite c a b => if beval c x then eval a x else eval b x
  end
with beval (b : bexpr) (x : N) : bool :=
  match b with
  | BConst v => v
  | BEq a b => N.eqb (eval a x) (eval b x)
  | BNe a b => negb (N.eqb (eval a x) (eval b x))
  | BNot b => negb (beval b x)
  | BAnd a b => andb (beval a x) (beval b x)
  | BOr a b => orb (beval a x) (beval b x)
  end.

(** A value returned by an accessor. *)
Inductive value := VNum (e : expr) | VBool (b : bexpr).

(** * Symbolic bits *)

Inductive sbit := B0 | B1 | Inp (i : N) | Top.

Definition sb_and a b :=
  match a, b with
  | B0, _ | _, B0 => B0
  | B1, s | s, B1 => s
  | Inp i, Inp j => if N.eqb i j then Inp i else Top
  | _, _ => Top
  end.
Definition sb_or a b :=
  match a, b with
  | B1, _ | _, B1 => B1
  | B0, s | s, B0 => s
  | Inp i, Inp j => if N.eqb i j then Inp i else Top
  | _, _ => Top
  end.
Definition sb_xor a b :=
  match a, b with
  | B0, s | s, B0 => s
  | B1, B1 => B0
  | Inp i, Inp j => if N.eqb i j then B0 else Top
  | _, _ => Top
  end.

Definition interp (s : sbit) (x : N) : option bool :=
  match s with B0 => Some false | B1 => Some true | Inp i => Some (N.testbit x i) | Top => None end.

(** Symbolic booleans: constant, or "some raw bit of the list is set", or its negation. *)
Inductive sbool := SConst (b : bool) | SAny (l : list N) | SNone (l : list N) | STop.

Definition sneg (s : sbool) : sbool :=
  match s with SConst b => SConst (negb b) | SAny l => SNone l | SNone l => SAny l | STop => STop end.

Definition any_set (l : list N) (x : N) : bool := existsb (fun i => N.testbit x i) l.

Definition binterp (s : sbool) (x : N) : option bool :=
  match s with
  | SConst b => Some b
  | SAny l => Some (any_set l x)
  | SNone l => Some (negb (any_set l x))
  | STop => None
  end.

(** positions examined: 0 .. 63 *)
Fixpoint upto (n : nat) : list N := match n with O => [] | S k => upto k ++ [N.of_nat k] end.
Definition positions : list N := upto 64.

(** Summary of the bits of a symbolic value over [positions]:
    [None] if some bit is [Top]; otherwise (has a constant-1 bit, list of input bits present). *)
Fixpoint summarize (f : N -> sbit) (ps : list N) : option (bool * list N) :=
  match ps with
  | [] => Some (false, [])
  | p :: t =>
      match summarize f t with
      | None => None
      | Some (one, l) =>
          match f p with
          | B0 => Some (one, l)
          | B1 => Some (true, l)
          | Inp i => Some (one, i :: l)
          | Top => None
          end
      end
  end.

(** Number of significant bits an expression can have, given the raw value has [W] bits. *)
Fixpoint bound (W : N) (e : expr) : N :=
  match e with
  | Raw => W
  | Const c => N.size c
  | Shr e n => bound W e - n
  | Shl e n w => w
  | And a b => N.min (bound W a) (bound W b)
  | Or a b | Xor a b => N.max (bound W a) (bound W b)
  | Trunc e w => N.min (bound W e) w
  | Ite _ a b => N.max (bound W a) (bound W b)
  end.

Fixpoint sym (W : N) (e : expr) (j : N) : sbit :=
  match e with
  | Raw => if j <? W then Inp j else B0
  | Const c => if N.testbit c j then B1 else B0
  | Shr e n => sym W e (j + n)
  | Shl e n w => if (j <? w) then (if (j <? n) then B0 else sym W e (j - n)) else B0
  | And a b => sb_and (sym W a j) (sym W b j)
  | Or a b => sb_or (sym W a j) (sym W b j)
  | Xor a b => sb_xor (sym W a j) (sym W b j)
  | Trunc e w => if (j <? w) then sym W e j else B0
  | Ite c a b =>
      match bsym W c with
      | SConst true => sym W a j
      | SConst false => sym W b j
      | _ => match sym W a j, sym W b j with
             | B0, B0 => B0
             | B1, B1 => B1
             | Inp i, Inp k => if N.eqb i k then Inp i else Top
             | _, _ => Top
             end
      end
  end
with bsym (W : N) (b : bexpr) : sbool :=
  match b with
  | BConst v => SConst v
  | BNe a (Const 0) =>
      if bound W a <=? 64 then
        match summarize (sym W a) positions with
        | None => STop
        | Some (true, _) => SConst true
        | Some (false, []) => SConst false
        | Some (false, l) => SAny l
        end
      else STop
  | BEq a (Const 0) =>
      if bound W a <=? 64 then
        match summarize (sym W a) positions with
        | None => STop
        | Some (true, _) => SConst false
        | Some (false, []) => SConst true
        | Some (false, l) => SNone l
        end
      else STop
  | BEq a (Const c) =>
      (* only the shape "(x >> k) & 1 == 1": a is a single input bit at position 0 and c = 1 *)
      if (bound W a <=? 64) && (c =? 1) then
        match sym W a 0, summarize (sym W a) positions with
        | Inp i, Some (false, [i']) => if N.eqb i i' then SAny [i] else STop
        | _, _ => STop
        end
      else STop
  | BNe a (Const c) =>
      if (bound W a <=? 64) && (c =? 1) then
        match sym W a 0, summarize (sym W a) positions with
        | Inp i, Some (false, [i']) => if N.eqb i i' then SNone [i] else STop
        | _, _ => STop
        end
      else STop
  | BEq _ _ | BNe _ _ => STop
  | BNot b => sneg (bsym W b)
  | BAnd a b =>
      match bsym W a, bsym W b with
      | SConst false, _ | _, SConst false => SConst false
      | SConst true, s | s, SConst true => s
      | _, _ => STop
      end
  | BOr a b =>
      match bsym W a, bsym W b with
      | SConst true, _ | _, SConst true => SConst true
      | SConst false, s | s, SConst false => s
      | SAny l1, SAny l2 => SAny (l1 ++ l2)
      | _, _ => STop
      end
  end.

(** * Specifications *)

Definition bits (lo w x : N) : N := N.land (N.shiftr x lo) (N.ones w).

Inductive spec :=
| SBits (lo w : N)                 (* numeric result = bits [lo, lo+w) *)
| SNonZero (lo w : N)              (* boolean result = (bits [lo, lo+w) <> 0) *)
| SZero (lo w : N)                 (* boolean result = (bits [lo, lo+w) = 0) *)
| SMux (bit : N) (vset vclear : N) (* numeric result = if raw bit then vset else vclear *)
| SRaw                             (* numeric result = the whole raw value *).

Definition spec_num (s : spec) (W x : N) : option N :=
  match s with
  | SBits lo w => Some (bits lo w x)
  | SMux b vs vc => Some (if N.testbit x b then vs else vc)
  | SRaw => Some x
  | _ => None
  end.
Definition spec_bool (s : spec) (x : N) : option bool :=
  match s with
  | SNonZero lo w => Some (negb (N.eqb (bits lo w x) 0))
  | SZero lo w => Some (N.eqb (bits lo w x) 0)
  | _ => None
  end.

Definition sbit_eqb a b := match a, b with
  | B0, B0 | B1, B1 => true | Inp i, Inp j => N.eqb i j | _, _ => false end.

Definition spec_bit (lo w j : N) : sbit := if j <? w then Inp (j + lo) else B0.

(** [w <=? 64] is needed for soundness: only [positions] (bits 0..63) are
    compared, so a field wider than 64 bits (possible when [W > 64]) would be
    accepted on the strength of its low 64 bits alone, e.g.
    [check_bits 128 (Trunc Raw 64) 0 128]. *)
Definition check_bits (W : N) (e : expr) (lo w : N) : bool :=
  (bound W e <=? 64) && (w <=? 64) && (lo + w <=? W) &&
  forallb (fun j => sbit_eqb (sym W e j) (spec_bit lo w j)) positions.

Fixpoint range (lo : N) (n : nat) : list N := match n with O => [] | S k => lo :: range (lo + 1) k end.

Fixpoint mem (i : N) (l : list N) : bool := match l with [] => false | h :: t => N.eqb i h || mem i t end.
Definition subset (a b : list N) : bool := forallb (fun i => mem i b) a.
Definition same_set (a b : list N) : bool := subset a b && subset b a.

Definition check_nonzero (W : N) (b : bexpr) (lo w : N) : bool :=
  (lo + w <=? W) && (0 <? w) &&
  match bsym W b with
  | SAny l => same_set l (range lo (N.to_nat w))
  | _ => false
  end.
Definition check_zero (W : N) (b : bexpr) (lo w : N) : bool :=
  (lo + w <=? W) && (0 <? w) &&
  match bsym W b with
  | SNone l => same_set l (range lo (N.to_nat w))
  | _ => false
  end.

Definition is_const_expr (W : N) (e : expr) (v : N) : bool :=
  (bound W e <=? 64) && (N.size v <=? 64) &&
  forallb (fun j => sbit_eqb (sym W e j) (if N.testbit v j then B1 else B0)) positions.

Definition check_mux (W : N) (e : expr) (bit vs vc : N) : bool :=
  (bit <? W) &&
  match e with
  | Ite c a b =>
      match bsym W c with
      | SAny [i] => N.eqb i bit && is_const_expr W a vs && is_const_expr W b vc
      | SNone [i] => N.eqb i bit && is_const_expr W a vc && is_const_expr W b vs
      | _ => false
      end
  | _ => false
  end.

Definition check (W : N) (v : value) (s : spec) : bool :=
  match v, s with
  | VNum e, SBits lo w => check_bits W e lo w
  | VNum e, SRaw => check_bits W e 0 W
  | VNum e, SMux b vs vc => check_mux W e b vs vc
  | VBool b, SNonZero lo w => check_nonzero W b lo w
  | VBool b, SZero lo w => check_zero W b lo w
  | _, _ => false
  end.

(** Does value [v] agree with [s] on the raw value [x]? (concrete evaluation) *)
Definition agrees (W : N) (v : value) (s : spec) (x : N) : bool :=
  match v with
  | VNum e => match spec_num s W x with Some n => N.eqb (eval e x) n | None => false end
  | VBool b => match spec_bool s x with Some r => Bool.eqb (beval b x) r | None => false end
  end.

(** Candidate raw values for the counter-example search: 0, all ones, every
    single bit, every all-ones-minus-one-bit, and two alternating patterns. *)
Definition candidates (W : N) : list N :=
  let all := N.ones W in
  let idx := upto (N.to_nat W) in
  0 :: all :: N.land 6148914691236517205 all :: N.land 12297829382473034410 all
    :: map (fun i => N.shiftl 1 i) idx ++ map (fun i => N.lxor all (N.shiftl 1 i)) idx.

Definition witness (W : N) (v : value) (s : spec) : option N :=
  find (fun x => negb (agrees W v s x)) (candidates W).
