(** Generic part of the correspondence check: run a boolean per-case checker
    over the case list written by the Go harness and return the indices of the
    cases on which model and implementation disagree. *)
From CSS Require Import Lib.Base.

Fixpoint mismatches_from {C} (chk : C -> bool) (i : nat) (cs : list C) : list nat :=
  match cs with
  | [] => []
  | c :: t => if chk c then mismatches_from chk (S i) t else i :: mismatches_from chk (S i) t
  end.

Definition mismatches_by {C} (chk : C -> bool) (cs : list C) : list nat :=
  mismatches_from chk 0 cs.

(** Observed outcome classes, as the harness prints them. *)
Inductive obs (A : Type) : Type :=
| OOk (a : A)
| OErr           (* an error value was returned *)
| OPanic.        (* the call panicked (recovered by the harness) *)
Arguments OOk {A} a.
Arguments OErr {A}.
Arguments OPanic {A}.

Definition obs_match {A} (eqb : A -> A -> bool) (o : obs A) (m : outcome A) : bool :=
  match o, m with
  | OOk a, Ok b => eqb a b
  | OErr, Err _ => true
  | OPanic, Panic => true
  | _, _ => false
  end.

Fixpoint list_eqb {A} (eqb : A -> A -> bool) (a b : list A) : bool :=
  match a, b with
  | [], [] => true
  | x :: a', y :: b' => eqb x y && list_eqb eqb a' b'
  | _, _ => false
  end.
