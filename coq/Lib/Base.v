(** Shared vocabulary of the models: outcomes, fixed-width wrap, a list digest. *)
From Coq Require Export ZArith List Bool Lia.
Export ListNotations.
Open Scope Z_scope.

(** What a Go call can do.  [Panic] and [OutOfFuel] are explicit so that no
    theorem is true "because the model is total". *)
Inductive outcome (A : Type) : Type :=
| Ok (a : A)
| Err (code : Z)
| Panic
| OutOfFuel.
Arguments Ok {A} a.
Arguments Err {A} code.
Arguments Panic {A}.
Arguments OutOfFuel {A}.

Definition bind {A B} (o : outcome A) (f : A -> outcome B) : outcome B :=
  match o with
  | Ok a => f a
  | Err c => Err c
  | Panic => Panic
  | OutOfFuel => OutOfFuel
  end.

Definition W8  : Z := 256.
Definition W16 : Z := 65536.
Definition W32 : Z := 4294967296.
Definition W64 : Z := 18446744073709551616.
(** [wrapN z = z mod 2^N] (lemmas [wrapN_mod] below); the in-range test is only a
    fast path for evaluation: [Z.modulo] by 2^64 is a 64-step long division. *)
Definition wrapW (w z : Z) : Z := if (0 <=? z) && (z <? w) then z else z mod w.
Definition wrap8  (z : Z) : Z := wrapW W8 z.
Definition wrap16 (z : Z) : Z := wrapW W16 z.
Definition wrap32 (z : Z) : Z := wrapW W32 z.
Definition wrap64 (z : Z) : Z := wrapW W64 z.

Lemma wrapW_mod w z : wrapW w z = z mod w.
Proof.
  unfold wrapW. destruct (0 <=? z) eqn:H0; destruct (z <? w) eqn:H1; cbn [andb]; try reflexivity.
  apply Z.leb_le in H0. apply Z.ltb_lt in H1. symmetry. apply Z.mod_small. lia.
Qed.
Lemma wrap8_mod z : wrap8 z = z mod W8. Proof. apply wrapW_mod. Qed.
Lemma wrap16_mod z : wrap16 z = z mod W16. Proof. apply wrapW_mod. Qed.
Lemma wrap32_mod z : wrap32 z = z mod W32. Proof. apply wrapW_mod. Qed.
Lemma wrap64_mod z : wrap64 z = z mod W64. Proof. apply wrapW_mod. Qed.

(** Polynomial digest used to compare long walks with the implementation
    without shipping every element through a .v file.  The Go harness computes
    the same function (harness/gal/digest.go). *)
Definition DIGEST_MASK : Z := 2305843009213693951. (* 2^61 - 1 *)
Definition dstep (h x : Z) : Z := Z.land (h * 1000003 + x + 1) DIGEST_MASK.
Definition dlist (h : Z) (l : list Z) : Z := fold_left dstep l h.

Fixpoint zlist_eqb (a b : list Z) : bool :=
  match a, b with
  | [], [] => true
  | x :: a', y :: b' => (x =? y) && zlist_eqb a' b'
  | _, _ => false
  end.

Fixpoint seqZ (start : Z) (n : nat) : list Z :=
  match n with O => [] | S n' => start :: seqZ (start + 1) n' end.

(** indices (0-based) of the [true] entries *)
Fixpoint true_idx_from (i : nat) (l : list bool) : list nat :=
  match l with
  | [] => []
  | b :: t => if b then i :: true_idx_from (S i) t else true_idx_from (S i) t
  end.
Definition false_idx (l : list bool) : list nat := true_idx_from 0 (map negb l).
