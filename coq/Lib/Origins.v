(** Result-origin tie (all properties): where the memory of the results of an API function comes
    from, what pre-existing memory the function writes to, and which package-level variables it
    mentions — the summary that [tools/go2coq -origins] extracts from the CURRENT source on every
    run — compared with the frozen, hand-reviewed specification [spec/origins.json].

    The hand-written models treat the listed functions as value-level (pure) functions: the result
    is a new value, the arguments are not modified, there is no hidden state between two calls.
    Where an API documents that it hands out or sorts the caller's memory, the specification entry
    says so explicitly ([recv], [param:x], [writes]) and the slice-level models account for it.

    Everything here is computable; the generated file [gen/Origins_Cxx.v] is
      [Definition R := Eval vm_compute in [ origin_row name spec summary ; ... ]],
    so the comparison below — not the Go program — decides each obligation.

    WHAT A GREEN OBLIGATION MEANS.  The summary computed from today's source lies within what the
    entry allows: every region a result may directly reference is allowed for results, every region
    reachable through a result is allowed for results or for [deep], every region the body
    (including the callees whose body is at hand) visibly writes to is allowed for [writes], every
    region onto which it appends without a capacity-limiting full slice expression is allowed for
    [appends], every
    package-level variable mentioned by the body or by such a callee is allowed for [globals], and
    every documented alias of [must_alias] is still there.  A function that is not found, and any
    [unknown] in the summary, fails.

    WHAT IT DOES NOT MEAN.  The analysis behind the summary is syntactic, intra-procedural except
    for summaries of callees in the repository (and a short list of dependencies), flow-insensitive
    and field-insensitive, and conservative only within that scope: callees without a body at hand
    (interface methods, function values, other modules) are either covered by a small table of
    documented models (tools/go2coq/origins_ext.go — trusted) or opaque, in which case their result
    is the named region [fn:F] and their effect on their arguments is NOT tracked; pointer aliasing
    between locals is followed one assignment deep only; [unsafe], reflection and goroutines are not
    understood.  So this is a tie by translation, of the same standing as the constants tie: it
    notices when the source stops having the shape the models assume (an in-place filter
    [s[:0]], a getter that returns its internal buffer, [append] onto somebody else's slice, a new
    package-level cache or scratch buffer) even if no generated case reaches the difference.  It is
    not a proof of non-interference; the dynamic checks (slice-level models, scribble-and-recompute
    oracles) remain the judge of the behaviour. *)
From Coq Require Import List String Bool.
Import ListNotations.
Open Scope string_scope.

Inductive origin :=
| OFresh                               (* allocated by this call *)
| ONil
| ORecv (deep : bool)                  (* memory referenced directly by the receiver / reachable through it *)
| OParam (name : string) (deep : bool) (* the same for a parameter: the caller's memory *)
| OGlobal (name : string)              (* a package-level variable, or reached through one *)
| OCall (fn : string)                  (* result of a callee that is neither analysable nor modelled *)
| OReused (what : string)              (* a buffer of this call re-sliced to length 0 and filled again *)
| OUnknown (why : string).             (* the analysis cannot tell *)

(** what the source says now *)
Record summary := {
  o_found : bool;
  o_results : list origin;   (* regions directly referenced by a result *)
  o_deep : list origin;      (* regions reachable through a result *)
  o_writes : list origin;    (* pre-existing regions written by the body *)
  o_appends : list origin;   (* pre-existing regions onto which the body appends (spare capacity) *)
  o_globals : list string    (* package-level variables mentioned *)
}.

(** what the reviewed specification allows *)
Record spec := {
  s_results : list origin;
  s_deep : list origin;
  s_writes : list origin;
  s_appends : list origin;
  s_globals : list string;
  s_must : list origin       (* documented aliases: have to be among results or deep *)
}.

Definition origin_eqb (a b : origin) : bool :=
  match a, b with
  | OFresh, OFresh | ONil, ONil => true
  | ORecv d, ORecv e => Bool.eqb d e
  | OParam n d, OParam m e => String.eqb n m && Bool.eqb d e
  | OGlobal n, OGlobal m | OCall n, OCall m | OUnknown n, OUnknown m => String.eqb n m
  | OReused _, OReused _ => true       (* "reused" in an entry allows any reused buffer *)
  | _, _ => false
  end.

Definition omem (o : origin) (l : list origin) : bool := existsb (origin_eqb o) l.

Fixpoint smem (s : string) (l : list string) : bool :=
  match l with [] => false | x :: t => String.eqb s x || smem s t end.

(** [nil] references no memory and is always allowed; [unknown] never is. *)
Definition allowed (l : list origin) (o : origin) : bool :=
  match o with
  | ONil => true
  | OUnknown _ => false
  | _ => omem o l
  end.

Definition show (o : origin) : string :=
  let d (b : bool) := if b then ".deep" else "" in
  match o with
  | OFresh => "fresh"
  | ONil => "nil"
  | ORecv b => "recv" ++ d b
  | OParam n b => "param:" ++ n ++ d b
  | OGlobal n => "global:" ++ n
  | OCall f => "fn:" ++ f
  | OReused w => "reused:" ++ w
  | OUnknown w => "unknown:" ++ w
  end.

Fixpoint join (l : list string) : string :=
  match l with
  | [] => "-"
  | [x] => x
  | x :: t => x ++ ", " ++ join t
  end.

Definition shows (l : list origin) : string := join (map show l).

Definition bad_results (sp : spec) (su : summary) := filter (fun o => negb (allowed (s_results sp) o)) (o_results su).
Definition bad_deep (sp : spec) (su : summary) := filter (fun o => negb (allowed (s_results sp ++ s_deep sp) o)) (o_deep su).
Definition bad_writes (sp : spec) (su : summary) := filter (fun o => negb (allowed (s_writes sp) o)) (o_writes su).
Definition bad_appends (sp : spec) (su : summary) := filter (fun o => negb (allowed (s_appends sp) o)) (o_appends su).
Definition bad_globals (sp : spec) (su : summary) := filter (fun g => negb (smem g (s_globals sp))) (o_globals su).
Definition missing (sp : spec) (su : summary) := filter (fun o => negb (omem o (o_results su ++ o_deep su))) (s_must sp).

Definition origins_ok (sp : spec) (su : summary) : bool :=
  o_found su
  && match bad_results sp su, bad_deep sp su, bad_writes sp su, bad_appends sp su, bad_globals sp su, missing sp su with
     | [], [], [], [], [], [] => true
     | _, _, _, _, _, _ => false
     end.

Definition describe_summary (su : summary) : string :=
  "results {" ++ shows (o_results su) ++ "} deep {" ++ shows (o_deep su) ++ "} writes {" ++ shows (o_writes su)
  ++ "} appends {" ++ shows (o_appends su) ++ "} globals {" ++ join (o_globals su) ++ "}".

Definition describe_spec (sp : spec) : string :=
  "results {" ++ shows (s_results sp) ++ "} deep {" ++ shows (s_deep sp) ++ "} writes {" ++ shows (s_writes sp)
  ++ "} appends {" ++ shows (s_appends sp) ++ "} globals {" ++ join (s_globals sp) ++ "}"
  ++ match s_must sp with [] => "" | m => " must alias {" ++ shows m ++ "}" end.

Definition part (label : string) (l : list string) : string :=
  match l with [] => "" | _ => label ++ " " ++ join l ++ "; " end.

(** one row of the generated file: name, what the source says now vs what the entry allows, verdict *)
Definition origin_row (name : string) (sp : spec) (su : summary) : string * string * bool :=
  if negb (o_found su) then (name, "not found in the source (renamed, removed or moved): the entry has to be re-derived and reviewed", false)
  else if origins_ok sp su then (name, "source: " ++ describe_summary su, true)
  else (name,
        "NOT ALLOWED: "
        ++ part "a result may reference" (map show (bad_results sp su))
        ++ part "memory behind a result may be" (map show (bad_deep sp su))
        ++ part "the body writes to" (map show (bad_writes sp su))
        ++ part "the body appends onto (spare capacity of)" (map show (bad_appends sp su))
        ++ part "package state mentioned:" (bad_globals sp su)
        ++ part "documented alias no longer present:" (map show (missing sp su))
        ++ "source now: " ++ describe_summary su ++ " | specification allows: " ++ describe_spec sp,
        false).
