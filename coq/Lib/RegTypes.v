(** Record types of the data emitted by tools/go2coq. *)
From Coq Require Import NArith List String.
From CSS Require Import Lib.SymBits.
Import ListNotations.
Open Scope N_scope.

Record accessor := { a_name : string; a_width : N; a_val : value }.
Record table := { t_name : string; t_bits : N; t_fields : list (string * N) }.

Fixpoint find_accessor (n : string) (l : list accessor) : option accessor :=
  match l with
  | [] => None
  | a :: t => if String.eqb n (a_name a) then Some a else find_accessor n t
  end.
Fixpoint find_table (n : string) (l : list table) : option table :=
  match l with
  | [] => None
  | a :: t => if String.eqb n (t_name a) then Some a else find_table n t
  end.
