(* copied to coq/gen/ on every run; evaluates the generated register model against the frozen spec *)
From Coq Require Import NArith List String.
From CSS Require Import Lib.SymBits Lib.RegTypes Lib.RegOblig Lib.RegFresh Spec.RegisterSpec Model.Registers Model.RegistersDec gen.FromSource_registers.
Import ListNotations.
Open Scope N_scope.

Definition results : list result :=
  map (oblig_accessor accessors) spec_accessors
  ++ map (oblig_table tables) spec_tables
  ++ map (oblig_aligned tables) (filter (fun e => negb (smem (fst (fst e)) no_table_field)) spec_accessors)
  ++ map (fun n => (("unspecified:" ++ n)%string, false, None)) (unspecified accessors spec_accessors)
  ++ map (fun n => (("untranslated:" ++ n)%string, false, None)) untranslated
  ++ map (oblig_fresh spec_stateless spec_fresh alloc_fns) spec_fresh
  ++ map (fun n => (("fresh-unspecified:" ++ n)%string, false, None)) (unlisted_fresh spec_fresh alloc_fns)
  (* the two TXT decoders decode the same field: same specified slice, both accessors green, slot and
     register start at the same byte (Model/RegistersDec.v; soundness: C04_decoder_pair_sound) *)
  ++ map (oblig_pair spec_accessors accessors) decoder_pairs
  ++ map (oblig_raw_pair spec_accessors accessors) raw_pairs
  ++ [("tables-of-types-in-layout-order"%string, types_in_layout_order, None)]
  ++ [("tables-count"%string, Nat.eqb (List.length tables) (List.length spec_tables), None)].
Definition R := Eval vm_compute in results.
Print R.
