#!/bin/sh
# Regenerates _CoqProject from the files on disk and builds every .vo (full build, no -vos).
cd "$(dirname "$0")" || exit 2
ulimit -s unlimited 2>/dev/null || ulimit -s $(ulimit -Hs) 2>/dev/null || true
{
  echo "-Q . CSS"
  echo "-arg -w -arg -notation-overridden,-deprecated-hint-without-locality,-deprecated-instance-without-locality"
  find Lib Spec Model Proofs Props -name '*.v' | sort
} > _CoqProject.new
if ! cmp -s _CoqProject.new _CoqProject 2>/dev/null; then mv _CoqProject.new _CoqProject; coq_makefile -f _CoqProject -o Makefile >/dev/null; else rm _CoqProject.new; fi
[ -f Makefile ] || coq_makefile -f _CoqProject -o Makefile >/dev/null
exec timeout ${COQ_BUILD_TIMEOUT:-1500} make -j${COQ_JOBS:-16} "$@"
