(** C08 — combination enumeration is a bijection between IDs and sorted k-subsets.
    This file holds only the property theorems, each closed by [exact]. *)
From CSS Require Import Lib.Base Model.Comb Proofs.Comb.

Theorem C08_next_empty : forall m, next m [] = (false, []).
Proof. exact next_empty. Qed.
Print Assumptions C08_next_empty.
