(** C08 — combination enumeration is a bijection between IDs and sorted k-subsets.
    This file holds only the property theorems, each closed by [exact].

    Vocabulary (defined in Proofs/Comb.v, model in Model/Comb.v):
    - [Valid m s]      : [s] strictly increasing with every element in [0..m]
                         (see [C08_Valid_iff] for the textbook reading);
    - [lex s t]        : strict lexicographic order on tuples of equal length;
    - [first_comb k]   = [0; 1; ..; k-1],  [last_comb m k] = [m-k+1; ..; m];
    - [binom n k]      : Pascal's rule, the recurrence that fills the lookup table;
    - [rank m s]       : the ID formula of getCombinationID in Z (no wrap),
      [rank64], [amount64], [binom64] : what the Go code computes in uint64;
    - [nth_comb m i s] : [Some] of the state after [i] successful [next]s from [s],
                         [None] if [next] reported exhaustion on the way.
    [m + 1 < 2^63] says that maxValue+1 is still an int64 (Go's Value type).

    Section 7 is about WHERE the combinations live (Model/CombHeap.v): a state
    [st] holds the backing arrays, the iterator objects and the combinations
    handed to the caller; [step o st] / [run ops st] execute calls ([ONew],
    [ONext i], [OSeek i id], [OGet i] = GetCombination, [OGetUnsafe i], [OCopy i],
    [OWrite r j v] = the caller writes r[j], [OID], [OAmount]);
    - [current st i] : the combination iterator [i] stands at,
    - [result st r]  : what the caller reads in the [r]-th combination he was handed,
    - [WF st]        : references point into the memory and no two iterator
                       objects share a backing array (holds after any run from
                       nothing: [C08_heap_wf]),
    - [Private st i a] : iterator [i] works on array [a], which no other iterator
                       uses and no handed-out slice refers to (true for a new
                       iterator and for a copy: [C08_new_iterator], [C08_copy]),
    - [addresses o i] : call [o] is Next / SetCombinationID / GetCombinationUnsafe
                       on iterator [i].

    Section 8 is about several goroutines, each with an iterator of its own
    (Model/CombConc.v): [lrun m calls s] is what the calls [LNext], [LSeek id],
    [LGet], [LID], [LAmount] yield on an iterator standing at [s] when nobody
    else exists; [view i ops es] picks, out of a schedule [ops] of calls on many
    iterators with the returned values [es], the calls made on iterator [i];
    [Owns st i a m]: iterator [i] is the object (array [a], maxValue [m]) and
    [Private st i a].  Section 9: [seek_h], [run_h], [lrun_h] take the
    iterator positions read by the harness after each SetCombinationID as
    evaluation hints. *)
From CSS Require Import Lib.Base Lib.Cases Model.Comb Proofs.Comb Model.CombHeap Model.CombConc Model.CombCases Proofs.CombHeap Proofs.CombConc.
From Coq Require Import Sorting.Sorted.

(** * Vocabulary *)

Theorem C08_Valid_iff : forall m s,
  Valid m s <-> StronglySorted Z.lt s /\ Forall (fun x => 0 <= x <= m) s.
Proof. exact Valid_iff. Qed.
Print Assumptions C08_Valid_iff.

Theorem C08_lex_strict_total :
  (forall s, ~ lex s s) /\
  (forall s t u, lex s t -> lex t u -> lex s u) /\
  (forall s t, length s = length t -> lex s t \/ s = t \/ lex t s).
Proof. exact (conj lex_irrefl (conj lex_trans lex_total)). Qed.
Print Assumptions C08_lex_strict_total.

(** * 1. Binomial coefficients: the executable formula is Pascal's rule; uint64 = mod 2^64 *)

Theorem C08_binom_fast : forall (n k : nat), binom_fast (Z.of_nat n) k = binom n k.
Proof. exact (fun n k => binom_fast_eq k n). Qed.
Print Assumptions C08_binom_fast.

Theorem C08_binom64 : forall n k, 0 <= n < 2 ^ 63 -> 0 <= k ->
  binom64 n k = binom (Z.to_nat n) (Z.to_nat k) mod 2 ^ 64.
Proof. exact binom64_mod. Qed.
Print Assumptions C08_binom64.

(** * 2. next *)

Theorem C08_next_empty : forall m, next m [] = (false, []).
Proof. exact next_empty. Qed.
Print Assumptions C08_next_empty.

(** On a valid tuple other than the last one [next] succeeds. *)
Theorem C08_next_progress : forall m s, Valid m s -> s <> last_comb m (length s) ->
  exists s', next m s = (true, s') /\ Valid m s' /\ length s' = length s /\
             rank m s' = rank m s + 1.
Proof. exact next_step. Qed.
Print Assumptions C08_next_progress.

(** ... and what it yields is the lexicographic successor among valid tuples. *)
Theorem C08_next_succ : forall m s s', Valid m s -> next m s = (true, s') ->
  Valid m s' /\ length s' = length s /\ lex s s' /\
  forall t, Valid m t -> length t = length s -> ~ (lex s t /\ lex t s').
Proof. exact next_succ. Qed.
Print Assumptions C08_next_succ.

(** Exhaustion exactly on the last tuple [m-k+1..m] (for k = 0 that is []). *)
Theorem C08_next_last : forall m k,
  next m (last_comb m k) = (false, seqZ (m - Z.of_nat k + 2) k).
Proof. exact next_last. Qed.
Print Assumptions C08_next_last.

Theorem C08_next_exhausted_iff : forall m s, Valid m s ->
  (fst (next m s) = false <-> s = last_comb m (length s)).
Proof. exact next_exhausted_iff. Qed.
Print Assumptions C08_next_exhausted_iff.

(** * 3. rank is a bijection from valid k-tuples onto [0, C(m+1,k)) *)

Theorem C08_rank_first : forall m k, rank m (first_comb k) = 0.
Proof. exact rank_first. Qed.
Print Assumptions C08_rank_first.

Theorem C08_rank_next : forall m s s', Valid m s -> next m s = (true, s') ->
  Valid m s' /\ length s' = length s /\ rank m s' = rank m s + 1 /\
  s <> last_comb m (length s).
Proof. exact next_true. Qed.
Print Assumptions C08_rank_next.

Theorem C08_rank_last : forall m k,
  rank m (last_comb m k) = binom (Z.to_nat (m + 1)) k - 1.
Proof. exact rank_last. Qed.
Print Assumptions C08_rank_last.

Theorem C08_rank_range : forall m s, Valid m s ->
  0 <= rank m s < binom (Z.to_nat (m + 1)) (length s).
Proof. exact rank_bounds. Qed.
Print Assumptions C08_rank_range.

Theorem C08_rank_inj : forall m s t,
  Valid m s -> Valid m t -> length s = length t -> rank m s = rank m t -> s = t.
Proof. exact rank_inj. Qed.
Print Assumptions C08_rank_inj.

Theorem C08_rank_surj : forall m k id,
  Z.of_nat k <= m + 1 -> 0 <= id < binom (Z.to_nat (m + 1)) k ->
  exists s, Valid m s /\ length s = k /\ rank m s = id.
Proof. exact rank_surj. Qed.
Print Assumptions C08_rank_surj.

(** rank is strictly monotone for the lexicographic order. *)
Theorem C08_rank_lex : forall m s t, Valid m s -> Valid m t -> length s = length t ->
  (lex s t <-> rank m s < rank m t).
Proof. exact rank_lex_iff. Qed.
Print Assumptions C08_rank_lex.

(** The i-th combination visited from [first_comb k] exists exactly for
    i < C(m+1,k), is valid and has ID i. *)
Theorem C08_rank_enum : forall m k i, Z.of_nat k <= m + 1 ->
  (Z.of_nat i < binom (Z.to_nat (m + 1)) k ->
     exists s, nth_comb m i (first_comb k) = Some s /\ Valid m s /\ length s = k /\
               rank m s = Z.of_nat i) /\
  (binom (Z.to_nat (m + 1)) k <= Z.of_nat i -> nth_comb m i (first_comb k) = None).
Proof. exact rank_enum. Qed.
Print Assumptions C08_rank_enum.

(** The model's [walk] (the function the correspondence check compares with the
    Go iterator): C(m+1,k) states visited, exhaustion reported, every uint64 ID
    equal to the visit index. *)
Theorem C08_walk : forall m k fuel h, Z.of_nat k <= m + 1 -> m + 1 < 2 ^ 63 ->
  binom (Z.to_nat (m + 1)) k < 2 ^ 64 -> binom (Z.to_nat (m + 1)) k <= Z.of_nat fuel ->
  exists h', walk fuel m (first_comb k) 0 h true
             = (h', binom (Z.to_nat (m + 1)) k, true, true).
Proof. exact walk_first. Qed.
Print Assumptions C08_walk.

(** * 4. uint64 arithmetic is exact modulo 2^64 *)

Theorem C08_rank64_mod : forall m s, Valid m s -> m + 1 < 2 ^ 63 ->
  rank64 m s = rank m s mod 2 ^ 64.
Proof. exact rank64_mod. Qed.
Print Assumptions C08_rank64_mod.

Theorem C08_rank64_exact : forall m s, Valid m s -> m + 1 < 2 ^ 63 ->
  binom (Z.to_nat (m + 1)) (length s) < 2 ^ 64 -> rank64 m s = rank m s.
Proof. exact rank64_exact. Qed.
Print Assumptions C08_rank64_exact.

Theorem C08_amount64_mod : forall m k, 0 <= m + 1 < 2 ^ 63 ->
  amount64 m k = binom (Z.to_nat (m + 1)) k mod 2 ^ 64.
Proof. exact amount64_mod. Qed.
Print Assumptions C08_amount64_mod.

Theorem C08_amount : forall m k, 0 <= m + 1 < 2 ^ 63 ->
  binom (Z.to_nat (m + 1)) k < 2 ^ 64 -> amount64 m k = binom (Z.to_nat (m + 1)) k.
Proof. exact amount64_exact. Qed.
Print Assumptions C08_amount.

(** The two range hypotheses cannot be dropped (representability, not defects). *)
Theorem C08_amount_overflow_refuted : exists m k, 0 <= m + 1 < 2 ^ 63 /\
  2 ^ 64 <= binom (Z.to_nat (m + 1)) k /\ amount64 m k <> binom (Z.to_nat (m + 1)) k.
Proof. exact amount_overflow_refuted. Qed.
Print Assumptions C08_amount_overflow_refuted.

Theorem C08_rank64_maxint64_refuted : exists m s,
  Valid m s /\ m + 1 = 2 ^ 63 /\ rank64 m s <> rank m s mod 2 ^ 64.
Proof. exact rank64_maxint64_refuted. Qed.
Print Assumptions C08_rank64_maxint64_refuted.

(** * 5. seek (SetCombinationID): total and exact on the documented domain *)

(** Never [Panic], never [OutOfFuel]: the N-section search terminates within
    [seek_fuel m k] iterations and lands on the tuple of rank [id]. *)
Theorem C08_seek : forall m k id,
  Z.of_nat k <= m + 1 -> m + 1 < 2 ^ 63 ->
  binom (Z.to_nat (m + 1)) k < 2 ^ 64 -> 0 <= id < binom (Z.to_nat (m + 1)) k ->
  exists s, seek m k id = Ok s /\ Valid m s /\ length s = k /\ rank m s = id.
Proof. exact seek_total. Qed.
Print Assumptions C08_seek.

Theorem C08_seek_empty : forall m id, seek m 0 id = Ok [].
Proof. exact seek_0. Qed.
Print Assumptions C08_seek_empty.

(** Unconditional soundness: whatever [seek] returns reports the requested ID. *)
Theorem C08_seek_sound : forall m k id r,
  (1 <= k)%nat -> seek m k id = Ok r -> rank64 m r = id.
Proof. exact seek_sound. Qed.
Print Assumptions C08_seek_sound.

(** [id >= amount] is outside the contract ("may hang or panic" in the Go doc). *)
Theorem C08_seek_oob_refuted : exists m k id,
  (1 <= k)%nat /\ Z.of_nat k <= m + 1 /\ id = binom (Z.to_nat (m + 1)) k /\
  seek m k id = Panic.
Proof. exact seek_oob_refuted. Qed.
Print Assumptions C08_seek_oob_refuted.

(** * 6. Applying a combination *)

Theorem C08_flip_valid : forall m s n, Valid m s -> m < n ->
  NoDup s /\ Forall (fun i => 0 <= i < n) s.
Proof. exact Valid_flip_hyps. Qed.
Print Assumptions C08_flip_valid.

Theorem C08_flip_bools_exact : forall s v,
  NoDup s -> Forall (fun i => 0 <= i < Z.of_nat (length v)) s ->
  exists v', flip_bools s v = Ok v' /\ length v' = length v /\
    forall j, (j < length v)%nat ->
      nth j v' false = if in_dec Z.eq_dec (Z.of_nat j) s then negb (nth j v false)
                       else nth j v false.
Proof. exact flip_bools_spec. Qed.
Print Assumptions C08_flip_bools_exact.

Theorem C08_flip_bools_involutive : forall s v v',
  NoDup s -> Forall (fun i => 0 <= i < Z.of_nat (length v)) s ->
  flip_bools s v = Ok v' -> flip_bools s v' = Ok v.
Proof. exact flip_bools_invol. Qed.
Print Assumptions C08_flip_bools_involutive.

(** Bit [b] of byte [j] is flipped iff index [8j+b] is in the combination
    ([memZ x s] is the boolean [In x s]); bits 8 and above are untouched and
    bytes stay bytes. *)
Theorem C08_flip_bytes_exact : forall s v,
  NoDup s -> Forall (fun i => 0 <= i < 8 * Z.of_nat (length v)) s ->
  exists v', flip_bytes s v = Ok v' /\ length v' = length v /\
    (Forall (fun x => 0 <= x < 256) v -> Forall (fun x => 0 <= x < 256) v') /\
    forall j b, (j < length v)%nat -> 0 <= b ->
      Z.testbit (nth j v' 0) b
      = xorb (Z.testbit (nth j v 0) b) ((b <? 8) && memZ (8 * Z.of_nat j + b) s).
Proof. exact flip_bytes_spec. Qed.
Print Assumptions C08_flip_bytes_exact.

Theorem C08_memZ_In : forall x s, memZ x s = true <-> In x s.
Proof. exact memZ_In. Qed.
Print Assumptions C08_memZ_In.

Theorem C08_flip_bytes_involutive : forall s v v',
  NoDup s -> Forall (fun i => 0 <= i < 8 * Z.of_nat (length v)) s ->
  flip_bytes s v = Ok v' -> flip_bytes s v' = Ok v.
Proof. exact flip_bytes_invol. Qed.
Print Assumptions C08_flip_bytes_involutive.

(** * 7. Returned combinations are values; iterator copies are independent *)

Theorem C08_heap_wf : forall ops st es, run ops hinit = Ok (st, es) -> WF st.
Proof. exact (fun ops st es H => run_WF ops hinit st es WF_init H). Qed.
Print Assumptions C08_heap_wf.

Theorem C08_heap_wf_step : forall o st st' e, WF st -> step o st = Ok (st', e) -> WF st'.
Proof. exact step_WF. Qed.
Print Assumptions C08_heap_wf_step.

(** GetCombination: the caller gets the current combination in an array of its
    own; no iterator and no combination handed out earlier changes. *)
Theorem C08_get_copies : forall st i st1 e, WF st -> step (OGet i) st = Ok (st1, e) ->
  result st1 (length (h_res st)) = current st i /\
  results st1 = results st ++ [current st i] /\
  currents st1 = currents st.
Proof.
  intros st i st1 e HW H. destruct (get_spec st i st1 e HW H) as (_ & A & B & _ & _ & C).
  exact (conj C (conj A B)).
Qed.
Print Assumptions C08_get_copies.

(** ... and it keeps that value through ANY later calls (Next, SetCombinationID,
    GetCombination, Copy, on this or any other iterator, writes to other
    slices), unless the caller overwrites it himself. *)
Theorem C08_get_stable : forall st i st1 e ops st2 es,
  WF st -> step (OGet i) st = Ok (st1, e) -> run ops st1 = Ok (st2, es) ->
  (forall j v, ~ In (OWrite (length (h_res st)) j v) ops) ->
  result st2 (length (h_res st)) = current st i.
Proof.
  intros st i st1 e ops st2 es HW Hs Hr Hno. exact (proj1 (get_stable st i st1 e ops st2 es HW Hs Hr Hno)).
Qed.
Print Assumptions C08_get_stable.

(** Calls made on other iterators (and writes to handed-out combinations) never
    move an iterator whose array is private. *)
Theorem C08_iter_frame : forall ops st i a st' es,
  Private st i a -> run ops st = Ok (st', es) -> (forall o, In o ops -> ~ addresses o i) ->
  Private st' i a /\ current st' i = current st i.
Proof. exact iter_frame. Qed.
Print Assumptions C08_iter_frame.

Theorem C08_new_iterator : forall st k m st1 e, WF st -> step (ONew k m) st = Ok (st1, e) ->
  Private st1 (length (h_iters st)) (length (h_mem st)) /\
  current st1 (length (h_iters st)) = first_comb k /\
  currents st1 = currents st ++ [first_comb k] /\ results st1 = results st.
Proof. exact new_spec. Qed.
Print Assumptions C08_new_iterator.

(** Copy(): a new private iterator standing where the source stands; nothing else changes. *)
Theorem C08_copy : forall st i st1 e, WF st -> step (OCopy i) st = Ok (st1, e) ->
  Private st1 (length (h_iters st)) (length (h_mem st)) /\
  current st1 (length (h_iters st)) = current st i /\
  currents st1 = currents st ++ [current st i] /\ results st1 = results st /\
  (forall a, Private st i a -> Private st1 i a).
Proof. exact copy_spec. Qed.
Print Assumptions C08_copy.

(** The copy stays where it is whatever is done to the source ... *)
Theorem C08_copy_independent : forall st i st1 e ops st2 es,
  WF st -> step (OCopy i) st = Ok (st1, e) -> run ops st1 = Ok (st2, es) ->
  (forall o, In o ops -> ~ addresses o (length (h_iters st))) ->
  current st2 (length (h_iters st)) = current st i.
Proof. exact copy_independent. Qed.
Print Assumptions C08_copy_independent.

(** ... and the source stays where it is whatever is done to the copy.
    [_partial]: needs the source's array not to have been handed out by
    GetCombinationUnsafe ([Private]); a slice obtained that way IS the iterator's
    array by contract (see [C08_ex_unsafe_aliases]). *)
Theorem C08_copy_source_independent_partial : forall st i a st1 e ops st2 es,
  WF st -> Private st i a -> step (OCopy i) st = Ok (st1, e) -> run ops st1 = Ok (st2, es) ->
  (forall o, In o ops -> ~ addresses o i) ->
  current st2 i = current st i.
Proof. exact copy_source_independent. Qed.
Print Assumptions C08_copy_source_independent_partial.

(** The values are those of sections 2-5: Next and SetCombinationID on the
    slice-level state compute [next] and [seek] of the current combination. *)
Theorem C08_heap_next : forall st i st1 e, WF st -> step (ONext i) st = Ok (st1, e) ->
  exists m, option_map it_max (nth_error (h_iters st) i) = Some m /\
    e = EBool (fst (next m (current st i))) /\ current st1 i = snd (next m (current st i)) /\
    h_iters st1 = h_iters st /\ h_res st1 = h_res st.
Proof. exact next_value. Qed.
Print Assumptions C08_heap_next.

Theorem C08_heap_seek : forall st i id st1 e, WF st -> step (OSeek i id) st = Ok (st1, e) ->
  exists m, option_map it_max (nth_error (h_iters st) i) = Some m /\
    seek m (length (current st i)) id = Ok (current st1 i) /\
    h_iters st1 = h_iters st /\ h_res st1 = h_res st.
Proof. exact seek_value. Qed.
Print Assumptions C08_heap_seek.

(** * 8. Several goroutines, each with its own iterator: every schedule *)

(** Whatever calls are made in between (on other iterators, their copies,
    combinations handed out, new iterators), the calls made on a private
    iterator return, in order, what [lrun] computes from its position alone,
    and leave it where [lrun] leaves it.  The model has no state shared between
    iterators; an implementation in which calls on different iterators share
    anything mutable does not refine it - the correspondence check compares
    real concurrent goroutines with [lrun] ([CConc] cases), and the
    result-origin obligation forbids package state in these methods. *)
Theorem C08_schedule_independent : forall ops st i a m st' es,
  Owns st i a m -> run ops st = Ok (st', es) ->
  (forall o, In o ops -> o <> OGetUnsafe i) ->
  Owns st' i a m /\
  exists gets, lrun m (map fst (view i ops es)) (current st i)
               = Ok (current st' i, map snd (view i ops es), gets).
Proof. exact sched_independent. Qed.
Print Assumptions C08_schedule_independent.

(** from the creation of the iterator on: its owner observes [lrun] from the first combination *)
Theorem C08_new_then_any_schedule : forall st k m st1 e ops st' es,
  WF st -> step (ONew k m) st = Ok (st1, e) -> run ops st1 = Ok (st', es) ->
  (forall o, In o ops -> o <> OGetUnsafe (length (h_iters st))) ->
  exists gets, lrun m (map fst (view (length (h_iters st)) ops es)) (first_comb k)
               = Ok (current st' (length (h_iters st)), map snd (view (length (h_iters st)) ops es), gets).
Proof. exact new_then_any_schedule. Qed.
Print Assumptions C08_new_then_any_schedule.

(** * 9. The upper half of the ID range; evaluation hints *)

(** IDs with bit 63 set are sought and reported exactly (C08_seek restricted
    to them, with the uint64 ID spelled out). *)
Theorem C08_seek_upper_half : forall m k id, Z.of_nat k <= m + 1 -> m + 1 < 2 ^ 63 ->
  binom (Z.to_nat (m + 1)) k < 2 ^ 64 -> 2 ^ 63 <= id < binom (Z.to_nat (m + 1)) k ->
  exists s, seek m k id = Ok s /\ Valid m s /\ length s = k /\ rank m s = id /\ rank64 m s = id.
Proof. exact seek_upper_half. Qed.
Print Assumptions C08_seek_upper_half.

(** A hint is used only when it is what [seek] computes: hinted evaluation is
    evaluation. *)
Theorem C08_seek_hint : forall m k id hint, seek_h m k id hint = seek m k id.
Proof. exact seek_h_eq. Qed.
Print Assumptions C08_seek_hint.

Theorem C08_run_hints : forall ops hints st, run_h ops hints st = run ops st.
Proof. exact run_h_eq. Qed.
Print Assumptions C08_run_hints.

Theorem C08_lrun_hints : forall m ops hints s, lrun_h m ops hints s = lrun m ops s.
Proof. exact lrun_h_eq. Qed.
Print Assumptions C08_lrun_hints.

(** ... so the correspondence check compares the implementation with the un-hinted models. *)
Theorem C08_check_hints_sound :
  (forall m k id r, check (CSeek m k id r) = obs_match zlist_eqb r (seek m k id)) /\
  (forall ops hints r, check (CProg ops hints r) = obs_match prog_eqb r (prog_obs ops)) /\
  (forall ths, check (CConc ths) =
     forallb (fun '(k, m, ops, _, r) => obs_match lobs_eqb r (lrun m ops (first_comb k))) ths).
Proof. exact check_hints_sound. Qed.
Print Assumptions C08_check_hints_sound.

(** * Examples: the hypotheses above are satisfiable by non-trivial values *)

(** two goroutines, two iterators (one beyond the lookup table), calls interleaved *)
Example C08_ex_two_goroutines :
  let sched := [ONew 2 1500; ONew 3 6; ONext 0; OSeek 1 20; OID 0; ONext 1; OSeek 0 1125749; OID 1; OID 0; OAmount 1] in
  exists st es, run sched hinit = Ok (st, es) /\
    map snd (view 0 (skipn 2 sched) (skipn 2 es)) = [EBool true; EZ 1; ENone; EZ 1125749] /\
    lrun 1500 [LNext; LID; LSeek 1125749; LID] (first_comb 2)
      = Ok ([1499; 1500], [EBool true; EZ 1; ENone; EZ 1125749], []) /\
    map snd (view 1 (skipn 2 sched) (skipn 2 es)) = [ENone; EBool true; EZ 21; EZ 35] /\
    lrun 6 [LSeek 20; LNext; LID; LAmount] (first_comb 3)
      = Ok ([1; 3; 6], [ENone; EBool true; EZ 21; EZ 35], []).
Proof. exact ex_two_goroutines. Qed.
(** C(967,8) lies in [2^63, 2^64): ID 2^63 is sought and reported exactly *)
Example C08_ex_seek_top_bit :
  2 ^ 63 <= binom_fast 967 8 < 2 ^ 64 /\
  seek 966 8 (2 ^ 63) = Ok [80; 98; 130; 138; 149; 591; 682; 822] /\
  rank64 966 [80; 98; 130; 138; 149; 591; 682; 822] = 2 ^ 63 /\
  amount64 966 8 = binom_fast 967 8.
Proof. exact ex_seek_top_bit. Qed.
Example C08_ex_wrong_hint :
  seek_h 4 3 5 [0; 1; 2] = Ok [0; 3; 4] /\ seek_h 4 3 5 [0; 3; 4] = Ok [0; 3; 4] /\
  seek_fast_ok 4 3 5 [0; 1; 2] = false /\ seek_fast_ok 4 3 5 [0; 3; 4] = true.
Proof. exact ex_wrong_hint. Qed.

(** GetCombination keeps [0;1] while the iterator moves on to [0;2]; the slice
    handed out by GetCombinationUnsafe (first result) is the iterator's own
    array and moves with it. *)
Example C08_ex_unsafe_aliases :
  prog_obs [ONew 2 3; OGetUnsafe 0; OGet 0; ONext 0; OGet 0]
  = Ok ([ENone; ENone; ENone; EBool true; ENone], [[0; 2]; [0; 1]; [0; 2]], [[0; 2]]).
Proof. exact ex_get_vs_unsafe. Qed.
(** a well-formed state with a private iterator, a copy of it, and a kept result *)
Example C08_ex_heap : exists st es,
  run [ONew 3 5; ONext 0; OGet 0; OCopy 0; OSeek 1 7; ONext 0] hinit = Ok (st, es) /\
  WF st /\ result st 0 = [0; 1; 3] /\ current st 0 = [0; 1; 4] /\ current st 1 = [0; 3; 4].
Proof. exact ex_heap. Qed.


Example C08_ex_valid : Valid 4 [0; 2; 4] /\ [0; 2; 4] <> last_comb 4 3.
Proof. exact ex_valid. Qed.
Example C08_ex_next :
  next 4 [0; 2; 4] = (true, [0; 3; 4]) /\ rank 4 [0; 2; 4] = 4 /\ rank 4 [0; 3; 4] = 5.
Proof. exact ex_next. Qed.
Example C08_ex_next_last :
  Valid 4 (last_comb 4 3) /\ next 4 [2; 3; 4] = (false, [3; 4; 5]).
Proof. exact ex_next_last. Qed.
Example C08_ex_seek :
  seek 4 3 5 = Ok [0; 3; 4] /\ 0 <= 5 < binom (Z.to_nat (4 + 1)) 3 /\
  binom (Z.to_nat (4 + 1)) 3 < 2 ^ 64.
Proof. exact ex_seek. Qed.
(** beyond the 1000x10 lookup table, still below 2^64 *)
Example C08_ex_big : 4000 + 1 < 2 ^ 63 /\ binom (Z.to_nat (4000 + 1)) 5 < 2 ^ 64 /\
  Valid 4000 [5; 17; 1000; 1001; 4000].
Proof. exact ex_big_bound. Qed.
Example C08_ex_flip_bools :
  NoDup [0; 2] /\ Forall (fun i => 0 <= i < Z.of_nat (length [true; true; false])) [0; 2] /\
  flip_bools [0; 2] [true; true; false] = Ok [false; true; true].
Proof. exact ex_flip_bools. Qed.
Example C08_ex_flip_bytes :
  NoDup [1; 9; 15] /\ Forall (fun i => 0 <= i < 8 * Z.of_nat (length [0; 255])) [1; 9; 15] /\
  flip_bytes [1; 9; 15] [0; 255] = Ok [2; 125].
Proof. exact ex_flip_bytes. Qed.
