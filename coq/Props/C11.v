(** C11 — reference and range algebra has exact set semantics.
    This file holds only the property theorems (each closed by [exact] or, for
    closed witnesses, by evaluation) and examples showing that the hypotheses
    are satisfiable.  Models: Model/Ranges.v (fiano pkg/bytes/range.go),
    Model/Refs.v (pkg/bootflow/types/data.go).

    Vocabulary (Proofs/Ranges.v, Proofs/Refs.v):
    - [okr r]: the range does not wrap: 0 <= off, 0 <= len, off+len < 2^64;
      [NoOverflow s]: every range of every reference is [okr];
    - [in_ranges l k]: offset k lies in some range of l;
    - [den s a m k]: the reference list s denotes the triple (artifact a,
      address space = mapper m, offset k);
    - [separated l]: sorted, pairwise disjoint and non-adjacent
      (end_i < off_(i+1)); zero-length ranges may remain, with the same spacing;
    - [sortmerge_rel s out]: out is a result of References.SortAndMerge on s for
      SOME order the unstable sort.Slice may produce (every permutation sorted
      w.r.t. compareReferenceType; lists of every length, the empty one included);  [exclude_rel s exc out] likewise for
      s.Exclude(exc...);
    - [Distinguishable s]: distinct artifacts have distinct type names (and
      vice versa) and every artifact is used with one address mapper.

    Slice level (Model/RefsHeap.v, Proofs/RefsHeap.v; last section): memory =
    arrays of ranges + arrays of Reference structs whose Ranges field is a slice
    (array, offset, len) of a range array; variables = slices of struct arrays
    (References) or of range arrays (Ranges); [step st o] runs one operation
    (caller-made copy, BySystemArtifact, Ranges, Exclude, SortAndMerge, Resolve,
    RawBytes, Reference.RawBytes, Ranges.SortAndMerge) and yields the new state
    (results are new variables), [run] a sequence.
    - [Wok h0 W0]: the caller's range slices W0 lie inside the arrays h0 and two
      of them are the same window or disjoint (cells around them -- spare
      capacity, cells in front -- are unconstrained);
    - [SInv h0 W0 st]: reachable-state invariant: the range heap extends h0,
      every Reference struct in memory has one of W0 or the whole of a later
      array as its Ranges, every variable lies inside its array, two References
      variables share no cell;
    - [target o]: the variable the operation is DOCUMENTED to modify (receiver
      of References.SortAndMerge, Resolve, Ranges.SortAndMerge), [targets ops];
    - [sorter o]: the operations KNOWN to sort range slices in place (Exclude,
      SortAndMerge, RawBytes, Reference.RawBytes, Ranges.SortAndMerge);
    - [upto b x y]: same artifact, same mapper, same ranges (b = true: up to
      their order);  [lval m s]: the references a References slice holds. *)
From Coq Require Import Permutation.
From CSS Require Import Lib.Base Model.Ranges Model.Refs Model.RefsHeap Proofs.Ranges Proofs.Refs Proofs.RefsHeap.

(** ** fiano ranges *)

(** Merging preserves the set of offsets, for every order Ranges.Sort may produce. *)
Theorem C11_ranges_merge_den : forall l l' k,
  Permutation l l' -> sorted_off l' -> Forall okr l ->
  (in_ranges (merge_ranges l') k <-> in_ranges l k).
Proof. exact ranges_merge_den_any. Qed.
Print Assumptions C11_ranges_merge_den.

(** ... and yields sorted, pairwise disjoint, non-adjacent ranges that do not wrap. *)
Theorem C11_ranges_merge_normal : forall l l',
  Permutation l l' -> sorted_off l' -> Forall okr l ->
  separated (merge_ranges l') /\ Forall okr (merge_ranges l').
Proof. exact ranges_merge_normal_any. Qed.
Print Assumptions C11_ranges_merge_normal.

(** Zero-length ranges: every range of a merge result is an input range or covers
    at least one byte (a zero-length range survives only in isolation). *)
Theorem C11_ranges_merge_zero_len : forall e l, okr e -> Forall okr l ->
  Forall (fun r => In r (e :: l) \/ 0 < rlen r \/ (rlen r = rlen e /\ roff r = roff e))
         (merge_ranges (e :: l)).
Proof. exact (fun e l => merge_go_zero l e). Qed.
Print Assumptions C11_ranges_merge_zero_len.

(** The stable insertion sort of the executable model is one admissible order. *)
Theorem C11_ranges_sort_admissible : forall l, Permutation l (sort_off l) /\ sorted_off (sort_off l).
Proof. exact (fun l => conj (Permutation_sym (sort_off_perm l)) (sort_off_sorted l)). Qed.
Print Assumptions C11_ranges_sort_admissible.

(** Without overflow the merged list is the same for every admissible order, so
    modelling the unstable sort by a stable one loses nothing. *)
Theorem C11_ranges_merge_order_independent : forall l1 l2,
  Permutation l1 l2 -> sorted_off l1 -> sorted_off l2 -> Forall okr l1 ->
  merge_ranges l1 = merge_ranges l2.
Proof. exact merge_sorted_perm_indep. Qed.
Print Assumptions C11_ranges_merge_order_independent.

(** Range.Exclude is exactly the set difference. *)
Theorem C11_range_exclude_exact : forall r tes k, okr r -> Forall okr tes ->
  (in_ranges (range_exclude r tes) k <-> (inr r k /\ ~ in_ranges tes k)).
Proof. exact range_exclude_den. Qed.
Print Assumptions C11_range_exclude_exact.

(** Range.Intersect says whether the two ranges share a byte. *)
Theorem C11_range_intersect_exact : forall r c, okr r -> okr c ->
  (intersect r c = true <-> exists k, inr r k /\ inr c k).
Proof. exact intersect_spec. Qed.
Print Assumptions C11_range_intersect_exact.

(** The hypothesis [okr] cannot be dropped: with a wrapping range the merge loses offsets. *)
Theorem C11_ranges_merge_overflow_refuted : exists l k,
  sorted_off l /\ in_ranges l k /\ ~ in_ranges (merge_ranges l) k.
Proof.
  exists [mkR 0 4; mkR 2 (W64 - 1)], 10. split; [cbn; lia|]. split.
  - apply Exists_cons_tl, Exists_cons_hd. unfold inr, W64. cbn [roff rlen]. lia.
  - assert (E : merge_ranges [mkR 0 4; mkR 2 (W64 - 1)] = [mkR 0 4]) by (vm_compute; reflexivity).
    rewrite E. intros H. inversion H as [? ? I | ? ? I]; [|inversion I].
    unfold inr in I. cbn [roff rlen] in I. lia.
Qed.
Print Assumptions C11_ranges_merge_overflow_refuted.

(** ** References.SortAndMerge *)

(** The executable functions realise the relations the theorems speak about. *)
Theorem C11_model_realises_relations : forall perm s out,
  refs_sm perm s = Ok out -> sortmerge_rel s out.
Proof. exact refs_sm_rel. Qed.
Print Assumptions C11_model_realises_relations.

Theorem C11_model_realises_exclude : forall ps pe s exc out,
  refs_exclude ps pe s exc = Ok out -> exclude_rel s exc out.
Proof. exact refs_exclude_rel. Qed.
Print Assumptions C11_model_realises_exclude.

(** The denoted set is preserved — whatever the artifacts, type names and mappers. *)
Theorem C11_sortmerge_den : forall s out, NoOverflow s -> sortmerge_rel s out ->
  forall a m k, den out a m k <-> den s a m k.
Proof. exact sortmerge_den. Qed.
Print Assumptions C11_sortmerge_den.

(** Normal form: one entry per (artifact, address space), every entry's ranges
    separated -- for lists of every length, a single reference included (its
    ranges are sorted and merged too).  PARTIAL: needs [Distinguishable s]
    (compareReferenceType looks at type names only and never at the mapper:
    finding C11-D6). *)
Theorem C11_sortmerge_normal_partial : forall s out,
  Distinguishable s -> NoOverflow s ->
  sortmerge_rel s out -> NormalRefs out.
Proof. exact sortmerge_normal. Qed.
Print Assumptions C11_sortmerge_normal_partial.

(** Under the assumption the comparator does not panic. *)
Theorem C11_sortmerge_no_panic_partial : forall s, Distinguishable s -> has_conflict s = false.
Proof. exact dist_no_conflict. Qed.
Print Assumptions C11_sortmerge_no_panic_partial.

Definition wA := mkArt 1 0 true [1; 2; 3; 4].
Definition wB := mkArt 2 0 true [9; 9; 9; 9].

(** Without it: references A, B, A over two different RawBytes artifacts stay three entries. *)
Theorem C11_sortmerge_normal_refuted : exists s out,
  NoOverflow s /\ sortmerge_rel s out /\ ~ NormalRefs out.
Proof.
  exists [mkRef wA MNil [mkR 0 2]; mkRef wB MNil [mkR 1 2]; mkRef wA MNil [mkR 2 2]].
  eexists. split; [apply no_overflowb_spec; reflexivity|]. split.
  - apply (refs_sm_rel [0; 1; 2]%nat). vm_compute. reflexivity.
  - intros (N & _). vm_compute in N. inversion N as [|? ? NI _]. apply NI. right. left. reflexivity.
Qed.
Print Assumptions C11_sortmerge_normal_refuted.

(** Same artifact, mappers m, nil, m: the mapper is never compared, so the two m-entries are not grouped. *)
Theorem C11_sortmerge_normal_mapper_refuted : exists s out,
  NoOverflow s /\ sortmerge_rel s out /\ ~ NormalRefs out.
Proof.
  exists [mkRef wA (MCustom 1 false 100) [mkR 0 2]; mkRef wA MNil [mkR 1 2]; mkRef wA (MCustom 1 false 100) [mkR 2 2]].
  eexists. split; [apply no_overflowb_spec; reflexivity|]. split.
  - apply (refs_sm_rel [0; 1; 2]%nat). vm_compute. reflexivity.
  - intros (N & _). vm_compute in N. inversion N as [|? ? NI _]. apply NI. right. left. reflexivity.
Qed.
Print Assumptions C11_sortmerge_normal_mapper_refuted.

(** A one-element list: its ranges are sorted and merged (the input of the former
    finding C11-D24, where the list was returned as it was). *)
Example C11_ex_sortmerge_single :
  sortmerge_rel [mkRef wA MNil [mkR 2 2; mkR 0 3]] [mkRef wA MNil [mkR 0 4]].
Proof. apply (refs_sm_rel [0]%nat). vm_compute. reflexivity. Qed.

(** ... and the empty list stays empty. *)
Example C11_ex_sortmerge_empty : forall out, sortmerge_rel [] out -> out = [].
Proof.
  intros out (_ & s' & P & _ & ->). apply Permutation_nil in P. subst s'. reflexivity.
Qed.

(** ** References.Exclude *)

(** Exactly the set difference.  PARTIAL: needs [Distinguishable (s ++ exc)]. *)
Theorem C11_exclude_exact_partial : forall s exc out,
  Distinguishable (s ++ exc) -> NoOverflow (s ++ exc) -> exclude_rel s exc out ->
  forall a m k, den out a m k <-> (den s a m k /\ ~ den exc a m k).
Proof. exact exclude_exact. Qed.
Print Assumptions C11_exclude_exact_partial.

(** ... and under the same assumption the walk over the two lists does not panic. *)
Theorem C11_exclude_total_partial : forall s exc,
  Distinguishable (s ++ exc) -> NoOverflow (s ++ exc) ->
  forall s0 s1, sortmerge_rel s s0 -> sortmerge_rel exc s1 -> exists out, excl_walk s0 s1 = Ok out.
Proof. exact exclude_total. Qed.
Print Assumptions C11_exclude_total_partial.

(** Unconditionally, Exclude never adds a byte. *)
Theorem C11_exclude_sound : forall s exc out, NoOverflow (s ++ exc) -> exclude_rel s exc out ->
  forall a m k, den out a m k -> den s a m k.
Proof. exact exclude_sound. Qed.
Print Assumptions C11_exclude_sound.

(** Finding C11-D6: excluding a reference to a DIFFERENT RawBytes artifact removes bytes. *)
Theorem C11_exclude_refuted : exists s exc out,
  NoOverflow (s ++ exc) /\ exclude_rel s exc out /\
  exists a m k, den s a m k /\ ~ den exc a m k /\ ~ den out a m k.
Proof.
  exists [mkRef wA MNil [mkR 0 4]], [mkRef wB MNil [mkR 1 2]]. eexists.
  split; [apply no_overflowb_spec; reflexivity|]. split.
  - apply (refs_exclude_rel [0]%nat [0]%nat). vm_compute. reflexivity.
  - exists 1, MNil, 1. split; [apply denb_spec; reflexivity|].
    split; apply denb_false; reflexivity.
Qed.
Print Assumptions C11_exclude_refuted.

(** ... and so does a reference to the same artifact in a different address space. *)
Theorem C11_exclude_space_refuted : exists s exc out,
  NoOverflow (s ++ exc) /\ exclude_rel s exc out /\
  exists a m k, den s a m k /\ ~ den exc a m k /\ ~ den out a m k.
Proof.
  exists [mkRef wA MPhys [mkR 0 4]], [mkRef wA MNil [mkR 1 2]]. eexists.
  split; [apply no_overflowb_spec; reflexivity|]. split.
  - apply (refs_exclude_rel [0]%nat [0]%nat). vm_compute. reflexivity.
  - exists 1, MPhys, 1. split; [apply denb_spec; reflexivity|].
    split; apply denb_false; reflexivity.
Qed.
Print Assumptions C11_exclude_space_refuted.

(** ** Bytes *)

(** References.RawBytes is the concatenation, in list order, of Reference.RawBytes. *)
Theorem C11_rawbytes_concat : forall s bs,
  refs_rawbytes s = Ok bs <->
  exists parts, Forall2 (fun r b => ref_rawbytes r = Ok b) s parts /\ bs = concat parts.
Proof. exact refs_rawbytes_concat. Qed.
Print Assumptions C11_rawbytes_concat.

(** It panics exactly when some reference's RawBytes panics (there is no error value). *)
Theorem C11_rawbytes_panic : forall s,
  refs_rawbytes s = Panic <-> exists r, In r s /\ ref_rawbytes r = Panic.
Proof. exact refs_rawbytes_panic. Qed.
Print Assumptions C11_rawbytes_panic.

(** Reference.RawBytes: the bytes of the artifact at the resolved ranges of the
    sorted-merged ranges, in that order. *)
Theorem C11_ref_rawbytes_spec : forall r bs, okref r -> ref_rawbytes r = Ok bs ->
  bs = flat_map (bytes_of_range r) (ranges_sm (rranges r)).
Proof. exact ref_rawbytes_spec. Qed.
Print Assumptions C11_ref_rawbytes_spec.

(** When it returns (nil mapper), every non-empty merged range lies inside the artifact. *)
Theorem C11_ref_rawbytes_inbounds : forall r bs, okref r -> rmap r = MNil -> ref_rawbytes r = Ok bs ->
  Forall (fun x => rlen x = 0 \/ roff x + rlen x <= zlen (acontent (rart r))) (ranges_sm (rranges r)).
Proof. exact ref_rawbytes_inbounds. Qed.
Print Assumptions C11_ref_rawbytes_inbounds.

Theorem C11_ref_rawbytes_no_error : forall r, (exists v, ref_rawbytes r = Ok v) \/ ref_rawbytes r = Panic.
Proof. exact ref_rawbytes_no_err. Qed.
Print Assumptions C11_ref_rawbytes_no_error.

(** RawBytes.ReadAt honours the positional-read contract: never more than the
    buffer holds; n = min(len p, len b - off); the n bytes are b[off:off+n], the
    rest of p is untouched; (0, EOF) at or after the end; a negative offset
    panics (Go's b[offset:]). *)
Theorem C11_readat_contract : forall b p off,
  (off < 0 -> readat_raw b p off = Panic) /\
  (zlen b <= off -> readat_raw b p off = Ok (mkRd 0 p 1)) /\
  (0 <= off < zlen b ->
     let n := Z.min (zlen b - off) (zlen p) in
     exists p', readat_raw b p off = Ok (mkRd n p' 0) /\
       0 <= n <= zlen p /\ zlen p' = zlen p /\
       firstn (Z.to_nat n) p' = slice b off n /\ skipn (Z.to_nat n) p' = skipn (Z.to_nat n) p).
Proof. exact (fun b p off => conj (readat_raw_neg b p off) (conj (readat_raw_eof b p off) (readat_raw_inside b p off))). Qed.
Print Assumptions C11_readat_contract.

(** ** The hypotheses are satisfiable by non-trivial values *)

Definition xImg := mkArt 1 0 false [10; 11; 12; 13; 14; 15; 16; 17].
Definition xReg := mkArt 2 1 false [20; 21; 22; 23].
Definition xRaw := mkArt 3 2 true [30; 31; 32; 33; 34; 35].
Definition xs : list ref :=
  [ mkRef xRaw MNil [mkR 3 2; mkR 0 2];
    mkRef xImg MPhys [mkR 4294967292 2; mkR 4294967288 4];
    mkRef xRaw MNil [mkR 2 1; mkR 5 0];
    mkRef xReg (MCustom 1 true 100) [mkR 0 3] ].
Definition xexc : list ref :=
  [ mkRef xImg MPhys [mkR 4294967290 3]; mkRef xRaw MNil [mkR 1 3] ].

Example C11_ex_hyps : Distinguishable (xs ++ xexc) /\ NoOverflow (xs ++ xexc).
Proof. split; [apply distinguishableb_spec; reflexivity | apply no_overflowb_spec; reflexivity]. Qed.

Example C11_ex_sortmerge :
  sortmerge_rel xs [ mkRef xImg MPhys [mkR 4294967288 6];
                     mkRef xReg (MCustom 1 true 100) [mkR 0 3];
                     mkRef xRaw MNil [mkR 0 5] ].
Proof. apply (refs_sm_rel [1; 3; 0; 2]%nat). vm_compute. reflexivity. Qed.

Example C11_ex_exclude :
  exclude_rel xs xexc [ mkRef xImg MPhys [mkR 4294967288 2; mkR 4294967293 1];
                        mkRef xReg (MCustom 1 true 100) [mkR 0 3];
                        mkRef xRaw MNil [mkR 0 1; mkR 4 1] ].
Proof. apply (refs_exclude_rel [1; 3; 0; 2]%nat [0; 1]%nat). vm_compute. reflexivity. Qed.

Example C11_ex_bytes :
  refs_rawbytes xs = Ok ([30; 31; 33; 34] ++ [10; 11; 12; 13; 14; 15] ++ [32] ++ [21; 22; 23]).
Proof. vm_compute. reflexivity. Qed.

Example C11_ex_ranges : Forall okr [mkR 5 0; mkR 3 2; mkR 9 1; mkR 0 3; mkR 5 0] /\
  ranges_sm [mkR 5 0; mkR 3 2; mkR 9 1; mkR 0 3; mkR 5 0] = [mkR 0 5; mkR 9 1].
Proof. split; [|reflexivity]. repeat constructor; cbn; lia. Qed.


(** ** Slice level: what an operation does to memory it was not asked to change *)

(** The invariant holds for the hand-written memory below and is kept by every operation. *)
Theorem C11_heap_invariant : forall h0 W0 st o st' r,
  Wok h0 W0 -> SInv h0 W0 st -> step st o = Some (st', r) -> SInv h0 W0 st'.
Proof. exact (fun h0 W0 st o st' r WF I E => proj1 (step_inv h0 W0 WF st o st' r I E)). Qed.
Print Assumptions C11_heap_invariant.

(** Receiver, arguments, results of earlier operations: every References variable
    other than the one the operation is documented to modify is the same slice
    afterwards and holds, position by position, the same artifact, the same
    mapper and the same ranges -- in the same order unless the operation is one
    of those known to sort range slices in place. *)
Theorem C11_heap_others_kept : forall h0 W0, Wok h0 W0 -> forall st o st' r u s,
  SInv h0 W0 st -> step st o = Some (st', r) -> target o <> Some u ->
  nth_error (st_env st) u = Some (VRefs s) ->
  nth_error (st_env st') u = Some (VRefs s) /\
  Forall2 (upto (sorter o)) (lval (st_m st) s) (lval (st_m st') s).
Proof. exact step_others. Qed.
Print Assumptions C11_heap_others_kept.

(** ... likewise a Ranges variable (the result of an earlier Ranges()). *)
Theorem C11_heap_other_ranges_kept : forall h0 W0, Wok h0 W0 -> forall st o st' r u s,
  SInv h0 W0 st -> step st o = Some (st', r) -> target o <> Some u ->
  nth_error (st_env st) u = Some (VRngs s) ->
  nth_error (st_env st') u = Some (VRngs s) /\
  if sorter o then Permutation (rd (m_r (st_m st)) s) (rd (m_r (st_m st')) s)
  else rd (m_r (st_m st')) s = rd (m_r (st_m st)) s.
Proof. exact step_others_ranges. Qed.
Print Assumptions C11_heap_other_ranges_kept.

(** Results stay valid: after ANY sequence of operations a variable that none of
    them is documented to modify holds what it held, up to the order of the
    ranges inside each reference ... *)
Theorem C11_heap_results_stay_valid : forall h0 W0 ops st st' u s,
  Wok h0 W0 -> SInv h0 W0 st -> run st ops = Some st' -> ~ In u (targets ops) ->
  nth_error (st_env st) u = Some (VRefs s) ->
  nth_error (st_env st') u = Some (VRefs s) /\
  Forall2 (upto true) (lval (st_m st) s) (lval (st_m st') s).
Proof. exact (fun h0 W0 ops st st' u s WF => run_others h0 W0 WF ops st st' u s). Qed.
Print Assumptions C11_heap_results_stay_valid.

(** ... hence denotes the same set of (artifact, address space, offset) triples ... *)
Theorem C11_heap_same_triples : forall h0 W0 ops st st' u s,
  Wok h0 W0 -> SInv h0 W0 st -> run st ops = Some st' -> ~ In u (targets ops) ->
  nth_error (st_env st) u = Some (VRefs s) ->
  forall a m k, den (lval (st_m st') s) a m k <-> den (lval (st_m st) s) a m k.
Proof.
  intros h0 W0 ops st st' u s WF I E N Hu a m k. symmetry.
  apply (upto_den true), (proj2 (run_others h0 W0 WF ops st st' u s I E N Hu)).
Qed.
Print Assumptions C11_heap_same_triples.

(** ... and exactly what it held when the sequence consists of queries that do not
    sort (caller-made copies, BySystemArtifact, Ranges, Resolve of other lists). *)
Theorem C11_heap_queries_exact : forall h0 W0 ops st st' u s,
  Wok h0 W0 -> SInv h0 W0 st -> run st ops = Some st' -> ~ In u (targets ops) ->
  forallb (fun o => negb (sorter o)) ops = true ->
  nth_error (st_env st) u = Some (VRefs s) ->
  nth_error (st_env st') u = Some (VRefs s) /\ lval (st_m st') s = lval (st_m st) s.
Proof. exact (fun h0 W0 ops st st' u s WF => run_others_exact h0 W0 WF ops st st' u s). Qed.
Print Assumptions C11_heap_queries_exact.

(** A cell of the caller's range arrays that lies in no range slice (spare
    capacity behind a slice, cells in front of it or between two slices) is never
    written, whatever the sequence of operations. *)
Theorem C11_heap_spare_capacity_untouched : forall h0 W0 a i,
  Wok h0 W0 -> (i < length (nth a h0 []))%nat -> (forall w, In w W0 -> sep (mkSl a i 1) w) ->
  forall ops st st', SInv h0 W0 st -> run st ops = Some st' ->
  nth i (nth a (m_r (st_m st')) []) (mkR 0 0) = nth i (nth a (m_r (st_m st)) []) (mkR 0 0).
Proof. exact run_cell. Qed.
Print Assumptions C11_heap_spare_capacity_untouched.

(** Reference structs that lie in no variable (spare capacity of a list, cells in
    front of it) are not written by an operation. *)
Theorem C11_heap_reference_cells_untouched : forall h0 W0 st o st' r fw,
  Wok h0 W0 -> SInv h0 W0 st -> step st o = Some (st', r) ->
  inb (m_f (st_m st)) fw -> (forall v s, nth_error (st_env st) v = Some (VRefs s) -> sep fw s) ->
  rd (m_f (st_m st')) fw = rd (m_f (st_m st)) fw.
Proof. exact step_ref_cells. Qed.
Print Assumptions C11_heap_reference_cells_untouched.

(** The queries against the value-level model the theorems above are about:
    BySystemArtifact yields a new variable holding the filter of what the receiver holds, *)
Theorem C11_heap_by_artifact_value : forall st v a st' r s,
  step st (OBy v a) = Some (st', r) -> get_refs st v = Some s ->
  exists x, st_env st' = st_env st ++ [VRefs x] /\ lval (st_m st') x = by_artifact (lval (st_m st) s) a.
Proof. exact step_by_value. Qed.
Print Assumptions C11_heap_by_artifact_value.

(** Ranges a new variable holding the concatenation, *)
Theorem C11_heap_ranges_value : forall st v st' r s,
  step st (ORanges v) = Some (st', r) -> get_refs st v = Some s ->
  exists x, st_env st' = st_env st ++ [VRngs x] /\ rd (m_r (st_m st')) x = refs_ranges (lval (st_m st) s).
Proof. exact step_ranges_value. Qed.
Print Assumptions C11_heap_ranges_value.

(** and Reference.RawBytes, which sorts the ranges of its receiver in place, the
    bytes the value-level model computes from the ranges as they were.
    (SortAndMerge, Exclude, Resolve and References.RawBytes at slice level are
    compared with the value-level functions on every run, operation by
    operation: [vcheck] in Model/RefsCases.v -- sampled, not proved.) *)
Theorem C11_heap_ref_rawbytes_value : forall h x,
  inb h (hd_rs x) -> snd (ref_rawbytes_h h x) = ref_rawbytes (hval h x).
Proof. exact ref_rawbytes_h_value. Qed.
Print Assumptions C11_heap_ref_rawbytes_value.

(** [Wok] cannot be dropped: with two range slices that overlap without being
    the same window (a[0:2] and a[1:3]) RawBytes of one list -- it sorts a[0:2]
    in place -- changes the set another list denotes. *)
Definition ov_st : state :=
  mkSt (mkMem [[mkR 4 1; mkR 0 1; mkR 2 1]]
              [[mkHdr wA MNil (mkSl 0 0 2)]; [mkHdr wA MNil (mkSl 0 1 2)]])
       [VRefs (mkSl 0 0 1); VRefs (mkSl 1 0 1)].
Theorem C11_heap_overlapping_slices_refuted : exists st' r,
  step ov_st (ORawBytes 0) = Some (st', r) /\
  den (lval (st_m ov_st) (mkSl 1 0 1)) 1 MNil 0 /\ ~ den (lval (st_m st') (mkSl 1 0 1)) 1 MNil 0.
Proof.
  eexists. eexists. split; [vm_compute; reflexivity|].
  split; [apply denb_spec; reflexivity | apply denb_false; reflexivity].
Qed.
Print Assumptions C11_heap_overlapping_slices_refuted.

(** The hypotheses are satisfiable: two lists over three range arrays with a
    shared array, spare capacity and cells in front; a program runs on it. *)
Example C11_ex_heap_hyps : Wok ex_h0 ex_W0 /\ SInv ex_h0 ex_W0 ex_st.
Proof. exact (conj ex_Wok ex_SInv). Qed.
Example C11_ex_heap_runs : exists st', run ex_st ex_ops = Some st'.
Proof. exact ex_runs. Qed.
