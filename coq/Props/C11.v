(** C11 — reference and range algebra has exact set semantics.
    This file holds only the property theorems (each closed by [exact] or, for
    closed witnesses, by evaluation) and examples showing that the hypotheses
    are satisfiable.  Models: Model/Ranges.v (fiano pkg/bytes/range.go),
    Model/Refs.v (pkg/bootflow/types/data.go).

    Vocabulary (Proofs/Ranges.v, Proofs/Refs.v):
    - [okr r]: the range does not wrap: 0 <= off, 0 <= len, off+len < 2^64;
      [NoOverflow s]: every range of every reference is [okr];
    - [in_ranges l k]: offset k lies in some range of l;
    - [den s a m k]: the reference list s denotes the triple (artifact a,
      address space = mapper m, offset k);
    - [separated l]: sorted, pairwise disjoint and non-adjacent
      (end_i < off_(i+1)); zero-length ranges may remain, with the same spacing;
    - [sortmerge_rel s out]: out is a result of References.SortAndMerge on s for
      SOME order the unstable sort.Slice may produce (every permutation sorted
      w.r.t. compareReferenceType; lists of every length, the empty one included);  [exclude_rel s exc out] likewise for
      s.Exclude(exc...);
    - [Distinguishable s]: distinct artifacts have distinct type names (and
      vice versa) and every artifact is used with one address mapper.

    Slice level (Model/RefsHeap.v, Proofs/RefsHeap.v; last section): memory =
    arrays of ranges + arrays of Reference structs whose Ranges field is a slice
    (array, offset, len) of a range array; variables = slices of struct arrays
    (References) or of range arrays (Ranges); [step st o] runs one operation
    (caller-made copy, BySystemArtifact, Ranges, Exclude, SortAndMerge, Resolve,
    RawBytes, Reference.RawBytes, Ranges.SortAndMerge) and yields the new state
    (results are new variables), [run] a sequence.
    - [Wok h0 W0]: the caller's range slices W0 lie inside the arrays h0 and two
      of them are the same window or disjoint (cells around them -- spare
      capacity, cells in front -- are unconstrained);
    - [SInv h0 W0 st]: reachable-state invariant: the range heap extends h0,
      every Reference struct in memory has one of W0 or the whole of a later
      array as its Ranges, every variable lies inside its array, two References
      variables share no cell;
    - [target o]: the variable the operation is DOCUMENTED to modify (receiver
      of References.SortAndMerge, Resolve, Ranges.SortAndMerge), [targets ops];
    - [sorter o]: the operations KNOWN to sort range slices in place (Exclude,
      SortAndMerge, RawBytes, Reference.RawBytes, Ranges.SortAndMerge);
    - [upto b x y]: same artifact, same mapper, same ranges (b = true: up to
      their order);  [lval m s]: the references a References slice holds.

    Byte results (Model/RefsBytes.v, Proofs/RefsBytes.v): [bstep] / [brun] run
    programs in which every array of bytes handed out by RawBytes /
    Reference.RawBytes is kept ([b_bytes]: one entry per call, in call order) and
    in which the caller may overwrite a result it was given ([BScribble j pat]);
    [scribbles ops]: the results the caller overwrites; [algebra_ops ops]: the
    operations of Model/RefsHeap.v among [ops].

    Register files (Model/RegFile.v, Proofs/RegFile.v): [reg] = what ReadAt looks
    at (offset in the register space, BitSize(), little-endian bytes of the
    value); [txt_readat] / [amd_readat] = TXTPublic.ReadAt / AMDRegisters.ReadAt;
    [rawbytes_g rdat size m rs] = Reference.RawBytes over an artifact with ReadAt
    [rdat] and Size [size], address mapper [m], ranges [rs]; [gref_rawbytes] /
    [grefs_rawbytes] over artifacts of every kind.
    - [txt_width r]: the width of the value as it is written out (what
      TXTPublic.ReadAt uses since /repo 9b9036f; BitSize() plays no role);
    - [TxtApart regs]: no two registers claim the same address (neighbours -- one
      starts where the other ends -- are allowed); [TxtWF regs]: moreover every
      register lies in the space and is at least one byte wide;
    - [txt_space regs a]: the byte the sparse register space holds at address a
      (of the first register whose address range contains a), if any;
    - [chained off run]: the registers of [run] follow one another without a gap,
      the first starts at off; [sum_tw run]: the bytes they occupy;
    - [amd_wf r]: width (BitSize()+7)/8 > 0 = width of the value; [sum_width]:
      the bytes a run of registers occupies; [amd_from regs 0 off]: the values of
      the registers from the one that starts at off on, back to back. *)
From Coq Require Import Permutation.
From CSS Require Import Lib.Base Model.Ranges Model.Refs Model.RefsHeap Model.RefsBytes Model.RegFile
  Proofs.Ranges Proofs.Refs Proofs.RefsHeap Proofs.RefsBytes Proofs.RegFile.

(** ** fiano ranges *)

(** Merging preserves the set of offsets, for every order Ranges.Sort may produce. *)
Theorem C11_ranges_merge_den : forall l l' k,
  Permutation l l' -> sorted_off l' -> Forall okr l ->
  (in_ranges (merge_ranges l') k <-> in_ranges l k).
Proof. exact ranges_merge_den_any. Qed.
Print Assumptions C11_ranges_merge_den.

(** ... and yields sorted, pairwise disjoint, non-adjacent ranges that do not wrap. *)
Theorem C11_ranges_merge_normal : forall l l',
  Permutation l l' -> sorted_off l' -> Forall okr l ->
  separated (merge_ranges l') /\ Forall okr (merge_ranges l').
Proof. exact ranges_merge_normal_any. Qed.
Print Assumptions C11_ranges_merge_normal.

(** Zero-length ranges: every range of a merge result is an input range or covers
    at least one byte (a zero-length range survives only in isolation). *)
Theorem C11_ranges_merge_zero_len : forall e l, okr e -> Forall okr l ->
  Forall (fun r => In r (e :: l) \/ 0 < rlen r \/ (rlen r = rlen e /\ roff r = roff e))
         (merge_ranges (e :: l)).
Proof. exact (fun e l => merge_go_zero l e). Qed.
Print Assumptions C11_ranges_merge_zero_len.

(** The stable insertion sort of the executable model is one admissible order. *)
Theorem C11_ranges_sort_admissible : forall l, Permutation l (sort_off l) /\ sorted_off (sort_off l).
Proof. exact (fun l => conj (Permutation_sym (sort_off_perm l)) (sort_off_sorted l)). Qed.
Print Assumptions C11_ranges_sort_admissible.

(** Without overflow the merged list is the same for every admissible order, so
    modelling the unstable sort by a stable one loses nothing. *)
Theorem C11_ranges_merge_order_independent : forall l1 l2,
  Permutation l1 l2 -> sorted_off l1 -> sorted_off l2 -> Forall okr l1 ->
  merge_ranges l1 = merge_ranges l2.
Proof. exact merge_sorted_perm_indep. Qed.
Print Assumptions C11_ranges_merge_order_independent.

(** Range.Exclude is exactly the set difference. *)
Theorem C11_range_exclude_exact : forall r tes k, okr r -> Forall okr tes ->
  (in_ranges (range_exclude r tes) k <-> (inr r k /\ ~ in_ranges tes k)).
Proof. exact range_exclude_den. Qed.
Print Assumptions C11_range_exclude_exact.

(** Range.Intersect says whether the two ranges share a byte. *)
Theorem C11_range_intersect_exact : forall r c, okr r -> okr c ->
  (intersect r c = true <-> exists k, inr r k /\ inr c k).
Proof. exact intersect_spec. Qed.
Print Assumptions C11_range_intersect_exact.

(** The hypothesis [okr] cannot be dropped: with a wrapping range the merge loses offsets. *)
Theorem C11_ranges_merge_overflow_refuted : exists l k,
  sorted_off l /\ in_ranges l k /\ ~ in_ranges (merge_ranges l) k.
Proof.
  exists [mkR 0 4; mkR 2 (W64 - 1)], 10. split; [cbn; lia|]. split.
  - apply Exists_cons_tl, Exists_cons_hd. unfold inr, W64. cbn [roff rlen]. lia.
  - assert (E : merge_ranges [mkR 0 4; mkR 2 (W64 - 1)] = [mkR 0 4]) by (vm_compute; reflexivity).
    rewrite E. intros H. inversion H as [? ? I | ? ? I]; [|inversion I].
    unfold inr in I. cbn [roff rlen] in I. lia.
Qed.
Print Assumptions C11_ranges_merge_overflow_refuted.

(** ** References.SortAndMerge *)

(** The executable functions realise the relations the theorems speak about. *)
Theorem C11_model_realises_relations : forall perm s out,
  refs_sm perm s = Ok out -> sortmerge_rel s out.
Proof. exact refs_sm_rel. Qed.
Print Assumptions C11_model_realises_relations.

Theorem C11_model_realises_exclude : forall ps pe s exc out,
  refs_exclude ps pe s exc = Ok out -> exclude_rel s exc out.
Proof. exact refs_exclude_rel. Qed.
Print Assumptions C11_model_realises_exclude.

(** The denoted set is preserved — whatever the artifacts, type names and mappers. *)
Theorem C11_sortmerge_den : forall s out, NoOverflow s -> sortmerge_rel s out ->
  forall a m k, den out a m k <-> den s a m k.
Proof. exact sortmerge_den. Qed.
Print Assumptions C11_sortmerge_den.

(** Normal form: one entry per (artifact, address space), every entry's ranges
    separated -- for lists of every length, a single reference included (its
    ranges are sorted and merged too).  PARTIAL: needs [Distinguishable s]
    (compareReferenceType looks at type names only and never at the mapper:
    finding C11-D6). *)
Theorem C11_sortmerge_normal_partial : forall s out,
  Distinguishable s -> NoOverflow s ->
  sortmerge_rel s out -> NormalRefs out.
Proof. exact sortmerge_normal. Qed.
Print Assumptions C11_sortmerge_normal_partial.

(** Under the assumption the comparator does not panic. *)
Theorem C11_sortmerge_no_panic_partial : forall s, Distinguishable s -> has_conflict s = false.
Proof. exact dist_no_conflict. Qed.
Print Assumptions C11_sortmerge_no_panic_partial.

Definition wA := mkArt 1 0 true [1; 2; 3; 4].
Definition wB := mkArt 2 0 true [9; 9; 9; 9].

(** Without it: references A, B, A over two different RawBytes artifacts stay three entries. *)
Theorem C11_sortmerge_normal_refuted : exists s out,
  NoOverflow s /\ sortmerge_rel s out /\ ~ NormalRefs out.
Proof.
  exists [mkRef wA MNil [mkR 0 2]; mkRef wB MNil [mkR 1 2]; mkRef wA MNil [mkR 2 2]].
  eexists. split; [apply no_overflowb_spec; reflexivity|]. split.
  - apply (refs_sm_rel [0; 1; 2]%nat). vm_compute. reflexivity.
  - intros (N & _). vm_compute in N. inversion N as [|? ? NI _]. apply NI. right. left. reflexivity.
Qed.
Print Assumptions C11_sortmerge_normal_refuted.

(** Same artifact, mappers m, nil, m: the mapper is never compared, so the two m-entries are not grouped. *)
Theorem C11_sortmerge_normal_mapper_refuted : exists s out,
  NoOverflow s /\ sortmerge_rel s out /\ ~ NormalRefs out.
Proof.
  exists [mkRef wA (MCustom 1 false 100) [mkR 0 2]; mkRef wA MNil [mkR 1 2]; mkRef wA (MCustom 1 false 100) [mkR 2 2]].
  eexists. split; [apply no_overflowb_spec; reflexivity|]. split.
  - apply (refs_sm_rel [0; 1; 2]%nat). vm_compute. reflexivity.
  - intros (N & _). vm_compute in N. inversion N as [|? ? NI _]. apply NI. right. left. reflexivity.
Qed.
Print Assumptions C11_sortmerge_normal_mapper_refuted.

(** A one-element list: its ranges are sorted and merged (the input of the former
    finding C11-D24, where the list was returned as it was). *)
Example C11_ex_sortmerge_single :
  sortmerge_rel [mkRef wA MNil [mkR 2 2; mkR 0 3]] [mkRef wA MNil [mkR 0 4]].
Proof. apply (refs_sm_rel [0]%nat). vm_compute. reflexivity. Qed.

(** ... and the empty list stays empty. *)
Example C11_ex_sortmerge_empty : forall out, sortmerge_rel [] out -> out = [].
Proof.
  intros out (_ & s' & P & _ & ->). apply Permutation_nil in P. subst s'. reflexivity.
Qed.

(** ** References.Exclude *)

(** Exactly the set difference.  PARTIAL: needs [Distinguishable (s ++ exc)]. *)
Theorem C11_exclude_exact_partial : forall s exc out,
  Distinguishable (s ++ exc) -> NoOverflow (s ++ exc) -> exclude_rel s exc out ->
  forall a m k, den out a m k <-> (den s a m k /\ ~ den exc a m k).
Proof. exact exclude_exact. Qed.
Print Assumptions C11_exclude_exact_partial.

(** ... and under the same assumption the walk over the two lists does not panic. *)
Theorem C11_exclude_total_partial : forall s exc,
  Distinguishable (s ++ exc) -> NoOverflow (s ++ exc) ->
  forall s0 s1, sortmerge_rel s s0 -> sortmerge_rel exc s1 -> exists out, excl_walk s0 s1 = Ok out.
Proof. exact exclude_total. Qed.
Print Assumptions C11_exclude_total_partial.

(** Unconditionally, Exclude never adds a byte. *)
Theorem C11_exclude_sound : forall s exc out, NoOverflow (s ++ exc) -> exclude_rel s exc out ->
  forall a m k, den out a m k -> den s a m k.
Proof. exact exclude_sound. Qed.
Print Assumptions C11_exclude_sound.

(** Finding C11-D6: excluding a reference to a DIFFERENT RawBytes artifact removes bytes. *)
Theorem C11_exclude_refuted : exists s exc out,
  NoOverflow (s ++ exc) /\ exclude_rel s exc out /\
  exists a m k, den s a m k /\ ~ den exc a m k /\ ~ den out a m k.
Proof.
  exists [mkRef wA MNil [mkR 0 4]], [mkRef wB MNil [mkR 1 2]]. eexists.
  split; [apply no_overflowb_spec; reflexivity|]. split.
  - apply (refs_exclude_rel [0]%nat [0]%nat). vm_compute. reflexivity.
  - exists 1, MNil, 1. split; [apply denb_spec; reflexivity|].
    split; apply denb_false; reflexivity.
Qed.
Print Assumptions C11_exclude_refuted.

(** ... and so does a reference to the same artifact in a different address space. *)
Theorem C11_exclude_space_refuted : exists s exc out,
  NoOverflow (s ++ exc) /\ exclude_rel s exc out /\
  exists a m k, den s a m k /\ ~ den exc a m k /\ ~ den out a m k.
Proof.
  exists [mkRef wA MPhys [mkR 0 4]], [mkRef wA MNil [mkR 1 2]]. eexists.
  split; [apply no_overflowb_spec; reflexivity|]. split.
  - apply (refs_exclude_rel [0]%nat [0]%nat). vm_compute. reflexivity.
  - exists 1, MPhys, 1. split; [apply denb_spec; reflexivity|].
    split; apply denb_false; reflexivity.
Qed.
Print Assumptions C11_exclude_space_refuted.

(** ** Bytes *)

(** References.RawBytes is the concatenation, in list order, of Reference.RawBytes. *)
Theorem C11_rawbytes_concat : forall s bs,
  refs_rawbytes s = Ok bs <->
  exists parts, Forall2 (fun r b => ref_rawbytes r = Ok b) s parts /\ bs = concat parts.
Proof. exact refs_rawbytes_concat. Qed.
Print Assumptions C11_rawbytes_concat.

(** It panics exactly when some reference's RawBytes panics (there is no error value). *)
Theorem C11_rawbytes_panic : forall s,
  refs_rawbytes s = Panic <-> exists r, In r s /\ ref_rawbytes r = Panic.
Proof. exact refs_rawbytes_panic. Qed.
Print Assumptions C11_rawbytes_panic.

(** Reference.RawBytes: the bytes of the artifact at the resolved ranges of the
    sorted-merged ranges, in that order. *)
Theorem C11_ref_rawbytes_spec : forall r bs, okref r -> ref_rawbytes r = Ok bs ->
  bs = flat_map (bytes_of_range r) (ranges_sm (rranges r)).
Proof. exact ref_rawbytes_spec. Qed.
Print Assumptions C11_ref_rawbytes_spec.

(** When it returns (nil mapper), every non-empty merged range lies inside the artifact. *)
Theorem C11_ref_rawbytes_inbounds : forall r bs, okref r -> rmap r = MNil -> ref_rawbytes r = Ok bs ->
  Forall (fun x => rlen x = 0 \/ roff x + rlen x <= zlen (acontent (rart r))) (ranges_sm (rranges r)).
Proof. exact ref_rawbytes_inbounds. Qed.
Print Assumptions C11_ref_rawbytes_inbounds.

Theorem C11_ref_rawbytes_no_error : forall r, (exists v, ref_rawbytes r = Ok v) \/ ref_rawbytes r = Panic.
Proof. exact ref_rawbytes_no_err. Qed.
Print Assumptions C11_ref_rawbytes_no_error.

(** RawBytes.ReadAt honours the positional-read contract: never more than the
    buffer holds; n = min(len p, len b - off); the n bytes are b[off:off+n], the
    rest of p is untouched; (0, EOF) at or after the end; a negative offset
    panics (Go's b[offset:]). *)
Theorem C11_readat_contract : forall b p off,
  (off < 0 -> readat_raw b p off = Panic) /\
  (zlen b <= off -> readat_raw b p off = Ok (mkRd 0 p 1)) /\
  (0 <= off < zlen b ->
     let n := Z.min (zlen b - off) (zlen p) in
     exists p', readat_raw b p off = Ok (mkRd n p' 0) /\
       0 <= n <= zlen p /\ zlen p' = zlen p /\
       firstn (Z.to_nat n) p' = slice b off n /\ skipn (Z.to_nat n) p' = skipn (Z.to_nat n) p).
Proof. exact (fun b p off => conj (readat_raw_neg b p off) (conj (readat_raw_eof b p off) (readat_raw_inside b p off))). Qed.
Print Assumptions C11_readat_contract.

(** ** The hypotheses are satisfiable by non-trivial values *)

Definition xImg := mkArt 1 0 false [10; 11; 12; 13; 14; 15; 16; 17].
Definition xReg := mkArt 2 1 false [20; 21; 22; 23].
Definition xRaw := mkArt 3 2 true [30; 31; 32; 33; 34; 35].
Definition xs : list ref :=
  [ mkRef xRaw MNil [mkR 3 2; mkR 0 2];
    mkRef xImg MPhys [mkR 4294967292 2; mkR 4294967288 4];
    mkRef xRaw MNil [mkR 2 1; mkR 5 0];
    mkRef xReg (MCustom 1 true 100) [mkR 0 3] ].
Definition xexc : list ref :=
  [ mkRef xImg MPhys [mkR 4294967290 3]; mkRef xRaw MNil [mkR 1 3] ].

Example C11_ex_hyps : Distinguishable (xs ++ xexc) /\ NoOverflow (xs ++ xexc).
Proof. split; [apply distinguishableb_spec; reflexivity | apply no_overflowb_spec; reflexivity]. Qed.

Example C11_ex_sortmerge :
  sortmerge_rel xs [ mkRef xImg MPhys [mkR 4294967288 6];
                     mkRef xReg (MCustom 1 true 100) [mkR 0 3];
                     mkRef xRaw MNil [mkR 0 5] ].
Proof. apply (refs_sm_rel [1; 3; 0; 2]%nat). vm_compute. reflexivity. Qed.

Example C11_ex_exclude :
  exclude_rel xs xexc [ mkRef xImg MPhys [mkR 4294967288 2; mkR 4294967293 1];
                        mkRef xReg (MCustom 1 true 100) [mkR 0 3];
                        mkRef xRaw MNil [mkR 0 1; mkR 4 1] ].
Proof. apply (refs_exclude_rel [1; 3; 0; 2]%nat [0; 1]%nat). vm_compute. reflexivity. Qed.

Example C11_ex_bytes :
  refs_rawbytes xs = Ok ([30; 31; 33; 34] ++ [10; 11; 12; 13; 14; 15] ++ [32] ++ [21; 22; 23]).
Proof. vm_compute. reflexivity. Qed.

Example C11_ex_ranges : Forall okr [mkR 5 0; mkR 3 2; mkR 9 1; mkR 0 3; mkR 5 0] /\
  ranges_sm [mkR 5 0; mkR 3 2; mkR 9 1; mkR 0 3; mkR 5 0] = [mkR 0 5; mkR 9 1].
Proof. split; [|reflexivity]. repeat constructor; cbn; lia. Qed.


(** ** Slice level: what an operation does to memory it was not asked to change *)

(** The invariant holds for the hand-written memory below and is kept by every operation. *)
Theorem C11_heap_invariant : forall h0 W0 st o st' r,
  Wok h0 W0 -> SInv h0 W0 st -> step st o = Some (st', r) -> SInv h0 W0 st'.
Proof. exact (fun h0 W0 st o st' r WF I E => proj1 (step_inv h0 W0 WF st o st' r I E)). Qed.
Print Assumptions C11_heap_invariant.

(** Receiver, arguments, results of earlier operations: every References variable
    other than the one the operation is documented to modify is the same slice
    afterwards and holds, position by position, the same artifact, the same
    mapper and the same ranges -- in the same order unless the operation is one
    of those known to sort range slices in place. *)
Theorem C11_heap_others_kept : forall h0 W0, Wok h0 W0 -> forall st o st' r u s,
  SInv h0 W0 st -> step st o = Some (st', r) -> target o <> Some u ->
  nth_error (st_env st) u = Some (VRefs s) ->
  nth_error (st_env st') u = Some (VRefs s) /\
  Forall2 (upto (sorter o)) (lval (st_m st) s) (lval (st_m st') s).
Proof. exact step_others. Qed.
Print Assumptions C11_heap_others_kept.

(** ... likewise a Ranges variable (the result of an earlier Ranges()). *)
Theorem C11_heap_other_ranges_kept : forall h0 W0, Wok h0 W0 -> forall st o st' r u s,
  SInv h0 W0 st -> step st o = Some (st', r) -> target o <> Some u ->
  nth_error (st_env st) u = Some (VRngs s) ->
  nth_error (st_env st') u = Some (VRngs s) /\
  if sorter o then Permutation (rd (m_r (st_m st)) s) (rd (m_r (st_m st')) s)
  else rd (m_r (st_m st')) s = rd (m_r (st_m st)) s.
Proof. exact step_others_ranges. Qed.
Print Assumptions C11_heap_other_ranges_kept.

(** Results stay valid: after ANY sequence of operations a variable that none of
    them is documented to modify holds what it held, up to the order of the
    ranges inside each reference ... *)
Theorem C11_heap_results_stay_valid : forall h0 W0 ops st st' u s,
  Wok h0 W0 -> SInv h0 W0 st -> run st ops = Some st' -> ~ In u (targets ops) ->
  nth_error (st_env st) u = Some (VRefs s) ->
  nth_error (st_env st') u = Some (VRefs s) /\
  Forall2 (upto true) (lval (st_m st) s) (lval (st_m st') s).
Proof. exact (fun h0 W0 ops st st' u s WF => run_others h0 W0 WF ops st st' u s). Qed.
Print Assumptions C11_heap_results_stay_valid.

(** ... hence denotes the same set of (artifact, address space, offset) triples ... *)
Theorem C11_heap_same_triples : forall h0 W0 ops st st' u s,
  Wok h0 W0 -> SInv h0 W0 st -> run st ops = Some st' -> ~ In u (targets ops) ->
  nth_error (st_env st) u = Some (VRefs s) ->
  forall a m k, den (lval (st_m st') s) a m k <-> den (lval (st_m st) s) a m k.
Proof.
  intros h0 W0 ops st st' u s WF I E N Hu a m k. symmetry.
  apply (upto_den true), (proj2 (run_others h0 W0 WF ops st st' u s I E N Hu)).
Qed.
Print Assumptions C11_heap_same_triples.

(** ... and exactly what it held when the sequence consists of queries that do not
    sort (caller-made copies, BySystemArtifact, Ranges, Resolve of other lists). *)
Theorem C11_heap_queries_exact : forall h0 W0 ops st st' u s,
  Wok h0 W0 -> SInv h0 W0 st -> run st ops = Some st' -> ~ In u (targets ops) ->
  forallb (fun o => negb (sorter o)) ops = true ->
  nth_error (st_env st) u = Some (VRefs s) ->
  nth_error (st_env st') u = Some (VRefs s) /\ lval (st_m st') s = lval (st_m st) s.
Proof. exact (fun h0 W0 ops st st' u s WF => run_others_exact h0 W0 WF ops st st' u s). Qed.
Print Assumptions C11_heap_queries_exact.

(** A cell of the caller's range arrays that lies in no range slice (spare
    capacity behind a slice, cells in front of it or between two slices) is never
    written, whatever the sequence of operations. *)
Theorem C11_heap_spare_capacity_untouched : forall h0 W0 a i,
  Wok h0 W0 -> (i < length (nth a h0 []))%nat -> (forall w, In w W0 -> sep (mkSl a i 1) w) ->
  forall ops st st', SInv h0 W0 st -> run st ops = Some st' ->
  nth i (nth a (m_r (st_m st')) []) (mkR 0 0) = nth i (nth a (m_r (st_m st)) []) (mkR 0 0).
Proof. exact run_cell. Qed.
Print Assumptions C11_heap_spare_capacity_untouched.

(** Reference structs that lie in no variable (spare capacity of a list, cells in
    front of it) are not written by an operation. *)
Theorem C11_heap_reference_cells_untouched : forall h0 W0 st o st' r fw,
  Wok h0 W0 -> SInv h0 W0 st -> step st o = Some (st', r) ->
  inb (m_f (st_m st)) fw -> (forall v s, nth_error (st_env st) v = Some (VRefs s) -> sep fw s) ->
  rd (m_f (st_m st')) fw = rd (m_f (st_m st)) fw.
Proof. exact step_ref_cells. Qed.
Print Assumptions C11_heap_reference_cells_untouched.

(** The queries against the value-level model the theorems above are about:
    BySystemArtifact yields a new variable holding the filter of what the receiver holds, *)
Theorem C11_heap_by_artifact_value : forall st v a st' r s,
  step st (OBy v a) = Some (st', r) -> get_refs st v = Some s ->
  exists x, st_env st' = st_env st ++ [VRefs x] /\ lval (st_m st') x = by_artifact (lval (st_m st) s) a.
Proof. exact step_by_value. Qed.
Print Assumptions C11_heap_by_artifact_value.

(** Ranges a new variable holding the concatenation, *)
Theorem C11_heap_ranges_value : forall st v st' r s,
  step st (ORanges v) = Some (st', r) -> get_refs st v = Some s ->
  exists x, st_env st' = st_env st ++ [VRngs x] /\ rd (m_r (st_m st')) x = refs_ranges (lval (st_m st) s).
Proof. exact step_ranges_value. Qed.
Print Assumptions C11_heap_ranges_value.

(** and Reference.RawBytes, which sorts the ranges of its receiver in place, the
    bytes the value-level model computes from the ranges as they were.
    (SortAndMerge, Exclude, Resolve and References.RawBytes at slice level are
    compared with the value-level functions on every run, operation by
    operation: [vcheck] in Model/RefsCases.v -- sampled, not proved.) *)
Theorem C11_heap_ref_rawbytes_value : forall h x,
  inb h (hd_rs x) -> snd (ref_rawbytes_h h x) = ref_rawbytes (hval h x).
Proof. exact ref_rawbytes_h_value. Qed.
Print Assumptions C11_heap_ref_rawbytes_value.

(** [Wok] cannot be dropped: with two range slices that overlap without being
    the same window (a[0:2] and a[1:3]) RawBytes of one list -- it sorts a[0:2]
    in place -- changes the set another list denotes. *)
Definition ov_st : state :=
  mkSt (mkMem [[mkR 4 1; mkR 0 1; mkR 2 1]]
              [[mkHdr wA MNil (mkSl 0 0 2)]; [mkHdr wA MNil (mkSl 0 1 2)]])
       [VRefs (mkSl 0 0 1); VRefs (mkSl 1 0 1)].
Theorem C11_heap_overlapping_slices_refuted : exists st' r,
  step ov_st (ORawBytes 0) = Some (st', r) /\
  den (lval (st_m ov_st) (mkSl 1 0 1)) 1 MNil 0 /\ ~ den (lval (st_m st') (mkSl 1 0 1)) 1 MNil 0.
Proof.
  eexists. eexists. split; [vm_compute; reflexivity|].
  split; [apply denb_spec; reflexivity | apply denb_false; reflexivity].
Qed.
Print Assumptions C11_heap_overlapping_slices_refuted.

(** The hypotheses are satisfiable: two lists over three range arrays with a
    shared array, spare capacity and cells in front; a program runs on it. *)
Example C11_ex_heap_hyps : Wok ex_h0 ex_W0 /\ SInv ex_h0 ex_W0 ex_st.
Proof. exact (conj ex_Wok ex_SInv). Qed.
Example C11_ex_heap_runs : exists st', run ex_st ex_ops = Some st'.
Proof. exact ex_runs. Qed.


(** ** The bytes handed out belong to the caller *)

(** RawBytes / Reference.RawBytes hand out a NEW array of bytes: the byte heap
    grows by exactly that entry (no entry that exists is handed out again, and
    artifacts are not memory of the byte heap at all). *)
Theorem C11_bytes_result_fresh : forall bs o bs' b,
  bstep bs (BOp o) = Some (bs', RBytes (Ok b)) ->
  b_bytes bs' = b_bytes bs ++ [b] /\ step (b_st bs) o = Some (b_st bs', RBytes (Ok b)).
Proof. exact bstep_fresh. Qed.
Print Assumptions C11_bytes_result_fresh.

(** After ANY sequence of operations -- further RawBytes calls on the same or on
    other lists included -- every result handed out earlier holds the bytes it
    held, unless the caller itself wrote into it. *)
Theorem C11_bytes_results_kept : forall ops bs bs' j b,
  brun bs ops = Some bs' -> ~ In j (scribbles ops) ->
  nth_error (b_bytes bs) j = Some b -> nth_error (b_bytes bs') j = Some b.
Proof. exact brun_bytes_kept. Qed.
Print Assumptions C11_bytes_results_kept.

(** ... in particular the result of a call is, after every continuation, what the
    call returned. *)
Theorem C11_bytes_result_stays : forall bs o bs1 b ops bs2,
  bstep bs (BOp o) = Some (bs1, RBytes (Ok b)) -> brun bs1 ops = Some bs2 ->
  ~ In (length (b_bytes bs)) (scribbles ops) ->
  nth_error (b_bytes bs2) (length (b_bytes bs)) = Some b.
Proof. exact bytes_result_stays. Qed.
Print Assumptions C11_bytes_result_stays.

(** The caller's write into a result changes that array and nothing else: no
    reference list, no range array, no other result. *)
Theorem C11_bytes_caller_write_frame : forall bs j pat bs' r,
  bstep bs (BScribble j pat) = Some (bs', r) ->
  b_st bs' = b_st bs /\ length (b_bytes bs') = length (b_bytes bs) /\
  (exists b, nth_error (b_bytes bs) j = Some b /\ nth_error (b_bytes bs') j = Some (map (fun _ => pat) b)) /\
  (forall k, k <> j -> nth_error (b_bytes bs') k = nth_error (b_bytes bs) k).
Proof. exact bstep_scribble_frame. Qed.
Print Assumptions C11_bytes_caller_write_frame.

(** As far as reference lists and range arrays go, a program with kept byte
    results is the program of its algebra operations: the slice-level theorems
    above (the C11_heap theorems) hold for it. *)
Theorem C11_bytes_programs_are_heap_programs : forall ops bs bs',
  brun bs ops = Some bs' -> run (b_st bs) (algebra_ops ops) = Some (b_st bs').
Proof. exact brun_algebra. Qed.
Print Assumptions C11_bytes_programs_are_heap_programs.

Example C11_ex_bytes_program : exists bs', brun eb_st eb_ops = Some bs' /\
  b_bytes bs' = [[170; 170; 170; 170; 170; 170; 170]; [1; 2; 5; 6]; [22; 23; 24; 1; 2; 5; 6]; [22; 23; 24]].
Proof. exact eb_runs. Qed.


(** ** Register files *)

(** Byte extraction over an arbitrary artifact is, on the artifacts made of
    bytes, the function the theorems above are about. *)
Theorem C11_gref_bytes_is_ref_rawbytes : forall r,
  gref_rawbytes (mkGRef (GBytes (rart r)) (rmap r) (rranges r)) = ref_rawbytes r.
Proof. exact gref_bytes_is_ref_rawbytes. Qed.
Print Assumptions C11_gref_bytes_is_ref_rawbytes.

(** The bytes of a list over artifacts of every kind -- registers, firmware
    image, in-line byte strings -- are the concatenation, in list order, of the
    bytes of its references; a reference has bytes or the call panics. *)
Theorem C11_mixed_list_concat : forall s bs,
  grefs_rawbytes s = Ok bs <->
  exists parts, Forall2 (fun r b => gref_rawbytes r = Ok b) s parts /\ bs = concat parts.
Proof. exact grefs_rawbytes_concat. Qed.
Print Assumptions C11_mixed_list_concat.

Theorem C11_gref_rawbytes_no_error : forall r, (exists v, gref_rawbytes r = Ok v) \/ gref_rawbytes r = Panic.
Proof. exact gref_rawbytes_no_err. Qed.
Print Assumptions C11_gref_rawbytes_no_error.

(** TXTPublic.ReadAt always returns and honours the positional-read contract of
    io.ReaderAt: never more bytes than the buffer holds, everything behind the n
    bytes reported is untouched, and n < len(p) comes with an error -- a nil
    error means the WHOLE buffer was filled. *)
Theorem C11_txt_readat_positional : forall regs p off, exists rd,
  txt_readat regs p off = Ok rd /\
  0 <= rd_n rd <= zlen p /\ zlen (rd_p rd) = zlen p /\
  skipn (Z.to_nat (rd_n rd)) (rd_p rd) = skipn (Z.to_nat (rd_n rd)) p /\
  (rd_err rd = 0 -> rd_n rd = zlen p /\ 0 < zlen p).
Proof. exact txt_readat_positional. Qed.
Print Assumptions C11_txt_readat_positional.

(** The bytes delivered are always bytes of the sparse register space: byte i of
    what is reported as read is the byte the space holds at off+i. *)
Theorem C11_txt_readat_space : forall regs p off rd, TxtApart regs ->
  txt_readat regs p off = Ok rd ->
  forall i, 0 <= i < rd_n rd ->
  exists b, nth_error (rd_p rd) (Z.to_nat i) = Some b /\ txt_space regs (off + i) = Some b.
Proof. exact txt_readat_space. Qed.
Print Assumptions C11_txt_readat_space.

(** A read across a gap never returns success with len(p) bytes: a short count
    AND an error. *)
Theorem C11_txt_readat_gap : forall regs p off rd, TxtApart regs ->
  txt_readat regs p off = Ok rd ->
  (exists i, 0 <= i < zlen p /\ txt_space regs (off + i) = None) ->
  rd_n rd < zlen p /\ rd_err rd <> 0.
Proof. exact txt_readat_gap. Qed.
Print Assumptions C11_txt_readat_gap.

(** A run of present registers without gaps is readable in ONE ReadAt, whatever
    else the collection holds and in whatever order: exactly their values, back
    to back, without error. *)
Theorem C11_txt_readat_run : forall regs run p off, TxtWF regs ->
  (forall r, In r run -> In r regs) -> run <> [] -> chained off run -> zlen p = sum_tw run ->
  txt_readat regs p off = Ok (mkRd (zlen p) (concat (map g_val run)) 0).
Proof. exact txt_readat_run. Qed.
Print Assumptions C11_txt_readat_run.

(** Every present register is readable at its address, whatever its neighbours
    and whatever its BitSize(): a buffer of exactly its width receives exactly
    its value, without error. *)
Theorem C11_txt_readat_register : forall regs r, TxtWF regs -> In r regs ->
  txt_readat regs (repeat 0 (Z.to_nat (txt_width r))) (g_off r) = Ok (mkRd (txt_width r) (g_val r) 0).
Proof. exact txt_readat_register_exact. Qed.
Print Assumptions C11_txt_readat_register.

(** ... and a buffer that is not longer than the register receives its first
    len(p) bytes (io.ErrShortWrite when shorter, io.EOF when empty). *)
Theorem C11_txt_readat_register_short_buffer : forall regs r p, TxtWF regs -> In r regs ->
  zlen p <= txt_width r ->
  txt_readat regs p (g_off r) = Ok (let '(p', n, e) := bwrite p 0 (g_val r) in mkRd n p' e).
Proof. exact txt_readat_register. Qed.
Print Assumptions C11_txt_readat_register_short_buffer.

(** A reference whose one range covers a run of present registers without gaps
    (what Reference.RawBytes makes of adjacent ranges) has their bytes, back to back. *)
Theorem C11_txt_reference_run : forall regs run off, TxtWF regs ->
  (forall r, In r run -> In r regs) -> run <> [] -> chained off run ->
  0 <= off -> off + sum_tw run < 9223372036854775808 ->
  rawbytes_g (txt_readat regs) txt_size MNil [mkR off (sum_tw run)] = Ok (concat (map g_val run)).
Proof. exact txt_reference_run. Qed.
Print Assumptions C11_txt_reference_run.

(** ONE reference naming two present registers that are neighbours in the
    register space -- two ranges, in either order, for any neighbours -- has the
    bytes of the lower one followed by those of the upper one (former finding
    C11-TXTPublic-neighbouring-registers-one-reference, repaired by /repo 9b9036f;
    the theorem replaces the former closed counterexample). *)
Theorem C11_txt_reference_neighbours : forall regs r1 r2, TxtWF regs -> In r1 regs -> In r2 regs ->
  g_off r2 = g_off r1 + txt_width r1 -> g_off r2 + txt_width r2 < 9223372036854775808 ->
  rawbytes_g (txt_readat regs) txt_size MNil [mkR (g_off r1) (txt_width r1); mkR (g_off r2) (txt_width r2)]
    = Ok (g_val r1 ++ g_val r2) /\
  rawbytes_g (txt_readat regs) txt_size MNil [mkR (g_off r2) (txt_width r2); mkR (g_off r1) (txt_width r1)]
    = Ok (g_val r1 ++ g_val r2).
Proof. exact txt_reference_neighbours. Qed.
Print Assumptions C11_txt_reference_neighbours.

(** A reference to exactly one present register has the bytes of that register. *)
Theorem C11_txt_reference_one_register : forall regs r, TxtWF regs -> In r regs ->
  g_off r + txt_width r < 9223372036854775808 ->
  rawbytes_g (txt_readat regs) txt_size MNil [mkR (g_off r) (txt_width r)] = Ok (g_val r).
Proof. exact txt_reference_one_register. Qed.
Print Assumptions C11_txt_reference_one_register.

(** A present register whose BitSize() says 0 -- the 256-bit TXT.PUBLIC.KEY,
    BitSize() = uint8(256) -- is readable like every other one: ReadAt delivers
    its value and a reference to its range has its bytes (former finding
    C11-TXTPublic-public-key-unreadable, repaired by /repo 9b9036f). *)
Theorem C11_txt_wide_register_readable : forall regs off key, TxtWF regs -> In (mkReg off 0 key) regs ->
  off + zlen key < 9223372036854775808 ->
  txt_readat regs (repeat 0 (Z.to_nat (zlen key))) off = Ok (mkRd (zlen key) key 0) /\
  rawbytes_g (txt_readat regs) txt_size MNil [mkR off (zlen key)] = Ok key.
Proof.
  intros regs off key W I B. split.
  - exact (txt_readat_register_exact regs (mkReg off 0 key) W I).
  - exact (txt_reference_one_register regs (mkReg off 0 key) W I B).
Qed.
Print Assumptions C11_txt_wide_register_readable.

(** If a reference to a TXT register file has bytes, they are -- merged range by
    merged range, through the address space -- the bytes the sparse register
    space holds at the resolved offsets. *)
Theorem C11_txt_bytes_sound : forall regs m rs bs, TxtApart regs -> Forall okr rs ->
  rawbytes_g (txt_readat regs) txt_size m rs = Ok bs ->
  bs = flat_map (fun mr => txt_full regs (to_i64 (roff mr)) (rlen mr))
                (flat_map (mapped1 txt_size m) (ranges_sm rs)).
Proof. exact txt_bytes_sound. Qed.
Print Assumptions C11_txt_bytes_sound.

(** AMDRegisters.ReadAt: never more bytes than the buffer holds; when bytes are
    reported the WHOLE buffer holds the values of the registers, back to back,
    from the one that starts at [off] on. *)
Theorem C11_amd_readat_positional : forall regs p off rd,
  amd_readat regs p off = Ok rd ->
  0 <= rd_n rd <= zlen p /\ zlen (rd_p rd) = zlen p /\
  (0 < rd_n rd -> rd_n rd = zlen p /\ rd_p rd = firstn (Z.to_nat (zlen p)) (amd_from regs 0 off)).
Proof. exact amd_readat_positional. Qed.
Print Assumptions C11_amd_readat_positional.

(** A read that starts where a register starts and is as long as a run of
    registers delivers exactly their values, without error. *)
Theorem C11_amd_readat_run : forall pre mid post p, Forall amd_wf (pre ++ mid ++ post) -> mid <> [] ->
  zlen p = sum_width mid ->
  amd_readat (pre ++ mid ++ post) p (sum_width pre) = Ok (mkRd (zlen p) (concat (map g_val mid)) 0).
Proof. exact amd_readat_run. Qed.
Print Assumptions C11_amd_readat_run.

Theorem C11_amd_bytes_sound : forall regs m rs bs, Forall okr rs ->
  rawbytes_g (amd_readat regs) (amd_size regs) m rs = Ok bs ->
  bs = flat_map (fun mr => amd_full regs (to_i64 (roff mr)) (rlen mr))
                (flat_map (mapped1 (amd_size regs) m) (ranges_sm rs)).
Proof. exact amd_bytes_sound. Qed.
Print Assumptions C11_amd_bytes_sound.

(** The hypotheses are satisfiable: TXT.STS | TXT.ESTS (neighbours), ACM_STATUS |
    TXT.DPR (neighbours), ACM_POLICY_STATUS, TXT.PUBLIC.KEY (BitSize() = 0), in
    no particular order; MP0_C2P_MSG_37 | MP0_C2P_MSG_38. *)
Definition xSTS := mkReg 0 64 [8; 7; 6; 5; 4; 3; 2; 1].
Definition xESTS := mkReg 8 8 [90].
Definition xACMSTS := mkReg 808 64 [190; 186; 254; 202; 0; 0; 0; 0].
Definition xDPR := mkReg 816 32 [170; 187; 204; 221].
Definition xACMPOL := mkReg 888 64 [136; 119; 102; 85; 68; 51; 34; 17].
Definition xKEY := mkReg 1024 0 (map (fun i => 160 + i) (seqZ 0 32)).
Definition xTxt : list reg := [xDPR; xSTS; xKEY; xESTS; xACMSTS; xACMPOL].
Definition xAmd : list reg := [mkReg 0 32 [4; 3; 2; 1]; mkReg 0 32 [56; 56; 56; 56]].

Example C11_ex_txt_wf : TxtWF xTxt.
Proof.
  split.
  - unfold xTxt. repeat (apply Forall_cons; [unfold reg_wf, txt_width; cbn; lia|]). apply Forall_nil.
  - unfold TxtApart, xTxt. repeat (apply FOP_cons; [repeat (apply Forall_cons; [unfold regs_apart, txt_width; cbn; lia|]); apply Forall_nil|]).
    apply FOP_nil.
Qed.

Example C11_ex_txt_run : chained 808 [xACMSTS; xDPR] /\ sum_tw [xACMSTS; xDPR] = 12 /\
  txt_readat xTxt (repeat 0 12) 808 = Ok (mkRd 12 [190; 186; 254; 202; 0; 0; 0; 0; 170; 187; 204; 221] 0) /\
  txt_readat xTxt (repeat 0 13) 808 = Ok (mkRd 12 ([190; 186; 254; 202; 0; 0; 0; 0; 170; 187; 204; 221] ++ [0]) 2).
Proof. split; [cbn; auto|]. split; [reflexivity|]. split; vm_compute; reflexivity. Qed.

Example C11_ex_mixed_list :
  grefs_rawbytes [ mkGRef (GRegs 1 0 (RTxt xTxt)) MNil [mkR 8 1; mkR 0 8];
                   mkGRef (GBytes xImg) MPhys [mkR 4294967290 4];
                   mkGRef (GRegs 1 0 (RTxt xTxt)) MNil [mkR 1024 32; mkR 888 8];
                   mkGRef (GRegs 2 1 (RAmd xAmd)) MNil [mkR 4 4; mkR 0 4];
                   mkGRef (GBytes xRaw) MNil [mkR 1 3] ]
  = Ok ([8; 7; 6; 5; 4; 3; 2; 1; 90] ++ [12; 13; 14; 15]
        ++ [136; 119; 102; 85; 68; 51; 34; 17] ++ map (fun i => 160 + i) (seqZ 0 32)
        ++ [4; 3; 2; 1; 56; 56; 56; 56] ++ [31; 32; 33]).
Proof. vm_compute. reflexivity. Qed.

Example C11_ex_amd_wf : Forall amd_wf xAmd /\ sum_width xAmd = 8.
Proof. split; [|reflexivity]. repeat (apply Forall_cons; [unfold amd_wf; cbn; lia|]). apply Forall_nil. Qed.
