(** C04 — register accessors return the documented bits; field tables partition registers.
    This file holds only the property theorems, each closed by [exact].

    Vocabulary:
    - [expr]/[bexpr]/[value], [eval]/[beval] (Lib/SymBits.v): what tools/go2coq emits for an
      accessor body — Go's typed integer arithmetic with every truncation written out;
    - [bits lo w x] = [(x >> lo) & ones w]: bits [lo, lo+w) of [x];
    - [spec] = [SBits | SNonZero | SZero | SMux | SRaw], [agrees W v s x]: value [v] evaluated on
      raw value [x] equals what [s] prescribes; [check W v s] the reflective decision procedure,
      [witness W v s] the counter-example search;
    - [accessor], [table], [find_accessor], [find_table] (Lib/RegTypes.v); [oblig_accessor],
      [oblig_table], [aligned], [table_wf], [field_ranges] (Lib/RegOblig.v): the computable
      obligations evaluated on the generated model in every run;
    - [calc_fields], [read_le] (Model/Registers.v): models of [CalculateRegisterFields] (uint8
      size arithmetic, running-total shift, wrapping uint64 mask) and of the little-endian readers;
    - [txt_layout] (Model/Registers.v): the 16 supported TXT registers as (ID, offset, size in
      bytes) in the order of the table in txt.go (ordered by name, NOT by offset);
      [read_regs layout img] = model of the [ReadTXTRegisters] loop on an image of ANY length:
      (collection of (ID, value), failures of (ID, [ErrEOF] | [ErrUnexpectedEOF])), every entry
      tried whatever happened to the others; [read_txt] = [read_regs txt_layout];
      [read_err_of img off]: [ErrEOF] when the image ends at or before [off], else
      [ErrUnexpectedEOF];
    - [ids], [fits img e] (extent of entry [e] lies inside [img]), [le_at img off n] (little-
      endian value of the [n] bytes at [off], which depends on no other byte: it is
      [le_value (firstn n (skipn off img))]), [disjoint_entries] (Proofs/RegistersRead.v);
    - [fields_spec raw size l] (Proofs/Registers.v): every declared field [(name, offset)] with
      its range [(offset, sz)] from [field_ranges] and the value [bits offset sz raw];
    - [contiguous start rs stop] (Proofs/Registers.v): the first range of [rs] starts at [start],
      each next one starts where the previous ended, the last one ends at [stop];
    - slice level (Model/RegisterHeap.v): [heap] = one byte array per allocation, address =
      position; [op] = [OpFields reg raw] (a [Fields()] call) | [OpKeyFields key]
      ([TXTPublicKey.Fields()]) | [OpWrite g bytes] (a consumer overwrites the [g]-th byte slice
      that was ever handed out); [state] = heap + addresses of the values handed out so far;
      [step]/[run]: heap semantics, an operation reports the new fields as they read right
      after the call ([ofield] = name, offset, size, bytes of [Value], address); [final s]: how
      every handed-out value reads in [s]; [vstep]/[vrun]: the same session over independent
      values (no memory); [number_from base fs]: the fields [fs] with the little-endian 8-byte
      encoding [le_bytes 8] of their values, numbered from [base]; [wf_state] (Proofs/
      RegisterHeap.v): the handed-out addresses are pairwise distinct and inside the heap;
    - [origin], [allocfn], [oblig_fresh] (Lib/RegFresh.v): the summary tools/go2coq extracts for
      the functions that build these results and the obligation evaluated on it in every run. *)
From Coq Require Import NArith String List.
From CSS Require Import Lib.SymBits Lib.RegTypes Lib.RegOblig Lib.RegFresh Model.Registers Model.RegisterHeap.
From CSS Require Import Proofs.SymBits Proofs.Registers Proofs.RegisterHeap Proofs.RegistersRead.
Import ListNotations.
Open Scope N_scope.

(** * 1. The decision procedure is sound: [check = true] is a statement about ALL raw values *)

Theorem C04_check_sound : forall W v s,
  check W v s = true -> forall x, x < 2 ^ W -> agrees W v s x = true.
Proof. exact check_sound. Qed.
Print Assumptions C04_check_sound.

Theorem C04_bits : forall W e lo w,
  check W (VNum e) (SBits lo w) = true ->
  forall x, x < 2 ^ W -> eval e x = bits lo w x.
Proof. exact check_bits_sound. Qed.
Print Assumptions C04_bits.

Theorem C04_nonzero : forall W b lo w,
  check W (VBool b) (SNonZero lo w) = true ->
  forall x, x < 2 ^ W -> beval b x = negb (N.eqb (bits lo w x) 0).
Proof. exact check_nonzero_sound. Qed.
Print Assumptions C04_nonzero.

Theorem C04_zero : forall W b lo w,
  check W (VBool b) (SZero lo w) = true ->
  forall x, x < 2 ^ W -> beval b x = N.eqb (bits lo w x) 0.
Proof. exact check_zero_sound. Qed.
Print Assumptions C04_zero.

Theorem C04_mux : forall W e bit vs vc,
  check W (VNum e) (SMux bit vs vc) = true ->
  forall x, x < 2 ^ W -> eval e x = if N.testbit x bit then vs else vc.
Proof. exact check_mux_sound. Qed.
Print Assumptions C04_mux.

Theorem C04_raw : forall W e,
  check W (VNum e) SRaw = true ->
  forall x, x < 2 ^ W -> eval e x = x.
Proof. exact check_raw_sound. Qed.
Print Assumptions C04_raw.

Theorem C04_witness_sound : forall W v s x,
  witness W v s = Some x -> agrees W v s x = false.
Proof. exact witness_sound. Qed.
Print Assumptions C04_witness_sound.

(** * 2. A green accessor obligation: the accessor as translated from the source exists, has the
      specified width and returns the specified bits for every raw value of that width *)

Theorem C04_accessor_obligation_sound : forall gen n W s,
  snd (fst (oblig_accessor gen (n, W, Sp s))) = true ->
  exists a, find_accessor n gen = Some a /\ a_width a = W /\
            forall raw, raw < 2 ^ W -> agrees W (a_val a) s raw = true.
Proof. exact accessor_obligation_sound. Qed.
Print Assumptions C04_accessor_obligation_sound.

(** ... and a red one that carries a counter-example reports a genuine disagreement. *)
Theorem C04_accessor_obligation_witness : forall gen n W s x e g,
  oblig_accessor gen (n, W, Sp s) = (n, false, Some (x, e, g)) ->
  exists a, find_accessor n gen = Some a /\ agrees W (a_val a) s x = false /\
            e = expected_at W s x /\ g = got_at (a_val a) x.
Proof. exact accessor_obligation_witness. Qed.
Print Assumptions C04_accessor_obligation_witness.

(** * 3. Field tables *)

(** Despite the uint8 wrap-around arithmetic, the running-total shift and the mask
    [(1 << size) - 1] computed in uint64 (all ones for size 64), each decoded field is exactly
    (name, declared offset, size of its range, bit slice [offset, offset+size) of the raw value).
    Holds for every [raw : N]; the hypothesis [raw < 2^64] is not needed. *)
Theorem C04_fields_exact : forall t raw, table_wf t = true ->
  calc_fields raw (t_bits t) (t_fields t) = fields_spec raw (t_bits t) (t_fields t).
Proof. exact calc_fields_exact. Qed.
Print Assumptions C04_fields_exact.

(** The same, field by field. *)
Theorem C04_fields_nth : forall t raw i, table_wf t = true ->
  (i < length (t_fields t))%nat ->
  let '(o, sz) := nth i (field_ranges (t_bits t) (t_fields t)) (0, 0) in
  nth i (calc_fields raw (t_bits t) (t_fields t)) (EmptyString, 0, 0, 0) =
  (fst (nth i (t_fields t) (EmptyString, 0)), o, sz, bits o sz raw) /\
  snd (nth i (t_fields t) (EmptyString, 0)) = o.
Proof. exact calc_fields_nth. Qed.
Print Assumptions C04_fields_nth.

(** One non-empty range per field, contiguous from bit 0 to the register size. *)
Theorem C04_fields_partition : forall t, table_wf t = true ->
  let rs := field_ranges (t_bits t) (t_fields t) in
  length rs = length (t_fields t) /\ (forall r, In r rs -> 0 < snd r) /\ contiguous 0 rs (t_bits t).
Proof. exact ranges_partition. Qed.
Print Assumptions C04_fields_partition.

(** Hence every bit of the register belongs to exactly one field (coverage and disjointness). *)
Theorem C04_fields_cover_unique : forall t, table_wf t = true ->
  let rs := field_ranges (t_bits t) (t_fields t) in
  forall j, j < t_bits t ->
  exists! i, (i < length rs)%nat /\
             fst (nth i rs (0, 0)) <= j < fst (nth i rs (0, 0)) + snd (nth i rs (0, 0)).
Proof. exact ranges_cover_unique. Qed.
Print Assumptions C04_fields_cover_unique.

(** [contiguous] alone (with non-empty ranges) already gives coverage and disjointness. *)
Theorem C04_contiguous_cover_unique : forall rs s e, contiguous s rs e ->
  (forall r, In r rs -> 0 < snd r) ->
  forall j, s <= j < e ->
  exists! i, (i < length rs)%nat /\
             fst (nth i rs (0, 0)) <= j < fst (nth i rs (0, 0)) + snd (nth i rs (0, 0)).
Proof. exact contiguous_cover_unique. Qed.
Print Assumptions C04_contiguous_cover_unique.

(** A green table obligation: the table generated from the source is the specified one, and it
    is well formed (so the three theorems above apply to it). *)
Theorem C04_table_obligation_sound : forall gen s,
  snd (fst (oblig_table gen s)) = true ->
  exists g, find_table (t_name s) gen = Some g /\ g = s /\ table_wf g = true.
Proof. exact table_obligation_sound. Qed.
Print Assumptions C04_table_obligation_sound.

(** A green alignment obligation: the accessor's slice is one field of its register's table,
    clipped to the width [W] of the Go type. *)
Theorem C04_aligned_sound : forall tabs n W lo w t,
  aligned tabs (n, W, Sp (SBits lo w)) = true ->
  find_table (reg_of n) tabs = Some t ->
  exists o sz, In (o, sz) (field_ranges (t_bits t) (t_fields t)) /\
               o = lo /\ N.min (o + sz) W = lo + w.
Proof. exact (fun tabs n W lo w t => aligned_sound tabs n W (SBits lo w) lo w t eq_refl). Qed.
Print Assumptions C04_aligned_sound.

Theorem C04_aligned_nonzero_sound : forall tabs n W lo w t,
  aligned tabs (n, W, Sp (SNonZero lo w)) = true ->
  find_table (reg_of n) tabs = Some t ->
  exists o sz, In (o, sz) (field_ranges (t_bits t) (t_fields t)) /\
               o = lo /\ N.min (o + sz) W = lo + w.
Proof. exact (fun tabs n W lo w t => aligned_sound tabs n W (SNonZero lo w) lo w t eq_refl). Qed.
Print Assumptions C04_aligned_nonzero_sound.

Theorem C04_aligned_zero_sound : forall tabs n W lo w t,
  aligned tabs (n, W, Sp (SZero lo w)) = true ->
  find_table (reg_of n) tabs = Some t ->
  exists o sz, In (o, sz) (field_ranges (t_bits t) (t_fields t)) /\
               o = lo /\ N.min (o + sz) W = lo + w.
Proof. exact (fun tabs n W lo w t => aligned_sound tabs n W (SZero lo w) lo w t eq_refl). Qed.
Print Assumptions C04_aligned_zero_sound.

(** * 4. Little-endian readers *)

Theorem C04_read_le : forall img off n v,
  (forall b, In b img -> b < 256) ->
  read_le img off n = Some v ->
  (off + n <= length img)%nat /\ v < 256 ^ N.of_nat n /\
  forall i, (i < n)%nat -> (v / 256 ^ N.of_nat i) mod 256 = nth (off + i) img 0.
Proof. exact read_le_some. Qed.
Print Assumptions C04_read_le.

Theorem C04_read_le_none : forall img off n,
  read_le img off n = None <-> (length img < off + n)%nat.
Proof. exact read_le_none. Qed.
Print Assumptions C04_read_le_none.

(** * 4b. [ReadTXTRegisters] on images of every length, register by register

    The property quantifies over the images "of at least the register's extent" PER REGISTER:
    an image that is too short for some registers still has to yield every register it holds. *)

(** For every table with distinct IDs, every image and every entry whose extent fits: the
    collection contains that register, exactly once, with the little-endian value of the bytes
    of its own extent — whatever the other entries are, wherever they stand in the table, and
    whether they can be read or not. *)
Theorem C04_read_regs_fitting : forall layout img id off n,
  NoDup (ids layout) -> In (id, off, n) layout -> (off + n <= length img)%nat ->
  In (id, le_at img off n) (fst (read_regs layout img)) /\
  forall w, In (id, w) (fst (read_regs layout img)) -> w = le_at img off n.
Proof. exact read_regs_fitting. Qed.
Print Assumptions C04_read_regs_fitting.

(** Nothing else is in the collection: every register returned is an entry of the table whose
    extent lies inside the image, with that value. *)
Theorem C04_read_regs_sound : forall layout img id v,
  In (id, v) (fst (read_regs layout img)) ->
  exists off n, In (id, off, n) layout /\ (off + n <= length img)%nat /\ v = le_at img off n.
Proof. exact read_regs_sound. Qed.
Print Assumptions C04_read_regs_sound.

(** The error lists exactly the registers that do not fit (with io.EOF iff the image ends at or
    before the register's offset). *)
Theorem C04_read_regs_errors : forall layout img id k,
  In (id, k) (snd (read_regs layout img)) <->
  exists off n, In (id, off, n) layout /\ (length img < off + n)%nat /\ k = read_err_of img off.
Proof. exact read_regs_errors. Qed.
Print Assumptions C04_read_regs_errors.

(** Collection and error list are both in table order and partition the table. *)
Theorem C04_read_regs_order : forall layout img,
  map fst (fst (read_regs layout img)) = ids (filter (fits img) layout) /\
  map fst (snd (read_regs layout img)) = ids (filter (fun e => negb (fits img e)) layout) /\
  (length (fst (read_regs layout img)) + length (snd (read_regs layout img)) = length layout)%nat.
Proof. exact (fun layout img => conj (read_regs_ids layout img) (conj (read_regs_err_ids layout img) (read_regs_partition layout img))). Qed.
Print Assumptions C04_read_regs_order.

(** Making an image longer never loses or changes a register that was read. *)
Theorem C04_read_regs_extend : forall layout img ext id v,
  In (id, v) (fst (read_regs layout img)) -> In (id, v) (fst (read_regs layout (img ++ ext))).
Proof. exact read_regs_extend. Qed.
Print Assumptions C04_read_regs_extend.

(** The 16 TXT registers: distinct IDs, pairwise disjoint extents. *)
Theorem C04_txt_layout_wf : NoDup (ids txt_layout) /\ ForallOrdPairs disjoint_entries txt_layout.
Proof. exact (conj txt_ids_nodup txt_extents_disjoint). Qed.
Print Assumptions C04_txt_layout_wf.

(** The clause of the property, for [ReadTXTRegisters]: for every image (bytes < 256) and every
    supported register whose extent lies inside it, the result holds that register once, and its
    value is the little-endian number stored at the register's offset (digit [i] = byte
    [off + i]).  No lower bound on the image length other than the register's own extent. *)
Theorem C04_read_txt_register : forall img id off n,
  (forall b, In b img -> b < 256) ->
  In (id, off, n) txt_layout -> (off + n <= length img)%nat ->
  exists v, In (id, v) (fst (read_txt img)) /\
            (forall w, In (id, w) (fst (read_txt img)) -> w = v) /\
            v < 256 ^ N.of_nat n /\
            forall i, (i < n)%nat -> (v / 256 ^ N.of_nat i) mod 256 = nth (off + i) img 0.
Proof. exact read_txt_register. Qed.
Print Assumptions C04_read_txt_register.

Theorem C04_read_txt_errors : forall img id k,
  In (id, k) (snd (read_txt img)) <->
  exists off n, In (id, off, n) txt_layout /\ (length img < off + n)%nat /\ k = read_err_of img off.
Proof. exact read_txt_errors. Qed.
Print Assumptions C04_read_txt_errors.

(** The error is nil exactly for images that hold the whole register area (0x420 = 1056 bytes);
    then all 16 registers are returned, in table order. *)
Theorem C04_read_txt_error_nil : forall img, snd (read_txt img) = [] <-> (1056 <= length img)%nat.
Proof. exact read_txt_error_nil. Qed.
Print Assumptions C04_read_txt_error_nil.

Theorem C04_read_txt_complete : forall img, (1056 <= length img)%nat ->
  snd (read_txt img) = [] /\ map fst (fst (read_txt img)) = ids txt_layout.
Proof. exact read_txt_complete. Qed.
Print Assumptions C04_read_txt_complete.

(** The correspondence cases evaluate the model on a sparse description of the image
    ([read_regs_sparse], Model/RegistersCases.v); that IS [read_regs] on the image described. *)
Theorem C04_read_cases_run_the_model : forall layout len bytes,
  CSS.Model.RegistersCases.read_regs_sparse layout len bytes =
  read_regs layout (CSS.Model.RegistersCases.expand (N.to_nat len) bytes).
Proof. exact read_regs_sparse_expand. Qed.
Print Assumptions C04_read_cases_run_the_model.

(** * 5. Results are fresh values: sequences of calls and writes into returned byte slices *)

(** In EVERY state — whatever was decoded before and whatever a consumer wrote into the byte
    slices it was handed — [Fields()] of a register with a well-formed table returns the
    declared fields, each value the 8 little-endian bytes of bits [offset, offset+size) of ITS
    raw value ([fields_spec], cf. [C04_fields_exact]), each in a newly allocated array. *)
Theorem C04_fields_in_any_state : forall tabs s r raw t,
  find_table r tabs = Some t -> table_wf t = true ->
  exists s', step tabs s (OpFields r raw) =
             Some (number_from (length (s_heap s)) (fields_spec raw (t_bits t) (t_fields t)), s').
Proof. exact fields_any_state. Qed.
Print Assumptions C04_fields_in_any_state.

(** A whole session — calls for any registers and values interleaved with any writes into any
    of the slices handed out — is indistinguishable from the session over independent values:
    same fields reported after every call, same final contents.  No write through one result
    is ever visible through another result or in a later result.  ([None]: an operation names
    an unknown register type or a value index that was not handed out; then both fail.) *)
Theorem C04_session_refines_values : forall tabs ops s, wf_state s ->
  match run tabs s ops with
  | Some (obs, s') =>
      vrun tabs (final s) (length (s_heap s)) ops = Some (obs, final s') /\ wf_state s'
  | None => vrun tabs (final s) (length (s_heap s)) ops = None
  end.
Proof. exact session_refines. Qed.
Print Assumptions C04_session_refines_values.

(** From the start of the process: additionally all byte slices handed out during the session
    occupy pairwise distinct arrays. *)
Theorem C04_session_values_distinct : forall tabs ops obs s',
  run tabs empty_state ops = Some (obs, s') ->
  vrun tabs [] 0 ops = Some (obs, final s') /\ NoDup (s_vals s').
Proof. exact session_from_empty. Qed.
Print Assumptions C04_session_values_distinct.

(** The frame properties spelled out. *)
Theorem C04_write_changes_only_its_target : forall tabs s g bytes ob s', wf_state s ->
  step tabs s (OpWrite g bytes) = Some (ob, s') ->
  length (final s') = length (final s) /\
  forall g', g' <> g -> nth g' (final s') [] = nth g' (final s) [].
Proof. exact write_only_target. Qed.
Print Assumptions C04_write_changes_only_its_target.

Theorem C04_fields_call_keeps_earlier_results : forall tabs s r raw ob s', wf_state s ->
  step tabs s (OpFields r raw) = Some (ob, s') ->
  exists new, final s' = final s ++ new /\ length new = length ob.
Proof. exact fields_keep_earlier. Qed.
Print Assumptions C04_fields_call_keeps_earlier_results.

(** [FieldValueToNumber(NumberToFieldValue(v)) = v] for every uint64. *)
Theorem C04_field_value_roundtrip : forall v, v < 2 ^ 64 -> le_value (le_bytes 8 v) = v.
Proof. exact field_value_roundtrip. Qed.
Print Assumptions C04_field_value_roundtrip.

(** A green freshness obligation: the function exists in the source; every slice it returns
    or stores into what it returns is allocated by the call, nil, or the result of another
    function of the checked list; it reads no package-level variable (beyond the stateless
    selectors [ext]). *)
Theorem C04_fresh_obligation_sound : forall ext fns gen n,
  snd (fst (oblig_fresh ext fns gen n)) = true ->
  exists f, find_allocfn n gen = Some f /\
            (forall o, In o (f_results f) ->
               (exists w, o = OFresh w) \/ o = ONil \/ (exists g, o = OCall g /\ smem g fns = true)) /\
            (forall g, In g (f_globals f) -> smem g ext = true).
Proof. exact fresh_obligation_sound. Qed.
Print Assumptions C04_fresh_obligation_sound.

(** * 6. TXT.PUBLIC.KEY — REFUTED clause (open finding C04-TXTPublicKey-bitsize-wraps-to-0)

    "The decoded field table covers the register exactly once" fails for the 256-bit
    TXT.PUBLIC.KEY: [BitSize()] and [Field.BitSize] are uint8 and [uint8(32*8) = 0], so the
    one field that [TXTPublicKey.Fields()] returns has size 0, not 256 (its VALUE is the whole
    key: the value clause and the freshness theorems above do hold for it). *)
Theorem C04_key_field_covers_register_refuted :
  exists tabs s key ob s',
    length key = 32%nat /\ step tabs s (OpKeyFields key) = Some (ob, s') /\
    ~ (exists n bytes a, ob = [(n, 0, 256, bytes, a)]).
Proof. exact key_field_covers_register_refuted. Qed.
Print Assumptions C04_key_field_covers_register_refuted.
