(** C04 — register accessors return the documented bits; field tables partition registers.
    This file holds only the property theorems, each closed by [exact].

    Vocabulary:
    - [expr]/[bexpr]/[value], [eval]/[beval] (Lib/SymBits.v): what tools/go2coq emits for an
      accessor body — Go's typed integer arithmetic with every truncation written out;
    - [bits lo w x] = [(x >> lo) & ones w]: bits [lo, lo+w) of [x];
    - [spec] = [SBits | SNonZero | SZero | SMux | SRaw], [agrees W v s x]: value [v] evaluated on
      raw value [x] equals what [s] prescribes; [check W v s] the reflective decision procedure,
      [witness W v s] the counter-example search;
    - [accessor], [table], [find_accessor], [find_table] (Lib/RegTypes.v); [oblig_accessor],
      [oblig_table], [aligned], [table_wf], [field_ranges] (Lib/RegOblig.v): the computable
      obligations evaluated on the generated model in every run;
    - [calc_fields], [read_le] (Model/Registers.v): models of [CalculateRegisterFields] (uint8
      size arithmetic, running-total shift, wrapping uint64 mask) and of the little-endian readers;
    - [txt_layout] (Model/Registers.v): the 16 supported TXT registers as (ID, offset, size in
      bytes) in the order of the table in txt.go (ordered by name, NOT by offset);
      [read_regs layout img] = model of the [ReadTXTRegisters] loop on an image of ANY length:
      (collection of (ID, value), failures of (ID, [ErrEOF] | [ErrUnexpectedEOF])), every entry
      tried whatever happened to the others; [read_txt] = [read_regs txt_layout];
      [read_err_of img off]: [ErrEOF] when the image ends at or before [off], else
      [ErrUnexpectedEOF];
    - [ids], [fits img e] (extent of entry [e] lies inside [img]), [le_at img off n] (little-
      endian value of the [n] bytes at [off], which depends on no other byte: it is
      [le_value (firstn n (skipn off img))]), [disjoint_entries] (Proofs/RegistersRead.v);
    - [fields_spec raw size l] (Proofs/Registers.v): every declared field [(name, offset)] with
      its range [(offset, sz)] from [field_ranges] and the value [bits offset sz raw];
    - [contiguous start rs stop] (Proofs/Registers.v): the first range of [rs] starts at [start],
      each next one starts where the previous ended, the last one ends at [stop];
    - slice level (Model/RegisterHeap.v): [heap] = one byte array per allocation, address =
      position; [op] = [OpFields reg raw] (a [Fields()] call) | [OpKeyFields key]
      ([TXTPublicKey.Fields()]) | [OpWrite g bytes] (a consumer overwrites the [g]-th byte slice
      that was ever handed out); [state] = heap + addresses of the values handed out so far;
      [step]/[run]: heap semantics, an operation reports the new fields as they read right
      after the call ([ofield] = name, offset, size, bytes of [Value], address); [final s]: how
      every handed-out value reads in [s]; [vstep]/[vrun]: the same session over independent
      values (no memory); [number_from base fs]: the fields [fs] with the little-endian 8-byte
      encoding [le_bytes 8] of their values, numbered from [base]; [wf_state] (Proofs/
      RegisterHeap.v): the handed-out addresses are pairwise distinct and inside the heap;
    - [origin], [allocfn], [oblig_fresh] (Lib/RegFresh.v): the summary tools/go2coq extracts for
      the functions that build these results and the obligation evaluated on it in every run;
    - the logic around the accessors (Model/RegistersDec.v): [calc_go raw size tab] = the exported
      [CalculateRegisterFields] on ANY table ([None] = it panics; else the fields and whether the
      result is nil), [offsets_sorted]; [fields_spec_from raw size base tab] (Proofs/
      RegistersDec.v): field [i] = (name, offset, next offset - offset, that many bits of [raw]
      from bit [offset - base] on);
      [read_seq layout img] = a chain of little-endian reads that stops at the first read that
      does not fit (values read so far, the failing slot with its [read_err]); [parse_layout] =
      the 21 reads of [tools.ParseTXTRegs] in source order, [parse_txt] = [read_seq parse_layout];
      [all_tools_slots] = these and the reads of [ReadACMStatus], [ReadACMPolicyStatusRaw],
      [ReadBootStatusRaw]; [fitting_prefix], [first_unfit];
      [decoder_pairs], [raw_pairs], [key_slots]: which fields of the two TXT decoders are the
      same field; [oblig_pair], [oblig_raw_pair]: the obligations evaluated on the generated
      accessors in every run; [slot_inside slot id k]: the slot of pkg/tools occupies bytes
      [k ..] of the register [id] of pkg/registers;
      [msr_layout] = the 8 supported MSRs (ID, MSR number) in table order, [read_msrs rd] = model
      of [ReadMSRRegisters] with a reader [rd : MSR number -> option value] (collection, IDs that
      failed); [find_reg id regs] = [Registers.Find]. *)
From Coq Require Import NArith String List.
From CSS Require Import Lib.SymBits Lib.RegTypes Lib.RegOblig Lib.RegFresh Model.Registers Model.RegisterHeap Model.RegistersDec.
From CSS Require Import Proofs.SymBits Proofs.Registers Proofs.RegisterHeap Proofs.RegistersRead Proofs.RegistersDec Proofs.RegistersAgree Proofs.RegistersMsr.
Import ListNotations.
Open Scope N_scope.

(** * 1. The decision procedure is sound: [check = true] is a statement about ALL raw values *)

Theorem C04_check_sound : forall W v s,
  check W v s = true -> forall x, x < 2 ^ W -> agrees W v s x = true.
Proof. exact check_sound. Qed.
Print Assumptions C04_check_sound.

Theorem C04_bits : forall W e lo w,
  check W (VNum e) (SBits lo w) = true ->
  forall x, x < 2 ^ W -> eval e x = bits lo w x.
Proof. exact check_bits_sound. Qed.
Print Assumptions C04_bits.

Theorem C04_nonzero : forall W b lo w,
  check W (VBool b) (SNonZero lo w) = true ->
  forall x, x < 2 ^ W -> beval b x = negb (N.eqb (bits lo w x) 0).
Proof. exact check_nonzero_sound. Qed.
Print Assumptions C04_nonzero.

Theorem C04_zero : forall W b lo w,
  check W (VBool b) (SZero lo w) = true ->
  forall x, x < 2 ^ W -> beval b x = N.eqb (bits lo w x) 0.
Proof. exact check_zero_sound. Qed.
Print Assumptions C04_zero.

Theorem C04_mux : forall W e bit vs vc,
  check W (VNum e) (SMux bit vs vc) = true ->
  forall x, x < 2 ^ W -> eval e x = if N.testbit x bit then vs else vc.
Proof. exact check_mux_sound. Qed.
Print Assumptions C04_mux.

Theorem C04_raw : forall W e,
  check W (VNum e) SRaw = true ->
  forall x, x < 2 ^ W -> eval e x = x.
Proof. exact check_raw_sound. Qed.
Print Assumptions C04_raw.

Theorem C04_witness_sound : forall W v s x,
  witness W v s = Some x -> agrees W v s x = false.
Proof. exact witness_sound. Qed.
Print Assumptions C04_witness_sound.

(** * 2. A green accessor obligation: the accessor as translated from the source exists, has the
      specified width and returns the specified bits for every raw value of that width *)

Theorem C04_accessor_obligation_sound : forall gen n W s,
  snd (fst (oblig_accessor gen (n, W, Sp s))) = true ->
  exists a, find_accessor n gen = Some a /\ a_width a = W /\
            forall raw, raw < 2 ^ W -> agrees W (a_val a) s raw = true.
Proof. exact accessor_obligation_sound. Qed.
Print Assumptions C04_accessor_obligation_sound.

(** ... and a red one that carries a counter-example reports a genuine disagreement. *)
Theorem C04_accessor_obligation_witness : forall gen n W s x e g,
  oblig_accessor gen (n, W, Sp s) = (n, false, Some (x, e, g)) ->
  exists a, find_accessor n gen = Some a /\ agrees W (a_val a) s x = false /\
            e = expected_at W s x /\ g = got_at (a_val a) x.
Proof. exact accessor_obligation_witness. Qed.
Print Assumptions C04_accessor_obligation_witness.

(** * 3. Field tables *)

(** Despite the uint8 wrap-around arithmetic, the running-total shift and the mask
    [(1 << size) - 1] computed in uint64 (all ones for size 64), each decoded field is exactly
    (name, declared offset, size of its range, bit slice [offset, offset+size) of the raw value).
    Holds for every [raw : N]; the hypothesis [raw < 2^64] is not needed. *)
Theorem C04_fields_exact : forall t raw, table_wf t = true ->
  calc_fields raw (t_bits t) (t_fields t) = fields_spec raw (t_bits t) (t_fields t).
Proof. exact calc_fields_exact. Qed.
Print Assumptions C04_fields_exact.

(** The same, field by field. *)
Theorem C04_fields_nth : forall t raw i, table_wf t = true ->
  (i < length (t_fields t))%nat ->
  let '(o, sz) := nth i (field_ranges (t_bits t) (t_fields t)) (0, 0) in
  nth i (calc_fields raw (t_bits t) (t_fields t)) (EmptyString, 0, 0, 0) =
  (fst (nth i (t_fields t) (EmptyString, 0)), o, sz, bits o sz raw) /\
  snd (nth i (t_fields t) (EmptyString, 0)) = o.
Proof. exact calc_fields_nth. Qed.
Print Assumptions C04_fields_nth.

(** One non-empty range per field, contiguous from bit 0 to the register size. *)
Theorem C04_fields_partition : forall t, table_wf t = true ->
  let rs := field_ranges (t_bits t) (t_fields t) in
  length rs = length (t_fields t) /\ (forall r, In r rs -> 0 < snd r) /\ contiguous 0 rs (t_bits t).
Proof. exact ranges_partition. Qed.
Print Assumptions C04_fields_partition.

(** Hence every bit of the register belongs to exactly one field (coverage and disjointness). *)
Theorem C04_fields_cover_unique : forall t, table_wf t = true ->
  let rs := field_ranges (t_bits t) (t_fields t) in
  forall j, j < t_bits t ->
  exists! i, (i < length rs)%nat /\
             fst (nth i rs (0, 0)) <= j < fst (nth i rs (0, 0)) + snd (nth i rs (0, 0)).
Proof. exact ranges_cover_unique. Qed.
Print Assumptions C04_fields_cover_unique.

(** [contiguous] alone (with non-empty ranges) already gives coverage and disjointness. *)
Theorem C04_contiguous_cover_unique : forall rs s e, contiguous s rs e ->
  (forall r, In r rs -> 0 < snd r) ->
  forall j, s <= j < e ->
  exists! i, (i < length rs)%nat /\
             fst (nth i rs (0, 0)) <= j < fst (nth i rs (0, 0)) + snd (nth i rs (0, 0)).
Proof. exact contiguous_cover_unique. Qed.
Print Assumptions C04_contiguous_cover_unique.

(** A green table obligation: the table generated from the source is the specified one, and it
    is well formed (so the three theorems above apply to it). *)
Theorem C04_table_obligation_sound : forall gen s,
  snd (fst (oblig_table gen s)) = true ->
  exists g, find_table (t_name s) gen = Some g /\ g = s /\ table_wf g = true.
Proof. exact table_obligation_sound. Qed.
Print Assumptions C04_table_obligation_sound.

(** A green alignment obligation: the accessor's slice is one field of its register's table,
    clipped to the width [W] of the Go type. *)
Theorem C04_aligned_sound : forall tabs n W lo w t,
  aligned tabs (n, W, Sp (SBits lo w)) = true ->
  find_table (reg_of n) tabs = Some t ->
  exists o sz, In (o, sz) (field_ranges (t_bits t) (t_fields t)) /\
               o = lo /\ N.min (o + sz) W = lo + w.
Proof. exact (fun tabs n W lo w t => aligned_sound tabs n W (SBits lo w) lo w t eq_refl). Qed.
Print Assumptions C04_aligned_sound.

Theorem C04_aligned_nonzero_sound : forall tabs n W lo w t,
  aligned tabs (n, W, Sp (SNonZero lo w)) = true ->
  find_table (reg_of n) tabs = Some t ->
  exists o sz, In (o, sz) (field_ranges (t_bits t) (t_fields t)) /\
               o = lo /\ N.min (o + sz) W = lo + w.
Proof. exact (fun tabs n W lo w t => aligned_sound tabs n W (SNonZero lo w) lo w t eq_refl). Qed.
Print Assumptions C04_aligned_nonzero_sound.

Theorem C04_aligned_zero_sound : forall tabs n W lo w t,
  aligned tabs (n, W, Sp (SZero lo w)) = true ->
  find_table (reg_of n) tabs = Some t ->
  exists o sz, In (o, sz) (field_ranges (t_bits t) (t_fields t)) /\
               o = lo /\ N.min (o + sz) W = lo + w.
Proof. exact (fun tabs n W lo w t => aligned_sound tabs n W (SZero lo w) lo w t eq_refl). Qed.
Print Assumptions C04_aligned_zero_sound.

(** * 4. Little-endian readers *)

Theorem C04_read_le : forall img off n v,
  (forall b, In b img -> b < 256) ->
  read_le img off n = Some v ->
  (off + n <= length img)%nat /\ v < 256 ^ N.of_nat n /\
  forall i, (i < n)%nat -> (v / 256 ^ N.of_nat i) mod 256 = nth (off + i) img 0.
Proof. exact read_le_some. Qed.
Print Assumptions C04_read_le.

Theorem C04_read_le_none : forall img off n,
  read_le img off n = None <-> (length img < off + n)%nat.
Proof. exact read_le_none. Qed.
Print Assumptions C04_read_le_none.

(** * 4b. [ReadTXTRegisters] on images of every length, register by register

    The property quantifies over the images "of at least the register's extent" PER REGISTER:
    an image that is too short for some registers still has to yield every register it holds. *)

(** For every table with distinct IDs, every image and every entry whose extent fits: the
    collection contains that register, exactly once, with the little-endian value of the bytes
    of its own extent — whatever the other entries are, wherever they stand in the table, and
    whether they can be read or not. *)
Theorem C04_read_regs_fitting : forall layout img id off n,
  NoDup (ids layout) -> In (id, off, n) layout -> (off + n <= length img)%nat ->
  In (id, le_at img off n) (fst (read_regs layout img)) /\
  forall w, In (id, w) (fst (read_regs layout img)) -> w = le_at img off n.
Proof. exact read_regs_fitting. Qed.
Print Assumptions C04_read_regs_fitting.

(** Nothing else is in the collection: every register returned is an entry of the table whose
    extent lies inside the image, with that value. *)
Theorem C04_read_regs_sound : forall layout img id v,
  In (id, v) (fst (read_regs layout img)) ->
  exists off n, In (id, off, n) layout /\ (off + n <= length img)%nat /\ v = le_at img off n.
Proof. exact read_regs_sound. Qed.
Print Assumptions C04_read_regs_sound.

(** The error lists exactly the registers that do not fit (with io.EOF iff the image ends at or
    before the register's offset). *)
Theorem C04_read_regs_errors : forall layout img id k,
  In (id, k) (snd (read_regs layout img)) <->
  exists off n, In (id, off, n) layout /\ (length img < off + n)%nat /\ k = read_err_of img off.
Proof. exact read_regs_errors. Qed.
Print Assumptions C04_read_regs_errors.

(** Collection and error list are both in table order and partition the table. *)
Theorem C04_read_regs_order : forall layout img,
  map fst (fst (read_regs layout img)) = ids (filter (fits img) layout) /\
  map fst (snd (read_regs layout img)) = ids (filter (fun e => negb (fits img e)) layout) /\
  (length (fst (read_regs layout img)) + length (snd (read_regs layout img)) = length layout)%nat.
Proof. exact (fun layout img => conj (read_regs_ids layout img) (conj (read_regs_err_ids layout img) (read_regs_partition layout img))). Qed.
Print Assumptions C04_read_regs_order.

(** Making an image longer never loses or changes a register that was read. *)
Theorem C04_read_regs_extend : forall layout img ext id v,
  In (id, v) (fst (read_regs layout img)) -> In (id, v) (fst (read_regs layout (img ++ ext))).
Proof. exact read_regs_extend. Qed.
Print Assumptions C04_read_regs_extend.

(** The 16 TXT registers: distinct IDs, pairwise disjoint extents. *)
Theorem C04_txt_layout_wf : NoDup (ids txt_layout) /\ ForallOrdPairs disjoint_entries txt_layout.
Proof. exact (conj txt_ids_nodup txt_extents_disjoint). Qed.
Print Assumptions C04_txt_layout_wf.

(** The clause of the property, for [ReadTXTRegisters]: for every image (bytes < 256) and every
    supported register whose extent lies inside it, the result holds that register once, and its
    value is the little-endian number stored at the register's offset (digit [i] = byte
    [off + i]).  No lower bound on the image length other than the register's own extent. *)
Theorem C04_read_txt_register : forall img id off n,
  (forall b, In b img -> b < 256) ->
  In (id, off, n) txt_layout -> (off + n <= length img)%nat ->
  exists v, In (id, v) (fst (read_txt img)) /\
            (forall w, In (id, w) (fst (read_txt img)) -> w = v) /\
            v < 256 ^ N.of_nat n /\
            forall i, (i < n)%nat -> (v / 256 ^ N.of_nat i) mod 256 = nth (off + i) img 0.
Proof. exact read_txt_register. Qed.
Print Assumptions C04_read_txt_register.

Theorem C04_read_txt_errors : forall img id k,
  In (id, k) (snd (read_txt img)) <->
  exists off n, In (id, off, n) txt_layout /\ (length img < off + n)%nat /\ k = read_err_of img off.
Proof. exact read_txt_errors. Qed.
Print Assumptions C04_read_txt_errors.

(** The error is nil exactly for images that hold the whole register area (0x420 = 1056 bytes);
    then all 16 registers are returned, in table order. *)
Theorem C04_read_txt_error_nil : forall img, snd (read_txt img) = [] <-> (1056 <= length img)%nat.
Proof. exact read_txt_error_nil. Qed.
Print Assumptions C04_read_txt_error_nil.

Theorem C04_read_txt_complete : forall img, (1056 <= length img)%nat ->
  snd (read_txt img) = [] /\ map fst (fst (read_txt img)) = ids txt_layout.
Proof. exact read_txt_complete. Qed.
Print Assumptions C04_read_txt_complete.

(** The correspondence cases evaluate the model on a sparse description of the image
    ([read_regs_sparse], Model/RegistersCases.v); that IS [read_regs] on the image described. *)
Theorem C04_read_cases_run_the_model : forall layout len bytes,
  CSS.Model.RegistersCases.read_regs_sparse layout len bytes =
  read_regs layout (CSS.Model.RegistersCases.expand (N.to_nat len) bytes).
Proof. exact read_regs_sparse_expand. Qed.
Print Assumptions C04_read_cases_run_the_model.

(** * 5. Results are fresh values: sequences of calls and writes into returned byte slices *)

(** In EVERY state — whatever was decoded before and whatever a consumer wrote into the byte
    slices it was handed — [Fields()] of a register with a well-formed table returns the
    declared fields, each value the 8 little-endian bytes of bits [offset, offset+size) of ITS
    raw value ([fields_spec], cf. [C04_fields_exact]), each in a newly allocated array. *)
Theorem C04_fields_in_any_state : forall tabs s r raw t,
  find_table r tabs = Some t -> table_wf t = true ->
  exists s', step tabs s (OpFields r raw) =
             Some (number_from (length (s_heap s)) (fields_spec raw (t_bits t) (t_fields t)), s').
Proof. exact fields_any_state. Qed.
Print Assumptions C04_fields_in_any_state.

(** A whole session — calls for any registers and values interleaved with any writes into any
    of the slices handed out — is indistinguishable from the session over independent values:
    same fields reported after every call, same final contents.  No write through one result
    is ever visible through another result or in a later result.  ([None]: an operation names
    an unknown register type or a value index that was not handed out; then both fail.) *)
Theorem C04_session_refines_values : forall tabs ops s, wf_state s ->
  match run tabs s ops with
  | Some (obs, s') =>
      vrun tabs (final s) (length (s_heap s)) ops = Some (obs, final s') /\ wf_state s'
  | None => vrun tabs (final s) (length (s_heap s)) ops = None
  end.
Proof. exact session_refines. Qed.
Print Assumptions C04_session_refines_values.

(** From the start of the process: additionally all byte slices handed out during the session
    occupy pairwise distinct arrays. *)
Theorem C04_session_values_distinct : forall tabs ops obs s',
  run tabs empty_state ops = Some (obs, s') ->
  vrun tabs [] 0 ops = Some (obs, final s') /\ NoDup (s_vals s').
Proof. exact session_from_empty. Qed.
Print Assumptions C04_session_values_distinct.

(** The frame properties spelled out. *)
Theorem C04_write_changes_only_its_target : forall tabs s g bytes ob s', wf_state s ->
  step tabs s (OpWrite g bytes) = Some (ob, s') ->
  length (final s') = length (final s) /\
  forall g', g' <> g -> nth g' (final s') [] = nth g' (final s) [].
Proof. exact write_only_target. Qed.
Print Assumptions C04_write_changes_only_its_target.

Theorem C04_fields_call_keeps_earlier_results : forall tabs s r raw ob s', wf_state s ->
  step tabs s (OpFields r raw) = Some (ob, s') ->
  exists new, final s' = final s ++ new /\ length new = length ob.
Proof. exact fields_keep_earlier. Qed.
Print Assumptions C04_fields_call_keeps_earlier_results.

(** [FieldValueToNumber(NumberToFieldValue(v)) = v] for every uint64. *)
Theorem C04_field_value_roundtrip : forall v, v < 2 ^ 64 -> le_value (le_bytes 8 v) = v.
Proof. exact field_value_roundtrip. Qed.
Print Assumptions C04_field_value_roundtrip.

(** A green freshness obligation: the function exists in the source; every slice it returns
    or stores into what it returns is allocated by the call, nil, or the result of another
    function of the checked list; it reads no package-level variable (beyond the stateless
    selectors [ext]). *)
Theorem C04_fresh_obligation_sound : forall ext fns gen n,
  snd (fst (oblig_fresh ext fns gen n)) = true ->
  exists f, find_allocfn n gen = Some f /\
            (forall o, In o (f_results f) ->
               (exists w, o = OFresh w) \/ o = ONil \/ (exists g, o = OCall g /\ smem g fns = true)) /\
            (forall g, In g (f_globals f) -> smem g ext = true).
Proof. exact fresh_obligation_sound. Qed.
Print Assumptions C04_fresh_obligation_sound.

(** * 6. TXT.PUBLIC.KEY — REFUTED clause (open finding C04-TXTPublicKey-bitsize-wraps-to-0)

    "The decoded field table covers the register exactly once" fails for the 256-bit
    TXT.PUBLIC.KEY: [BitSize()] and [Field.BitSize] are uint8 and [uint8(32*8) = 0], so the
    one field that [TXTPublicKey.Fields()] returns has size 0, not 256 (its VALUE is the whole
    key: the value clause and the freshness theorems above do hold for it). *)
Theorem C04_key_field_covers_register_refuted :
  exists tabs s key ob s',
    length key = 32%nat /\ step tabs s (OpKeyFields key) = Some (ob, s') /\
    ~ (exists n bytes a, ob = [(n, 0, 256, bytes, a)]).
Proof. exact key_field_covers_register_refuted. Qed.
Print Assumptions C04_key_field_covers_register_refuted.

(** * 7. [CalculateRegisterFields] as the exported function it is: ANY table *)

(** The call panics iff some offset is smaller than the one before it — nothing else makes it
    panic: not an empty table, not a register size of 0 or above 64, not an offset above the
    size (the uint8 subtraction wraps instead). *)
Theorem C04_calc_panics_iff : forall raw size tab,
  calc_go raw size tab = None <-> offsets_sorted 0 tab = false.
Proof. exact calc_go_panics_iff. Qed.
Print Assumptions C04_calc_panics_iff.

(** On a sorted table it returns what [calc_fields] (sections 3, 5) computes; nil exactly for
    the empty table. *)
Theorem C04_calc_sorted : forall raw size tab, offsets_sorted 0 tab = true ->
  calc_go raw size tab = Some (calc_fields raw size tab, match tab with [] => true | _ => false end).
Proof. exact calc_go_sorted. Qed.
Print Assumptions C04_calc_sorted.

(** Register tables: no panic, not nil, the partition into bit slices of [C04_fields_exact]. *)
Theorem C04_calc_register_table : forall t raw, table_wf t = true ->
  calc_go raw (t_bits t) (t_fields t) = Some (fields_spec raw (t_bits t) (t_fields t), false).
Proof. exact calc_go_register_table. Qed.
Print Assumptions C04_calc_register_table.

(** Every sorted table that stays inside the register (repeated offsets, first offset above 0,
    sizes up to 255), every uint64: sizes are the differences of consecutive offsets and the
    values are counted from the FIRST declared offset. *)
Theorem C04_calc_sorted_exact : forall raw size n o t,
  raw < 2 ^ 64 -> size < 256 -> offsets_sorted o t = true ->
  forallb (fun f : string * N => snd f <=? size) ((n, o) :: t) = true ->
  calc_go raw size ((n, o) :: t) = Some (fields_spec_from raw size o ((n, o) :: t), false).
Proof. exact calc_sorted_exact. Qed.
Print Assumptions C04_calc_sorted_exact.

Example C04_calc_sorted_exact_applies :
  calc_go 0xF0F0 200 [("a"%string, 4); ("b"%string, 8); ("c"%string, 8); ("d"%string, 100)] =
  Some ([("a"%string, 4, 4, 0); ("b"%string, 8, 0, 0); ("c"%string, 8, 92, 0xF0F); ("d"%string, 100, 100, 0)], false).
Proof. exact calc_sorted_exact_applies. Qed.

(** * 8. The second TXT decoder (pkg/tools) and its agreement with pkg/registers *)

(** A chain of reads hands back the values of the longest prefix that fits, each the little-
    endian value of its own bytes ... *)
Theorem C04_tools_chain_values : forall layout img,
  fst (read_seq layout img) =
  map (fun e => (e_id e, le_at img (e_off e) (e_len e))) (fitting_prefix img layout).
Proof. exact read_seq_fst. Qed.
Print Assumptions C04_tools_chain_values.

(** ... and fails at the FIRST read that does not fit, with [io.EOF] when the image ends at or
    before that read's offset and [io.ErrUnexpectedEOF] inside it. *)
Theorem C04_tools_chain_stops_at_first : forall layout img s k, snd (read_seq layout img) = Some (s, k) ->
  exists off n pre post, layout = pre ++ (s, off, n) :: post /\
    (length img < off + n)%nat /\ k = read_err_of img off /\
    map fst (fst (read_seq layout img)) = ids pre /\ forall e, In e pre -> fits img e = true.
Proof. exact read_seq_stops_at_first. Qed.
Print Assumptions C04_tools_chain_stops_at_first.

Theorem C04_tools_chain_ok : forall layout img,
  (snd (read_seq layout img) = None <-> forall e, In e layout -> fits img e = true) /\
  (snd (read_seq layout img) = None -> map fst (fst (read_seq layout img)) = ids layout).
Proof. exact (fun layout img => conj (read_seq_ok_iff layout img) (read_seq_ok_all layout img)). Qed.
Print Assumptions C04_tools_chain_ok.

(** [ParseTXTRegs] reports success exactly from 0x8f8 = 2296 bytes on. *)
Theorem C04_parse_txt_ok_iff : forall img, snd (parse_txt img) = None <-> (2296 <= length img)%nat.
Proof. exact parse_txt_ok_iff. Qed.
Print Assumptions C04_parse_txt_ok_iff.

(** "The two decoders agree on every field they both report", byte level: whenever a decoder
    of pkg/tools (any chain [L] of its slots) reports a slot and [ReadTXTRegisters] returns the
    register the slot lies in, on ANY image, the slot is bytes [k .. k+sn) of the register. *)
Theorem C04_slot_in_register : forall slot id k, slot_inside slot id k = true ->
  exists soff sn, find_entry slot all_tools_slots = Some (soff, sn) /\
  forall L img v w, incl L all_tools_slots -> (forall b, In b img -> b < 256) ->
    In (slot, v) (fst (read_seq L img)) -> In (id, w) (fst (read_txt img)) ->
    v = (w / 256 ^ N.of_nat k) mod 256 ^ N.of_nat sn.
Proof. exact slot_in_register. Qed.
Print Assumptions C04_slot_in_register.

(** The hypothesis holds for the 15 raw slots and the four quarters of the key. *)
Theorem C04_slots_inside :
  forallb (fun p : string * string * nat * string => let '(s, id, k, _) := p in slot_inside s id k) raw_pairs = true /\
  forallb (fun p : string * nat => slot_inside (fst p) "TXT.PUBLIC.KEY" (snd p)) key_slots = true.
Proof. exact (conj raw_slots_inside key_slots_inside). Qed.
Print Assumptions C04_slots_inside.

Theorem C04_key_quarters_agree : forall slot k, In (slot, k) key_slots ->
  forall L img v w, incl L all_tools_slots -> (forall b, In b img -> b < 256) ->
    In (slot, v) (fst (read_seq L img)) -> In ("TXT.PUBLIC.KEY"%string, w) (fst (read_txt img)) ->
    v = (w / 256 ^ N.of_nat k) mod 256 ^ 8.
Proof. exact key_quarters_agree. Qed.
Print Assumptions C04_key_quarters_agree.

(** Field level.  A green pair obligation (one per entry of [decoder_pairs], evaluated on the
    accessors translated from the source in every run): both accessors exist, and on EVERY image
    on which the tools decoder reports the slot and [ReadTXTRegisters] returns the register the
    two decoded fields are equal — also where the two decoders read different widths
    (ACM_STATUS: eight bytes in pkg/tools, four in pkg/registers). *)
Theorem C04_decoder_pair_sound : forall specs accs ta ra slot id,
  snd (fst (oblig_pair specs accs (ta, ra, slot, id))) = true ->
  exists at_ ar, find_accessor ta accs = Some at_ /\ find_accessor ra accs = Some ar /\
  forall L img v w, incl L all_tools_slots -> (forall b, In b img -> b < 256) ->
    In (slot, v) (fst (read_seq L img)) -> In (id, w) (fst (read_txt img)) ->
    got_at (a_val at_) v = got_at (a_val ar) w.
Proof. exact pair_obligation_sound. Qed.
Print Assumptions C04_decoder_pair_sound.

(** A green raw-pair obligation (one per entry of [raw_pairs]): what pkg/tools reports raw is
    what the accessor of pkg/registers returns for the register. *)
Theorem C04_decoder_raw_pair_sound : forall specs accs slot id k ra,
  snd (fst (oblig_raw_pair specs accs (slot, id, k, ra))) = true ->
  exists ar, find_accessor ra accs = Some ar /\
  forall L img v w, incl L all_tools_slots -> (forall b, In b img -> b < 256) ->
    In (slot, v) (fst (read_seq L img)) -> In (id, w) (fst (read_txt img)) ->
    got_at (a_val ar) w = v.
Proof. exact raw_pair_obligation_sound. Qed.
Print Assumptions C04_decoder_raw_pair_sound.

(** the premises are met: accessors as the translator emits them, an image both decoders read *)
Example C04_decoder_pair_sound_applies :
  pair_ok ex_specs ex_accs ("tools.ParseTXTRegs.TxtReset", "registers.TXTErrorStatus.Reset", "Ests", "TXT.ESTS")%string = true /\
  raw_pair_ok ex_specs ex_accs ("Did", "TXT.DIDVID", 2%nat, "registers.TXTDeviceID.DeviceID")%string = true /\
  In ("Ests"%string, 3) (fst (parse_txt ex_image)) /\ In ("TXT.ESTS"%string, 3) (fst (read_txt ex_image)) /\
  In ("Did"%string, 771) (fst (parse_txt ex_image)) /\ snd (parse_txt ex_image) = None.
Proof. exact pair_sound_applies. Qed.

(** Full images (0x8f8 bytes and more): [ParseTXTRegs] succeeds and reports every slot with the
    value of its own bytes; BOTH decoders report the paired fields, with equal values — no
    premise about what they report is left. *)
Theorem C04_parse_txt_full : forall img, (2296 <= length img)%nat ->
  snd (parse_txt img) = None /\
  fst (parse_txt img) = map (fun e => (e_id e, le_at img (e_off e) (e_len e))) parse_layout.
Proof. exact parse_txt_full. Qed.
Print Assumptions C04_parse_txt_full.

Theorem C04_decoders_agree_full : forall specs accs ta ra slot id soff sn roff rn,
  pair_ok specs accs (ta, ra, slot, id) = true ->
  In (slot, soff, sn) parse_layout -> In (id, roff, rn) txt_layout ->
  exists at_ ar, find_accessor ta accs = Some at_ /\ find_accessor ra accs = Some ar /\
  forall img, (2296 <= length img)%nat -> (forall b, In b img -> b < 256) ->
    exists v w, In (slot, v) (fst (parse_txt img)) /\ In (id, w) (fst (read_txt img)) /\
                got_at (a_val at_) v = got_at (a_val ar) w.
Proof. exact decoders_agree_full. Qed.
Print Assumptions C04_decoders_agree_full.

Theorem C04_decoders_agree_raw_full : forall specs accs slot id k ra soff sn roff rn,
  raw_pair_ok specs accs (slot, id, k, ra) = true ->
  In (slot, soff, sn) parse_layout -> In (id, roff, rn) txt_layout ->
  exists ar, find_accessor ra accs = Some ar /\
  forall img, (2296 <= length img)%nat -> (forall b, In b img -> b < 256) ->
    exists v w, In (slot, v) (fst (parse_txt img)) /\ In (id, w) (fst (read_txt img)) /\
                got_at (a_val ar) w = v.
Proof. exact decoders_agree_raw_full. Qed.
Print Assumptions C04_decoders_agree_raw_full.

Example C04_decoders_agree_full_applies :
  In ("Ests"%string, 8, 1)%nat parse_layout /\ In ("TXT.ESTS"%string, 8, 1)%nat txt_layout /\
  In ("Did"%string, 274, 2)%nat parse_layout /\ In ("TXT.DIDVID"%string, 272, 8)%nat txt_layout.
Proof. exact decoders_agree_full_applies. Qed.

(** every decoder of pkg/tools is such a chain [L] *)
Theorem C04_tools_decoders_are_chains : forall which lay flds,
  tools_decoder which = Some (lay, flds) -> incl lay all_tools_slots.
Proof. exact tools_decoders_incl. Qed.
Print Assumptions C04_tools_decoders_are_chains.

(** the [CTools] cases evaluate [read_seq] on the image the case describes *)
Theorem C04_tools_cases_run_the_model : forall layout len bytes,
  CSS.Model.RegistersCases.read_seq_sparse layout len bytes =
  read_seq layout (CSS.Model.RegistersCases.expand (N.to_nat len) bytes).
Proof. exact read_seq_sparse_expand. Qed.
Print Assumptions C04_tools_cases_run_the_model.

(** * 9. [ReadMSRRegisters] *)

(** The clause for MSRs: every supported MSR whose read succeeds is in the result, once, with
    the value read from ITS MSR number, whatever happens to the other reads; one whose read
    fails is in the error and not in the result. *)
Theorem C04_read_msrs_register : forall rd id a, In (id, a) msr_layout ->
  match rd a with
  | Some v => In (id, v) (fst (read_msrs rd)) /\ (forall w, In (id, w) (fst (read_msrs rd)) -> w = v) /\
              ~ In id (snd (read_msrs rd))
  | None => In id (snd (read_msrs rd)) /\ forall w, ~ In (id, w) (fst (read_msrs rd))
  end.
Proof. exact read_msrs_register. Qed.
Print Assumptions C04_read_msrs_register.

(** For every table: what is in the collection, what is in the error, in which order. *)
Theorem C04_read_msrs_in : forall layout rd id v,
  In (id, v) (fst (read_msrs_from layout rd)) <-> exists a, In (id, a) layout /\ rd a = Some v.
Proof. exact read_msrs_in. Qed.
Print Assumptions C04_read_msrs_in.

Theorem C04_read_msrs_errors : forall layout rd id,
  In id (snd (read_msrs_from layout rd)) <-> exists a, In (id, a) layout /\ rd a = None.
Proof. exact read_msrs_errors. Qed.
Print Assumptions C04_read_msrs_errors.

Theorem C04_read_msrs_order : forall layout rd,
  map fst (fst (read_msrs_from layout rd)) = map fst (filter (fun e => match rd (snd e) with Some _ => true | None => false end) layout) /\
  snd (read_msrs_from layout rd) = map fst (filter (fun e => match rd (snd e) with Some _ => false | None => true end) layout) /\
  (length (fst (read_msrs_from layout rd)) + length (snd (read_msrs_from layout rd)) = length layout)%nat.
Proof. exact read_msrs_order. Qed.
Print Assumptions C04_read_msrs_order.

Theorem C04_read_msrs_error_nil : forall rd,
  snd (read_msrs rd) = [] <-> forall id a, In (id, a) msr_layout -> rd a <> None.
Proof. exact read_msrs_error_nil. Qed.
Print Assumptions C04_read_msrs_error_nil.

(** the 8 supported MSRs: distinct IDs, distinct MSR numbers *)
Theorem C04_msr_layout_wf : NoDup (map fst msr_layout) /\ NoDup (map snd msr_layout).
Proof. exact (conj msr_ids_nodup msr_addrs_nodup). Qed.
Print Assumptions C04_msr_layout_wf.

(** * 10. [Registers.Find] *)

(** the FIRST register with that ID *)
Theorem C04_find_first : forall regs id v,
  find_reg id regs = Some v <->
  exists pre post, regs = pre ++ (id, v) :: post /\ ~ In id (map fst pre).
Proof. exact find_reg_first. Qed.
Print Assumptions C04_find_first.

Theorem C04_find_none : forall regs id, find_reg id regs = None <-> ~ In id (map fst regs).
Proof. exact find_reg_none. Qed.
Print Assumptions C04_find_none.

(** [Find] (hence every [FindTXT...]) on what [ReadTXTRegisters] returned for ANY image: the
    little-endian value at the register's offset when the register lies inside the image, nil
    otherwise. *)
Theorem C04_find_in_read_txt : forall img id off n, In (id, off, n) txt_layout ->
  find_reg id (fst (read_txt img)) =
  if Nat.leb (off + n) (length img) then Some (le_at img off n) else None.
Proof. exact find_in_read_txt. Qed.
Print Assumptions C04_find_in_read_txt.
