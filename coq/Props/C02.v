(** C02 — the simulated TPM follows TPM init/extend semantics for every command
    history.  Only the property theorems, each closed by [exact].

    [H] is an arbitrary hash function with [length (H a x) = hsize a]; states
    are arbitrary unless a hypothesis says otherwise ([wf] is the shape invariant
    of every state reachable from [fresh], theorem [C02_wf_reachable]).
    The buffer-recycling level (Reset / DoNotUse_ResetNoInit re-slice to [:0],
    CommandInit re-slices and zeroes) is [C02_slices_refine]; the hasher-pool
    level (several TPM objects, each with its own history, driven at the same
    time and sharing [hasherPools]) is [C02_pool_*] at the end. *)
From CSS Require Import Lib.Base Model.TPM Proofs.TPM Model.TPMSlices Proofs.TPMSlices Model.TPMPool Proofs.TPMPool.

(** startup succeeds iff the TPM is not started ... *)
Theorem C02_startup_outcome : forall H st l,
  snd (step H st (Startup l)) = if initialized st then Err ERR_ALREADY_INIT else Ok tt.
Proof. exact startup_outcome. Qed.
Print Assumptions C02_startup_outcome.

(** ... hence exactly once: in any history without resets run on a new TPM, a
    startup succeeds iff no startup (successful or not) was issued before it *)
Theorem C02_startup_once : forall H h l,
  no_reset h = true ->
  (snd (step H (run H fresh h) (Startup l)) = Ok tt <-> forall l', ~ In (Startup l') h).
Proof. exact startup_once. Qed.
Print Assumptions C02_startup_once.

(** all localities [l] (any value at all), both banks: PCR0 = 0..0 l, PCR1 = 0..0;
    the other ten bank slots are empty; no other PCR or bank exists *)
Theorem C02_startup_values : forall H st l st',
  step H st (Startup l) = (st', Ok tt) ->
  (forall a, is_supported a = true ->
     get (pcrs st') 0 a = Ok (repeat 0 (hsize a - 1) ++ [l]) /\
     get (pcrs st') 1 a = Ok (repeat 0 (hsize a))) /\
  (forall p a, p = 0 \/ p = 1 -> 0 <= a < 12 -> is_supported a = false -> get (pcrs st') p a = Ok []) /\
  (forall p a, p < 0 \/ 2 <= p \/ a < 0 \/ 12 <= a -> exists e, get (pcrs st') p a = Err e).
Proof. exact startup_values. Qed.
Print Assumptions C02_startup_values.

(** a successful extend replaces the addressed bank by H(old || digest) and
    nothing else: every other (pcr, alg) reads as before *)
Theorem C02_extend_frame : forall H st p a d st',
  step H st (Extend p a d) = (st', Ok tt) ->
  exists old,
    get (pcrs st) p a = Ok old /\
    get (pcrs st') p a = Ok (H a (old ++ d)) /\
    (forall p' a', (p', a') <> (p, a) -> get (pcrs st') p' a' = get (pcrs st) p' a') /\
    algos st' = algos st /\ evlog st' = evlog st.
Proof. exact extend_frame. Qed.
Print Assumptions C02_extend_frame.

(** when an extend is executed and when it is refused (every pcr, every 16-bit alg,
    every digest length) *)
Theorem C02_extend_outcome : forall H st p a d,
  wf st -> 0 <= a < 65536 ->
  if initialized st && (0 <=? p) && (p <? 2) && is_supported a
  then snd (step H st (Extend p a d)) = Ok tt
  else exists e, snd (step H st (Extend p a d)) = Err e.
Proof. exact extend_outcome. Qed.
Print Assumptions C02_extend_outcome.

(** a command that returns an error leaves PCRs, event log and SupportedAlgos
    untouched (it is still logged) *)
Theorem C02_fail_unchanged : forall H st c st' e,
  step H st c = (st', Err e) ->
  pcrs st' = pcrs st /\ evlog st' = evlog st /\ algos st' = algos st /\ cmdlog st' = cmdlog st ++ [c].
Proof. exact fail_unchanged. Qed.
Print Assumptions C02_fail_unchanged.

(** no command panics, in any state, for all 16-bit algorithm IDs, all PCR
    indices, all digests *)
Theorem C02_no_panic : forall H st c,
  cmd_in_range c -> snd (step H st c) <> Panic /\ snd (step H st c) <> OutOfFuel.
Proof. exact no_panic. Qed.
Print Assumptions C02_no_panic.

(** the command log is exact: every command once, in order (failing ones too);
    same for the event log *)
Theorem C02_log_exact : forall H st h,
  no_reset h = true ->
  cmdlog (run H st h) = cmdlog st ++ h /\ evlog (run H st h) = evlog st ++ events_of h.
Proof. exact log_exact. Qed.
Print Assumptions C02_log_exact.

Theorem C02_log_after_reset : forall H st h1 c h2,
  is_reset c = true -> no_reset h2 = true ->
  cmdlog (run H st (h1 ++ c :: h2)) = h2 /\ evlog (run H st (h1 ++ c :: h2)) = events_of h2.
Proof. exact log_after_reset. Qed.
Print Assumptions C02_log_after_reset.

(** Reset gives the state of NewTPM(), whatever happened before *)
Theorem C02_reset_fresh : forall H st h,
  step H st Reset = (fresh, Ok tt) /\
  run H st (Reset :: h) = run H fresh h /\
  results H st (Reset :: h) = Ok tt :: results H fresh h.
Proof. intros H st h. split; [exact (reset_fresh H st)|exact (reset_run H st h)]. Qed.
Print Assumptions C02_reset_fresh.

(** DoNotUse_ResetNoInit + startup: same PCR values, logs and outcomes as a
    startup on a new TPM, under every continuation *)
Theorem C02_reset_noinit_startup : forall H st l h,
  obs_eq (run H st (ResetNoInit :: Startup l :: h)) (run H fresh (Startup l :: h)) /\
  results H st (ResetNoInit :: Startup l :: h) = Ok tt :: results H fresh (Startup l :: h).
Proof. exact reset_noinit_startup. Qed.
Print Assumptions C02_reset_noinit_startup.

(** ... but not the same SupportedAlgos field (emptied, never restored) *)
Theorem C02_reset_noinit_algos_refuted :
  exists H st l, algos (run H st [ResetNoInit; Startup l]) <> algos (run H fresh [Startup l]).
Proof. exact reset_noinit_algos_differ. Qed.
Print Assumptions C02_reset_noinit_algos_refuted.

(** the shape invariant holds in every reachable state *)
Theorem C02_wf_reachable : forall H h,
  (forall a x, length (H a x) = hsize a) -> wf (run H fresh h).
Proof. intros H h HL. apply wf_run; [exact HL|exact wf_fresh]. Qed.
Print Assumptions C02_wf_reachable.

(** Buffer level: the slice model (explicit backing arrays, re-slicing, in-place
    zeroing and hashing) refines the value model step by step on every state
    satisfying the slice invariant, which holds initially and is preserved. *)
Theorem C02_slices_refine : forall H grow,
  (forall a x, length (H a x) = hsize a) ->
  forall s c,
  swf s ->
  swf (fst (sstep H grow s c)) /\
  abs (fst (sstep H grow s c)) = fst (step H (abs s) c) /\
  snd (sstep H grow s c) = snd (step H (abs s) c).
Proof. exact sstep_refines. Qed.
Print Assumptions C02_slices_refine.

(** [grow] is the spare capacity Go's append allocates: any function *)
Theorem C02_slices_run : forall H grow,
  (forall a x, length (H a x) = hsize a) ->
  forall h,
  abs (srun H grow snew h) = run H fresh h /\ sresults H grow snew h = results H fresh h.
Proof. exact srun_refines. Qed.
Print Assumptions C02_slices_run.

(** * Hasher pooling: TPM objects that share the pool (Model/TPMPool.v)

    An extend is cut into six micro-steps (acquire, write old, write digest, sum,
    and the two statements of releaseHasher); a schedule is ANY interleaving of
    the micro-steps of any number of objects, together with what the pool
    hands out each time (a pooled hasher of the right algorithm or a new one).
    [Inv]: the pool holds a hasher at most once and only RESET ones, a hasher in
    use holds exactly what its one owner wrote into it and is not in the pool. *)

(** the invariant holds when nothing is in flight and the pooled hashers are
    reset, and the code as it is (Reset, then Put) keeps it under every schedule;
    in particular every hasher in the pool is always in the reset state *)
Theorem C02_pool_invariant : forall H acts hs sched w',
  Forall (fun a => a_ph a = Idle) acts -> pool_reset hs = true ->
  mrun H true (init_world acts hs) sched = Some w' ->
  Inv w' /\ forall hid, In hid (w_pool w') -> h_buf (w_heap w' hid) = [].
Proof.
  intros H acts hs sched w' Ha Hh Hr.
  destruct (pool_run H _ _ _ (inv_init acts hs Ha Hh) Hr) as [HI _].
  split; [exact HI|]. intros hid Hin. apply (inv_pool _ HI hid Hin).
Qed.
Print Assumptions C02_pool_invariant.

(** independence: under every schedule, whenever object [j] is between two
    commands it has completed a prefix [done] of its own history, and its state
    (PCR banks, logs) and the results it returned are exactly those of the value
    model run on [done] alone -- whatever the other objects did in between *)
Theorem C02_pool_independent : forall H w sched w' j,
  Inv w -> mrun H true w sched = Some w' ->
  a_ph (w_act w j) = Idle -> a_ph (w_act w' j) = Idle ->
  exists done,
    a_todo (w_act w j) = done ++ a_todo (w_act w' j) /\
    a_obj (w_act w' j) = run H (a_obj (w_act w j)) done /\
    a_res (w_act w' j) = a_res (w_act w j) ++ results H (a_obj (w_act w j)) done.
Proof. exact pool_independent. Qed.
Print Assumptions C02_pool_independent.

(** ... so an object that has run its whole history is where it would be alone *)
Theorem C02_pool_independent_done : forall H w sched w' j,
  Inv w -> mrun H true w sched = Some w' ->
  a_ph (w_act w j) = Idle -> a_ph (w_act w' j) = Idle -> a_todo (w_act w' j) = [] ->
  a_obj (w_act w' j) = run H (a_obj (w_act w j)) (a_todo (w_act w j)) /\
  a_res (w_act w' j) = a_res (w_act w j) ++ results H (a_obj (w_act w j)) (a_todo (w_act w j)).
Proof. exact pool_independent_done. Qed.
Print Assumptions C02_pool_independent_done.

(** what the correspondence check replays ([replay], Model/TPMPool.v) is such a schedule *)
Theorem C02_pool_trace_is_schedule : forall H w tr w',
  replay H w tr = Some w' ->
  mrun H true w (map (fun e => (ev_actor e, ev_pick e)) tr) = Some w'.
Proof. exact replay_mrun. Qed.
Print Assumptions C02_pool_trace_is_schedule.

(** The order of the two statements of releaseHasher is what carries the
    invariant.  This is NOT a statement about the code as it is: with Put before
    Reset ([reset_first = false]) there is a schedule of two objects, each
    running [startup; extend], after which the second object holds H(digest)
    instead of H(old || digest) although both extends returned no error; with
    the code as it is the pool refuses that schedule at the early Get. *)
Theorem C02_pool_reset_before_put_needed :
  (exists w',
    mrun Hlen false (init_world two_objects []) late_reset_schedule = Some w' /\
    a_ph (w_act w' 1%nat) = Idle /\ a_todo (w_act w' 1%nat) = [] /\
    a_res (w_act w' 1%nat) = [Ok tt; Ok tt] /\
    get (pcrs (a_obj (w_act w' 1%nat))) 0 4 = Ok (repeat 1 20) /\
    get (pcrs (run Hlen fresh [Startup 0; Extend 0 4 [2]])) 0 4 = Ok (repeat 21 20)) /\
  mrun Hlen true (init_world two_objects []) (firstn 8 late_reset_schedule) = None.
Proof. split; [exact put_first_breaks|exact reset_first_no_early_get]. Qed.
Print Assumptions C02_pool_reset_before_put_needed.

(** * The hypotheses are satisfiable, and the statements are not vacuous *)

Definition H0 : Z -> list Z -> list Z := fun a x => repeat (Z.of_nat (length x)) (hsize a).

Example H0_length : forall a x, length (H0 a x) = hsize a.
Proof. intros. apply repeat_length. Qed.

Definition hist0 : list cmd :=
  [Extend 0 4 [1]; Startup 3; Extend 0 4 [1; 2]; Extend 1 11 []; Extend 2 4 [7]; Extend 0 65535 [];
   Startup 0; LogAdd 0 4 [9] 3 None].

Example hist0_results :
  results H0 fresh hist0 =
  [Err ERR_NO_PCR; Ok tt; Ok tt; Ok tt; Err ERR_NO_PCR; Err ERR_BAD_ALG; Err ERR_ALREADY_INIT; Ok tt].
Proof. vm_compute. reflexivity. Qed.

Example hist0_pcr0_sha1 :
  get (pcrs (run H0 fresh hist0)) 0 4 = Ok (repeat 22 20).
Proof. vm_compute. reflexivity. Qed.

Example hist0_no_reset : no_reset hist0 = true.
Proof. reflexivity. Qed.

Example hist0_wf_started : wf (run H0 fresh hist0) /\ initialized (run H0 fresh hist0) = true.
Proof. split; [apply C02_wf_reachable; exact H0_length|reflexivity]. Qed.

(** a reused object at buffer level: stale digests stay in the backing arrays
    (second component) but are not visible (first component) *)
Example slices_stale_invisible :
  let s := srun H0 (fun _ => 0%nat) snew [Startup 3; Extend 0 4 [1; 2]; ResetNoInit; Startup 7] in
  swf s /\
  get (pcrs (abs s)) 0 4 = Ok (repeat 0 19 ++ [7]) /\
  cmdlog (abs s) = [Startup 7] /\
  bmem (s_cmdlog s) = [Startup 7; Extend 0 4 [1; 2]].
Proof.
  cbv zeta. split; [apply swf_srun; [exact H0_length|exact swf_snew]|vm_compute; auto].
Qed.

(** three objects sharing one hasher pool under a fine-grained schedule: the
    hypotheses of [C02_pool_independent] hold, the schedule is accepted, hashers
    are handed from object to object, and every object is where it would be alone *)
Definition pool_acts0 : list actor :=
  [idle_actor fresh [Startup 3; Extend 0 4 [1; 2]; Extend 0 11 [5]];
   idle_actor fresh [Startup 7; Extend 0 4 [9]; Extend 2 4 [1]];
   idle_actor fresh [Extend 0 4 []; Startup 1]].

Definition pool_sched0 : list (nat * pick) :=
  [(0, PNone); (1, PNone); (2, PPooled 0); (0, PFresh); (0, PNone); (2, PNone); (1, PFresh);
   (2, PNone); (0, PNone); (1, PNone); (2, PNone); (0, PNone); (1, PNone); (0, PNone);
   (1, PNone); (0, PNone); (1, PNone); (1, PNone); (1, PPooled 0); (0, PFresh); (1, PNone);
   (0, PNone); (1, PNone); (0, PNone); (0, PNone); (0, PNone); (0, PNone)]%nat.

Example pool_example :
  Inv (init_world pool_acts0 [mkHs 4 []]) /\
  exists w',
    mrun H0 true (init_world pool_acts0 [mkHs 4 []]) pool_sched0 = Some w' /\
    (forall j, (j < 3)%nat ->
       a_ph (w_act w' j) = Idle /\ a_todo (w_act w' j) = [] /\
       a_obj (w_act w' j) = run H0 fresh (a_todo (w_act (init_world pool_acts0 [mkHs 4 []]) j))) /\
    get (pcrs (a_obj (w_act w' 0%nat))) 0 4 = Ok (repeat 22 20) /\
    w_pool w' = [3; 0; 2; 1]%nat.
Proof.
  split; [apply inv_init; [repeat constructor|reflexivity]|].
  destruct (mrun H0 true (init_world pool_acts0 [mkHs 4 []]) pool_sched0) as [w'|] eqn:E;
    [|vm_compute in E; discriminate].
  exists w'. split; [reflexivity|].
  vm_compute in E. inversion E; subst w'; clear E.
  split; [|split; vm_compute; reflexivity].
  intros j Hj. destruct j as [|[|[|j]]]; [| | |lia]; vm_compute; auto.
Qed.
