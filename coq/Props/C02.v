(** C02 — the simulated TPM follows TPM init/extend semantics for every command
    history.  Only the property theorems, each closed by [exact].

    [H] is an arbitrary hash function with [length (H a x) = hsize a]; states
    are arbitrary unless a hypothesis says otherwise ([wf] is the shape invariant
    of every state reachable from [fresh], theorem [C02_wf_reachable]).
    The buffer-recycling level (Reset / DoNotUse_ResetNoInit re-slice to [:0],
    CommandInit re-slices and zeroes) is [C02_slices_refine]; the hasher-pool
    level (several TPM objects, each with its own history, driven at the same
    time and sharing [hasherPools]) is [C02_pool_*].

    [C02_reference_tpm] / [C02_pcr_value_closed_form] state the first sentence of
    the property as a whole: the model run on any history stays in step with a
    reference TPM written from the property text ([rtpm], Proofs/TPMRef.v: a
    started flag and a partial map of banks), and a bank holds the startup value
    extended by exactly the digests addressed to it.

    The API level ([C02_exec_*], [C02_commands_*], [C02_batch_*], [C02_replay_*],
    [C02_set_value_*]; Model/TPMExec.v) covers what a caller can do beyond the
    three wrappers with a nil info: TPMExecute of any Command -- single or a
    (nested) Commands slice -- with a cause, Apply without the log, the log
    replayed on another object, PCRValues.Set.  [xstate] is the TPM object with
    its command log as entries (command, cause); [proj] forgets the causes and
    reads the log as the list of single commands, which is the state of
    Model/TPM.v; [same_core] is equality of banks, SupportedAlgos and event log. *)
From CSS Require Import Lib.Base Model.TPM Proofs.TPM Model.TPMSlices Proofs.TPMSlices Model.TPMPool Proofs.TPMPool.
From CSS Require Import Proofs.TPMRef Model.TPMExec Proofs.TPMExec.

(** startup succeeds iff the TPM is not started ... *)
Theorem C02_startup_outcome : forall H st l,
  snd (step H st (Startup l)) = if initialized st then Err ERR_ALREADY_INIT else Ok tt.
Proof. exact startup_outcome. Qed.
Print Assumptions C02_startup_outcome.

(** ... hence exactly once: in any history without resets run on a new TPM, a
    startup succeeds iff no startup (successful or not) was issued before it *)
Theorem C02_startup_once : forall H h l,
  no_reset h = true ->
  (snd (step H (run H fresh h) (Startup l)) = Ok tt <-> forall l', ~ In (Startup l') h).
Proof. exact startup_once. Qed.
Print Assumptions C02_startup_once.

(** all localities [l] (any value at all), both banks: PCR0 = 0..0 l, PCR1 = 0..0;
    the other ten bank slots are empty; no other PCR or bank exists *)
Theorem C02_startup_values : forall H st l st',
  step H st (Startup l) = (st', Ok tt) ->
  (forall a, is_supported a = true ->
     get (pcrs st') 0 a = Ok (repeat 0 (hsize a - 1) ++ [l]) /\
     get (pcrs st') 1 a = Ok (repeat 0 (hsize a))) /\
  (forall p a, p = 0 \/ p = 1 -> 0 <= a < 12 -> is_supported a = false -> get (pcrs st') p a = Ok []) /\
  (forall p a, p < 0 \/ 2 <= p \/ a < 0 \/ 12 <= a -> exists e, get (pcrs st') p a = Err e).
Proof. exact startup_values. Qed.
Print Assumptions C02_startup_values.

(** a successful extend replaces the addressed bank by H(old || digest) and
    nothing else: every other (pcr, alg) reads as before *)
Theorem C02_extend_frame : forall H st p a d st',
  step H st (Extend p a d) = (st', Ok tt) ->
  exists old,
    get (pcrs st) p a = Ok old /\
    get (pcrs st') p a = Ok (H a (old ++ d)) /\
    (forall p' a', (p', a') <> (p, a) -> get (pcrs st') p' a' = get (pcrs st) p' a') /\
    algos st' = algos st /\ evlog st' = evlog st.
Proof. exact extend_frame. Qed.
Print Assumptions C02_extend_frame.

(** when an extend is executed and when it is refused (every pcr, every 16-bit alg,
    every digest length) *)
Theorem C02_extend_outcome : forall H st p a d,
  wf st -> 0 <= a < 65536 ->
  if initialized st && (0 <=? p) && (p <? 2) && is_supported a
  then snd (step H st (Extend p a d)) = Ok tt
  else exists e, snd (step H st (Extend p a d)) = Err e.
Proof. exact extend_outcome. Qed.
Print Assumptions C02_extend_outcome.

(** a command that returns an error leaves PCRs, event log and SupportedAlgos
    untouched (it is still logged) *)
Theorem C02_fail_unchanged : forall H st c st' e,
  step H st c = (st', Err e) ->
  pcrs st' = pcrs st /\ evlog st' = evlog st /\ algos st' = algos st /\ cmdlog st' = cmdlog st ++ [c].
Proof. exact fail_unchanged. Qed.
Print Assumptions C02_fail_unchanged.

(** no command panics, in any state, for all 16-bit algorithm IDs, all PCR
    indices, all digests *)
Theorem C02_no_panic : forall H st c,
  cmd_in_range c -> snd (step H st c) <> Panic /\ snd (step H st c) <> OutOfFuel.
Proof. exact no_panic. Qed.
Print Assumptions C02_no_panic.

(** the command log is exact: every command once, in order (failing ones too);
    same for the event log *)
Theorem C02_log_exact : forall H st h,
  no_reset h = true ->
  cmdlog (run H st h) = cmdlog st ++ h /\ evlog (run H st h) = evlog st ++ events_of h.
Proof. exact log_exact. Qed.
Print Assumptions C02_log_exact.

Theorem C02_log_after_reset : forall H st h1 c h2,
  is_reset c = true -> no_reset h2 = true ->
  cmdlog (run H st (h1 ++ c :: h2)) = h2 /\ evlog (run H st (h1 ++ c :: h2)) = events_of h2.
Proof. exact log_after_reset. Qed.
Print Assumptions C02_log_after_reset.

(** Reset gives the state of NewTPM(), whatever happened before *)
Theorem C02_reset_fresh : forall H st h,
  step H st Reset = (fresh, Ok tt) /\
  run H st (Reset :: h) = run H fresh h /\
  results H st (Reset :: h) = Ok tt :: results H fresh h.
Proof. intros H st h. split; [exact (reset_fresh H st)|exact (reset_run H st h)]. Qed.
Print Assumptions C02_reset_fresh.

(** DoNotUse_ResetNoInit + startup: same PCR values, logs and outcomes as a
    startup on a new TPM, under every continuation *)
Theorem C02_reset_noinit_startup : forall H st l h,
  obs_eq (run H st (ResetNoInit :: Startup l :: h)) (run H fresh (Startup l :: h)) /\
  results H st (ResetNoInit :: Startup l :: h) = Ok tt :: results H fresh (Startup l :: h).
Proof. exact reset_noinit_startup. Qed.
Print Assumptions C02_reset_noinit_startup.

(** ... but not the same SupportedAlgos field (emptied, never restored) *)
Theorem C02_reset_noinit_algos_refuted :
  exists H st l, algos (run H st [ResetNoInit; Startup l]) <> algos (run H fresh [Startup l]).
Proof. exact reset_noinit_algos_differ. Qed.
Print Assumptions C02_reset_noinit_algos_refuted.

(** the shape invariant holds in every reachable state *)
Theorem C02_wf_reachable : forall H h,
  (forall a x, length (H a x) = hsize a) -> wf (run H fresh h).
Proof. intros H h HL. apply wf_run; [exact HL|exact wf_fresh]. Qed.
Print Assumptions C02_wf_reachable.

(** Buffer level: the slice model (explicit backing arrays, re-slicing, in-place
    zeroing and hashing) refines the value model step by step on every state
    satisfying the slice invariant, which holds initially and is preserved. *)
Theorem C02_slices_refine : forall H grow,
  (forall a x, length (H a x) = hsize a) ->
  forall s c,
  swf s ->
  swf (fst (sstep H grow s c)) /\
  abs (fst (sstep H grow s c)) = fst (step H (abs s) c) /\
  snd (sstep H grow s c) = snd (step H (abs s) c).
Proof. exact sstep_refines. Qed.
Print Assumptions C02_slices_refine.

(** [grow] is the spare capacity Go's append allocates: any function *)
Theorem C02_slices_run : forall H grow,
  (forall a x, length (H a x) = hsize a) ->
  forall h,
  abs (srun H grow snew h) = run H fresh h /\ sresults H grow snew h = results H fresh h.
Proof. exact srun_refines. Qed.
Print Assumptions C02_slices_run.

(** * Hasher pooling: TPM objects that share the pool (Model/TPMPool.v)

    An extend is cut into six micro-steps (acquire, write old, write digest, sum,
    and the two statements of releaseHasher); a schedule is ANY interleaving of
    the micro-steps of any number of objects, together with what the pool
    hands out each time (a pooled hasher of the right algorithm or a new one).
    [Inv]: the pool holds a hasher at most once and only RESET ones, a hasher in
    use holds exactly what its one owner wrote into it and is not in the pool. *)

(** the invariant holds when nothing is in flight and the pooled hashers are
    reset, and the code as it is (Reset, then Put) keeps it under every schedule;
    in particular every hasher in the pool is always in the reset state *)
Theorem C02_pool_invariant : forall H acts hs sched w',
  Forall (fun a => a_ph a = Idle) acts -> pool_reset hs = true ->
  mrun H true (init_world acts hs) sched = Some w' ->
  Inv w' /\ forall hid, In hid (w_pool w') -> h_buf (w_heap w' hid) = [].
Proof.
  intros H acts hs sched w' Ha Hh Hr.
  destruct (pool_run H _ _ _ (inv_init acts hs Ha Hh) Hr) as [HI _].
  split; [exact HI|]. intros hid Hin. apply (inv_pool _ HI hid Hin).
Qed.
Print Assumptions C02_pool_invariant.

(** independence: under every schedule, whenever object [j] is between two
    commands it has completed a prefix [done] of its own history, and its state
    (PCR banks, logs) and the results it returned are exactly those of the value
    model run on [done] alone -- whatever the other objects did in between *)
Theorem C02_pool_independent : forall H w sched w' j,
  Inv w -> mrun H true w sched = Some w' ->
  a_ph (w_act w j) = Idle -> a_ph (w_act w' j) = Idle ->
  exists done,
    a_todo (w_act w j) = done ++ a_todo (w_act w' j) /\
    a_obj (w_act w' j) = run H (a_obj (w_act w j)) done /\
    a_res (w_act w' j) = a_res (w_act w j) ++ results H (a_obj (w_act w j)) done.
Proof. exact pool_independent. Qed.
Print Assumptions C02_pool_independent.

(** ... so an object that has run its whole history is where it would be alone *)
Theorem C02_pool_independent_done : forall H w sched w' j,
  Inv w -> mrun H true w sched = Some w' ->
  a_ph (w_act w j) = Idle -> a_ph (w_act w' j) = Idle -> a_todo (w_act w' j) = [] ->
  a_obj (w_act w' j) = run H (a_obj (w_act w j)) (a_todo (w_act w j)) /\
  a_res (w_act w' j) = a_res (w_act w j) ++ results H (a_obj (w_act w j)) (a_todo (w_act w j)).
Proof. exact pool_independent_done. Qed.
Print Assumptions C02_pool_independent_done.

(** what the correspondence check replays ([replay], Model/TPMPool.v) is such a schedule *)
Theorem C02_pool_trace_is_schedule : forall H w tr w',
  replay H w tr = Some w' ->
  mrun H true w (map (fun e => (ev_actor e, ev_pick e)) tr) = Some w'.
Proof. exact replay_mrun. Qed.
Print Assumptions C02_pool_trace_is_schedule.

(** The order of the two statements of releaseHasher is what carries the
    invariant.  This is NOT a statement about the code as it is: with Put before
    Reset ([reset_first = false]) there is a schedule of two objects, each
    running [startup; extend], after which the second object holds H(digest)
    instead of H(old || digest) although both extends returned no error; with
    the code as it is the pool refuses that schedule at the early Get. *)
Theorem C02_pool_reset_before_put_needed :
  (exists w',
    mrun Hlen false (init_world two_objects []) late_reset_schedule = Some w' /\
    a_ph (w_act w' 1%nat) = Idle /\ a_todo (w_act w' 1%nat) = [] /\
    a_res (w_act w' 1%nat) = [Ok tt; Ok tt] /\
    get (pcrs (a_obj (w_act w' 1%nat))) 0 4 = Ok (repeat 1 20) /\
    get (pcrs (run Hlen fresh [Startup 0; Extend 0 4 [2]])) 0 4 = Ok (repeat 21 20)) /\
  mrun Hlen true (init_world two_objects []) (firstn 8 late_reset_schedule) = None.
Proof. split; [exact put_first_breaks|exact reset_first_no_early_get]. Qed.
Print Assumptions C02_pool_reset_before_put_needed.


(** * The reference TPM (first sentence of the property, for whole histories) *)

(** for every command history run on NewTPM(): the started flag, every bank of
    the reference TPM (where it has none the implementation shows an empty slot
    or an error), both logs, and the verdict on every single command (executed /
    refused with an error, never a panic) agree with the reference TPM *)
Theorem C02_reference_tpm : forall H h,
  (forall a x, length (H a x) = hsize a) -> Forall cmd_in_range h ->
  let st := run H fresh h in
  let r := rrun H rnew h in
  initialized st = r_started r /\
  (forall p a v, r_bank r p a = Some v -> get (pcrs st) p a = Ok v) /\
  (forall p a, r_bank r p a = None -> get (pcrs st) p a = Ok [] \/ exists e, get (pcrs st) p a = Err e) /\
  cmdlog st = r_log r /\ evlog st = r_ev r /\
  Forall2 res_agree (results H fresh h) (rresults H rnew h).
Proof. intros H h HL. exact (ref_simulation H HL h). Qed.
Print Assumptions C02_reference_tpm.

(** after startup(l) and ANY further commands without a reset (refused ones,
    event-log-adds and repeated startups included): bank (p, a) holds the
    startup value extended by exactly the digests of the extends addressed to
    it, in order -- nothing else ever reaches a bank *)
Theorem C02_pcr_value_closed_form : forall H l h p a,
  (forall a x, length (H a x) = hsize a) ->
  no_reset h = true -> (p = 0 \/ p = 1) -> is_supported a = true ->
  get (pcrs (run H fresh (Startup l :: h))) p a =
  Ok (chain H a (if p =? 0 then repeat 0 (hsize a - 1) ++ [l] else repeat 0 (hsize a)) (digests p a h)).
Proof. intros H l h p a HL. exact (pcr_closed_form H HL l h p a). Qed.
Print Assumptions C02_pcr_value_closed_form.

(** exact outcome of an extend in ANY state -- also one whose banks were
    overridden through PCRValues.Set: executed iff the algorithm is a hash, the
    bank exists and holds a value of the digest size *)
Theorem C02_extend_outcome_any : forall H st p a d,
  0 <= a < 65536 ->
  (snd (step H st (Extend p a d)) = Ok tt <->
   is_hash a = true /\ exists old, get (pcrs st) p a = Ok old /\ length old = hsize a).
Proof. exact extend_outcome_any. Qed.
Print Assumptions C02_extend_outcome_any.

(** the algorithm table by the go-tpm names (each identifier and the SHA1 /
    SHA256 / SHA384 / SHA512 digest sizes are re-read from the source by the
    constants tie): which identifiers reach a hasher, which have a bank *)
Theorem C02_algorithm_table :
  hsize ALG_SHA1 = 20%nat /\ hsize ALG_SHA256 = 32%nat /\ hsize ALG_SHA384 = 48%nat /\
  hsize ALG_SHA512 = 64%nat /\ hsize ALG_SHA3_256 = 32%nat /\ hsize ALG_SHA3_384 = 48%nat /\
  hsize ALG_SHA3_512 = 64%nat /\
  (forall a, is_hash a = true <->
     In a [ALG_SHA1; ALG_SHA256; ALG_SHA384; ALG_SHA512; ALG_SHA3_256; ALG_SHA3_384; ALG_SHA3_512]) /\
  (forall a, is_supported a = true <-> a = ALG_SHA1 \/ a = ALG_SHA256) /\
  Z.of_nat BANKS = ALG_SHA256 + 1 /\ ALG_SHA384 = Z.of_nat BANKS.
Proof. exact hsize_table. Qed.
Print Assumptions C02_algorithm_table.

(** * The API level: TPMExecute of any Command with a cause, Apply, Commands, Set *)

(** TPMExecute of single commands, WHATEVER cause provider is passed, and the two
    resets are the value model: every theorem above about [run] / [results]
    holds for such calls *)
Theorem C02_exec_refines : forall H ops s,
  forallb single_op ops = true ->
  proj (xrun H s ops) = run H (proj s) (map cmd_of ops) /\
  xresults H s ops = results H (proj s) (map cmd_of ops).
Proof. intros H ops s. exact (exec_refines H ops s). Qed.
Print Assumptions C02_exec_refines.

(** the command log is exact at this level too: every TPMExecute -- single
    command or Commands slice, returning nil or an error -- adds exactly one
    entry, which carries the command and the cause it was given; Apply and Set
    add nothing; a reset empties the log *)
Theorem C02_exec_log_exact : forall H s ops,
  no_xreset ops = true -> x_log (xrun H s ops) = x_log s ++ entries_of ops.
Proof. exact exec_log_exact. Qed.
Print Assumptions C02_exec_log_exact.

Theorem C02_exec_log_after_reset : forall H s ops1 o ops2,
  is_xreset o = true -> no_xreset ops2 = true ->
  x_log (xrun H s (ops1 ++ o :: ops2)) = entries_of ops2.
Proof. exact exec_log_after_reset. Qed.
Print Assumptions C02_exec_log_after_reset.

(** TPMExecute(x, info) and x.Apply differ in the log entry and in nothing else *)
Theorem C02_exec_vs_apply : forall H s x cz,
  same_core (core (fst (xstep H s (OExec x cz)))) (core (fst (xstep H s (OApply x)))) /\
  snd (xstep H s (OExec x cz)) = snd (xstep H s (OApply x)) /\
  x_log (fst (xstep H s (OExec x cz))) = x_log (fst (xstep H s (OApply x))) ++ [mkEntry x cz].
Proof. exact exec_vs_apply. Qed.
Print Assumptions C02_exec_vs_apply.

(** Commands.Apply, nested or not, is its single commands in order ... *)
Theorem C02_commands_apply_flat : forall H x st,
  xapply H x st = seq_apply H st (flat x).
Proof. exact xapply_flat. Qed.
Print Assumptions C02_commands_apply_flat.

(** ... it returns nil iff every one of them returns nil, and then all were applied ... *)
Theorem C02_commands_apply_ok_iff : forall H st cs st',
  seq_apply H st cs = (st', Ok tt) <-> Forall ok_res (ares H st cs) /\ st' = arun H st cs.
Proof. exact seq_apply_ok_iff. Qed.
Print Assumptions C02_commands_apply_ok_iff.

(** ... otherwise it stops at the first command that does not: that one changes
    nothing, the earlier ones stay applied, the later ones are not reached *)
Theorem C02_commands_apply_stops : forall H st cs,
  snd (seq_apply H st cs) <> Ok tt ->
  exists pre c post,
    cs = pre ++ c :: post /\ Forall ok_res (ares H st pre) /\
    snd (apply H (arun H st pre) c) = snd (seq_apply H st cs) /\
    fst (seq_apply H st cs) = arun H st pre.
Proof. exact seq_apply_stops. Qed.
Print Assumptions C02_commands_apply_stops.

(** a Commands slice executed through TPMExecute that returns nil did to banks,
    SupportedAlgos and event log what executing its single commands one by one
    does (all of which return nil) -- but it is ONE log entry instead of one per command *)
Theorem C02_batch_ok_as_sequence : forall H s x cz,
  snd (xstep H s (OExec x cz)) = Ok tt ->
  same_core (core (fst (xstep H s (OExec x cz)))) (core (xrun H s (map exec1 (flat x)))) /\
  Forall ok_res (xresults H s (map exec1 (flat x))) /\
  x_log (fst (xstep H s (OExec x cz))) = x_log s ++ [mkEntry x cz] /\
  x_log (xrun H s (map exec1 (flat x))) = x_log s ++ map (fun c => mkEntry (XOne c) None) (flat x).
Proof. exact batch_ok_as_sequence. Qed.
Print Assumptions C02_batch_ok_as_sequence.

(** one that returns an error leaves the object where executing the single
    commands BEFORE the failing one leaves it (so it is not without effect:
    example [batch_error_not_atomic] below); the error is the failing command's *)
Theorem C02_batch_error_prefix : forall H s x cz,
  snd (xstep H s (OExec x cz)) <> Ok tt ->
  exists pre c post,
    flat x = pre ++ c :: post /\
    Forall ok_res (xresults H s (map exec1 pre)) /\
    snd (xstep H (xrun H s (map exec1 pre)) (exec1 c)) = snd (xstep H s (OExec x cz)) /\
    same_core (core (fst (xstep H s (OExec x cz)))) (core (xrun H s (map exec1 pre))).
Proof. exact batch_error_prefix. Qed.
Print Assumptions C02_batch_error_prefix.

(** a history of TPMExecute calls (single commands and Commands slices of any
    nesting, any causes) that all return nil leaves banks, SupportedAlgos and
    event log exactly where the value model is after the FLAT history of their
    single commands, every one of which is executed: the theorems about [run]
    (frame, closed form of a bank, reference TPM) apply to such histories *)
Theorem C02_exec_history_flat : forall H ops s,
  forallb is_exec ops = true ->
  Forall ok_res (xresults H s ops) ->
  same_core (core (xrun H s ops)) (run H (proj s) (log_flat (entries_of ops))) /\
  Forall ok_res (results H (proj s) (log_flat (entries_of ops))).
Proof. exact exec_history_flat. Qed.
Print Assumptions C02_exec_history_flat.

(** no operation of the API level panics (16-bit algorithm identifiers) *)
Theorem C02_exec_no_panic : forall H s o,
  match o with
  | OExec x _ | OApply x => Forall cmd_in_range (flat x)
  | _ => True
  end ->
  snd (xstep H s o) <> Panic /\ snd (xstep H s o) <> OutOfFuel.
Proof. exact xstep_no_panic. Qed.
Print Assumptions C02_exec_no_panic.

(** [log.Commands().Apply(ctx, NewTPM())] (cmd/exp/pcr0tool sum): for an object
    driven from NewTPM() through TPMExecute calls only (single commands, Commands
    slices, any causes) all of which returned nil, the new object ends with the
    same banks, SupportedAlgos and event log, and Apply returns nil *)
Theorem C02_replay_log_ok : forall H ops,
  forallb is_exec ops = true ->
  Forall ok_res (xresults H xfresh ops) ->
  same_core (fst (replay_on_new H (xrun H xfresh ops))) (core (xrun H xfresh ops)) /\
  snd (replay_on_new H (xrun H xfresh ops)) = Ok tt.
Proof. exact replay_log_ok. Qed.
Print Assumptions C02_replay_log_ok.

(** when one of the calls returned an error, the replay ends there with that
    error: the new object is the original as it was right after the failing call,
    whatever was executed later is not replayed (example [replay_loses_later_extends]) *)
Theorem C02_replay_log_stops : forall H pre o post,
  forallb is_exec (pre ++ o :: post) = true ->
  Forall ok_res (xresults H xfresh pre) ->
  snd (xstep H (xrun H xfresh pre) o) <> Ok tt ->
  same_core (fst (replay_on_new H (xrun H xfresh (pre ++ o :: post))))
            (core (xrun H xfresh (pre ++ [o]))) /\
  snd (replay_on_new H (xrun H xfresh (pre ++ o :: post))) = snd (xstep H (xrun H xfresh pre) o).
Proof. exact replay_log_stops. Qed.
Print Assumptions C02_replay_log_stops.

(** PCRValues.Set: either the bank exists and is overridden, every other bank
    reading as before, or an error is returned and nothing changes *)
Theorem C02_set_value_ok : forall pv p a v pv',
  set_value pv p a v = (pv', Ok tt) ->
  get pv' p a = Ok v /\
  (forall p' a', (p', a') <> (p, a) -> get pv' p' a' = get pv p' a') /\
  exists old, get pv p a = Ok old.
Proof. exact set_value_ok. Qed.
Print Assumptions C02_set_value_ok.

Theorem C02_set_value_err : forall pv p a v pv' e,
  set_value pv p a v = (pv', Err e) -> pv' = pv /\ exists e', get pv p a = Err e'.
Proof. exact set_value_err. Qed.
Print Assumptions C02_set_value_err.

(** * The hypotheses are satisfiable, and the statements are not vacuous *)

Definition H0 : Z -> list Z -> list Z := fun a x => repeat (Z.of_nat (length x)) (hsize a).

Example H0_length : forall a x, length (H0 a x) = hsize a.
Proof. intros. apply repeat_length. Qed.

Definition hist0 : list cmd :=
  [Extend 0 4 [1]; Startup 3; Extend 0 4 [1; 2]; Extend 1 11 []; Extend 2 4 [7]; Extend 0 65535 [];
   Startup 0; LogAdd 0 4 [9] 3 None].

Example hist0_results :
  results H0 fresh hist0 =
  [Err ERR_NO_PCR; Ok tt; Ok tt; Ok tt; Err ERR_NO_PCR; Err ERR_BAD_ALG; Err ERR_ALREADY_INIT; Ok tt].
Proof. vm_compute. reflexivity. Qed.

Example hist0_pcr0_sha1 :
  get (pcrs (run H0 fresh hist0)) 0 4 = Ok (repeat 22 20).
Proof. vm_compute. reflexivity. Qed.

Example hist0_no_reset : no_reset hist0 = true.
Proof. reflexivity. Qed.

Example hist0_wf_started : wf (run H0 fresh hist0) /\ initialized (run H0 fresh hist0) = true.
Proof. split; [apply C02_wf_reachable; exact H0_length|reflexivity]. Qed.


(** the reference TPM on [hist0]: the verdicts, and the only banks it has *)
Example ref_hist0 :
  Forall cmd_in_range hist0 /\
  rresults H0 rnew hist0 = [false; true; true; true; false; false; false; true] /\
  r_bank (rrun H0 rnew hist0) 0 4 = Some (repeat 22 20) /\
  r_bank (rrun H0 rnew hist0) 2 4 = None /\ r_bank (rrun H0 rnew hist0) 0 12 = None.
Proof. split; [repeat constructor; cbn; lia|vm_compute; auto]. Qed.

(** closed form on a history with refused commands in between *)
Example closed_form_hist :
  let h := [Extend 0 4 [1; 2]; Extend 0 65535 []; Startup 9; Extend 1 4 [5]; LogAdd 0 4 [9] 3 None; Extend 0 4 []] in
  no_reset h = true /\ digests 0 4 h = [[1; 2]; []] /\
  get (pcrs (run H0 fresh (Startup 3 :: h))) 0 4 = Ok (repeat 20 20).
Proof. vm_compute. auto. Qed.

(** an API-level history: causes, a nested Commands slice, a direct Apply, a Set *)
Definition xops0 : list op :=
  [OExec (XOne (Startup 3)) (Some (1, 10));
   OExec (XMany [XOne (Extend 0 4 [1; 2]); XMany [XOne (Extend 1 4 [5]); XOne (LogAdd 0 4 [9] 3 None)]]) None;
   OApply (XOne (Extend 0 4 []));
   OSet 1 11 [7; 7];
   OExec (XOne (Extend 1 11 [1])) (Some (2, 20))].

Example xops0_results :
  xresults H0 xfresh xops0 = [Ok tt; Ok tt; Ok tt; Ok tt; Err ERR_BANK_LEN] /\
  no_xreset xops0 = true /\
  map e_cause (x_log (xrun H0 xfresh xops0)) = [Some (1, 10); None; Some (2, 20)] /\
  get (x_pcrs (xrun H0 xfresh xops0)) 0 4 = Ok (repeat 20 20) /\
  get (x_pcrs (xrun H0 xfresh xops0)) 1 11 = Ok [7; 7].
Proof. vm_compute. auto. Qed.

(** the hypotheses of [C02_exec_refines] and [C02_replay_log_ok] on non-trivial lists *)
Definition xops1 : list op :=
  [OExec (XOne (Startup 3)) (Some (1, 10)); OExec (XOne (Extend 0 4 [1; 2])) None;
   OExec (XMany [XOne (Extend 1 4 [5]); XOne (Extend 0 11 [])]) (Some (2, 20))].

Example xops1_premises :
  forallb single_op (firstn 2 xops1 ++ [OReset]) = true /\
  forallb is_exec xops1 = true /\
  Forall ok_res (xresults H0 xfresh xops1) /\
  get (pcrs (fst (replay_on_new H0 (xrun H0 xfresh xops1)))) 0 4 = Ok (repeat 22 20).
Proof. split; [reflexivity|]. split; [reflexivity|]. split; [repeat constructor|vm_compute; reflexivity]. Qed.

(** Commands.Apply on single commands: all executed / stopped at the refused one *)
Example commands_apply_example :
  let st := fst (apply H0 fresh (Startup 3)) in
  seq_apply H0 st [Extend 0 4 [1; 2]; LogAdd 1 4 [] 3 None] = (arun H0 st [Extend 0 4 [1; 2]; LogAdd 1 4 [] 3 None], Ok tt) /\
  snd (seq_apply H0 st [Extend 0 4 [1; 2]; Extend 2 4 []; Extend 1 4 [5]]) = Err ERR_NO_PCR /\
  fst (seq_apply H0 st [Extend 0 4 [1; 2]; Extend 2 4 []; Extend 1 4 [5]]) = arun H0 st [Extend 0 4 [1; 2]] /\
  set_value (pcrs st) 2 4 [1] = (pcrs st, Err ERR_NO_PCR) /\
  snd (set_value (pcrs st) 1 12 [1]) = Err ERR_NO_BANK.
Proof. vm_compute. auto. Qed.

(** [xops1] flattened: the value-model history of [C02_exec_history_flat] *)
Example xops1_flat :
  log_flat (entries_of xops1) = [Startup 3; Extend 0 4 [1; 2]; Extend 1 4 [5]; Extend 0 11 []] /\
  proj xfresh = fresh.
Proof. split; reflexivity. Qed.

(** a Commands slice that returns an error is not without effect: the extend
    before the refused one stays (this is Commands.Apply as documented; the
    property's "leaves all PCR values unchanged" is about the single commands,
    [C02_fail_unchanged]) *)
Example batch_error_not_atomic :
  let s := xrun H0 xfresh [OExec (XOne (Startup 3)) None] in
  let o := OExec (XMany [XOne (Extend 0 4 [1; 2]); XOne (Extend 0 12 [1]); XOne (Extend 1 4 [5])]) None in
  snd (xstep H0 s o) = Err ERR_NO_BANK /\
  get (x_pcrs s) 0 4 = Ok (repeat 0 19 ++ [3]) /\
  get (x_pcrs (fst (xstep H0 s o))) 0 4 = Ok (repeat 22 20) /\
  get (x_pcrs (fst (xstep H0 s o))) 1 4 = get (x_pcrs s) 1 4.
Proof. vm_compute. auto. Qed.

(** a refused command in the log makes the replay on a new object stop there:
    the extend executed after it is missing on the new object *)
Example replay_loses_later_extends :
  let ops := [OExec (XOne (Startup 3)) None; OExec (XOne (Extend 0 12 [1])) None; OExec (XOne (Extend 0 4 [1; 2])) None] in
  forallb is_exec ops = true /\
  xresults H0 xfresh ops = [Ok tt; Err ERR_NO_BANK; Ok tt] /\
  snd (replay_on_new H0 (xrun H0 xfresh ops)) = Err ERR_NO_BANK /\
  get (x_pcrs (xrun H0 xfresh ops)) 0 4 = Ok (repeat 22 20) /\
  get (pcrs (fst (replay_on_new H0 (xrun H0 xfresh ops)))) 0 4 = Ok (repeat 0 19 ++ [3]).
Proof. vm_compute. auto. Qed.

(** a reused object at buffer level: stale digests stay in the backing arrays
    (second component) but are not visible (first component) *)
Example slices_stale_invisible :
  let s := srun H0 (fun _ => 0%nat) snew [Startup 3; Extend 0 4 [1; 2]; ResetNoInit; Startup 7] in
  swf s /\
  get (pcrs (abs s)) 0 4 = Ok (repeat 0 19 ++ [7]) /\
  cmdlog (abs s) = [Startup 7] /\
  bmem (s_cmdlog s) = [Startup 7; Extend 0 4 [1; 2]].
Proof.
  cbv zeta. split; [apply swf_srun; [exact H0_length|exact swf_snew]|vm_compute; auto].
Qed.

(** three objects sharing one hasher pool under a fine-grained schedule: the
    hypotheses of [C02_pool_independent] hold, the schedule is accepted, hashers
    are handed from object to object, and every object is where it would be alone *)
Definition pool_acts0 : list actor :=
  [idle_actor fresh [Startup 3; Extend 0 4 [1; 2]; Extend 0 11 [5]];
   idle_actor fresh [Startup 7; Extend 0 4 [9]; Extend 2 4 [1]];
   idle_actor fresh [Extend 0 4 []; Startup 1]].

Definition pool_sched0 : list (nat * pick) :=
  [(0, PNone); (1, PNone); (2, PPooled 0); (0, PFresh); (0, PNone); (2, PNone); (1, PFresh);
   (2, PNone); (0, PNone); (1, PNone); (2, PNone); (0, PNone); (1, PNone); (0, PNone);
   (1, PNone); (0, PNone); (1, PNone); (1, PNone); (1, PPooled 0); (0, PFresh); (1, PNone);
   (0, PNone); (1, PNone); (0, PNone); (0, PNone); (0, PNone); (0, PNone)]%nat.

Example pool_example :
  Inv (init_world pool_acts0 [mkHs 4 []]) /\
  exists w',
    mrun H0 true (init_world pool_acts0 [mkHs 4 []]) pool_sched0 = Some w' /\
    (forall j, (j < 3)%nat ->
       a_ph (w_act w' j) = Idle /\ a_todo (w_act w' j) = [] /\
       a_obj (w_act w' j) = run H0 fresh (a_todo (w_act (init_world pool_acts0 [mkHs 4 []]) j))) /\
    get (pcrs (a_obj (w_act w' 0%nat))) 0 4 = Ok (repeat 22 20) /\
    w_pool w' = [3; 0; 2; 1]%nat.
Proof.
  split; [apply inv_init; [repeat constructor|reflexivity]|].
  destruct (mrun H0 true (init_world pool_acts0 [mkHs 4 []]) pool_sched0) as [w'|] eqn:E;
    [|vm_compute in E; discriminate].
  exists w'. split; [reflexivity|].
  vm_compute in E. inversion E; subst w'; clear E.
  split; [|split; vm_compute; reflexivity].
  intros j Hj. destruct j as [|[|[|j]]]; [| | |lia]; vm_compute; auto.
Qed.
