(** C06 — the platform test runner is fail-closed (pkg/test/test.go).
    Only the property theorems, each closed by [exact].

    Vocabulary (Model/Runner.v): [ts id] gives Required / Status / dependency list
    of test [id]; [chk id n] is what the n-th evaluation of the check of [id]
    returns, (rc, testerror<>nil, internalerror<>nil); [o_pass] = (true,false,false);
    a state holds the stored Result of every test and the ghost trace of check
    evaluations ([ev_id], [ev_dep] = "Run was entered for it as a dependency",
    [ev_out]); [run ts chk fuel asdep s id] is Test.Run, [run_list] a caller that
    runs every listed test, [run_silent] RunTestsSilent; [None] = out of fuel.

    "Acyclic" is stated with a rank that decreases along every dependency
    edge.  On a cyclic graph Test.Run recurses without bound (Go: fatal stack
    overflow); the model answers [None] for every fuel ([C06_cycle_diverges]).

    The hardware-fault clause of the property is NOT a theorem: it is enumerated
    on the real checks by the harness (props/C06.json, level_note).  Its per-check
    form ("the check ran alone on stored results, every access it made failed")
    rests on [C06_prefilled_check_alone] for the runner side. *)
From CSS Require Import Lib.Base Model.Runner Proofs.Runner.
Local Open Scope nat_scope.

Definition acyclic (ts : nat -> test) (rank : nat -> nat) : Prop :=
  forall id d, In d (deps (ts id)) -> rank d < rank id.

(** One call of Test.Run, from ANY stored results and with ANY (even
    time-varying) checks: the result is PASS iff the check of this test was
    evaluated in this call and returned success without errors, and every
    implemented dependency is PASS. *)
Theorem C06_pass_iff :
  forall ts chk rank, acyclic ts rank ->
  forall fuel asdep s id s' new,
    run ts chk fuel asdep s id = Some s' -> trace s' = trace s ++ new ->
    (res s' id = RPass <->
     In (mkEv id asdep o_pass) new /\
     forall d, In d (deps (ts id)) -> implemented (ts d) = true -> res s' d = RPass).
Proof. exact pass_iff. Qed.
Print Assumptions C06_pass_iff.

(** An implemented dependency that is not PASS yields DEPENDENCY_FAILED and the
    check of the test is not evaluated in this call. *)
Theorem C06_dep_blocks :
  forall ts chk rank, acyclic ts rank ->
  forall fuel asdep s id s' new d,
    run ts chk fuel asdep s id = Some s' -> trace s' = trace s ++ new ->
    In d (deps (ts id)) -> implemented (ts d) = true -> res s' d <> RPass ->
    res s' id = RDepFailed /\ forall e, In e new -> ev_id e <> id.
Proof. exact dep_blocks. Qed.
Print Assumptions C06_dep_blocks.

(** Inside one call of Test.Run no check is evaluated twice. *)
Theorem C06_once_per_call :
  forall ts chk rank, acyclic ts rank ->
  forall fuel asdep s id s' new,
    run ts chk fuel asdep s id = Some s' -> trace s' = trace s ++ new ->
    NoDup (map ev_id new).
Proof. exact once_per_call. Qed.
Print Assumptions C06_once_per_call.

(** In a whole run (any list of tests, any order, repetitions allowed, any
    stored results at the start) every test is evaluated at most once AS A
    DEPENDENCY. *)
Theorem C06_dep_once :
  forall ts chk rank, acyclic ts rank ->
  forall fuel s order s' rs new,
    run_list ts chk fuel s order = Some (s', rs) -> trace s' = trace s ++ new ->
    NoDup (map ev_id (filter ev_dep new)).
Proof. exact dep_once. Qed.
Print Assumptions C06_dep_once.

(** ... but "each dependency is evaluated at most once per run" as the property
    states it is FALSE for the code: the caller's loop runs a test again although
    it was already run as a dependency.  Witness: test 0 depends on test 1, the
    caller runs [0; 1] (duplicate-free), deterministic checks, fresh state: the
    check of test 1 is evaluated twice.  Finding C06-rerun-dependency-at-toplevel. *)
Theorem C06_dep_once_total_refuted :
  exists ts chk rank order s' rs,
    acyclic ts rank /\ deterministic chk /\ NoDup order /\
    run_list ts chk 3 init_state order = Some (s', rs) /\ evals 1 (trace s') = 2.
Proof.
  destruct rerun_witness as (s' & rs & H1 & H2).
  exists ts2, chk_pass, rank2, [0; 1], s', rs.
  split; [exact ts2_acyclic|]. split; [intros id n m; reflexivity|].
  split; [repeat constructor; cbn; intuition discriminate|]. auto.
Qed.
Print Assumptions C06_dep_once_total_refuted.

(** With deterministic checks the double evaluation is harmless: after running
    any list in any order from a fresh state, every test that has a result is
    PASS iff its check passes and every implemented dependency is PASS, and is
    DEPENDENCY_FAILED whenever an implemented dependency is not PASS. *)
Theorem C06_final_consistent :
  forall ts chk rank, acyclic ts rank ->
  forall fuel order s' rs j,
    deterministic chk -> run_list ts chk fuel init_state order = Some (s', rs) ->
    res s' j <> RNotRun ->
    (res s' j = RPass <->
       classify (chk j 0) = RPass /\
       forall d, In d (deps (ts j)) -> implemented (ts d) = true -> res s' d = RPass)
    /\ ((exists d, In d (deps (ts j)) /\ implemented (ts d) = true /\ res s' d <> RPass) ->
        res s' j = RDepFailed).
Proof. exact final_consistent. Qed.
Print Assumptions C06_final_consistent.

(** ... and a stored verdict never changes when more tests are run. *)
Theorem C06_verdict_stable :
  forall ts chk rank, acyclic ts rank ->
  forall fuel o1 o2 s1 rs1 s2 rs2 j,
    deterministic chk ->
    run_list ts chk fuel init_state o1 = Some (s1, rs1) ->
    run_list ts chk fuel s1 o2 = Some (s2, rs2) ->
    res s1 j <> RNotRun -> res s2 j = res s1 j.
Proof. exact verdict_stable. Qed.
Print Assumptions C06_verdict_stable.

(** Without determinism the final report can be inconsistent: the verdict of a
    dependency flips when the caller's loop evaluates it again, and a test stays
    PASS although its implemented dependency ended as FAIL; RunTestsSilent even
    reports overall success when that dependency is not Required. *)
Theorem C06_final_consistent_refuted :
  exists ts chk rank s' rs s'',
    acyclic ts rank /\
    run_list ts chk 3 init_state [0; 1] = Some (s', rs) /\
    res s' 0 = RPass /\ In 1 (deps (ts 0)) /\ implemented (ts 1) = true /\ res s' 1 = RFail /\
    run_silent ts chk 3 init_state [0; 1] = Some (s'', SOk) /\ res s'' 0 = RPass /\ res s'' 1 = RFail.
Proof.
  destruct flip_witness as (s' & rs & A & B & C & D & E).
  destruct flip_witness_silent as (s'' & F & G & H).
  exists ts2, chk_flip, rank2, s', rs, s''.
  split; [exact ts2_acyclic|]. repeat split; auto.
Qed.
Print Assumptions C06_final_consistent_refuted.

(** The setting in which the harness applies the fault clause to ONE check
    (harness/cmd/c06/alone.go): the results of an earlier run are stored, every
    implemented dependency of [id] is PASS, [id] itself is run (again).  Then
    Test.Run enters no dependency and evaluates exactly the check of [id], once;
    the verdict is the classification of what that one evaluation returned --
    PASS iff it returned success without errors -- and no other stored result
    changes.  So in this setting every hardware access of the call is made by the
    check of [id], and a PASS can only come from that check: the runner never
    turns stored results into a PASS.  Holds for any stored results of the other
    tests, any (time-varying) checks, any fuel above zero, and needs no
    acyclicity because no dependency is entered. *)
Theorem C06_prefilled_check_alone :
  forall ts chk fuel asdep s id,
    (forall d, In d (deps (ts id)) -> implemented (ts d) = true -> res s d = RPass) ->
    let o := chk id (evals id (trace s)) in
    exists s', run ts chk (S fuel) asdep s id = Some s' /\
      trace s' = trace s ++ [mkEv id asdep o] /\
      res s' id = classify o /\
      (res s' id = RPass <-> o = o_pass) /\
      (forall j, j <> id -> res s' j = res s j).
Proof. exact prefilled_check_alone. Qed.
Print Assumptions C06_prefilled_check_alone.

(** RunTestsSilent reports overall success only if every listed test that is
    Required and implemented is PASS in the final state (any checks, any stored
    results at the start, repetitions allowed). *)
Theorem C06_silent_sound :
  forall ts chk rank, acyclic ts rank ->
  forall order fuel s s',
    run_silent ts chk fuel s order = Some (s', SOk) ->
    forall i, In i order -> required (ts i) = true -> implemented (ts i) = true -> res s' i = RPass.
Proof. exact silent_sound. Qed.
Print Assumptions C06_silent_sound.

(** Acyclic graphs: Test.Run terminates (fuel above the rank of the test
    suffices; with n tests ranks can be chosen below n). *)
Theorem C06_terminates :
  forall ts chk rank, acyclic ts rank ->
  forall fuel id, rank id < fuel ->
  forall asdep s, exists s', run ts chk fuel asdep s id = Some s'.
Proof. exact run_total. Qed.
Print Assumptions C06_terminates.

(** Cyclic graphs are excluded above by hypothesis; this is what happens on them. *)
Theorem C06_cycle_diverges :
  forall chk fuel asdep s, res s 0 = RNotRun -> res s 1 = RNotRun ->
    run cyc1 chk fuel asdep s 0 = None /\
    run cyc2 chk fuel asdep s 0 = None /\ run cyc2 chk fuel asdep s 1 = None.
Proof.
  intros chk fuel asdep s H0 H1. split; [now apply run_cycle_diverges|now apply run_cycle2_diverges].
Qed.
Print Assumptions C06_cycle_diverges.

(** ** the hypotheses are satisfiable by non-trivial values *)

(** a diamond 0 -> {1,2} -> 3 where test 2 returns an internal error *)
Definition ex_ts : nat -> test := fun i =>
  match i with
  | 0 => mkTest true Implemented [1; 2]
  | 1 => mkTest true Implemented [3]
  | 2 => mkTest true PartlyImplemented [3]
  | _ => mkTest false Implemented []
  end.
Definition ex_rank : nat -> nat := fun i => match i with 0 => 2 | 1 => 1 | 2 => 1 | _ => 0 end.
Definition ex_chk : nat -> nat -> outcome3 := fun i _ => match i with 2 => (true, false, true) | _ => o_pass end.

Example ex_acyclic : acyclic ex_ts ex_rank.
Proof.
  intros [|[|[|id]]] d; cbn; intro H; repeat (destruct H as [<-|H]; [cbn; lia|]); contradiction.
Qed.

(** Run(0): 3 and 1 pass, 2 is INTERNAL_ERROR, so 0 is DEPENDENCY_FAILED, its
    check is not evaluated, and 3 was evaluated once although two tests depend on it *)
Example ex_run :
  exists s', run ex_ts ex_chk 4 false init_state 0 = Some s' /\
    res s' 0 = RDepFailed /\ res s' 1 = RPass /\ res s' 2 = RIntErr /\ res s' 3 = RPass /\
    map ev_id (trace s') = [3; 1; 2] /\ blame s' 0 = Some 2.
Proof. eexists. split; [vm_compute; reflexivity|]. repeat split; vm_compute; reflexivity. Qed.

(** Run(1) alone passes: the left-hand side of [C06_pass_iff] is inhabited *)
Example ex_run_pass :
  exists s', run ex_ts ex_chk 4 false init_state 1 = Some s' /\ res s' 1 = RPass /\
    trace s' = [mkEv 3 true o_pass; mkEv 1 false o_pass].
Proof. eexists. split; [vm_compute; reflexivity|]. split; vm_compute; reflexivity. Qed.

(** the hypothesis of [C06_prefilled_check_alone] is satisfiable with a non-trivial
    state: after Run(1) (3 and 1 PASS), Run(1) again evaluates only the check of
    1 -- the check of 3 is not evaluated a second time *)
Example ex_prefilled :
  exists s1 s2, run ex_ts ex_chk 4 false init_state 1 = Some s1 /\
    (forall d, In d (deps (ex_ts 1)) -> implemented (ex_ts d) = true -> res s1 d = RPass) /\
    run ex_ts ex_chk 4 false s1 1 = Some s2 /\
    trace s2 = [mkEv 3 true o_pass; mkEv 1 false o_pass; mkEv 1 false o_pass].
Proof.
  eexists. eexists. split; [vm_compute; reflexivity|]. split.
  - intros d [<-|[]] _. vm_compute. reflexivity.
  - split; vm_compute; reflexivity.
Qed.

(** the silent runner stops at the first required failure and says so *)
Example ex_silent :
  exists s', run_silent ex_ts ex_chk 4 init_state [3; 1; 0; 2] = Some (s', SFail 0 RDepFailed).
Proof. eexists. vm_compute. reflexivity. Qed.

Example ex_silent_ok :
  exists s', run_silent ex_ts ex_chk 4 init_state [3; 1] = Some (s', SOk) /\ res s' 1 = RPass.
Proof. eexists. split; vm_compute; reflexivity. Qed.
