(** C06 — the platform test runner is fail-closed (pkg/test/test.go).
    Only the property theorems, each closed by [exact].

    Vocabulary (Model/Runner.v): [ts id] gives Required / Status / dependency list
    of test [id]; [chk id n] is what the n-th evaluation of the check of [id]
    returns, (rc, testerror<>nil, internalerror<>nil); [o_pass] = (true,false,false);
    a state holds the stored Result of every test and the ghost trace of check
    evaluations ([ev_id], [ev_dep] = "Run was entered for it as a dependency",
    [ev_out]); [run ts chk fuel asdep s id] is Test.Run, [run_list] a caller that
    runs every listed test, [run_silent] RunTestsSilent; [None] = out of fuel.

    "Acyclic" is stated with a rank that decreases along every dependency
    edge.  On a cyclic graph Test.Run recurses without bound (Go: fatal stack
    overflow); the model answers [None] for every fuel ([C06_cycle_diverges]).

    The hardware-fault clause of the property is NOT a theorem about the real
    checks: it is enumerated on them by the harness (props/C06.json, level_note).
    Its per-check form ("the check ran alone on stored results, every access it
    made failed") rests on [C06_prefilled_check_alone] for the runner side.

    What IS proved about faults (second half of this file, Model/RunnerFault.v):
    the runner composed with checks that make numbered hardware accesses, under
    ANY hardware behaviour (in particular the two fault patterns of the
    quantifier).  A check is a tree of accesses [prog]; [run_h] threads one call
    counter through all evaluations and records per evaluation the window of
    calls and which of them failed.  For checks that follow the discipline the
    code base intends ("checks convert hwapi errors into internal errors",
    [converts]; weaker: [fail_closed], no PASS is reachable after a failed
    access) the fail-closed clauses hold through the whole dependency graph
    ([C06_fault_*_partial]: the discipline of the ~85 real checks is a
    hypothesis here -- it is what the harness enumerates, evaluation by
    evaluation, with [swallows] as the judged predicate); without it they do not
    ([C06_fault_swallowed_error_refuted]: the shape of a dropped read error). *)
From CSS Require Import Lib.Base Model.Runner Proofs.Runner Model.RunnerFault Proofs.RunnerFault.
Local Open Scope nat_scope.

Definition acyclic (ts : nat -> test) (rank : nat -> nat) : Prop :=
  forall id d, In d (deps (ts id)) -> rank d < rank id.

(** One call of Test.Run, from ANY stored results and with ANY (even
    time-varying) checks: the result is PASS iff the check of this test was
    evaluated in this call and returned success without errors, and every
    implemented dependency is PASS. *)
Theorem C06_pass_iff :
  forall ts chk rank, acyclic ts rank ->
  forall fuel asdep s id s' new,
    run ts chk fuel asdep s id = Some s' -> trace s' = trace s ++ new ->
    (res s' id = RPass <->
     In (mkEv id asdep o_pass) new /\
     forall d, In d (deps (ts id)) -> implemented (ts d) = true -> res s' d = RPass).
Proof. exact pass_iff. Qed.
Print Assumptions C06_pass_iff.

(** An implemented dependency that is not PASS yields DEPENDENCY_FAILED and the
    check of the test is not evaluated in this call. *)
Theorem C06_dep_blocks :
  forall ts chk rank, acyclic ts rank ->
  forall fuel asdep s id s' new d,
    run ts chk fuel asdep s id = Some s' -> trace s' = trace s ++ new ->
    In d (deps (ts id)) -> implemented (ts d) = true -> res s' d <> RPass ->
    res s' id = RDepFailed /\ forall e, In e new -> ev_id e <> id.
Proof. exact dep_blocks. Qed.
Print Assumptions C06_dep_blocks.

(** Inside one call of Test.Run no check is evaluated twice. *)
Theorem C06_once_per_call :
  forall ts chk rank, acyclic ts rank ->
  forall fuel asdep s id s' new,
    run ts chk fuel asdep s id = Some s' -> trace s' = trace s ++ new ->
    NoDup (map ev_id new).
Proof. exact once_per_call. Qed.
Print Assumptions C06_once_per_call.

(** In a whole run (any list of tests, any order, repetitions allowed, any
    stored results at the start) every test is evaluated at most once AS A
    DEPENDENCY. *)
Theorem C06_dep_once :
  forall ts chk rank, acyclic ts rank ->
  forall fuel s order s' rs new,
    run_list ts chk fuel s order = Some (s', rs) -> trace s' = trace s ++ new ->
    NoDup (map ev_id (filter ev_dep new)).
Proof. exact dep_once. Qed.
Print Assumptions C06_dep_once.

(** ... but "each dependency is evaluated at most once per run" as the property
    states it is FALSE for the code: the caller's loop runs a test again although
    it was already run as a dependency.  Witness: test 0 depends on test 1, the
    caller runs [0; 1] (duplicate-free), deterministic checks, fresh state: the
    check of test 1 is evaluated twice.  Finding C06-rerun-dependency-at-toplevel. *)
Theorem C06_dep_once_total_refuted :
  exists ts chk rank order s' rs,
    acyclic ts rank /\ deterministic chk /\ NoDup order /\
    run_list ts chk 3 init_state order = Some (s', rs) /\ evals 1 (trace s') = 2.
Proof.
  destruct rerun_witness as (s' & rs & H1 & H2).
  exists ts2, chk_pass, rank2, [0; 1], s', rs.
  split; [exact ts2_acyclic|]. split; [intros id n m; reflexivity|].
  split; [repeat constructor; cbn; intuition discriminate|]. auto.
Qed.
Print Assumptions C06_dep_once_total_refuted.

(** With deterministic checks the double evaluation is harmless: after running
    any list in any order from a fresh state, every test that has a result is
    PASS iff its check passes and every implemented dependency is PASS, and is
    DEPENDENCY_FAILED whenever an implemented dependency is not PASS. *)
Theorem C06_final_consistent :
  forall ts chk rank, acyclic ts rank ->
  forall fuel order s' rs j,
    deterministic chk -> run_list ts chk fuel init_state order = Some (s', rs) ->
    res s' j <> RNotRun ->
    (res s' j = RPass <->
       classify (chk j 0) = RPass /\
       forall d, In d (deps (ts j)) -> implemented (ts d) = true -> res s' d = RPass)
    /\ ((exists d, In d (deps (ts j)) /\ implemented (ts d) = true /\ res s' d <> RPass) ->
        res s' j = RDepFailed).
Proof. exact final_consistent. Qed.
Print Assumptions C06_final_consistent.

(** ... and a stored verdict never changes when more tests are run. *)
Theorem C06_verdict_stable :
  forall ts chk rank, acyclic ts rank ->
  forall fuel o1 o2 s1 rs1 s2 rs2 j,
    deterministic chk ->
    run_list ts chk fuel init_state o1 = Some (s1, rs1) ->
    run_list ts chk fuel s1 o2 = Some (s2, rs2) ->
    res s1 j <> RNotRun -> res s2 j = res s1 j.
Proof. exact verdict_stable. Qed.
Print Assumptions C06_verdict_stable.

(** Without determinism the final report can be inconsistent: the verdict of a
    dependency flips when the caller's loop evaluates it again, and a test stays
    PASS although its implemented dependency ended as FAIL; RunTestsSilent even
    reports overall success when that dependency is not Required. *)
Theorem C06_final_consistent_refuted :
  exists ts chk rank s' rs s'',
    acyclic ts rank /\
    run_list ts chk 3 init_state [0; 1] = Some (s', rs) /\
    res s' 0 = RPass /\ In 1 (deps (ts 0)) /\ implemented (ts 1) = true /\ res s' 1 = RFail /\
    run_silent ts chk 3 init_state [0; 1] = Some (s'', SOk) /\ res s'' 0 = RPass /\ res s'' 1 = RFail.
Proof.
  destruct flip_witness as (s' & rs & A & B & C & D & E).
  destruct flip_witness_silent as (s'' & F & G & H).
  exists ts2, chk_flip, rank2, s', rs, s''.
  split; [exact ts2_acyclic|]. repeat split; auto.
Qed.
Print Assumptions C06_final_consistent_refuted.

(** The setting in which the harness applies the fault clause to ONE check
    (harness/cmd/c06/alone.go): the results of an earlier run are stored, every
    implemented dependency of [id] is PASS, [id] itself is run (again).  Then
    Test.Run enters no dependency and evaluates exactly the check of [id], once;
    the verdict is the classification of what that one evaluation returned --
    PASS iff it returned success without errors -- and no other stored result
    changes.  So in this setting every hardware access of the call is made by the
    check of [id], and a PASS can only come from that check: the runner never
    turns stored results into a PASS.  Holds for any stored results of the other
    tests, any (time-varying) checks, any fuel above zero, and needs no
    acyclicity because no dependency is entered. *)
Theorem C06_prefilled_check_alone :
  forall ts chk fuel asdep s id,
    (forall d, In d (deps (ts id)) -> implemented (ts d) = true -> res s d = RPass) ->
    let o := chk id (evals id (trace s)) in
    exists s', run ts chk (S fuel) asdep s id = Some s' /\
      trace s' = trace s ++ [mkEv id asdep o] /\
      res s' id = classify o /\
      (res s' id = RPass <-> o = o_pass) /\
      (forall j, j <> id -> res s' j = res s j).
Proof. exact prefilled_check_alone. Qed.
Print Assumptions C06_prefilled_check_alone.

(** RunTestsSilent reports overall success only if every listed test that is
    Required and implemented is PASS in the final state (any checks, any stored
    results at the start, repetitions allowed). *)
Theorem C06_silent_sound :
  forall ts chk rank, acyclic ts rank ->
  forall order fuel s s',
    run_silent ts chk fuel s order = Some (s', SOk) ->
    forall i, In i order -> required (ts i) = true -> implemented (ts i) = true -> res s' i = RPass.
Proof. exact silent_sound. Qed.
Print Assumptions C06_silent_sound.

(** Acyclic graphs: Test.Run terminates (fuel above the rank of the test
    suffices; with n tests ranks can be chosen below n). *)
Theorem C06_terminates :
  forall ts chk rank, acyclic ts rank ->
  forall fuel id, rank id < fuel ->
  forall asdep s, exists s', run ts chk fuel asdep s id = Some s'.
Proof. exact run_total. Qed.
Print Assumptions C06_terminates.

(** Cyclic graphs are excluded above by hypothesis; this is what happens on them. *)
Theorem C06_cycle_diverges :
  forall chk fuel asdep s, res s 0 = RNotRun -> res s 1 = RNotRun ->
    run cyc1 chk fuel asdep s 0 = None /\
    run cyc2 chk fuel asdep s 0 = None /\ run cyc2 chk fuel asdep s 1 = None.
Proof.
  intros chk fuel asdep s H0 H1. split; [now apply run_cycle_diverges|now apply run_cycle2_diverges].
Qed.
Print Assumptions C06_cycle_diverges.

(** ** the hypotheses are satisfiable by non-trivial values *)

(** a diamond 0 -> {1,2} -> 3 where test 2 returns an internal error *)
Definition ex_ts : nat -> test := fun i =>
  match i with
  | 0 => mkTest true Implemented [1; 2]
  | 1 => mkTest true Implemented [3]
  | 2 => mkTest true PartlyImplemented [3]
  | _ => mkTest false Implemented []
  end.
Definition ex_rank : nat -> nat := fun i => match i with 0 => 2 | 1 => 1 | 2 => 1 | _ => 0 end.
Definition ex_chk : nat -> nat -> outcome3 := fun i _ => match i with 2 => (true, false, true) | _ => o_pass end.

Example ex_acyclic : acyclic ex_ts ex_rank.
Proof.
  intros [|[|[|id]]] d; cbn; intro H; repeat (destruct H as [<-|H]; [cbn; lia|]); contradiction.
Qed.

(** Run(0): 3 and 1 pass, 2 is INTERNAL_ERROR, so 0 is DEPENDENCY_FAILED, its
    check is not evaluated, and 3 was evaluated once although two tests depend on it *)
Example ex_run :
  exists s', run ex_ts ex_chk 4 false init_state 0 = Some s' /\
    res s' 0 = RDepFailed /\ res s' 1 = RPass /\ res s' 2 = RIntErr /\ res s' 3 = RPass /\
    map ev_id (trace s') = [3; 1; 2] /\ blame s' 0 = Some 2.
Proof. eexists. split; [vm_compute; reflexivity|]. repeat split; vm_compute; reflexivity. Qed.

(** Run(1) alone passes: the left-hand side of [C06_pass_iff] is inhabited *)
Example ex_run_pass :
  exists s', run ex_ts ex_chk 4 false init_state 1 = Some s' /\ res s' 1 = RPass /\
    trace s' = [mkEv 3 true o_pass; mkEv 1 false o_pass].
Proof. eexists. split; [vm_compute; reflexivity|]. split; vm_compute; reflexivity. Qed.

(** the hypothesis of [C06_prefilled_check_alone] is satisfiable with a non-trivial
    state: after Run(1) (3 and 1 PASS), Run(1) again evaluates only the check of
    1 -- the check of 3 is not evaluated a second time *)
Example ex_prefilled :
  exists s1 s2, run ex_ts ex_chk 4 false init_state 1 = Some s1 /\
    (forall d, In d (deps (ex_ts 1)) -> implemented (ex_ts d) = true -> res s1 d = RPass) /\
    run ex_ts ex_chk 4 false s1 1 = Some s2 /\
    trace s2 = [mkEv 3 true o_pass; mkEv 1 false o_pass; mkEv 1 false o_pass].
Proof.
  eexists. eexists. split; [vm_compute; reflexivity|]. split.
  - intros d [<-|[]] _. vm_compute. reflexivity.
  - split; vm_compute; reflexivity.
Qed.

(** the silent runner stops at the first required failure and says so *)
Example ex_silent :
  exists s', run_silent ex_ts ex_chk 4 init_state [3; 1; 0; 2] = Some (s', SFail 0 RDepFailed).
Proof. eexists. vm_compute. reflexivity. Qed.

Example ex_silent_ok :
  exists s', run_silent ex_ts ex_chk 4 init_state [3; 1] = Some (s', SOk) /\ res s' 1 = RPass.
Proof. eexists. split; vm_compute; reflexivity. Qed.

(** * The runner over failing hardware (Model/RunnerFault.v) *)

(** the two fault patterns of the property's quantifier, calls counted from 1 *)
Theorem C06_fault_patterns :
  forall k n : nat,
    (fails (FFromK k) n = true <-> k <= n) /\ (fails (FOnlyK k) n = true <-> n = k) /\
              fails FNone n = false.
Proof. intros k n. split; [apply fails_from_k|]. split; [apply fails_only_k|reflexivity]. Qed.
Print Assumptions C06_fault_patterns.

(** A new clause about the plain runner (any oracle, any stored results): in one
    call of Test.Run the stored result of EVERY test whose check was evaluated in
    the call -- the test itself and every dependency entered -- is the
    classification of what that evaluation returned (nothing overwrites it
    later in the call). *)
Theorem C06_event_explains_result :
  forall ts chk rank, acyclic ts rank ->
  forall fuel asdep s id s' new,
    run ts chk fuel asdep s id = Some s' -> trace s' = trace s ++ new ->
    forall e, In e new -> res s' (ev_id e) = classify (ev_out e).
Proof. exact run_event_res. Qed.
Print Assumptions C06_event_explains_result.

(** The runner over hardware IS the runner of the first half of this file: its
    stored results, blames and evaluations are those of [run] for the oracle
    that answers what the checks returned in this execution; so every theorem
    above ([C06_pass_iff], [C06_dep_blocks], [C06_once_per_call], ...) holds for
    it, for any check programs and any hardware. *)
Theorem C06_fault_runner_same :
  forall D ts (progs : nat -> nat -> prog D) hw fuel asdep s id s',
    run_h ts progs hw fuel asdep s id = Some s' ->
    exists chk, run ts chk fuel asdep (hs s) id = Some (hs s').
Proof. intros. eexists. eapply run_h_as_run; eauto. Qed.
Print Assumptions C06_fault_runner_same.

(** One check on any hardware: after a failed access a fail-closed check does
    not return success ... *)
Theorem C06_fault_check_fail_closed :
  forall D (p : prog D), fail_closed p ->
  forall hw c, In true (snd (exec p hw c)) -> fst (exec p hw c) <> o_pass.
Proof. exact exec_fail_closed. Qed.
Print Assumptions C06_fault_check_fail_closed.

(** ... and a check that converts hwapi errors stops at the first failed access
    and returns exactly an internal error. *)
Theorem C06_fault_check_converts :
  forall D (p : prog D), converts p ->
  forall hw c, In true (snd (exec p hw c)) ->
    classify (fst (exec p hw c)) = RIntErr /\ exists n, snd (exec p hw c) = repeat false n ++ [true].
Proof. exact exec_converts. Qed.
Print Assumptions C06_fault_check_converts.

(** Through the runner, any graph, any stored results, ANY hardware behaviour
    (every fault pattern): a test whose check was handed a failed access in
    this call is not PASS.  [_partial]: the discipline of the check programs is
    a hypothesis; for the real checks it is enumerated by the harness. *)
Theorem C06_fault_no_pass_after_failed_access_partial :
  forall D ts (progs : nat -> nat -> prog D) hw rank, acyclic ts rank ->
  (forall id n, fail_closed (progs id n)) ->
  forall fuel asdep s id s' newh,
    run_h ts progs hw fuel asdep s id = Some s' -> htrace s' = htrace s ++ newh ->
    forall h, In h newh -> In true (h_flags h) -> res (hs s') (h_id h) <> RPass.
Proof. exact h_failed_access_not_pass. Qed.
Print Assumptions C06_fault_no_pass_after_failed_access_partial.

(** With converting checks the stored result is INTERNAL_ERROR. *)
Theorem C06_fault_internal_error_partial :
  forall D ts (progs : nat -> nat -> prog D) hw rank, acyclic ts rank ->
  (forall id n, converts (progs id n)) ->
  forall fuel asdep s id s' newh,
    run_h ts progs hw fuel asdep s id = Some s' -> htrace s' = htrace s ++ newh ->
    forall h, In h newh -> In true (h_flags h) -> res (hs s') (h_id h) = RIntErr.
Proof. exact h_failed_access_internal_error. Qed.
Print Assumptions C06_fault_internal_error_partial.

(** PASS under faults: the check of the test ran in this call, EVERY hardware
    access it made succeeded, it returned success without errors, and every
    implemented dependency is PASS. *)
Theorem C06_fault_pass_clean_partial :
  forall D ts (progs : nat -> nat -> prog D) hw rank, acyclic ts rank ->
  (forall id n, fail_closed (progs id n)) ->
  forall fuel asdep s id s' newh,
    run_h ts progs hw fuel asdep s id = Some s' -> htrace s' = htrace s ++ newh ->
    res (hs s') id = RPass ->
    (exists h, In h newh /\ h_id h = id /\ h_dep h = asdep /\ h_out h = o_pass /\
               forall b, In b (h_flags h) -> b = false) /\
    forall d, In d (deps (ts id)) -> implemented (ts d) = true -> res (hs s') d = RPass.
Proof. exact h_pass_clean. Qed.
Print Assumptions C06_fault_pass_clean_partial.

(** A failed access inside the check of an implemented dependency: the
    dependant is DEPENDENCY_FAILED and its check is not evaluated. *)
Theorem C06_fault_dependant_blocked_partial :
  forall D ts (progs : nat -> nat -> prog D) hw rank, acyclic ts rank ->
  (forall id n, fail_closed (progs id n)) ->
  forall fuel asdep s id s' newh d h,
    run_h ts progs hw fuel asdep s id = Some s' -> htrace s' = htrace s ++ newh ->
    In d (deps (ts id)) -> implemented (ts d) = true ->
    In h newh -> h_id h = d -> In true (h_flags h) ->
    res (hs s') id = RDepFailed /\ forall h', In h' newh -> h_id h' <> id.
Proof. exact h_failed_access_blocks. Qed.
Print Assumptions C06_fault_dependant_blocked_partial.

(** "When every hardware access fails no hardware-dependent check passes":
    every call fails (pattern "k-th and all later" with k <= 1 over any
    platform) -- no test whose check made an access is PASS. *)
Theorem C06_fault_total_failure_partial :
  forall D ts (progs : nat -> nat -> prog D) base k rank, acyclic ts rank -> k <= 1 ->
  (forall id n, fail_closed (progs id n)) ->
  forall fuel asdep s id s' newh,
    run_h ts progs (inject (FFromK k) base) fuel asdep s id = Some s' -> htrace s' = htrace s ++ newh ->
    forall h, In h newh -> h_flags h <> [] -> res (hs s') (h_id h) <> RPass.
Proof.
  intros D ts progs base k rank Hr Hk Hfc fuel asdep s id s' newh.
  apply (h_total_failure D ts progs _ rank Hr Hfc). now apply inject_total.
Qed.
Print Assumptions C06_fault_total_failure_partial.

(** Termination over hardware on acyclic graphs (check programs are
    well-founded trees: a check terminates by construction in this model). *)
Theorem C06_fault_terminates :
  forall D ts (progs : nat -> nat -> prog D) hw rank, acyclic ts rank ->
  forall fuel id, rank id < fuel ->
  forall asdep s, exists s', run_h ts progs hw fuel asdep s id = Some s'.
Proof. exact run_h_total. Qed.
Print Assumptions C06_fault_terminates.

(** Without the discipline the clauses fail.  Witness: test 0 reads twice and
    does not look at the error of the second read, test 1 depends on it and
    makes no access; pattern "only the 2nd call fails": test 0 is PASS although
    its second access failed, and the dependant runs and passes. *)
Theorem C06_fault_swallowed_error_refuted :
  exists ts (progs : nat -> nat -> prog unit) rank s',
    acyclic ts rank /\ ~ fail_closed (progs 0 0) /\
    run_h ts progs (inject (FOnlyK 2) (fun _ => tt)) 2 false (init_hstate init_state) 1 = Some s' /\
    res (hs s') 0 = RPass /\ res (hs s') 1 = RPass /\
    htrace s' = [mkHev 0 true 0 [false; true] o_pass; mkHev 1 false 2 [] o_pass] /\
    swallows (htrace s') = [0].
Proof.
  destruct swallow_witness as (s' & A & B & C & E & F).
  exists sw_ts, sw_progs, sw_rank, s'.
  split; [exact sw_acyclic|]. split; [exact swallow_not_fail_closed|]. auto.
Qed.
Print Assumptions C06_fault_swallowed_error_refuted.

(** ** the hypotheses are satisfiable by non-trivial values *)

(** a check with two accesses that converts a failed access into an internal error
    and otherwise decides on the data *)
Definition ex_good : prog nat :=
  Acc (fun r1 => match r1 with
                 | None => Ret (false, false, true)
                 | Some a => Acc (fun r2 => match r2 with
                                            | None => Ret (false, false, true)
                                            | Some b => if Nat.eqb a b then Ret o_pass else Ret (false, true, false)
                                            end)
                 end).

Example ex_good_converts : converts ex_good /\ fail_closed ex_good.
Proof.
  assert (C : converts ex_good).
  { constructor; [now exists false|]. intro a. constructor; [now exists false|].
    intro b. destruct (Nat.eqb a b); constructor. }
  split; [exact C|now apply converts_fail_closed].
Qed.

(** the graph of the refutation with the disciplined check: healthy it passes and
    so does the dependant; under "only the 2nd call fails" test 0 is
    INTERNAL_ERROR after two accesses (the second one failed) and the dependant
    is DEPENDENCY_FAILED without being evaluated *)
Definition ex_progs : nat -> nat -> prog nat := fun i _ => match i with O => ex_good | _ => Ret o_pass end.

Example ex_good_discipline : forall id n, fail_closed (ex_progs id n).
Proof. intros [|id] n; cbn; [apply ex_good_converts|constructor]. Qed.

Example ex_fault_healthy :
  exists s', run_h sw_ts ex_progs (inject FNone (fun _ => 7)) 2 false (init_hstate init_state) 1 = Some s' /\
    res (hs s') 0 = RPass /\ res (hs s') 1 = RPass /\ hcalls s' = 2.
Proof. eexists. split; [vm_compute; reflexivity|]. repeat split; vm_compute; reflexivity. Qed.

Example ex_fault_only_2 :
  exists s', run_h sw_ts ex_progs (inject (FOnlyK 2) (fun _ => 7)) 2 false (init_hstate init_state) 1 = Some s' /\
    res (hs s') 0 = RIntErr /\ res (hs s') 1 = RDepFailed /\
    htrace s' = [mkHev 0 true 0 [false; true] (false, false, true)] /\ swallows (htrace s') = [].
Proof. eexists. split; [vm_compute; reflexivity|]. repeat split; vm_compute; reflexivity. Qed.
