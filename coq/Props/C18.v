(** C18 — Boot Guard manifests: signing verifies, tampering is rejected, the KM
    binds the BPM key, wrapped private keys open only with the right password.
    Only the property theorems, each closed by [exact].

    The theorems are about the suite's GLUE (Model/Manifest.v): what it
    serialises, where it cuts, which message it hands to the signature scheme and
    which it checks, how it compares the KM hash with the BPM key, how it wraps a
    private key.  RSA, AES-GCM, SHA, PEM/x509 and fiano's generated codecs are
    fields of the records [env] / [kenv] and the parameter [H]; every assumption
    about them is a visible hypothesis:

    - [scheme_sound E]  : a signature verifies on the message it was made on, when
                          checked under the digest the scheme itself used;
    - [scheme_ideal E]  : it verifies on no other message (IDEAL signature);
    - [store_laws E]    : storing key and signature stores them;
    - [canonical_at E g d file] : re-serialising the parsed file reproduces the
                          file's own signed portion (a fact about fiano's codecs —
                          TESTED by the bit-flip sweep of the harness, not proved,
                          and FALSE for CBnT: see C18_tamper_refuted);
    - [aead_correct K], [aead_wrong_key K], [ct_not_pem K] : AES-GCM opens what
                          it sealed, under no other key, and a wrapped file does
                          not parse as a PEM key.
    Section 1d covers the hash algorithm of a CBnT signature when the caller names
    one and when the caller leaves it to the scheme (null / unknown hash NAMES in
    the signing entry points, [parse_alg] / [sign_entry]); section 3c makes the
    dependence of placement and binding on EVERY byte of key data of any length
    (RSA-2048, RSA-3072) explicit and characterises keys that are not RSA keys.
    Section 3b covers multi-step use of ONE key-manifest object (GetBPMPubHash on
    a KM that already holds a digest, was parsed from a signed file, was signed
    in between ...): theorems over all prior states and all histories.
    Section 2b (Model/ManifestOrder.v) goes below [parse]/[ser] for boot policy
    manifests: a file as a sequence of ELEMENTS, the element loop of fiano's
    generated reader with its package-level order switch, the order the writer
    writes in, and the PROCESS the suite runs in -- the two switches as process
    state carried through any history of calls of the package's entry points
    (none of which writes them) and through the assignment the tools' main()
    makes.  Theorems: the verdict on a file does not depend on the history;
    with the switch on, an accepted file of known elements IS the signed
    sequence (exchanged / moved / repeated / missing elements are refused, after
    any history); chunks with an unknown structure ID are invisible (refuted
    clause, open finding), and the tools' default configuration accepts a
    permuted CBnT manifest (refuted clause, open finding).
    Section 5 (Model/ManifestRead.v) is about what the constructors NewKM / NewBPM
    hand to the codec: the WHOLE file, whatever its length (signed files range
    from half a KiB to more than 64 KiB) and whatever bytes it ends with (a signed
    file ends with the signature value); the verdict depends on nothing else, and
    a constructor that shortens its input -- a length limit, cutting off filler
    bytes at the end -- refuses files the suite has just signed.
    Which of the glue conditions fail in the real code is recorded by the
    [_refuted] theorems and the KNOWN_FINDINGS entries of C18.

    Repaired in /repo and restated here as full theorems: the BG 1.0 SignBPM cut
    (ee4d7c9: C18_cut_agree, C18_sign_verify_bg10), the fail-open of
    BPMKeyMatchKMHash (24a2a40: C18_keymatch_alone_bg/_cbnt,
    C18_keymatch_is_binding_bg/_cbnt, C18_keymatch_closed_bg/_cbnt), the panic of
    DecryptPrivKey on short input (4423a4c: C18_decrypt_short_input_is_error,
    C18_decrypt_never_panics). *)
From CSS Require Import Lib.Base Lib.Cases Model.Manifest Proofs.Manifest Model.ManifestOrder Proofs.ManifestOrder Model.ManifestRead Proofs.ManifestRead.
From Coq Require Import Sorting.Permutation.
From Coq Require Strings.String.
Import String.StringSyntax.

(** * 0. Which generation a file is read as (bgheader.DetectBGV) *)

Theorem C18_detect : forall file g,
  detect file = Some g <->
  (9 <= length file)%nat /\
  match g with V20 => 32 <= nth 8 file 0 | V10 => 16 <= nth 8 file 0 < 32 end.
Proof. exact detect_spec. Qed.
Print Assumptions C18_detect.

(** * 1. A manifest signed by the suite verifies with the suite *)

(** SignX and VerifyX cut a structure at the same offset, for both generations and
    both documents (BG 1.0 BPM: PMSEOffset() at both sites since ee4d7c9). *)
Theorem C18_cut_agree :
  forall (E : env) g d (m : M E), sign_cut E g d m = verify_cut E g d m.
Proof. exact cut_agree. Qed.
Print Assumptions C18_cut_agree.

(** PARTIAL: besides the assumptions on the third-party parts (sound scheme, the
    signed file parses back to the structure that was serialised, storing key and
    signature does not move the signature offset), two conditions on the glue are
    needed, and each of them fails somewhere in the real code for CBnT manifests
    (theorems 1b, 1c):
    (stable) storing key and signature leaves the signed prefix untouched;
    (label)  the hash label stored with the signature is the digest the scheme signed.
    (The third condition of earlier versions, "VerifyX cuts where SignX cut", is
    now the theorem C18_cut_agree.) *)
Theorem C18_sign_verify_partial :
  forall (E : env) g d (m : M E) sch req (sk : SK E) sd,
  scheme_sound E -> store_laws E ->
  let m0 := prep E g d m in
  let m' := signed_struct E g d m sch req sk sd in
  sign_raw E sk sch (signed_message E g d m0) = Some sd ->
  detect (ser E m') = Some g ->
  parse E g d (ser E m') = Some m' ->
  (* offset *) sign_cut E g d m' = sign_cut E g d m0 ->
  (* stable *) firstn (sign_cut E g d m0) (ser E m') = firstn (sign_cut E g d m0) (ser E m0) ->
  (* label *)  (g = V10 \/ stored_hash g sch (req_hash E d m0 req) = scheme_hash sch) ->
  sign_manifest E g d m sch req sk = Ok (ser E m') /\
  verify_file E d (ser E m') = Ok tt.
Proof. exact sign_verify_struct. Qed.
Print Assumptions C18_sign_verify_partial.

(** the hypotheses are satisfiable by a non-trivial instance *)
Example C18_sign_verify_example :
  let m := toy_unsigned 33 11 in
  let sd := 5 :: AlgRSAPSS :: [0;0;0;0;0;0;0;0;33;13;11;1;2] in
  let m' := signed_struct Toy V20 BPM m AlgRSAPSS AlgSHA384 5 sd in
  scheme_sound Toy /\ store_laws Toy /\
  sign_raw Toy 5 AlgRSAPSS (signed_message Toy V20 BPM (prep Toy V20 BPM m)) = Some sd /\
  detect (ser Toy m') = Some V20 /\ parse Toy V20 BPM (ser Toy m') = Some m' /\
  sign_cut Toy V20 BPM m' = sign_cut Toy V20 BPM (prep Toy V20 BPM m) /\
  firstn (sign_cut Toy V20 BPM (prep Toy V20 BPM m)) (ser Toy m') =
    firstn (sign_cut Toy V20 BPM (prep Toy V20 BPM m)) (ser Toy (prep Toy V20 BPM m)) /\
  stored_hash V20 AlgRSAPSS (req_hash Toy BPM (prep Toy V20 BPM m) AlgSHA384) = scheme_hash AlgRSAPSS /\
  verify_file Toy BPM (ser Toy m') = Ok tt.
Proof. exact sign_verify_example. Qed.

(** 1a. Boot Guard 1.0, KM and BPM alike: NO condition on the glue is left (BG 1.0
    verification ignores the stored label, and the cuts agree): a manifest signed
    by the suite verifies with the suite, under the third-party assumptions alone.
    (Refuted for BPMs before the repair ee4d7c9 of finding C18-bg10-signbpm-cut.) *)
Theorem C18_sign_verify_bg10 :
  forall (E : env) d (m : M E) sch req (sk : SK E) sd,
  scheme_sound E -> store_laws E ->
  let m0 := prep E V10 d m in
  let m' := signed_struct E V10 d m sch req sk sd in
  sign_raw E sk sch (signed_message E V10 d m0) = Some sd ->
  detect (ser E m') = Some V10 ->
  parse E V10 d (ser E m') = Some m' ->
  (* offset *) sign_cut E V10 d m' = sign_cut E V10 d m0 ->
  (* stable *) firstn (sign_cut E V10 d m0) (ser E m') = firstn (sign_cut E V10 d m0) (ser E m0) ->
  sign_manifest E V10 d m sch req sk = Ok (ser E m') /\
  verify_file E d (ser E m') = Ok tt.
Proof. exact sign_verify_bg10. Qed.
Print Assumptions C18_sign_verify_bg10.

(** the hypotheses are satisfiable, in an environment where the offset the old code
    cut at (PMSE.KeySignatureOffset()) differs from PMSEOffset() *)
Example C18_sign_verify_bg10_bpm_example :
  let m := toy_unsigned 16 11 in
  let sd := 5 :: AlgRSASSA :: [0;0;0;0;0;0;0;0;16;13;11;1;2] in
  let m' := signed_struct Toy V10 BPM m AlgRSASSA AlgSHA256 5 sd in
  env_reasonable Toy /\
  pmse_ks_off Toy (prep Toy V10 BPM m) <> pmse_off Toy (prep Toy V10 BPM m) /\
  sign_raw Toy 5 AlgRSASSA (signed_message Toy V10 BPM (prep Toy V10 BPM m)) = Some sd /\
  detect (ser Toy m') = Some V10 /\ parse Toy V10 BPM (ser Toy m') = Some m' /\
  sign_cut Toy V10 BPM m' = sign_cut Toy V10 BPM (prep Toy V10 BPM m) /\
  firstn (sign_cut Toy V10 BPM (prep Toy V10 BPM m)) (ser Toy m') =
    firstn (sign_cut Toy V10 BPM (prep Toy V10 BPM m)) (ser Toy (prep Toy V10 BPM m)) /\
  sign_manifest Toy V10 BPM m AlgRSASSA AlgSHA256 5 = Ok (ser Toy m') /\
  verify_file Toy BPM (ser Toy m') = Ok tt.
Proof. exact sign_verify_bg10_bpm_example. Qed.

(** 1b. (label) fails for CBnT when the requested hash is not the one the scheme
    hard-wires (RSASSA+SHA384, RSAPSS+SHA256, anything+SHA1/SM3).
    [finding C18-cbnt-sign-hash-label] *)
Theorem C18_sign_verify_hash_label_refuted :
  exists (E : env) (d : doc) (m : M E) (sch req : Z) (sk : SK E) (file : bytes),
    env_reasonable E /\
    stored_hash V20 sch (req_hash E d (prep E V20 d m) req) <> scheme_hash sch /\
    sign_manifest E V20 d m sch req sk = Ok file /\
    verify_file E d file = Err 3.
Proof. exact sign_verify_hash_label_witness. Qed.
Print Assumptions C18_sign_verify_hash_label_refuted.

(** 1c. (stable) fails for a CBnT KM whose PubKeyHashAlg is null: SetSignature
    copies the signature's hash algorithm into that (signed) field after signing.
    [finding C18-cbnt-km-null-pkhash] *)
Theorem C18_sign_verify_null_pkhash_refuted :
  exists (E : env) (m : M E) (sk : SK E) (file : bytes),
    env_reasonable E /\ is_null (pkhash E m) = true /\
    stored_hash V20 AlgRSASSA (req_hash E KM (prep E V20 KM m) 0) = scheme_hash AlgRSASSA /\
    sign_manifest E V20 KM m AlgRSASSA 0 sk = Ok file /\
    verify_file E KM file = Err 3.
Proof. exact sign_verify_null_pkhash_witness. Qed.
Print Assumptions C18_sign_verify_null_pkhash_refuted.

(** 1d. The hash algorithm of a CBnT signature when the caller names one, and when
    the caller leaves it to the scheme (hash name "ALGNULL" / "ALGUNKNOWN", or a KM
    whose PubKeyHashAlg is null).

    The suite hands the request to SetSignature AS IT IS: an explicit algorithm
    is recorded unchanged, a null one stays null and fiano then records the digest
    the scheme really used. *)
Theorem C18_hash_label_follows_request :
  forall sch req, is_null req = false -> stored_hash V20 sch req = req.
Proof. exact stored_hash_explicit. Qed.
Print Assumptions C18_hash_label_follows_request.

Theorem C18_hash_label_null_follows_scheme :
  forall sch req, is_null req = true -> stored_hash V20 sch req = scheme_hash sch.
Proof. exact stored_hash_null. Qed.
Print Assumptions C18_hash_label_null_follows_scheme.

(** Condition (label) of C18_sign_verify_partial holds EXACTLY for the null requests
    and for the request naming the scheme's own digest (RSASSA+SHA256,
    RSAPSS+SHA384); every other pair is the open finding C18-cbnt-sign-hash-label. *)
Theorem C18_hash_label_condition_iff :
  forall sch req,
  stored_hash V20 sch req = scheme_hash sch <-> is_null req = true \/ req = scheme_hash sch.
Proof. exact hash_label_ok_iff. Qed.
Print Assumptions C18_hash_label_condition_iff.

(** ... so the null requests are the only ones that are right for BOTH schemes, *)
Theorem C18_only_null_request_fits_both_schemes :
  forall req,
  (stored_hash V20 AlgRSASSA req = scheme_hash AlgRSASSA /\
   stored_hash V20 AlgRSAPSS req = scheme_hash AlgRSAPSS) <-> is_null req = true.
Proof. exact only_null_fits_both_schemes. Qed.
Print Assumptions C18_only_null_request_fits_both_schemes.

(** ... and a glue that replaced a null request by ANY fixed explicit algorithm
    before signing (a "default") would store a wrong label for one of the two
    schemes: the null request has to reach SetSignature untouched. *)
Theorem C18_explicit_hash_default_breaks_a_scheme :
  forall dflt req, is_null dflt = false -> is_null req = true ->
  exists sch, (sch = AlgRSASSA \/ sch = AlgRSAPSS) /\
              stored_hash_defaulting dflt V20 sch req <> scheme_hash sch.
Proof. exact explicit_default_breaks_a_scheme. Qed.
Print Assumptions C18_explicit_hash_default_breaks_a_scheme.

(** CBnT BPM with a null hash request or the scheme's own digest: sign-then-verify
    under the third-party assumptions alone, no condition on the glue left. *)
Theorem C18_sign_verify_cbnt_bpm_fitting :
  forall (E : env) (m : M E) sch req (sk : SK E) sd,
  scheme_sound E -> store_laws E ->
  is_null req = true \/ req = scheme_hash sch ->
  let m0 := prep E V20 BPM m in
  let m' := signed_struct E V20 BPM m sch req sk sd in
  sign_raw E sk sch (signed_message E V20 BPM m0) = Some sd ->
  detect (ser E m') = Some V20 ->
  parse E V20 BPM (ser E m') = Some m' ->
  (* offset *) sign_cut E V20 BPM m' = sign_cut E V20 BPM m0 ->
  (* stable *) firstn (sign_cut E V20 BPM m0) (ser E m') = firstn (sign_cut E V20 BPM m0) (ser E m0) ->
  sign_manifest E V20 BPM m sch req sk = Ok (ser E m') /\
  verify_file E BPM (ser E m') = Ok tt.
Proof. exact sign_verify_cbnt_bpm_fitting. Qed.
Print Assumptions C18_sign_verify_cbnt_bpm_fitting.

(** The NAMES (bg./cbnt.GetAlgFromString as [parse_alg]; ASCII, any letter case):
    "ALGNULL" and "ALGUNKNOWN" are known to both generations and stand for a null
    algorithm, and no other name does. *)
Theorem C18_null_hash_names :
  forall g name,
  (map upper name = bs "ALGNULL" -> parse_alg g name = Some AlgNull) /\
  (map upper name = bs "ALGUNKNOWN" -> parse_alg g name = Some AlgUnknown) /\
  is_null AlgNull = true /\ is_null AlgUnknown = true.
Proof.
  intros g name. split; [exact (parse_alg_null_name g name)|].
  split; [exact (parse_alg_unknown_name g name)|]. split; reflexivity.
Qed.
Print Assumptions C18_null_hash_names.

Theorem C18_null_hash_names_only :
  forall g name a, parse_alg g name = Some a -> is_null a = true ->
  map upper name = bs "ALGNULL" \/ map upper name = bs "ALGUNKNOWN".
Proof. exact parse_alg_null_inv. Qed.
Print Assumptions C18_null_hash_names_only.

(** The entry points with names ([sign_entry]): a name the table of the manifest's
    generation does not know is an error (for the hash name: CBnT SignBPM only);
    every entry point but the CBnT SignBPM never looks at the hash name. *)
Theorem C18_sign_entry_unknown_name_is_error :
  forall (E : env) g d (m : M E) sname hname (sk : SK E),
  parse_alg g sname = None \/ (g = V20 /\ d = BPM /\ parse_alg V20 hname = None) ->
  sign_entry E g d m sname hname sk = Err 2.
Proof. exact sign_entry_unknown_name. Qed.
Print Assumptions C18_sign_entry_unknown_name_is_error.

Theorem C18_sign_entry_ignores_hash_name :
  forall (E : env) g d (m : M E) sname h1 h2 (sk : SK E),
  ~ (g = V20 /\ d = BPM) ->
  sign_entry E g d m sname h1 sk = sign_entry E g d m sname h2 sk.
Proof. exact sign_entry_ignores_hash_name. Qed.
Print Assumptions C18_sign_entry_ignores_hash_name.

(** SignBPM (CBnT) called with a hash NAME that stands for a null algorithm: the
    manifest signs and verifies for every scheme the signer accepts, and the label
    stored is the scheme's own digest. *)
Theorem C18_sign_entry_null_hash_name :
  forall (E : env) (m : M E) sname hname sch req (sk : SK E) sd,
  scheme_sound E -> store_laws E ->
  parse_alg V20 sname = Some sch ->
  parse_alg V20 hname = Some req -> is_null req = true ->
  let m0 := prep E V20 BPM m in
  let m' := signed_struct E V20 BPM m sch req sk sd in
  sign_raw E sk sch (signed_message E V20 BPM m0) = Some sd ->
  detect (ser E m') = Some V20 ->
  parse E V20 BPM (ser E m') = Some m' ->
  (* offset *) sign_cut E V20 BPM m' = sign_cut E V20 BPM m0 ->
  (* stable *) firstn (sign_cut E V20 BPM m0) (ser E m') = firstn (sign_cut E V20 BPM m0) (ser E m0) ->
  sign_entry E V20 BPM m sname hname sk = Ok (ser E m') /\
  verify_file E BPM (ser E m') = Ok tt /\
  sg_hash (mk_sig sch (stored_hash V20 sch req) sd) = scheme_hash sch.
Proof. exact sign_entry_null_hash_name. Qed.
Print Assumptions C18_sign_entry_null_hash_name.

(** the hypotheses are satisfiable (RSAPSS, "AlgNull"); the same request with the
    null algorithm replaced by SHA256 before signing is rejected *)
Example C18_sign_entry_null_hash_name_example :
  let m := toy_unsigned 33 11 in
  let sd := 5 :: AlgRSAPSS :: [0;0;0;0;0;0;0;0;33;13;11;1;2] in
  let m' := signed_struct Toy V20 BPM m AlgRSAPSS AlgNull 5 sd in
  parse_alg V20 (bs "rsapss") = Some AlgRSAPSS /\ parse_alg V20 (bs "AlgNull") = Some AlgNull /\
  is_null AlgNull = true /\
  sign_raw Toy 5 AlgRSAPSS (signed_message Toy V20 BPM (prep Toy V20 BPM m)) = Some sd /\
  detect (ser Toy m') = Some V20 /\ parse Toy V20 BPM (ser Toy m') = Some m' /\
  sign_entry Toy V20 BPM m (bs "rsapss") (bs "AlgNull") 5 = Ok (ser Toy m') /\
  verify_file Toy BPM (ser Toy m') = Ok tt /\
  verify_file Toy BPM (ser Toy (signed_struct Toy V20 BPM m AlgRSAPSS AlgSHA256 5 sd)) = Err 3.
Proof. exact sign_entry_null_hash_name_example. Qed.

(** * 2. Tampering *)

(** PARTIAL (ideal scheme): a file is accepted only if the signed prefix of the
    RE-SERIALISED parsed structure is the message that was signed.  Nothing is
    said about the bytes of the file itself: VerifyKM/VerifyBPM never look at them. *)
Theorem C18_tamper_partial :
  forall (E : env) d file g (m : M E) (sk : SK E) sch msg sd,
  scheme_ideal E ->
  detect file = Some g -> parse E g d file = Some m ->
  key_of E m = pub E sk ->
  sign_raw E sk sch msg = Some sd ->
  sg_scheme (sig_of E m) = sch -> sg_data (sig_of E m) = sd ->
  verify_file E d file = Ok tt ->
  verified_message E g d m = msg.
Proof. exact tamper_partial. Qed.
Print Assumptions C18_tamper_partial.

(** ... hence, for an accepted file, "the signature is valid for the signed portion
    exactly as stored" is EQUIVALENT to canonicity of the codec at that file. *)
Theorem C18_tamper_canonical_iff_partial :
  forall (E : env) d file g (m : M E) (sk : SK E) sch msg sd,
  scheme_ideal E ->
  detect file = Some g -> parse E g d file = Some m ->
  key_of E m = pub E sk ->
  sign_raw E sk sch msg = Some sd ->
  sg_scheme (sig_of E m) = sch -> sg_data (sig_of E m) = sd ->
  verify_file E d file = Ok tt ->
  (firstn (verify_cut E g d m) file = msg <-> canonical_at E g d file).
Proof. exact tamper_canonical_iff. Qed.
Print Assumptions C18_tamper_canonical_iff_partial.

(** ... and a file whose stored signed portion is not the signed message (any bit
    flipped in it) is rejected wherever the codec is canonical. *)
Theorem C18_bitflip_rejected_partial :
  forall (E : env) d file' g (m' : M E) (sk : SK E) sch msg sd,
  scheme_ideal E ->
  detect file' = Some g -> parse E g d file' = Some m' ->
  key_of E m' = pub E sk ->
  sign_raw E sk sch msg = Some sd ->
  sg_scheme (sig_of E m') = sch -> sg_data (sig_of E m') = sd ->
  canonical_at E g d file' ->
  firstn (verify_cut E g d m') file' <> msg ->
  verify_file E d file' <> Ok tt.
Proof. exact bitflip_rejected. Qed.
Print Assumptions C18_bitflip_rejected_partial.

(** REFUTED without canonicity: an ideal scheme and a round-tripping codec
    ([parse (ser m) = Some m]) do not suffice.  In the witness the writer
    recomputes a size byte the parser ignores — what fiano's Rehash does to
    StructInfo.Variable0/ElementSize, KeyManifestSignatureOffset and
    BPMH.KeySignatureOffset on every WriteTo; the real code accepts those bit
    flips.  [finding C18-verify-reserialised-normalised-fields] *)
Theorem C18_tamper_refuted :
  exists (E : env) (m : M E) (sk : SK E) (file file' : bytes) (c : nat),
    env_reasonable E /\
    sign_manifest E V20 KM m AlgRSASSA 0 sk = Ok file /\
    verify_file E KM file = Ok tt /\
    (forall m', parse E V20 KM file = Some m' -> verify_cut E V20 KM m' = c) /\
    length file' = length file /\
    firstn c file' <> firstn c file /\
    skipn c file' = skipn c file /\
    verify_file E KM file' = Ok tt /\
    ~ canonical_at E V20 KM file'.
Proof. exact tamper_witness. Qed.
Print Assumptions C18_tamper_refuted.

(** VerifyKM/VerifyBPM on a BootGuard value whose Version is neither 1.0 nor 2.0
    log an error and return nil (not reachable through NewKM/NewBPM, which fail). *)
Theorem C18_unknown_version_accepted :
  forall (E : env) v d (m : M E), gen_of_version v = None -> verify_struct E v d m = Ok tt.
Proof. exact verify_struct_unknown. Qed.
Print Assumptions C18_unknown_version_accepted.

(** * 2b. Tampering with whole ELEMENTS, the history of the process, and the
    configuration the tools run with (Model/ManifestOrder.v)

    A boot policy manifest file is a sequence of elements.  [order_verdict strict
    sp orig mut] is NewBPM + VerifyBPM on a file made of the elements [mut] that
    carries key and signature of the manifest [orig], under an ideal signature;
    [strict] is the package-level order switch of fiano's reader for the file's
    generation, a piece of PROCESS state ([pconf]); [session_verdict c0 hist g]
    is the same verdict in a process that started with configuration [c0] and in
    which the entry points [hist] of pkg/provisioning/bootguard were called
    before.  Elements are (field index of the structure ID, identity); an index
    outside the manifest's fields is an unknown structure ID. *)

(** No entry point of the package changes the process configuration, whatever the
    order and number of calls -- so a verdict never depends on what else the
    process did before. *)
Theorem C18_config_untouched_by_any_history :
  forall (hist : list entry) (c : pconf), run_conf c hist = c.
Proof. exact run_conf_id. Qed.
Print Assumptions C18_config_untouched_by_any_history.

Theorem C18_verdict_independent_of_history :
  forall c0 (h1 h2 : list entry) g orig mut,
  session_verdict c0 h1 g orig mut = session_verdict c0 h2 g orig mut.
Proof. exact session_same_verdict. Qed.
Print Assumptions C18_verdict_independent_of_history.

(** With the order switch ON (what a process starts with), an accepted file
    consists of the signed elements in the signed order -- plus, possibly, chunks
    with unknown structure IDs (next theorems).  For a file of known elements:
    accepted only if it IS the signed sequence (element-level canonicity). *)
Theorem C18_strict_accepts_only_signed_elements :
  forall sp orig mut,
  order_verdict true sp orig mut = Ok tt -> filter (known sp) mut = orig.
Proof. exact strict_accepts_only_signed. Qed.
Print Assumptions C18_strict_accepts_only_signed_elements.

Theorem C18_strict_element_canonicity :
  forall sp orig mut,
  (forall e, In e mut -> known sp e = true) ->
  order_verdict true sp orig mut = Ok tt -> mut = orig.
Proof. exact strict_element_canonicity. Qed.
Print Assumptions C18_strict_element_canonicity.

(** ... exactly: when the signed manifest itself is one the suite accepts, a file
    is accepted iff its known elements are the signed sequence. *)
Theorem C18_strict_accept_iff :
  forall sp orig mut,
  order_verdict true sp orig orig = Ok tt ->
  (forall e, In e orig -> known sp e = true) ->
  (order_verdict true sp orig mut = Ok tt <-> filter (known sp) mut = orig).
Proof. exact strict_accept_iff. Qed.
Print Assumptions C18_strict_accept_iff.

(** With the switch on, known elements that do not follow the documented order
    (field indices going down, or a field that is not a slice repeated) are refused
    by the reader. *)
Theorem C18_out_of_order_refused :
  forall sp orig mut,
  in_order sp (-1) (kinds sp mut) = false -> exists c, order_verdict true sp orig mut = Err c.
Proof. exact out_of_order_refused. Qed.
Print Assumptions C18_out_of_order_refused.

(** In a process that started with the library's configuration, after ANY history
    of calls of the package's entry points, a file put together from known
    elements that is not the signed sequence (elements exchanged, moved, repeated,
    left out) is not accepted. *)
Theorem C18_rearranged_refused_after_any_history :
  forall (hist : list entry) g orig mut,
  (forall e, In e mut -> known (bpm_spec g) e = true) -> mut <> orig ->
  session_verdict lib_default_conf hist g orig mut <> Ok tt.
Proof. exact default_process_refuses_rearranged. Qed.
Print Assumptions C18_rearranged_refused_after_any_history.

(** Elements with an unknown structure ID leave no trace, whatever the switch: the
    verdict on a file is the verdict on the file without them. *)
Theorem C18_unknown_elements_invisible :
  forall strict sp orig mut,
  order_verdict strict sp orig mut = order_verdict strict sp orig (filter (known sp) mut).
Proof. exact unknown_elements_invisible. Qed.
Print Assumptions C18_unknown_elements_invisible.

(** REFUTED ("accepted only if the signature is valid for the signed portion as
    stored"), both generations, order switch ON: a chunk of StructInfo size with an
    unknown structure ID between two elements of the signed portion -- the stored
    signed portion is not what was signed, the file is accepted.
    [finding C18-verify-unknown-element-skipped] *)
Theorem C18_unknown_element_accepted_refuted :
  (exists orig mut, mut <> orig /\ order_verdict true (bpm_spec V20) orig mut = Ok tt) /\
  (exists orig mut, mut <> orig /\ order_verdict true (bpm_spec V10) orig mut = Ok tt).
Proof. exact unknown_element_accepted_ex. Qed.
Print Assumptions C18_unknown_element_accepted_refuted.

(** The tools' main() assigns only the CBnT switch (from a flag whose default is
    false); the BG 1.0 switch stays what the process started with. *)
Theorem C18_tool_conf_switches :
  forall flag c,
  strict_of (tool_conf flag c) V10 = strict_of c V10 /\ strict_of (tool_conf flag c) V20 = flag.
Proof. exact tool_conf_switches. Qed.
Print Assumptions C18_tool_conf_switches.

(** REFUTED in the configuration the suite's tools run with by default (flag not
    given): a CBnT manifest of known elements, a permutation of the signed one and
    different from it, is accepted; the library's default refuses the same file.
    [finding C18-verify-element-order-unchecked-by-default] *)
Theorem C18_tool_default_accepts_permutation_refuted :
  exists orig mut,
    mut <> orig /\ Permutation mut orig /\
    (forall e, In e mut -> known (bpm_spec V20) e = true) /\
    session_verdict (tool_conf false lib_default_conf) [] V20 orig mut = Ok tt /\
    session_verdict lib_default_conf [] V20 orig mut = Err 1.
Proof. exact tool_default_accepts_permutation_ex. Qed.
Print Assumptions C18_tool_default_accepts_permutation_refuted.

(** the hypotheses of C18_strict_accept_iff are satisfiable: a CBnT and a BG 1.0
    manifest the suite accepts *)
Example C18_elements_example :
  order_verdict true (bpm_spec V20) w_orig w_orig = Ok tt /\
  order_verdict true (bpm_spec V10) w_orig10 w_orig10 = Ok tt /\
  (forall e, In e w_orig -> known (bpm_spec V20) e = true).
Proof. exact witness_self. Qed.

(** * 3. The KM binds the BPM key *)

(** BG 1.0, BPMKeyMatchKMHash taken ALONE (the BPM test of bg-suite): it reports a
    match exactly when the KM stores the SHA-256 of the BPM signer's modulus
    (Key.Data without the 4 exponent bytes).  (Refuted before the repair 24a2a40 of
    finding C18-binding-failopen: a SHA1-sized digest matched every key.) *)
Theorem C18_keymatch_alone_bg :
  forall H : Z -> bytes -> bytes,
  (forall x, length (H AlgSHA256 x) = 32%nat) ->
  forall alg buf kd, (4 <= length kd)%nat ->
  (bg_key_match H alg buf AlgRSA kd = Ok true <->
   alg = AlgSHA256 /\ buf = H AlgSHA256 (skipn 4 kd)).
Proof. exact keymatch_alone_bg. Qed.
Print Assumptions C18_keymatch_alone_bg.

(** ... for ALL inputs (any key algorithm, any key data, any H): a match is never
    reported without a comparison that succeeded, and it implies KMHasBPMHash -- the
    conjunction bg-suite runs is decided by BPMKeyMatchKMHash. *)
Theorem C18_keymatch_compared_bg :
  forall (H : Z -> bytes -> bytes) alg buf keyalg kd,
  bg_key_match H alg buf keyalg kd = Ok true ->
  bg_has_hash buf = true /\ check_key_hash H bg_hash_size alg buf keyalg kd = Ok tt.
Proof. exact bg_key_match_compared. Qed.
Print Assumptions C18_keymatch_compared_bg.

Theorem C18_keymatch_is_binding_bg :
  forall (H : Z -> bytes -> bytes) alg buf keyalg kd,
  is_ok_true (bg_key_match H alg buf keyalg kd) = bg_binding_ok H alg buf keyalg kd.
Proof. exact bg_key_match_is_binding. Qed.
Print Assumptions C18_keymatch_is_binding_bg.

(** BG 1.0, the binding check = KMHasBPMHash and BPMKeyMatchKMHash (as bg-suite
    runs them): it succeeds exactly when the KM stores the SHA-256 of the BPM
    signer's modulus. *)
Theorem C18_binding_exact_bg :
  forall H : Z -> bytes -> bytes,
  (forall x, length (H AlgSHA256 x) = 32%nat) ->
  forall alg buf kd, (4 <= length kd)%nat ->
  (bg_binding_ok H alg buf AlgRSA kd = true <->
   alg = AlgSHA256 /\ buf = H AlgSHA256 (skipn 4 kd)).
Proof. exact binding_exact_bg. Qed.
Print Assumptions C18_binding_exact_bg.

(** ... hence exactly when the key hashed into the KM is the BPM signer's key, if H
    separates the two moduli. *)
Theorem C18_binding_same_key_bg :
  forall H : Z -> bytes -> bytes,
  (forall x, length (H AlgSHA256 x) = 32%nat) ->
  forall kd0 kd, (4 <= length kd)%nat ->
  (H AlgSHA256 (skipn 4 kd0) = H AlgSHA256 (skipn 4 kd) -> skipn 4 kd0 = skipn 4 kd) ->
  (bg_binding_ok H AlgSHA256 (H AlgSHA256 (skipn 4 kd0)) AlgRSA kd = true <-> skipn 4 kd0 = skipn 4 kd).
Proof. exact binding_same_key_bg. Qed.
Print Assumptions C18_binding_same_key_bg.

(** CBnT, BPMKeyMatchKMHash ALONE: exactly when some entry has the BPM-signing bit
    (bit 0) in its usage and EVERY such entry stores H(its algorithm, modulus).
    (Refuted before 24a2a40: a KM without such an entry, or with usage 5, matched
    every key.) *)
Theorem C18_keymatch_alone_cbnt :
  forall H : Z -> bytes -> bytes,
  (forall alg n x, cbnt_hash_size alg = Some n -> length (H alg x) = n) ->
  forall hs kd, (4 <= length kd)%nat ->
  (cbnt_key_match H hs AlgRSA kd = Ok true <->
   (exists h, In h hs /\ Z.odd (kh_usage h) = true) /\
   (forall h, In h hs -> Z.odd (kh_usage h) = true -> entry_ok H kd h)).
Proof. exact keymatch_alone_cbnt. Qed.
Print Assumptions C18_keymatch_alone_cbnt.

(** ... for ALL inputs: a match means an entry was found and fiano's ValidateBPMKey
    accepted the key; it implies KMHasBPMHash. *)
Theorem C18_keymatch_compared_cbnt :
  forall (H : Z -> bytes -> bytes) hs keyalg kd,
  cbnt_key_match H hs keyalg kd = Ok true <->
  cbnt_has_hash hs = true /\ cbnt_validate H hs keyalg kd = Ok tt.
Proof. exact cbnt_key_match_spec. Qed.
Print Assumptions C18_keymatch_compared_cbnt.

Theorem C18_keymatch_is_binding_cbnt :
  forall (H : Z -> bytes -> bytes) hs keyalg kd,
  is_ok_true (cbnt_key_match H hs keyalg kd) = cbnt_binding_ok H hs keyalg kd.
Proof. exact cbnt_key_match_is_binding. Qed.
Print Assumptions C18_keymatch_is_binding_cbnt.

(** CBnT, the conjunction: the same condition. *)
Theorem C18_binding_exact_cbnt :
  forall H : Z -> bytes -> bytes,
  (forall alg n x, cbnt_hash_size alg = Some n -> length (H alg x) = n) ->
  forall hs kd, (4 <= length kd)%nat ->
  (cbnt_binding_ok H hs AlgRSA kd = true <->
   (exists h, In h hs /\ Z.odd (kh_usage h) = true) /\
   (forall h, In h hs -> Z.odd (kh_usage h) = true -> entry_ok H kd h)).
Proof. exact binding_exact_cbnt. Qed.
Print Assumptions C18_binding_exact_cbnt.

(** ... for the KM GetBPMPubHash makes (one BPM entry among entries of other
    usages) -- and for the same entry under a shared usage (bit 0 and other bits,
    e.g. 5) --: exactly when it is the same key. *)
Theorem C18_binding_same_key_cbnt :
  forall H : Z -> bytes -> bytes,
  (forall alg n x, cbnt_hash_size alg = Some n -> length (H alg x) = n) ->
  forall usage alg kd0 kd pre post, (4 <= length kd)%nat ->
  Z.odd usage = true ->
  cbnt_hash_size alg <> None ->
  Forall (fun h => Z.odd (kh_usage h) = false) (pre ++ post) ->
  (H alg (skipn 4 kd0) = H alg (skipn 4 kd) -> skipn 4 kd0 = skipn 4 kd) ->
  (cbnt_binding_ok H (pre ++ mk_kmhash usage alg (H alg (skipn 4 kd0)) :: post) AlgRSA kd = true
   <-> skipn 4 kd0 = skipn 4 kd).
Proof. exact binding_same_key_cbnt. Qed.
Print Assumptions C18_binding_same_key_cbnt.

(** * 3b. Re-keying a key manifest OBJECT (GetBPMPubHash on a reused KM)

    "The key whose hash was placed in the key manifest" is the key of the last
    successful GetBPMPubHash call, whatever the object held before: a KM built a
    moment ago, a KM parsed with NewKM from an existing signed file, a KM that
    already went through GetBPMPubHash for another key, a KM carrying digests of
    other usages.  [kmstate] is what the object holds (BG 1.0 BPKey / CBnT Hash),
    [km_place] is GetBPMPubHash as coded (REPLACES the state on success, leaves
    it alone on an error), [kmstep] adds the operations that do not concern the
    hash (SignKM, WriteKM + NewKM, VerifyKM, a change of SVN/ID). *)

(** One call on an object in ANY prior state: the binding check then succeeds
    exactly for the key of that call (BG 1.0: with SHA256; SHA1 is refused, see
    C18_rekey_bg_sha1_fails_closed below). *)
Theorem C18_rekey_binding :
  forall H : Z -> bytes -> bytes,
  (forall alg n x, cbnt_hash_size alg = Some n -> length (H alg x) = n) ->
  forall st keyok req alg kd0 kd st', (4 <= length kd)%nat ->
  km_place H st keyok req kd0 = (Ok tt, st') ->
  req = Some alg ->
  (match st with KmBG _ _ => alg = AlgSHA256 | KmCBNT _ => True end) ->
  (H alg (skipn 4 kd0) = H alg (skipn 4 kd) -> skipn 4 kd0 = skipn 4 kd) ->
  (km_binding_ok H st' AlgRSA kd = true <-> skipn 4 kd0 = skipn 4 kd).
Proof. exact rekey_binding. Qed.
Print Assumptions C18_rekey_binding.

(** ANY history of steps on one KM object, from ANY initial state: the binding
    check follows the key of the LAST successful GetBPMPubHash call. *)
Theorem C18_rekey_history_binding :
  forall H : Z -> bytes -> bytes,
  (forall alg n x, cbnt_hash_size alg = Some n -> length (H alg x) = n) ->
  forall st0 steps alg kd0 kd, (4 <= length kd)%nat ->
  last_placed H st0 steps None = Some (alg, kd0) ->
  (match st0 with KmBG _ _ => alg = AlgSHA256 | KmCBNT _ => True end) ->
  (H alg (skipn 4 kd0) = H alg (skipn 4 kd) -> skipn 4 kd0 = skipn 4 kd) ->
  (km_binding_ok H (km_run H st0 steps) AlgRSA kd = true <-> skipn 4 kd0 = skipn 4 kd).
Proof. exact history_binding. Qed.
Print Assumptions C18_rekey_history_binding.

(** A failing call (key type not accepted, unknown algorithm name, no such hash)
    leaves the object as it was; a history without a successful call leaves the
    object in its initial state. *)
Theorem C18_rekey_error_keeps_state :
  forall (H : Z -> bytes -> bytes) st keyok req kd,
  fst (km_place H st keyok req kd) <> Ok tt -> snd (km_place H st keyok req kd) = st.
Proof. exact place_error_keeps_state. Qed.
Print Assumptions C18_rekey_error_keeps_state.

Theorem C18_rekey_history_no_place :
  forall (H : Z -> bytes -> bytes) st0 steps,
  last_placed H st0 steps None = None -> km_run H st0 steps = st0.
Proof. exact history_no_place. Qed.
Print Assumptions C18_rekey_history_no_place.

(** the hypotheses are satisfiable: a CBnT KM made for one key (with an ACM entry),
    re-keyed after a failing call and a signing *)
Example C18_rekey_history_example :
  let old := [1;0;1;0;7;8;9] in
  let new := [1;0;1;0;7;8;10] in
  let st0 := KmCBNT [mk_kmhash 4 AlgSHA256 (repeat 9 32); mk_kmhash UsageBPMSigningPKD AlgSHA256 (toyH AlgSHA256 [7;8;9])] in
  let steps := [SKeep; SPlace true None new; SPlace true (Some AlgSHA384) new; SKeep; SPlace false (Some AlgSHA256) old; SKeep] in
  km_binding_ok toyH st0 AlgRSA old = true /\
  last_placed toyH st0 steps None = Some (AlgSHA384, new) /\
  km_binding_ok toyH (km_run toyH st0 steps) AlgRSA new = true /\
  km_binding_ok toyH (km_run toyH st0 steps) AlgRSA old = false.
Proof. exact history_example. Qed.

(** BG 1.0 with SHA1, which GetBPMPubHash accepts: a CHARACTERISATION, not a
    defect.  The suite takes only digests "more secure than SHA-1" (more than 30
    bytes) as a BPM key hash; after a successful GetBPMPubHash(SHA1) on a BG 1.0 KM
    in any state, KMHasBPMHash and BPMKeyMatchKMHash both report an error for EVERY
    BPM key, the placed one included: the binding check fails closed.  (Before
    24a2a40 BPMKeyMatchKMHash reported a match for every key here.) *)
Theorem C18_rekey_bg_sha1_fails_closed :
  forall H : Z -> bytes -> bytes,
  (forall x, length (H AlgSHA1 x) = 20%nat) ->
  forall a b kd0 st',
  km_place H (KmBG a b) true (Some AlgSHA1) kd0 = (Ok tt, st') ->
  exists buf, st' = KmBG AlgSHA1 buf /\ length buf = 20%nat /\
    bg_km_has_bpm_hash buf = Err 1 /\
    (forall keyalg kd, bg_key_match H AlgSHA1 buf keyalg kd = Err 2) /\
    (forall keyalg kd, km_binding_ok H st' keyalg kd = false).
Proof. exact rekey_bg_sha1_fails_closed. Qed.
Print Assumptions C18_rekey_bg_sha1_fails_closed.

Example C18_rekey_bg_sha1_example :
  (forall x, length (toyH AlgSHA1 x) = 20%nat) /\
  km_place toyH (KmBG AlgSHA256 (toyH AlgSHA256 [7;8;9])) true (Some AlgSHA1) [1;0;1;0;7;8;10]
    = (Ok tt, KmBG AlgSHA1 (toyH AlgSHA1 [7;8;10])).
Proof. exact rekey_bg_sha1_example. Qed.

Example C18_binding_example :
  let H := fun (alg : Z) (m : bytes) => repeat (fold_left Z.add m alg) 32 in
  (forall x, length (H AlgSHA256 x) = 32%nat) /\
  bg_binding_ok H AlgSHA256 (H AlgSHA256 [7;8;9]) AlgRSA [1;0;1;0;7;8;9] = true /\
  bg_binding_ok H AlgSHA256 (H AlgSHA256 [7;8;9]) AlgRSA [1;0;1;0;7;8;10] = false.
Proof. exact binding_example. Qed.

(** The inputs on which the code before 24a2a40 reported a match for every key:
    a digest of at most 30 bytes in a BG 1.0 KM (SHA1), a CBnT KM without an entry
    carrying the BPM-signing bit -- now an error from both functions, for every
    key --, and a CBnT entry with a shared usage (5) -- now compared like any other. *)
Theorem C18_keymatch_closed_bg :
  forall buf : bytes, (2 + length buf <= minHashTypeSize)%nat ->
    forall H alg keyalg kd, bg_key_match H alg buf keyalg kd = Err 2 /\ bg_km_has_bpm_hash buf = Err 1.
Proof. exact keymatch_closed_bg. Qed.
Print Assumptions C18_keymatch_closed_bg.

Theorem C18_keymatch_closed_cbnt :
  forall hs, Forall (fun h => Z.odd (kh_usage h) = false) hs ->
    forall H keyalg kd, cbnt_key_match H hs keyalg kd = Err 2 /\ cbnt_km_has_bpm_hash hs = Err 1.
Proof. exact keymatch_no_entry_cbnt. Qed.
Print Assumptions C18_keymatch_closed_cbnt.

Example C18_keymatch_shared_usage_example :
  let kd := [1;0;1;0;7;8;9] in let kd' := [1;0;1;0;7;8;10] in
  let hs := [mk_kmhash 5 AlgSHA256 (toyH AlgSHA256 [7;8;9])] in
  cbnt_key_match toyH hs AlgRSA kd = Ok true /\ cbnt_km_has_bpm_hash hs = Ok true /\
  cbnt_key_match toyH hs AlgRSA kd' = Err 1.
Proof. exact keymatch_shared_usage_example. Qed.

(** * 3c. Key sizes and key kinds

    Key data is a byte string of any length: 4 exponent bytes + 256 (RSA-2048) or
    384 (RSA-3072) modulus bytes.  None of the theorems of sections 3 and 3b bounds
    it; the following make the dependence on EVERY byte explicit. *)

(** A successful GetBPMPubHash stores the digest of ALL key data after the exponent. *)
Theorem C18_place_digest_whole_key :
  forall (H : Z -> bytes -> bytes) st keyok req kd st',
  km_place H st keyok req kd = (Ok tt, st') ->
  exists alg, req = Some alg /\ (4 <= length kd)%nat /\
    st' = match st with
          | KmBG _ _ => KmBG alg (H alg (skipn 4 kd))
          | KmCBNT _ => KmCBNT [mk_kmhash UsageBPMSigningPKD alg (H alg (skipn 4 kd))]
          end.
Proof. exact place_digest_whole_key. Qed.
Print Assumptions C18_place_digest_whole_key.

(** Two keys that differ in any byte after the exponent (position 4 or position 387)
    are told apart by the binding check, when H tells their moduli apart. *)
Theorem C18_binding_every_key_byte :
  forall H : Z -> bytes -> bytes,
  (forall alg n x, cbnt_hash_size alg = Some n -> length (H alg x) = n) ->
  forall st keyok req alg kd0 kd st' i, (4 <= length kd)%nat ->
  km_place H st keyok req kd0 = (Ok tt, st') ->
  req = Some alg ->
  (match st with KmBG _ _ => alg = AlgSHA256 | KmCBNT _ => True end) ->
  (H alg (skipn 4 kd0) = H alg (skipn 4 kd) -> skipn 4 kd0 = skipn 4 kd) ->
  (4 <= i)%nat -> nth i kd0 0 <> nth i kd 0 ->
  km_binding_ok H st' AlgRSA kd = false.
Proof. exact binding_every_key_byte. Qed.
Print Assumptions C18_binding_every_key_byte.

(** The key that was placed binds, whatever its length ... *)
Theorem C18_whole_digest_accepts_own_key :
  forall H : Z -> bytes -> bytes,
  (forall alg n x, cbnt_hash_size alg = Some n -> length (H alg x) = n) ->
  forall st alg kd, (4 <= length kd)%nat ->
  km_size st alg <> None ->
  (match st with KmBG _ _ => alg = AlgSHA256 | KmCBNT _ => True end) ->
  km_binding_ok H (placed_state H st alg kd) AlgRSA kd = true.
Proof. exact whole_digest_accepts_own_key. Qed.
Print Assumptions C18_whole_digest_accepts_own_key.

(** ... whereas a placement digesting only the first [n] bytes of the modulus (a
    fixed width such as 256) would make the binding check reject the very key it
    placed, for every key with a longer modulus (H not colliding on the modulus and
    its prefix): the digest has to cover the whole modulus. *)
Theorem C18_truncated_digest_rejects_own_key :
  forall H : Z -> bytes -> bytes,
  (forall alg n x, cbnt_hash_size alg = Some n -> length (H alg x) = n) ->
  forall n st alg kd, (4 <= length kd)%nat ->
  km_size st alg <> None ->
  (match st with KmBG _ _ => alg = AlgSHA256 | KmCBNT _ => True end) ->
  (n < length kd - 4)%nat ->
  (H alg (firstn n (skipn 4 kd)) = H alg (skipn 4 kd) -> firstn n (skipn 4 kd) = skipn 4 kd) ->
  km_binding_ok H (placed_state_trunc H n st alg kd) AlgRSA kd = false.
Proof. exact truncated_digest_rejects_own_key. Qed.
Print Assumptions C18_truncated_digest_rejects_own_key.

Example C18_truncated_digest_example :
  let kd := [1;0;1;0; 7;8;9;10;11;12] in
  let kd' := [1;0;1;0; 7;8;9;10;99;98] in
  let st := KmBG AlgSHA256 [] in
  km_binding_ok toyH (placed_state_trunc toyH 4 st AlgSHA256 kd) AlgRSA kd = false /\
  placed_state_trunc toyH 4 st AlgSHA256 kd = placed_state_trunc toyH 4 st AlgSHA256 kd' /\
  km_binding_ok toyH (placed_state toyH st AlgSHA256 kd) AlgRSA kd = true /\
  km_binding_ok toyH (placed_state toyH st AlgSHA256 kd) AlgRSA kd' = false.
Proof. exact truncated_digest_example. Qed.

(** Key kinds: a BPM key that is not an RSA key (the tool generates ECC keys too)
    never binds, whatever the KM holds: a restriction of the tool, failing closed. *)
Theorem C18_binding_non_rsa_fails_closed :
  forall (H : Z -> bytes -> bytes) st keyalg kd,
  keyalg <> AlgRSA -> km_binding_ok H st keyalg kd = false.
Proof. exact binding_non_rsa_fails_closed. Qed.
Print Assumptions C18_binding_non_rsa_fails_closed.

(** * 4. Wrapped private keys *)

(** A key wrapped under a non-empty password opens exactly with passwords whose
    SHA-256 is the wrapping key (and then yields the key of the PEM). *)
Theorem C18_password :
  forall K : kenv,
  aead_correct K -> aead_wrong_key K -> ct_not_pem K ->
  forall pw pw' nonce pem (sk : KSK K), pw <> [] -> length nonce = nonce_size ->
  (decrypt_priv K (encrypt_priv K pw nonce pem) pw' = Ok sk <->
   pw' <> [] /\ Hpw K pw' = Hpw K pw /\ parse_key K pem = Some sk).
Proof. exact password. Qed.
Print Assumptions C18_password.

(** A wrong (or empty) password is an error value, never a key and never a panic. *)
Theorem C18_password_wrong_is_error :
  forall K : kenv,
  aead_wrong_key K -> ct_not_pem K ->
  forall pw pw' nonce pem, pw <> [] -> length nonce = nonce_size ->
  Hpw K pw' <> Hpw K pw \/ pw' = [] ->
  exists c, decrypt_priv K (encrypt_priv K pw nonce pem) pw' = Err c.
Proof. exact password_wrong_is_error. Qed.
Print Assumptions C18_password_wrong_is_error.

Theorem C18_password_right :
  forall K : kenv,
  aead_correct K ->
  forall pw nonce pem (sk : KSK K), length nonce = nonce_size -> parse_key K pem = Some sk ->
  decrypt_priv K (encrypt_priv K pw nonce pem) pw = Ok sk.
Proof. exact password_right. Qed.
Print Assumptions C18_password_right.

(** DecryptPrivKey on fewer than 12 bytes with a password is an error (it panicked,
    slice bounds, before the repair 4423a4c), and no input makes it panic. *)
Theorem C18_decrypt_short_input_is_error :
  forall (K : kenv) data pw, pw <> [] -> (length data < nonce_size)%nat -> decrypt_priv K data pw = Err 3.
Proof. exact decrypt_short_is_error. Qed.
Print Assumptions C18_decrypt_short_input_is_error.

Theorem C18_decrypt_never_panics :
  forall (K : kenv) data pw,
  (exists k, decrypt_priv K data pw = Ok k) \/ (exists c, decrypt_priv K data pw = Err c).
Proof. exact decrypt_total. Qed.
Print Assumptions C18_decrypt_never_panics.

Example C18_password_example :
  aead_correct ToyK /\ aead_wrong_key ToyK /\ ct_not_pem ToyK /\
  let nonce := [1;2;3;4;5;6;7;8;9;10;11;12] in
  decrypt_priv ToyK (encrypt_priv ToyK [112;119] nonce [45;99;45]) [112;119] = Ok 99 /\
  decrypt_priv ToyK (encrypt_priv ToyK [112;119] nonce [45;99;45]) [112;120] = Err 1 /\
  decrypt_priv ToyK (encrypt_priv ToyK [112;119] nonce [45;99;45]) [] = Err 2.
Proof. exact password_example. Qed.

(** * 5. What the constructors hand to the codec: the whole file *)

(** NewKM / NewBPM pass their reader on as it is: the verdict of the code on a file
    is the glue of section 1 on the codec's reading of ALL bytes of the file --
    for files of every length and with every last byte (no size bound, no
    condition on the content in any theorem of this file). *)
Theorem C18_constructor_hands_whole_file :
  forall (E : env) d file, verify_file E d file = verify_file_via E (fun f => f) d file.
Proof. intros. symmetry. apply verify_file_via_id. Qed.
Print Assumptions C18_constructor_hands_whole_file.

Theorem C18_verdict_is_codec_on_handed_bytes :
  forall (E : env) pre d file,
  verify_file_via E pre d file = Ok tt <->
  exists g m, detect file = Some g /\ parse E g d (pre file) = Some m /\ verify_manifest E g d m = true.
Proof. exact verify_file_via_ok_iff. Qed.
Print Assumptions C18_verdict_is_codec_on_handed_bytes.

(** PARTIAL (hypothesis on the third-party codec: no proper prefix of the file
    parses to a structure that verifies -- [prefix_tight], tested by the harness:
    truncations of signed files are refused): a constructor that hands over a
    proper prefix of a file refuses the file.  With C18_sign_verify_bg10 /
    C18_sign_verify_cbnt_bpm_fitting (the code accepts what it signed) such a
    constructor breaks "signed by the suite verifies with the suite" on every
    signed file it shortens. *)
Theorem C18_shortening_constructor_refuses_partial :
  forall (E : env) pre d file g n,
  detect file = Some g ->
  pre file = firstn n file -> (n < length file)%nat ->
  prefix_tight E g d file ->
  verify_file_via E pre d file <> Ok tt.
Proof. exact shortening_refuses. Qed.
Print Assumptions C18_shortening_constructor_refuses_partial.

(** A length limit shortens every longer file ... *)
Theorem C18_length_limit_refuses_longer_files_partial :
  forall (E : env) d file g n,
  detect file = Some g -> (n < length file)%nat -> prefix_tight E g d file ->
  verify_file_via E (firstn n) d file <> Ok tt.
Proof. exact limit_refuses. Qed.
Print Assumptions C18_length_limit_refuses_longer_files_partial.

(** ... and cutting off trailing filler bytes shortens every file that ends with
    the filler byte (for a signed file: 1 signature in 256), and no other. *)
Theorem C18_trimming_is_shortening :
  forall x f, f <> [] -> last f 0 = x ->
  exists n, (n < length f)%nat /\ trim_trailing x f = firstn n f.
Proof. exact trim_is_shortening. Qed.
Print Assumptions C18_trimming_is_shortening.

Theorem C18_trimming_keeps_other_files :
  forall x f, last f (x + 1) <> x -> trim_trailing x f = f.
Proof. exact trim_trailing_id. Qed.
Print Assumptions C18_trimming_keeps_other_files.

Theorem C18_trimming_refuses_files_ending_with_filler_partial :
  forall (E : env) d file g x,
  detect file = Some g -> file <> [] -> last file 0 = x -> prefix_tight E g d file ->
  verify_file_via E (trim_trailing x) d file <> Ok tt.
Proof. exact trim_refuses. Qed.
Print Assumptions C18_trimming_refuses_files_ending_with_filler_partial.

(** The hypotheses are satisfiable, and the conclusions bite: in the toy codec a
    key manifest signed by the suite that ends with 255 is accepted by the code,
    refused under every length limit below its length and refused by a
    constructor that cuts off trailing 255s. *)
Example C18_cautious_constructors_example :
  exists (E : env) d m sch req sk file,
    sign_manifest E V10 d m sch req sk = Ok file /\
    verify_file E d file = Ok tt /\
    last file 0 = 255 /\
    (forall n, (n < length file)%nat -> verify_file_via E (firstn n) d file <> Ok tt) /\
    verify_file_via E (trim_trailing 255) d file <> Ok tt.
Proof. exact toy_cautious_constructors_break_sign_verify. Qed.
