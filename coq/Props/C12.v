(** C12 — event-log replay equals the TCG extend fold for every log.
    This file holds only the property theorems, each closed by [exact].

    Vocabulary (Model/EventLog.v):
    - [replay H log p a]        : tpmeventlog.Replay(log, p, a); [filterEvents], [parse_locality],
                                  [parse_event_data] the other three observed functions;
                                  [tpm_replay H entries p a loc] : tpm.EventLog.Replay(p, a, loc);
                                  [from_parsed] : tpm.EventLogFromParsed; [restore_commands] : RestoreCommands;
    - [H a msg]                 : the hash function of algorithm [a]; [hash_len_ok H] says its output has
                                  the digest size of [a] (for the algorithms of [hash_size]); nothing else
                                  is assumed about it;
    - [selected log p a]        : the events with PCR index [p] carrying a (non-nil) digest of algorithm [a];
    - [meas_digests log p a]    : the digests of exactly the non-EV_NO_ACTION events of [selected], in order;
    - [seed log p a]            : zeros, or for PCR0, when the first selected event is an EV_NO_ACTION event
                                  whose data is "StartupLocality" NUL <b>, zeros ending in <b>;
    - [tcg_fold H a ds s]       = [fold_left (fun acc d => H a (acc ++ d)) ds s];
    - [wellformed log p a]      : supported algorithm, PCR 0 or 1, every selected event has a digest of the
                                  right length, and the selected events are measurement events, optionally
                                  (PCR0) led by one event EV_NO_ACTION with data [startup_data loc];
    - [differ_in_noaction_digest e e'] : same event, except that the digest bytes of an EV_NO_ACTION event
                                  may differ (same bank, same length).
    Outcomes: [Ok v] value, [Err c] an error value was returned, [Panic], [OutOfFuel].

    Histories (Model/EventLogSess.v, section 7): ONE [*TPMEventLog] object over a heap of Event
    objects ([ls_heap], address = index) with [ls_evs] the pointers in [log.Events];
    - [sop]                     : a step of a session: the calls [SReplay p a], [SFilter p a], [SFromParsed],
                                  and the owner's edits between them: [SNew e] (a new Event object),
                                  [SSetEvent ad e] (any in-place edit of the Event at address [ad]),
                                  [SSetEvents evs] (any edit of the slice [log.Events]);
    - [srun H s ops]            : the state after the session and the result of every step;
    - [log_after s ops]         : the memory after the owner's edits in [ops] (calls do nothing to it);
    - [log_of s]                : the log as it reads in state [s] ([*log.Events[i]] for every i);
    - [srun_memo]               : NOT the code: a log object that remembers its selections per (PCR,
                                  algorithm, number of events); only used as the witness that the
                                  session theorems exclude such an object. *)
From CSS Require Import Lib.Base Model.EventLog Model.EventLogSess Proofs.EventLog Proofs.EventLogSess.

(** * 1. Whenever Replay returns a value, it is the TCG fold over exactly the measurement events *)

Theorem C12_replay_is_fold : forall H, hash_len_ok H -> forall log p a v,
  replay H log p a = Ok v ->
  v = fold_left (fun acc d => H a (acc ++ d)) (meas_digests log p a) (seed log p a).
Proof. exact replay_is_fold. Qed.
Print Assumptions C12_replay_is_fold.

(** ... and it has the digest size of the algorithm (in particular it is never empty:
    PCR0 without events yields the initial zeros). *)
Theorem C12_replay_length : forall H, hash_len_ok H -> forall log p a v,
  replay H log p a = Ok v -> exists size, hash_size a = Some size /\ Z.of_nat (length v) = size.
Proof. exact replay_length. Qed.
Print Assumptions C12_replay_length.

(** What "startup-locality event" means: ParseLocality accepts exactly "StartupLocality" NUL <byte>. *)
Theorem C12_locality_exact : forall d b, parse_locality d = Ok b <-> d = startup_data b.
Proof. exact parse_locality_exact. Qed.
Print Assumptions C12_locality_exact.

(** * 2. No-action events never contribute a digest *)

(** Replaying a log and the same log with other digest bytes in its EV_NO_ACTION events gives the
    same outcome (value or error), for every PCR and algorithm. *)
Theorem C12_noaction_never_contributes : forall H log log' p a,
  Forall2 differ_in_noaction_digest log log' ->
  replay H log p a = replay H log' p a.
Proof. exact noaction_never_contributes. Qed.
Print Assumptions C12_noaction_never_contributes.

(** * 3. Acceptance *)

(** [wellformed] restricts to PCR 0/1 and to the algorithms with a hash function: Replay documents
    that every other index / algorithm is rejected (see [C12_unsupported_rejected]). *)
Theorem C12_wellformed_accepted : forall H, hash_len_ok H -> forall log p a,
  wellformed log p a -> exists v, replay H log p a = Ok v.
Proof. exact wellformed_accepted. Qed.
Print Assumptions C12_wellformed_accepted.

Theorem C12_unsupported_rejected : forall H log p a,
  hash_size a = None \/ (p <> 0 /\ p <> 1) -> exists c, replay H log p a = Err c.
Proof. exact unsupported_rejected. Qed.
Print Assumptions C12_unsupported_rejected.

(** * 4. Every other log: replayed by the same rule (1.) or rejected with an error, never a panic *)

Theorem C12_total : forall H log p a e isz d,
  (replay H log p a <> Panic /\ replay H log p a <> OutOfFuel) /\
  (filterEvents log p a <> Panic /\ filterEvents log p a <> OutOfFuel) /\
  (parse_locality d <> Panic /\ parse_locality d <> OutOfFuel) /\
  (parse_event_data e isz <> Panic /\ parse_event_data e isz <> OutOfFuel).
Proof.
  exact (fun H log p a e isz d =>
    conj (replay_total H log p a) (conj (filterEvents_total log p a)
      (conj (parse_locality_no_panic d) (parse_event_data_total e isz)))).
Qed.
Print Assumptions C12_total.

(** FilterEvents returns exactly the selected events, all of the right length. *)
Theorem C12_filter_exact : forall l p a evs,
  filterEvents l p a = Ok evs ->
  evs = selected l p a /\ exists size, hash_size a = Some size /\ Forall (right_length size) evs.
Proof. exact filterEvents_spec. Qed.
Print Assumptions C12_filter_exact.

(** Every (offset, length) range reported by ParseEventData lies in the image window below 4 GiB. *)
Theorem C12_parsedata_ranges_valid : forall e isz r,
  parse_event_data e isz = Ok r ->
  Forall (fun '(off, len) => valid_pair isz len off = true) (pr_ranges r).
Proof. exact parse_event_data_ranges_valid. Qed.
Print Assumptions C12_parsedata_ranges_valid.

(** * 5. tpm.EventLog.Replay (bootflow) *)

(** It returns a value only for PCR0 and a supported algorithm, and then the fold over the
    non-EV_NO_ACTION entries of PCR0 and that bank, seeded with zeros ending in the locality argument. *)
Theorem C12_tpmReplay_is_fold : forall H l p a loc v,
  tpm_replay H l p a loc = Ok v ->
  p = 0 /\ exists size, hash_size a = Some size /\
  v = fold_left (fun acc d => H a (acc ++ d)) (tpm_meas_digests l 0 a) (zeros (size - 1) ++ [loc]).
Proof. exact tpm_replay_is_fold. Qed.
Print Assumptions C12_tpmReplay_is_fold.

(** Its panics are exactly the documented ones (PCR other than 0, algorithm without a hash). *)
Theorem C12_tpmReplay_panics_iff : forall H l p a loc,
  (tpm_replay H l p a loc = Panic <-> (p <> 0 \/ hash_size a = None)) /\
  ((p = 0 /\ hash_size a <> None) -> exists v, tpm_replay H l p a loc = Ok v).
Proof. exact tpm_replay_panics_iff. Qed.
Print Assumptions C12_tpmReplay_panics_iff.

(** RestoreCommands: the extend commands are exactly the non-EV_NO_ACTION entries, in order. *)
Theorem C12_restore_noaction_never_extends : forall l,
  cmd_extends (restore_commands l) =
  map (fun e => (en_pcr e, en_alg e, en_digest e)) (filter en_is_meas l).
Proof. exact restore_extends. Qed.
Print Assumptions C12_restore_noaction_never_extends.

(** * 6. The two replays agree *)

(** Whenever tpmeventlog.Replay returns a value for PCR0, the bootflow replay of the converted log
    with the locality the first replay seeded with returns the same value ... *)
Theorem C12_replays_agree : forall H, hash_len_ok H -> forall log es a size loc v,
  replay H log 0 a = Ok v -> from_parsed log = Ok es ->
  hash_size a = Some size -> seed log 0 a = zeros (size - 1) ++ [loc] ->
  tpm_replay H es 0 a loc = Ok v.
Proof. exact replays_agree. Qed.
Print Assumptions C12_replays_agree.

(** ... in particular for a log led by one startup event with that locality. *)
Theorem C12_replays_agree_startup : forall H, hash_len_ok H -> forall log es a s t loc v,
  replay H log 0 a = Ok v -> from_parsed log = Ok es ->
  selected log 0 a = s :: t -> ev_type s = EV_NO_ACTION -> ev_data s = startup_data loc ->
  tpm_replay H es 0 a loc = Ok v.
Proof. exact replays_agree_startup. Qed.
Print Assumptions C12_replays_agree_startup.

(** * 7. Histories: one log object, replayed several times and edited in place between the calls *)

(** The result of the call made after the steps [pre] is what that call returns on the memory
    as the owner's edits in [pre] left it: the calls made before do not matter. *)
Theorem C12_session_result_is_of_current_log : forall H s pre op post,
  nth_error (snd (srun H s (pre ++ op :: post))) (length pre)
  = Some (call_result H (log_after s (filter is_edit pre)) op).
Proof. exact session_result_current. Qed.
Print Assumptions C12_session_result_is_of_current_log.

(** Two histories with the same edits (and any calls, in any number, in between): the same answer. *)
Theorem C12_session_history_independent : forall H s pre pre' op post post',
  filter is_edit pre = filter is_edit pre' ->
  nth_error (snd (srun H s (pre ++ op :: post))) (length pre)
  = nth_error (snd (srun H s (pre' ++ op :: post'))) (length pre').
Proof. exact session_history_independent. Qed.
Print Assumptions C12_session_history_independent.

(** A value returned by Replay anywhere in a session is the TCG fold over exactly the measurement
    events of that PCR and bank of the log AS IT IS AT THAT MOMENT, in its order at that moment. *)
Theorem C12_session_replay_is_fold : forall H, hash_len_ok H -> forall s pre p a post v,
  nth_error (snd (srun H s (pre ++ SReplay p a :: post))) (length pre) = Some (RReplay (Ok v)) ->
  let log := log_of (log_after s (filter is_edit pre)) in
  v = fold_left (fun acc d => H a (acc ++ d)) (meas_digests log p a) (seed log p a).
Proof. exact session_replay_is_fold. Qed.
Print Assumptions C12_session_replay_is_fold.

(** ... and a log that is well-formed at that moment is replayed, whatever it was before. *)
Theorem C12_session_wellformed_accepted : forall H, hash_len_ok H -> forall s pre p a post,
  wellformed (log_of (log_after s (filter is_edit pre))) p a ->
  exists v, nth_error (snd (srun H s (pre ++ SReplay p a :: post))) (length pre) = Some (RReplay (Ok v)).
Proof. exact session_wellformed_accepted. Qed.
Print Assumptions C12_session_wellformed_accepted.

(** FilterEvents in a session returns the log's own pointers to exactly the events selected at that moment. *)
Theorem C12_session_filter_exact : forall H s pre p a post ads,
  nth_error (snd (srun H s (pre ++ SFilter p a :: post))) (length pre) = Some (RFilter (Ok ads)) ->
  let cur := log_after s (filter is_edit pre) in
  ads = filter (fun ad => sel p a (deref (ls_heap cur) ad)) (ls_evs cur) /\
  map (deref (ls_heap cur)) ads = selected (log_of cur) p a.
Proof. exact session_filter_exact. Qed.
Print Assumptions C12_session_filter_exact.

(** The calls only read: the memory after a session is the memory after its edits alone. *)
Theorem C12_session_calls_leave_log_alone : forall H s ops,
  fst (srun H s ops) = log_after s (filter is_edit ops).
Proof. exact session_state_frame. Qed.
Print Assumptions C12_session_calls_leave_log_alone.

(** The same question twice in a row gets the same answer. *)
Theorem C12_session_same_call_twice : forall H s pre op post,
  is_edit op = false ->
  nth_error (snd (srun H s (pre ++ op :: op :: post))) (S (length pre))
  = nth_error (snd (srun H s (pre ++ op :: op :: post))) (length pre).
Proof. exact session_same_call_twice. Qed.
Print Assumptions C12_session_same_call_twice.

(** No Replay / FilterEvents call of any session panics, whatever the owner did to the log. *)
Theorem C12_session_never_panics : forall H ops s, Forall res_no_panic (snd (srun H s ops)).
Proof. exact session_never_panics. Qed.
Print Assumptions C12_session_never_panics.

(** Non-vacuity: a log object that remembers its selections per (PCR, algorithm, number of events)
    answers the first call like the code does, but is excluded by the theorems above: replay, swap two
    events in place, replay again -- it repeats its first answer, the code's model gives the fold
    over the swapped log. *)
Theorem C12_session_remembering_object_witness :
  hash_len_ok sum_hash /\
  nth_error (snd (srun sum_hash w_state w_ops)) 2
    = Some (RReplay (replay sum_hash (log_of (log_after w_state (filter is_edit [SReplay 0 4; SSetEvents [1%nat; 0%nat]]))) 0 4)) /\
  nth_error (snd (srun_memo sum_hash ([], w_state) w_ops)) 2
    <> nth_error (snd (srun sum_hash w_state w_ops)) 2 /\
  nth_error (snd (srun_memo sum_hash ([], w_state) w_ops)) 2
    = nth_error (snd (srun_memo sum_hash ([], w_state) w_ops)) 0.
Proof. exact memo_session_differs. Qed.
Print Assumptions C12_session_remembering_object_witness.

Theorem C12_session_remembering_object_first_call : forall H s p a,
  snd (sstep_memo H ([], s) (SReplay p a)) = snd (sstep H s (SReplay p a)) /\
  snd (sstep_memo H ([], s) (SFilter p a)) = snd (sstep H s (SFilter p a)).
Proof. exact memo_session_agrees_on_first_call. Qed.
Print Assumptions C12_session_remembering_object_first_call.

(** * Examples: the hypotheses are satisfiable by non-trivial values *)

(** a function with the right output sizes (not a hash, of course) *)
Definition toy_hash (a : Z) (m : list Z) : list Z :=
  match hash_size a with
  | Some size => firstn (Z.to_nat size) (rev m ++ zeros size)
  | None => []
  end.

Example C12_hash_len_ok_satisfiable : hash_len_ok toy_hash.
Proof.
  intros a size m Hs. unfold toy_hash. rewrite Hs. pose proof (hash_size_ge _ _ Hs).
  rewrite firstn_length, app_length, rev_length. unfold zeros. rewrite repeat_length. lia.
Qed.

(** a two-bank log: SHA1 startup event (locality 3), a SHA256 event, two SHA1 measurements, a PCR1 event *)
Definition example_log : list event :=
  [ mkEv 0 EV_NO_ACTION (startup_data 3) (Some (mkDg 4 (zeros 20)));
    mkEv 0 EV_POST_CODE [] (Some (mkDg 11 (repeat 9 32)));
    mkEv 0 EV_POST_CODE [1; 2] (Some (mkDg 4 (repeat 7 20)));
    mkEv 1 7 [] (Some (mkDg 4 (repeat 8 20)));
    mkEv 0 7 [] None;
    mkEv 0 EV_EFI_PLATFORM_FIRMWARE_BLOB2 [] (Some (mkDg 4 (repeat 5 20))) ].

Example C12_wellformed_satisfiable :
  wellformed example_log 0 4 /\ wellformed example_log 0 11 /\ wellformed example_log 1 4 /\
  length (meas_digests example_log 0 4) = 2%nat /\ seed example_log 0 4 = zeros 19 ++ [3].
Proof.
  split; [|split; [|split; [|split]]]; try reflexivity.
  - exists 20. split; [reflexivity|]. split; [left; reflexivity|]. split.
    + repeat constructor.
    + right. split; [reflexivity|]. eexists. eexists. exists 3.
      split; [reflexivity|]. split; [reflexivity|]. split; [reflexivity|]. repeat constructor.
  - exists 32. split; [reflexivity|]. split; [left; reflexivity|]. split; [repeat constructor|].
    left. repeat constructor.
  - exists 20. split; [reflexivity|]. split; [right; reflexivity|]. split; [repeat constructor|].
    left. repeat constructor.
Qed.

(** the same log without its nil-digest event (EventLogFromParsed dereferences the digest) *)
Definition example_log2 : list event :=
  filter (fun e => match ev_digest e with Some _ => true | None => false end) example_log.

Example C12_replay_example :
  exists v es, replay toy_hash example_log 0 4 = Ok v /\ replay toy_hash example_log2 0 4 = Ok v /\
               from_parsed example_log2 = Ok es /\ tpm_replay toy_hash es 0 4 3 = Ok v /\
               length v = 20%nat.
Proof. eexists. eexists. repeat split; vm_compute; reflexivity. Qed.

(** the hypothesis of [C12_noaction_never_contributes] relates different logs *)
Example C12_differ_satisfiable :
  Forall2 differ_in_noaction_digest example_log
    (mkEv 0 EV_NO_ACTION (startup_data 3) (Some (mkDg 4 (repeat 255 20))) :: tl example_log).
Proof. repeat constructor. Qed.

(** a session on [example_log]: replay, move the third event to PCR1 through its pointer, swap the
    last two SHA1 measurements, replay again: both answers are values, and they differ *)
Definition example_state : lstate := mkLS example_log [0; 1; 2; 3; 4; 5]%nat.
Definition example_ops : list sop :=
  [ SReplay 0 4; SFilter 0 4;
    SSetEvent 2 (mkEv 1 EV_POST_CODE [1; 2] (Some (mkDg 4 (repeat 7 20))));
    SSetEvents [0; 1; 5; 3; 4; 2]%nat;
    SReplay 0 4; SFilter 0 4; SReplay 1 4 ].

Example C12_session_example :
  wellformed (log_of (log_after example_state (filter is_edit (firstn 4 example_ops)))) 0 4 /\
  exists v1 v2 v3,
    snd (srun sum_hash example_state example_ops)
    = [RReplay (Ok v1); RFilter (Ok [0; 2; 5]%nat); RNone; RNone;
       RReplay (Ok v2); RFilter (Ok [0; 5]%nat); RReplay (Ok v3)] /\ v1 <> v2.
Proof.
  split.
  - exists 20. split; [reflexivity|]. split; [left; reflexivity|]. split; [repeat constructor|].
    right. split; [reflexivity|]. eexists. eexists. exists 3.
    split; [reflexivity|]. split; [reflexivity|]. split; [reflexivity|]. repeat constructor.
  - eexists. eexists. eexists. split; [vm_compute; reflexivity|]. vm_compute. intro E. discriminate E.
Qed.
