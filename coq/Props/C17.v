(** C17 — LCP policy generation, serialisation and parsing are mutually lossless.
    Only the property theorems, each closed by [exact]; the model is Model/LCP.v
    (tied to pkg/tools/lcp.go by the correspondence run), the vocabulary
    ([wf_policy1/2], [wf_bytes_v2/v3], [gen_spec_policy], ...) is in Proofs/LCP.v.

    Where the code does not satisfy the property text the statement is split:
    - SHA384 (offered by the tool) has a 48-byte digest, [LCPPolicy2.PolicyHash] is
      [[32]byte]: the generated policy loses 16 digest bytes, and the parser, which
      sizes the hash by [HashAlg], rejects every 70-byte SHA384 policy;
    - [GenLCPPolicyV2] replaces every version <= 0x300 by 0x300.
    txt-prov's [loadConfig] (Model/LCPConfig.v) is the code after the repairs 52ddbd2 (the
    documented "0x302" / not-set forms of the version are accepted) and 3f192e9 (placeholder
    PolicyHash as long as a digest of HashAlg): the theorems of the last section are the
    positive statements those two defects refuted. *)
From CSS Require Import Lib.Base Model.LCP Model.LCPConfig Proofs.LCP Proofs.LCPConfig.
From Coq Require String. Import String.StringSyntax.

(** ** Decoding the three flag words is the inverse of encoding them
    (all 2^4 x 2^4 x 2^7 combinations). *)
Theorem C17_flags_inverse : forall (pc : pctrl) (ah : ahash) (sg : asig),
  parse_pc (decon_pc pc) = pc /\ parse_ah (decon_ah ah) = ah /\ parse_as (decon_as sg) = sg.
Proof. exact flags_inverse. Qed.
Print Assumptions C17_flags_inverse.

(** the encoded words are in range and contain the SDG bits only *)
Theorem C17_flags_words_defined_bits : forall (pc : pctrl) (ah : ahash) (sg : asig),
  (u32 (decon_pc pc) /\ Z.land (decon_pc pc) PC_MASK = decon_pc pc) /\
  (u16 (decon_ah ah) /\ Z.land (decon_ah ah) AH_MASK = decon_ah ah) /\
  (u32 (decon_as sg) /\ Z.land (decon_as sg) AS_MASK = decon_as sg).
Proof. exact flags_words_defined_bits. Qed.
Print Assumptions C17_flags_words_defined_bits.

(** the other composition, for every word (also with undefined bits set): re-encoding the decoded
    flags keeps exactly the defined bits *)
Theorem C17_flags_words_roundtrip : forall wpc wah was : Z,
  decon_pc (parse_pc wpc) = Z.land wpc PC_MASK /\ decon_ah (parse_ah wah) = Z.land wah AH_MASK /\
  decon_as (parse_as was) = Z.land was AS_MASK.
Proof. exact flags_words_roundtrip. Qed.
Print Assumptions C17_flags_words_roundtrip.

(** ** parse (serialise p) = p *)
(** version-2 layout (LCPPolicy, 54 bytes), every field value in range, version <= 0x204 *)
Theorem C17_parse_encode_v2 : forall (sha3 : bool) (p : policy1),
  wf_policy1 p -> parse sha3 (encode1 p) = Ok (inl p).
Proof. exact parse_encode1. Qed.
Print Assumptions C17_parse_encode_v2.
Example C17_wf_policy1_example : wf_policy1 ex_p1. Proof. exact ex_p1_wf. Qed.

(** version-3 layout (LCPPolicy2, 70 bytes), every field value in range, version >= 0x300.
    _partial: [wf_policy2] restricts HashAlg to SHA256 or SHA1 (zero-padded digest);
    the property also quantifies over SHA384, for which the statement is false (below). *)
Theorem C17_parse_encode_v3_partial : forall (sha3 : bool) (p : policy2),
  wf_policy2 p -> parse sha3 (encode2 p) = Ok (inr p).
Proof. exact parse_encode2. Qed.
Print Assumptions C17_parse_encode_v3_partial.
Example C17_wf_policy2_example_sha256 : wf_policy2 ex_p2_sha256. Proof. exact ex_p2_sha256_wf. Qed.
Example C17_wf_policy2_example_sha1 : wf_policy2 ex_p2_sha1. Proof. exact ex_p2_sha1_wf. Qed.

Theorem C17_parse_encode_sha384_refuted :
  exists p, wf_policy2_sha384 p /\ parse false (encode2 p) = Err E_UEOF.
Proof. exact parse_encode_sha384_refuted. Qed.
Print Assumptions C17_parse_encode_sha384_refuted.

(** in fact no SHA384 policy survives the round trip *)
Theorem C17_parse_encode_sha384_always_fails : forall (sha3 : bool) (p : policy2),
  wf_policy2_sha384 p -> parse sha3 (encode2 p) = Err E_UEOF.
Proof. exact parse_encode2_sha384. Qed.
Print Assumptions C17_parse_encode_sha384_always_fails.

(** ** serialise (parse b) = b *)
Theorem C17_encode_parse_v2 : forall (sha3 : bool) (b : list Z),
  wf_bytes_v2 b = true -> exists p, parse sha3 b = Ok (inl p) /\ encode1 p = b /\ wf_policy1 p.
Proof. exact encode_parse_v2. Qed.
Print Assumptions C17_encode_parse_v2.
Example C17_wf_bytes_v2_example : wf_bytes_v2 (encode1 ex_p1) = true. Proof. exact ex_bytes_v2_wf. Qed.

(** _partial: [wf_bytes_v3] restricts HashAlg to SHA256 or SHA1 with zero padding (SHA384: below) *)
Theorem C17_encode_parse_v3_partial : forall (sha3 : bool) (b : list Z),
  wf_bytes_v3 b = true -> exists p, parse sha3 b = Ok (inr p) /\ encode2 p = b /\ wf_policy2 p.
Proof. exact encode_parse_v3. Qed.
Print Assumptions C17_encode_parse_v3_partial.
Example C17_wf_bytes_v3_example_sha256 : wf_bytes_v3 (encode2 ex_p2_sha256) = true. Proof. exact ex_bytes_v3_sha256_wf. Qed.
Example C17_wf_bytes_v3_example_sha1 : wf_bytes_v3 (encode2 ex_p2_sha1) = true. Proof. exact ex_bytes_v3_sha1_wf. Qed.

Theorem C17_encode_parse_sha384_refuted :
  exists b, wf_bytes_v3_sha384 b = true /\ parse false b = Err E_UEOF.
Proof. exact encode_parse_sha384_refuted. Qed.
Print Assumptions C17_encode_parse_sha384_refuted.

Theorem C17_encode_parse_sha384_always_fails : forall (sha3 : bool) (b : list Z),
  wf_bytes_v3_sha384 b = true -> parse sha3 b = Err E_UEOF.
Proof. exact parse_v3_sha384. Qed.
Print Assumptions C17_encode_parse_sha384_always_fails.
Example C17_wf_bytes_v3_sha384_example : wf_bytes_v3_sha384 (encode2 ex_p2_sha384) = true. Proof. exact ex_bytes_v3_sha384_wf. Qed.

(** the zero-padding clause of [wf_bytes_v3] is necessary: a 70-byte SHA1 policy with a
    non-zero byte after the 20-byte digest parses, but re-serialises differently *)
Theorem C17_encode_parse_nonzero_padding_refuted : exists p,
  length ex_bytes_sha1_dirty = 70%nat /\ parse false ex_bytes_sha1_dirty = Ok (inr p) /\
  encode2 p <> ex_bytes_sha1_dirty.
Proof. exact encode_parse_nonzero_padding_refuted. Qed.
Print Assumptions C17_encode_parse_nonzero_padding_refuted.

(** ** GenLCPPolicyV2 carries the user's parameters *)
(** exact result for every offered algorithm, every version, every digest of the matching length *)
Theorem C17_gen_characterised : forall version hashid digest sinit pc ah sg,
  offered hashid -> length digest = crypto_size hashid ->
  gen version hashid digest sinit pc ah sg = Ok (gen_spec_policy version hashid digest sinit pc ah sg).
Proof. exact gen_characterised. Qed.
Print Assumptions C17_gen_characterised.

(** _partial: needs version >= 0x300 and a digest that fits (SHA1, SHA256) *)
Theorem C17_gen_carries_params_partial : forall version hashid digest sinit pc ah sg,
  (hashid = CryptoSHA1 \/ hashid = CryptoSHA256) -> length digest = crypto_size hashid ->
  LCPPolicyVersion3 <= version ->
  exists p, gen version hashid digest sinit pc ah sg = Ok p /\
    p2_version p = version /\ p2_hashalg p = tpm_alg hashid /\
    p2_hash p = digest ++ repeat 0 (32 - length digest) /\
    p2_sinit p = sinit /\
    parse_pc (p2_pc p) = pc /\ parse_ah (p2_hmask p) = ah /\ parse_as (p2_smask p) = sg /\
    p2_ptype p = LCPPolicyTypeAny /\ p2_drc p = repeat 0 8 /\ p2_maxsinit p = 0 /\ p2_reserved p = 0 /\ p2_res2 p = 0.
Proof. exact gen_carries_params. Qed.
Print Assumptions C17_gen_carries_params_partial.
Example C17_gen_carries_params_example :
  (CryptoSHA256 = CryptoSHA1 \/ CryptoSHA256 = CryptoSHA256) /\ length ex_digest32 = crypto_size CryptoSHA256 /\ LCPPolicyVersion3 <= 770.
Proof. split; [right; reflexivity | split; [reflexivity | discriminate]]. Qed.

(** everything but a version below 0x300 and the tail of a long digest is carried for all three algorithms *)
Theorem C17_gen_carries_other_params : forall version hashid digest sinit pc ah sg,
  offered hashid -> length digest = crypto_size hashid ->
  exists p, gen version hashid digest sinit pc ah sg = Ok p /\
    p2_version p = Z.max version LCPPolicyVersion3 /\ p2_hashalg p = tpm_alg hashid /\
    p2_hash p = fix_len 32 digest /\ p2_sinit p = sinit /\
    parse_pc (p2_pc p) = pc /\ parse_ah (p2_hmask p) = ah /\ parse_as (p2_smask p) = sg.
Proof. exact gen_carries_other_params. Qed.
Print Assumptions C17_gen_carries_other_params.

Theorem C17_gen_version_refuted : exists version p,
  gen version CryptoSHA256 ex_digest32 7 ex_pc ex_ah ex_as = Ok p /\ p2_version p <> version.
Proof. exact gen_version_refuted. Qed.
Print Assumptions C17_gen_version_refuted.

Theorem C17_gen_hash_sha384_refuted : exists p,
  gen 768 CryptoSHA384 ex_digest48 7 ex_pc ex_ah ex_as = Ok p /\
  p2_hash p = firstn 32 ex_digest48 /\ firstn 48 (p2_hash p) <> ex_digest48.
Proof. exact gen_hash_sha384_refuted. Qed.
Print Assumptions C17_gen_hash_sha384_refuted.

(** ** generate, serialise, parse: end to end *)
(** _partial: SHA1/SHA256 only; holds for every version because of the normalisation *)
Theorem C17_gen_roundtrip_partial : forall sha3 version hashid digest sinit pc ah sg,
  (hashid = CryptoSHA1 \/ hashid = CryptoSHA256) -> length digest = crypto_size hashid ->
  u16 version -> byte sinit -> Forall byte digest ->
  exists p, gen version hashid digest sinit pc ah sg = Ok p /\ parse sha3 (encode2 p) = Ok (inr p).
Proof. exact gen_roundtrip. Qed.
Print Assumptions C17_gen_roundtrip_partial.

Theorem C17_gen_roundtrip_sha384_always_fails : forall sha3 version digest sinit pc ah sg,
  length digest = 48%nat -> u16 version -> byte sinit -> Forall byte digest ->
  exists p, gen version CryptoSHA384 digest sinit pc ah sg = Ok p /\ parse sha3 (encode2 p) = Err E_UEOF.
Proof. exact gen_roundtrip_sha384. Qed.
Print Assumptions C17_gen_roundtrip_sha384_always_fails.

(** ** the policy txt-prov generates from its JSON config file (loadConfig) *)
(** [config_states c ver alg pt sinit maxsinit lpc lah las]: the eight strings of the config
    state these parameters in a documented way - the version not set (default 0x300) or a hex
    form for 0x300..0x306, HashAlg one of SHA1/SHA256/SHA384, PolicyType Any/List, the two SINIT
    versions not set (defaults 0 / 0xff) or a hex form below 0x100, and each of the three lists
    the comma-joined names [lpc]/[lah]/[las]: documented names, none twice, in ANY order.
    A hex form ([hex_form]) is a string of hex digits (any case, leading zeros), bare or with one
    "0x" / "0X" in front; [hex_denotes] is an inductive reading of hex digits that does not
    mention the model. *)
Theorem C17_config_characterised : forall c ver alg pt sinit maxsinit lpc lah las,
  config_states c ver alg pt sinit maxsinit lpc lah las ->
  load_config c = Ok (config_spec_policy ver alg pt sinit maxsinit lpc lah las).
Proof. exact config_characterised. Qed.
Print Assumptions C17_config_characterised.

(** the generated policy carries exactly the stated parameters; the flag words decode
    (Parse* decoders) to exactly the named flags *)
Theorem C17_config_carries_params : forall c ver alg pt sinit maxsinit lpc lah las,
  config_states c ver alg pt sinit maxsinit lpc lah las ->
  exists p, load_config c = Ok p /\
    p2_version p = ver /\ p2_hashalg p = alg /\ p2_ptype p = pt /\ p2_sinit p = sinit /\ p2_maxsinit p = maxsinit /\
    parse_pc (p2_pc p) = pc_flags lpc /\ parse_ah (p2_hmask p) = ah_flags lah /\ parse_as (p2_smask p) = as_flags las.
Proof. exact config_carries_params. Qed.
Print Assumptions C17_config_carries_params.
(* version not set, "0X007F", names out of order, SHA1 *)
Example C17_config_states_example :
  config_states ex_config 768 AlgSHA1 0 127 255 [bs "AuxDelete"; bs "NPW"] [bs "SHA384"; bs "SHA1"]
                [bs "ECDSAP384SHA384"; bs "RSA2048SHA1"; bs "RSA3072SHA256"].
Proof. exact ex_config_states. Qed.
(* the lcp.json shipped in cmd/core/txt-prov ("Version": "0x302") *)
Example C17_config_states_example_shipped :
  config_states shipped_config 770 AlgSHA256 1 0 255 [] [bs "SHA256"] [bs "RSA2048SHA256"].
Proof. exact shipped_states. Qed.

(** the inductive reading of hex digits is what the model's digit loop computes *)
Theorem C17_config_hex_reading : forall l v,
  hex_denotes l v <-> (l <> [] /\ hex_fold 0 l = Some v).
Proof.
  intros l v. split.
  - intros H. apply hex_denotes_fold in H. tauto.
  - intros [Hn Hf]. apply hex_denotes_of_fold; assumption.
Qed.
Print Assumptions C17_config_hex_reading.

(** the documented forms of the version (was refuted before 52ddbd2): whatever else the config
    says, the hex digits [d], "0x"+[d] and "0X"+[d] give the same result, and a version that is
    not set gives the result of "300" *)
Theorem C17_config_version_forms : forall c d v, hex_denotes d v -> v < W64 ->
  load_config (set_version c (bs "0x" ++ d)) = load_config (set_version c d) /\
  load_config (set_version c (bs "0X" ++ d)) = load_config (set_version c d) /\
  load_config (set_version c []) = load_config (set_version c (bs "300")).
Proof. exact config_version_forms. Qed.
Print Assumptions C17_config_version_forms.

(** what is not a hex value is still refused, whatever else the config says *)
Theorem C17_config_version_malformed_refused : forall c,
  In (c_version c) [bs "0x"; bs "0X"; bs "0x0x302"; bs "0X0x302"; bs "x302"; bs "0x3g2"; bs "302h"; bs "-302"; bs "+302"; bs " 302"; bs "3_02"] ->
  load_config c = Err E_STRCONV.
Proof. exact config_version_malformed_refused. Qed.
Print Assumptions C17_config_version_malformed_refused.

(** generate from the config, serialise, parse: the identity for SHA1 (was refuted before
    3f192e9) and SHA256.  _partial: HashAlg SHA384 is excluded (next theorem) *)
Theorem C17_config_roundtrip_partial : forall sha3 c ver alg pt sinit maxsinit lpc lah las,
  config_states c ver alg pt sinit maxsinit lpc lah las -> alg <> AlgSHA384 ->
  exists p, load_config c = Ok p /\ parse sha3 (encode2 p) = Ok (inr p).
Proof. exact config_roundtrip. Qed.
Print Assumptions C17_config_roundtrip_partial.
Example C17_config_roundtrip_example_sha1 : AlgSHA1 <> AlgSHA384. Proof. discriminate. Qed.

Theorem C17_config_roundtrip_sha384_always_fails : forall sha3 c ver pt sinit maxsinit lpc lah las,
  config_states c ver AlgSHA384 pt sinit maxsinit lpc lah las ->
  exists p, load_config c = Ok p /\ parse sha3 (encode2 p) = Err E_UEOF.
Proof. exact config_roundtrip_sha384. Qed.
Print Assumptions C17_config_roundtrip_sha384_always_fails.

(** the hypotheses of [name_list] are necessary: a name listed twice is added twice
    ("NPW,NPW" sets SinitCaps, not NPW), a blank after the comma makes the name unknown and it is
    dropped without an error ("NPW, OwnerEnforced" sets NPW only) *)
Theorem C17_config_list_hypotheses_needed_refuted :
  (exists p, load_config dup_config = Ok p /\ parse_pc (p2_pc p) = MkPC false false false true) /\
  (exists p, load_config blank_config = Ok p /\ parse_pc (p2_pc p) = MkPC true false false false).
Proof. exact config_list_hypotheses_needed. Qed.
Print Assumptions C17_config_list_hypotheses_needed_refuted.
