(** C09 — the boot-flow interpreter executes flows faithfully and contains
    failures.  This file holds only the property theorems, each closed by
    [exact].  The model is Model/Interp.v: [run] is the code-shaped machine
    (boot_process.go: NextStep/Finish with the uint StepIndex carriage),
    [exec_flow] / [spec_run] / [exec_step] are the specification.

    [sized fam] says that every flow has at most 2^64-1 steps.  It is weaker
    than the property's own bound (8 steps per flow) and holds for every Go
    slice (len < 2^63); without it the "flow changed" test
    [StepIndex == MaxUint] would be ambiguous in the model.

    Nil steps and negated conditions.  A flow may contain holes ([SNil]: a
    nil entry of [Flow.Steps], or a nil pointer of a step type): calling
    [Actions] on one panics, so it is a step like any other whose [Actions]
    panics — logged with a step->actions issue, and the run goes on behind it
    (C09_step_panic_continues, C09_nil_step_contained, C09_nil_flow_log, at the
    level of NextStep itself).  Negation is [commonconds.Not], one wrapper per
    negation ([CNot], [nots n]): C09_cond_not, C09_if_not_swaps_branches,
    C09_if_nots_parity, C09_flow_func_nots_parity.

    The last group of theorems (C09_step_actions_owned, C09_run_keeps_family,
    C09_log_entries_stable) is about Model/InterpHeap.v, where the action
    list of a static step is not a value but a WINDOW into an array of the
    flow definition (windows may overlap and may have spare capacity that is
    another step's content) and the log keeps the slices the steps returned:
    running a flow writes no array of the definition, whatever the growth
    policy of [append], so the theorems above — stated for the family as a
    value — speak about the family AS DEFINED BEFORE the run, and a log entry
    never changes after it was recorded.  No no-aliasing assumption is
    needed; [wf_family] only says that the windows point into existing
    arrays.

    Sessions (Model/InterpSession.v): a BootProcess is an object that may be
    driven by SEVERAL calls — single NextStep calls, Finish, Finish again,
    NextStep after the end, State.SetFlow(next flow) and on — with the Log
    that is already there.  C09_finish_from_anywhere, C09_stepwise_then_finish,
    C09_rerun_after_set_flow, C09_session_never_aborts, C09_session_keeps_log
    and C09_session_runs say that whoever asks for the next step, the same
    steps are executed, every one leaves its entry behind the entries that
    are there, and none of those is ever taken back or changed. *)
From CSS Require Import Lib.Base Model.Interp Proofs.Interp Model.InterpHeap Proofs.InterpHeap
  Model.InterpSession Proofs.InterpSession.

(** Acyclic (stratified) families: [Finish] — any number of NextStep calls from
    [fuel_bound fam] = 1 + total number of steps on — terminates and leaves
    exactly the log and the state of the big-step semantics [exec_flow]: steps
    in order from the first, actions in order, after a flow-setting action the
    first step of the new flow, stop after the last step. *)
Theorem C09_refines_spec : forall fam root c fuel,
  sized fam -> stratified fam = true -> (fuel_bound fam <= fuel)%nat ->
  exists st,
    run fuel fam (init_state root c) [] = Ok (st, fst (exec_flow fam root c), true) /\
    ms_core st = snd (exec_flow fam root c).
Proof. exact refines_spec. Qed.
Print Assumptions C09_refines_spec.

(** Any family (cycles included), any number [fuel] of NextStep calls: the
    machine agrees with the remaining-steps semantics [spec_run], including
    whether the end of the flow was reported. *)
Theorem C09_refines_spec_fuel : forall fam root c fuel,
  sized fam ->
  exists st,
    run fuel fam (init_state root c) [] =
      Ok (st, fst (fst (spec_run fuel fam (flow_steps fam root) c)),
          snd (spec_run fuel fam (flow_steps fam root) c)) /\
    ms_core st = snd (fst (spec_run fuel fam (flow_steps fam root) c)).
Proof. exact refines_spec_fuel. Qed.
Print Assumptions C09_refines_spec_fuel.

(** No step, action, condition or actor of the embedding makes the simulation
    abort: the machine always returns normally (in particular the step index
    is never out of range). *)
Theorem C09_never_aborts : forall fam root c fuel,
  sized fam ->
  (exists st log d, run fuel fam (init_state root c) [] = Ok (st, log, d)) /\
  run fuel fam (init_state root c) [] <> Panic.
Proof. intros fam root c fuel H. split; [exact (never_aborts fam root c fuel H) | exact (never_panics fam root c fuel H)]. Qed.
Print Assumptions C09_never_aborts.

(** [Step.Actions] can only return or panic (the interface has no error
    result) ... *)
Theorem C09_step_returns_or_panics : forall s c,
  (exists a, actions_of s c = Ok a) \/ actions_of s c = Panic.
Proof. exact actions_of_shape. Qed.
Print Assumptions C09_step_returns_or_panics.

(** ... and a step whose [Actions] panics is logged with a step->actions issue
    (plus the actor's issues), no actions, no measurements, the state is
    untouched and execution goes on with the NEXT STEP of the same flow (no
    switch: third component [None]). *)
Theorem C09_step_panic_contained : forall sid body c,
  actions_of body c = Panic ->
  exec_step (sid, body) c =
    (mkEntry sid [] (ICActions :: snd (actor_part c)) [] (c_actor c) (fst (actor_part c)), c, None).
Proof. exact step_panic_contained. Qed.
Print Assumptions C09_step_panic_contained.

(** The same at machine level, i.e. for NextStep itself: the call on a step
    whose [Actions] panics appends exactly that entry, returns [true] (a step
    WAS executed, [Finish] goes on), leaves the state alone, and the steps
    still to be executed are the FOLLOWING steps [more] of the same flow. *)
Theorem C09_step_panic_continues : forall fam st log sid body more,
  sized fam -> uint_ok st ->
  remaining fam st = (sid, body) :: more ->
  actions_of body (ms_core st) = Panic ->
  exists st',
    next_step fam st log =
      Ok (st', log ++ [mkEntry sid [] (ICActions :: snd (actor_part (ms_core st))) []
                               (c_actor (ms_core st)) (fst (actor_part (ms_core st)))], true) /\
    ms_core st' = ms_core st /\ uint_ok st' /\ remaining fam st' = more.
Proof. exact step_panic_machine. Qed.
Print Assumptions C09_step_panic_continues.

(** A nil [types.Step] — a hole in [Flow.Steps], at any position: first step
    of the run, first step of a flow that was switched to, last step — is such
    a step (calling [Actions] on it panics); no hypothesis about the step is
    left: it is logged (its entry carries the nil step), and the run goes on
    with the step after the hole. *)
Theorem C09_nil_step_contained : forall fam st log sid more,
  sized fam -> uint_ok st ->
  remaining fam st = (sid, SNil) :: more ->
  exists st',
    next_step fam st log =
      Ok (st', log ++ [mkEntry sid [] (ICActions :: snd (actor_part (ms_core st))) []
                               (c_actor (ms_core st)) (fst (actor_part (ms_core st)))], true) /\
    ms_core st' = ms_core st /\ uint_ok st' /\ remaining fam st' = more.
Proof. exact nil_step_machine. Qed.
Print Assumptions C09_nil_step_contained.

(** Even a flow made of holes only is executed to its end: one entry per hole,
    in order, then the end is reported; the state is untouched.  (For flows
    that mix holes with other non-switching steps C09_linear_flow_log below
    gives the same: [step_targets SNil = []].) *)
Theorem C09_nil_flow_log : forall fam root sids c fuel,
  sized fam -> lookup fam root = Some (map (fun sid => (sid, SNil)) sids) -> (length sids < fuel)%nat ->
  exists st,
    run fuel fam (init_state root c) [] =
      Ok (st, map (fun sid => mkEntry sid [] (ICActions :: snd (actor_part c)) [] (c_actor c) (fst (actor_part c))) sids,
          true) /\
    ms_core st = c.
Proof. exact nil_flow_log. Qed.
Print Assumptions C09_nil_flow_log.

(** Conditional steps "with arbitrary conditions": a condition negated with
    [commonconds.Not] holds exactly when the condition does not (a panicking
    [Check] stays a panic) ... *)
Theorem C09_cond_not : forall cd c,
  eval_cond (CNot cd) c = match eval_cond cd c with Ok b => Ok (negb b) | o => o end.
Proof. exact eval_cond_not. Qed.
Print Assumptions C09_cond_not.

(** ... so the conditional step on the negated condition asks for the actions
    of the OTHER branch ... *)
Theorem C09_if_not_swaps_branches : forall cd t e c,
  actions_of (SIf (CNot cd) t e) c = actions_of (SIf cd e t) c.
Proof. exact if_not_swaps. Qed.
Print Assumptions C09_if_not_swaps_branches.

(** ... and [n] negations stacked on each other ([nots n cd]) exchange the
    branches iff [n] is odd: a double negation is the condition itself, it
    does not collapse into a single one. *)
Theorem C09_if_nots_parity : forall n cd t e c,
  actions_of (SIf (nots n cd) t e) c =
    if Nat.even n then actions_of (SIf cd t e) c else actions_of (SIf cd e t) c.
Proof. exact if_nots. Qed.
Print Assumptions C09_if_nots_parity.

(** The same for a flow-choosing function that branches on a negated
    condition. *)
Theorem C09_flow_func_nots_parity : forall n cd t e c,
  eval_ffun (FIf (nots n cd) t e) c =
    if Nat.even n then eval_ffun (FIf cd t e) c else eval_ffun (FIf cd e t) c.
Proof. exact ffun_nots. Qed.
Print Assumptions C09_flow_func_nots_parity.

(** Failing actions: the state after a step is the result of applying ALL
    actions up to and including the first flow-setting one ([executed acts c];
    whether an action sets the flow is decided on the state left by its
    predecessors), failed or not; and the step has an issue with coordinate
    action#n exactly when the n-th of them, applied to the state left by ALL
    its predecessors, returned an error or panicked. *)
Theorem C09_action_failure_contained : forall acts c,
  snd (fst (spec_actions acts 0 c)) = apply_all (executed acts c) c /\
  forall n, In (ICAction (Z.of_nat n)) (fst (fst (fst (spec_actions acts 0 c)))) <->
            exists a, nth_error (executed acts c) n = Some a /\
                      result_of a (apply_all (firstn n (executed acts c)) c) <> Ok tt.
Proof. exact action_failure_contained. Qed.
Print Assumptions C09_action_failure_contained.

(** One log entry per executed step: a NextStep call that finds a step left in
    the current flow appends exactly one entry, the one the specification
    gives for that step (carrying its identity); a call that finds none
    appends nothing and reports the end. *)
Theorem C09_log_one_per_step : forall fam st log,
  sized fam -> uint_ok st ->
  match remaining fam st with
  | [] => exists st', next_step fam st log = Ok (st', log, false)
  | ts :: _ =>
      exists st', next_step fam st log = Ok (st', log ++ [fst (fst (exec_step ts (ms_core st)))], true) /\
                  e_sid (fst (fst (exec_step ts (ms_core st)))) = fst ts
  end.
Proof. exact log_one_per_step. Qed.
Print Assumptions C09_log_one_per_step.

(** A flow without any flow-setting action is executed from its first to its
    last step, in order, and then the run stops. *)
Theorem C09_linear_flow_log : forall fam root steps c fuel,
  sized fam -> lookup fam root = Some steps -> flow_targets steps = [] -> (length steps < fuel)%nat ->
  exists st log, run fuel fam (init_state root c) [] = Ok (st, log, true) /\ map e_sid log = map fst steps.
Proof. exact linear_flow_log. Qed.
Print Assumptions C09_linear_flow_log.

(** The measured data of the log entries, concatenated, is exactly what the run
    added to the state's MeasuredData (any family, any number of NextStep
    calls, measurements present before the run included). *)
Theorem C09_measured_concat : forall fam root c fuel st log d,
  sized fam -> run fuel fam (init_state root c) [] = Ok (st, log, d) ->
  c_measured (ms_core st) = c_measured c ++ concat (map e_measured log).
Proof. exact measured_concat. Qed.
Print Assumptions C09_measured_concat.

(** A flow switch skips the rest of the step: when the current step (of any
    kind: static, merged, conditional ...) asks for the actions
    [pre ++ a :: post], nothing in [pre] sets the flow when run from the
    current state and [a], applied to the state [pre] leaves, does (to [g]),
    the NextStep call logs the whole action list but its state, measured data
    and issues are those of [pre ++ [a]] alone — [post] has no influence — and
    the next step to be executed is the first step of [g]. *)
Theorem C09_flow_switch_skips_rest : forall fam st log sid body pre a post g more,
  sized fam -> uint_ok st ->
  remaining fam st = (sid, body) :: more ->
  actions_of body (ms_core st) = Ok (pre ++ a :: post) ->
  first_switch pre (ms_core st) = None -> sets_flow a (apply_all pre (ms_core st)) = Some g ->
  exists st' e, next_step fam st log = Ok (st', log ++ [e], true) /\
    remaining fam st' = flow_steps fam g /\
    e_actions e = pre ++ a :: post /\
    ms_core st' = snd (fst (spec_actions (pre ++ [a]) 0 (ms_core st))) /\
    e_measured e = snd (fst (fst (spec_actions (pre ++ [a]) 0 (ms_core st)))) /\
    e_issues e = fst (fst (fst (spec_actions (pre ++ [a]) 0 (ms_core st)))) ++ snd (actor_part (ms_core st')).
Proof. exact switch_skips_rest. Qed.
Print Assumptions C09_flow_switch_skips_rest.

(** Function-based set-flow ([SetFlowFromFunc] / [SetFlowFunc]).  The step
    only hands the function on: building the action list never calls it, so
    nothing the function does (choose by state, panic) can show at that
    point ... *)
Theorem C09_set_flow_func_step_lazy : forall id fn c,
  actions_of (SSetFlowFunc id fn) c = Ok [ASetFlowFunc id fn].
Proof. exact set_flow_func_step_lazy. Qed.
Print Assumptions C09_set_flow_func_step_lazy.

(** ... the flow is chosen when the action is applied, i.e. on the state left
    by ALL the actions applied before it in the same step ([apply_all pre c],
    not [c]); when the function panics nothing is switched by this action and
    the remaining actions decide ... *)
Theorem C09_set_flow_func_late : forall pre id fn post idx c,
  first_switch pre c = None ->
  snd (spec_actions (pre ++ ASetFlowFunc id fn :: post) idx c) =
    match eval_ffun fn (apply_all pre c) with
    | Ok g => Some g
    | _ => first_switch post (apply_all pre c)
    end.
Proof. exact set_flow_func_late. Qed.
Print Assumptions C09_set_flow_func_late.

(** ... a panicking function is an issue of that ACTION (not of the step) ... *)
Theorem C09_set_flow_func_issue : forall id fn c,
  result_of (ASetFlowFunc id fn) c <> Ok tt <-> (forall g, eval_ffun fn c <> Ok g).
Proof. exact set_flow_func_issue. Qed.
Print Assumptions C09_set_flow_func_issue.

(** ... and this is what the code-shaped machine does: NextStep on a step
    asking for [pre ++ SetFlowFunc fn :: post] continues at the first step of
    the flow [fn] returns for the state after [pre]. *)
Theorem C09_set_flow_func_machine : forall fam st log sid body pre id fn post g more,
  sized fam -> uint_ok st ->
  remaining fam st = (sid, body) :: more ->
  actions_of body (ms_core st) = Ok (pre ++ ASetFlowFunc id fn :: post) ->
  first_switch pre (ms_core st) = None ->
  eval_ffun fn (apply_all pre (ms_core st)) = Ok g ->
  exists st' e, next_step fam st log = Ok (st', log ++ [e], true) /\
    remaining fam st' = flow_steps fam g /\
    ms_core st' = apply_all pre (ms_core st).
Proof. exact set_flow_func_machine. Qed.
Print Assumptions C09_set_flow_func_machine.

(** The hypotheses of the four statements above are satisfiable, and resolving
    the function early (on the state at the start of the step) would give a
    different run: the merged step sets actor 5 and then chooses by actor. *)
Definition demo_func : family :=
  [ (0, [ (10, SMerge [Some (SSetActor (Some 5));
                       Some (SSetFlowFunc 1 (FIf (CActorIs (Some 5)) (FFlow 1) (FFlow 2)));
                       Some (SSetActor (Some 7))]);
          (11, SStatic [ATPMMeasure 1 ROk]) ]);
    (1, [ (12, SStatic [ATPMMeasure 2 ROk]) ]);
    (2, [ (13, SStatic [ATPMMeasure 3 ROk]) ]) ].

Example C09_demo_func :
  let c0 := mkCore None [] (Some true) in
  let fn := FIf (CActorIs (Some 5)) (FFlow 1) (FFlow 2) in
  sized demo_func /\ stratified demo_func = true /\
  actions_of (SMerge [Some (SSetActor (Some 5)); Some (SSetFlowFunc 1 fn); Some (SSetActor (Some 7))]) c0
    = Ok ([ASetActor (Some 5)] ++ ASetFlowFunc 1 fn :: [ASetActor (Some 7)]) /\
  first_switch [ASetActor (Some 5)] c0 = None /\
  eval_ffun fn (apply_all [ASetActor (Some 5)] c0) = Ok 1 /\
  eval_ffun fn c0 = Ok 2 /\
  map e_sid (fst (exec_flow demo_func 0 c0)) = [10; 12] /\
  c_actor (snd (exec_flow demo_func 0 c0)) = Some 5 /\
  (exists st, run 4 demo_func (init_state 0 c0) [] = Ok (st, fst (exec_flow demo_func 0 c0), true)
              /\ ms_flow st = 1).
Proof.
  split; [apply sized_b_sound; reflexivity|].
  repeat (split; [vm_compute; reflexivity|]).
  eexists. split; vm_compute; reflexivity.
Qed.

(** The hypotheses are satisfiable by a family that exercises every clause:
    flow 0 fails, panics, measures, then switches in the middle of a step;
    flow 1 starts with a step whose Actions() panics. *)
Definition demo : family :=
  [ (0, [ (10, SStatic [APanic; ACustom 1 None None RErr; ATPMMeasure 2 ROk]);
          (11, SMerge [Some (SSetActor (Some 5)); Some (SSetFlow 1); Some (SStatic [ATPMMeasure 3 ROk])]);
          (12, SStatic [ATPMMeasure 4 ROk]) ]);
    (1, [ (13, SCustom 7 true [ATPMMeasure 5 ROk]);
          (14, SIf (CActorIs (Some 5)) (Some (SStatic [ATPMMeasure 6 ROk])) None) ]) ].

Example C09_demo :
  sized demo /\ stratified demo = true /\ fuel_bound demo = 6%nat /\
  let '(log, c) := exec_flow demo 0 (mkCore None [] (Some true)) in
  map e_sid log = [10; 11; 13; 14] /\
  map e_issues log = [[ICAction 0; ICAction 1]; []; [ICActions]; []] /\
  map e_measured log = [[2]; []; []; [6]] /\
  c_measured c = [2; 6].
Proof. split; [apply sized_b_sound; reflexivity|]. vm_compute. repeat split. Qed.

Example C09_demo_machine :
  exists st, run 6 demo (init_state 0 (mkCore None [] (Some true))) [] =
             Ok (st, fst (exec_flow demo 0 (mkCore None [] (Some true))), true)
             /\ (ms_flow st, ms_step st) = (1, 2).
Proof. eexists. split; vm_compute; reflexivity. Qed.

(** Holes and stacked negations in one family: flow 0 has a hole in the
    middle and then a conditional on a DOUBLE negation of "actor is 5" (true
    here), which switches to flow 1; flow 1 starts with a hole and ends with
    one.  Every hole is logged with a step->actions issue and the step after
    it is executed. *)
Definition demo_holes : family :=
  [ (0, [ (10, SSetActor (Some 5)); (3, SNil);
          (11, SIf (nots 2 (CActorIs (Some 5))) (Some (SSetFlow 1)) (Some (SStatic [ATPMMeasure 1 ROk])));
          (12, SStatic [ATPMMeasure 2 ROk]) ]);
    (1, [ (3, SNil); (13, SStatic [ATPMMeasure 3 ROk]); (3, SNil) ]) ].

Example C09_demo_holes :
  let c0 := mkCore None [] (Some true) in
  sized demo_holes /\ stratified demo_holes = true /\
  (let '(log, c) := exec_flow demo_holes 0 c0 in
   map e_sid log = [10; 3; 11; 3; 13; 3] /\
   map e_issues log = [[]; [ICActions]; []; [ICActions]; []; [ICActions]] /\
   map e_actions log = [[ASetActor (Some 5)]; []; [ASetFlow 1]; []; [ATPMMeasure 3 ROk]; []] /\
   c_measured c = [3]) /\
  (exists st, run (fuel_bound demo_holes) demo_holes (init_state 0 c0) [] =
              Ok (st, fst (exec_flow demo_holes 0 c0), true) /\ (ms_flow st, ms_step st) = (1, 3)).
Proof.
  split; [apply sized_b_sound; reflexivity|].
  split; [reflexivity|]. split; [vm_compute; repeat split|].
  eexists. split; vm_compute; reflexivity.
Qed.

(** * Who owns the memory of an action list (Model/InterpHeap.v) *)

(** One call of [Step.Actions] on heap [h] — for a static step its own window,
    for a conditional the window of the chosen branch, for a merged step a
    list built by [append] from nil, for the others a fresh literal — only
    EXTENDS the heap (every array that existed before the call is untouched,
    for every growth policy [grow] of [append]), so the step still reads the
    same afterwards, and the slice returned reads as the action list of the
    step as defined ([resolve h s]) in the value-level model. *)
Theorem C09_step_actions_owned : forall grow s c h,
  wf_step (length h) s = true ->
  match actions_h grow s c h with
  | Ok (sl, h') =>
      (exists extra, h' = h ++ extra) /\ firstn (length h) h' = h /\
      resolve h' s = resolve h s /\
      actions_of (resolve h s) c = Ok (read h' sl)
  | Panic => actions_of (resolve h s) c = Panic
  | _ => False
  end.
Proof. exact step_actions_owned. Qed.
Print Assumptions C09_step_actions_owned.

(** Running a flow does not modify the family: any number of NextStep calls
    on a family laid out in heap [h] (any layout: shared arrays, overlapping
    windows, spare capacity) returns normally, the final heap is [h] plus new
    arrays, the family reads the same after the run as before it, and state
    and log — the logged slices read through the FINAL heap — are those of
    the value-level machine [run] on the family as defined before the run
    (to which all theorems above apply). *)
Theorem C09_run_keeps_family : forall grow fam h root c fuel,
  wf_family (length h) fam = true -> sized (resolve_family h fam) ->
  exists st h' log d,
    run_h grow fuel fam (init_state root c) h [] = Ok (st, h', log, d) /\
    (exists extra, h' = h ++ extra) /\ firstn (length h) h' = h /\
    resolve_family h' fam = resolve_family h fam /\
    run fuel (resolve_family h fam) (init_state root c) [] = Ok (st, map (read_entry h') log, d).
Proof. exact run_keeps_family. Qed.
Print Assumptions C09_run_keeps_family.

(** The log records what was executed and keeps recording it: continuing a
    run from any point only appends entries, and the entries recorded before
    read the same through the later heap as when they were recorded. *)
Theorem C09_log_entries_stable : forall grow fam fuel st h log st' h' log' d,
  wf_family (length h) fam = true -> wf_log h log ->
  run_h grow fuel fam st h log = Ok (st', h', log', d) ->
  exists new, log' = log ++ new /\ map (read_entry h') log = map (read_entry h) log /\
              firstn (length h) h' = h.
Proof. exact log_entries_stable. Qed.
Print Assumptions C09_log_entries_stable.

(** The hypotheses are satisfiable by a layout in which aliasing would show:
    one array [a; b; c], a prologue step that is the window [a] with spare
    capacity 2, merged with a literal [x], and a second step that is the
    whole array.  The run logs [a; x] (in new memory: the logged slice is not
    in the definition's array 0) and then [a; b; c], and the array is
    unchanged.  The last line shows why this needs proof: [append] ONTO the
    prologue's window writes the array in place and the second step would
    read [a; x; c]. *)
Definition dA (n : Z) : action := ACustom n (Some (100 + n)) None ROk.
Definition demo_heap : heap := [ [dA 1; dA 2; dA 3]; [dA 4] ].
Definition demo_hfam : hfamily :=
  [ (0, [ (10, HMerge [Some (HStatic (Some (mkSl 0 0 1 3))); Some (HStatic (Some (mkSl 1 0 1 1)))]);
          (11, HStatic (Some (mkSl 0 0 3 3))) ]) ].

Example C09_demo_heap :
  let c0 := mkCore None [] None in
  wf_family (length demo_heap) demo_hfam = true /\ sized (resolve_family demo_heap demo_hfam) /\
  match run_h grow_exact 3 demo_hfam (init_state 0 c0) demo_heap [] with
  | Ok (st, h', log, d) =>
     d = true /\ firstn 2 h' = demo_heap /\
     map (fun e => e_actions (read_entry h' e)) log = [[dA 1; dA 4]; [dA 1; dA 2; dA 3]] /\
     map (fun e => omap sl_arr (he_actions e)) log = [Some 3%nat; Some 0%nat] /\
     c_measured (ms_core st) = [101; 104; 101; 102; 103]
  | _ => False
  end /\
  (let '(h1, sl) := append_h grow_exact demo_heap (Some (mkSl 0 0 1 3)) [dA 4] in
   read h1 (Some (mkSl 0 0 3 3)) = [dA 1; dA 4; dA 3] /\ omap sl_arr sl = Some 0%nat).
Proof.
  split; [reflexivity|]. split; [apply sized_b_sound; reflexivity|].
  split; [vm_compute; repeat split|].
  vm_compute. split; reflexivity.
Qed.

(** * Several calls on one BootProcess (Model/InterpSession.v) *)

(** NextStep calls / Finish on a process that is ANYWHERE in a flow and whose
    Log already holds ANY entries: the entries that were there stay, in front,
    and behind them come exactly the entries of the steps that were still to
    be executed ([remaining]: the rest of the current flow), run by the
    specification from the current state. *)
Theorem C09_finish_from_anywhere : forall fam fuel st log,
  sized fam -> uint_ok st ->
  exists st',
    run fuel fam st log =
      Ok (st', log ++ fst (fst (spec_run fuel fam (remaining fam st) (ms_core st))),
          snd (spec_run fuel fam (remaining fam st) (ms_core st))) /\
    ms_core st' = snd (fst (spec_run fuel fam (remaining fam st) (ms_core st))).
Proof. intros fam fuel st log H. exact (run_spec fam H fuel st log). Qed.
Print Assumptions C09_finish_from_anywhere.

(** Driving the first [k] steps one by one and the rest with a further run
    ([m] more calls; Finish is the limit) is the same as one run: same state,
    same log — the entries of the single-stepped part included; and a run
    that has reported the end stays what it is. *)
Theorem C09_stepwise_then_finish : forall fam k m st log st1 log1,
  (run k fam st log = Ok (st1, log1, false) -> run (k + m) fam st log = run m fam st1 log1) /\
  (run k fam st log = Ok (st1, log1, true) -> run (k + m) fam st log = Ok (st1, log1, true)).
Proof. intros. split; [apply run_split|apply run_ended_mono]. Qed.
Print Assumptions C09_stepwise_then_finish.

(** Running a further flow on the same process: after State.SetFlow(g) on any
    state, Finish (any sufficient fuel) on an acyclic family keeps the log
    that was there and appends the big-step run of [g] from its first step. *)
Theorem C09_rerun_after_set_flow : forall fam st log g fuel,
  sized fam -> stratified fam = true -> (fuel_bound fam <= fuel)%nat ->
  exists st',
    run fuel fam (set_flow g st) log = Ok (st', log ++ fst (exec_flow fam g (ms_core st)), true) /\
    ms_core st' = snd (exec_flow fam g (ms_core st)).
Proof. exact rerun_refines_spec. Qed.
Print Assumptions C09_rerun_after_set_flow.

(** Any session — any sequence of NextStep calls (also after the end of the
    flow was reported), Finish and SetFlow, from any state with any log —
    returns normally and only appends to the log. *)
Theorem C09_session_never_aborts : forall fuel fam ops st log tr,
  sized fam -> uint_ok st ->
  exists st' new tr', session fuel fam ops st log tr = Ok (st', log ++ new, tr') /\ uint_ok st'.
Proof. intros fuel fam ops st log tr H. exact (session_total fuel fam H ops st log tr). Qed.
Print Assumptions C09_session_never_aborts.

(** The same at slice level, on any memory layout: whatever the session, the
    recorded entries stay in front and read the same through the final heap
    as before the session, no array of the definition is written, the family
    reads the same, and state, log and trace are those of the value-level
    session on the family as defined. *)
Theorem C09_session_keeps_log : forall grow fuel fam ops st h log tr st' h' log' tr',
  wf_family (length h) fam = true -> wf_log h log ->
  session_h grow fuel fam ops st h log tr = Ok (st', h', log', tr') ->
  (exists new, log' = log ++ new) /\ map (read_entry h') log = map (read_entry h) log /\
  firstn (length h) h' = h /\ resolve_family h' fam = resolve_family h fam /\
  session fuel (resolve_family h fam) ops st (map (read_entry h) log) tr = Ok (st', map (read_entry h') log', tr').
Proof. exact session_keeps_log. Qed.
Print Assumptions C09_session_keeps_log.

(** ... and from a fresh process every session on every layout returns
    normally. *)
Theorem C09_session_runs : forall grow fuel fam ops h root c,
  wf_family (length h) fam = true -> sized (resolve_family h fam) ->
  exists st h' log tr,
    session_h grow fuel fam ops (init_state root c) h [] [] = Ok (st, h', log, tr) /\
    firstn (length h) h' = h /\ resolve_family h' fam = resolve_family h fam /\
    session fuel (resolve_family h fam) ops (init_state root c) [] [] = Ok (st, map (read_entry h') log, tr).
Proof. exact session_runs. Qed.
Print Assumptions C09_session_runs.

(** The hypotheses are satisfiable, and the calls can be mixed: on [demo]
    (flow 0 switches into flow 1 in its second step) two single steps, then
    Finish, then flow 1 once more on the same process: the log is the run of
    flow 0 followed by the run of flow 1 from the state the first run left —
    6 entries, the first four being what Finish alone records. *)
Example C09_demo_session :
  let c0 := mkCore None [] (Some true) in
  match session (fuel_bound demo) demo [ONext 2; OFinish; OFinish; ONext 2; OSetFlow 1; OFinish] (init_state 0 c0) [] [] with
  | Ok (st, log, tr) =>
      tr = [(2, false); (4, true); (4, true); (4, true); (4, false); (6, true)]%nat /\
      firstn 4 log = fst (exec_flow demo 0 c0) /\
      skipn 4 log = fst (exec_flow demo 1 (snd (exec_flow demo 0 c0))) /\
      map e_sid log = [10; 11; 13; 14; 13; 14]
  | _ => False
  end.
Proof. vm_compute. repeat split. Qed.
