(** Property C13: event-log reproduction conserves events and gives truthful
    per-entry verdicts.  Theorems about the model Model/EventLogAlign.v of
    pcrbruteforcer.ReproduceEventLog; [Hp m v] is the digest of measurement [m] with its
    first 8 bytes (ACM_POLICY_STATUS in PCR0_DATA) replaced by [v] — an arbitrary
    function.  [oracle] are the disable bitmaps left by the brute-force search: the theorems
    about [reproduce] hold for ALL of them; the search itself is modelled at set level
    ([search_results]: which (distance, bitmaps) results its phases may leave) and the
    section "The alignment search" states what every such result satisfies. *)
From CSS Require Import Lib.Base Model.EventLog Model.EventLogAlign Proofs.EventLog Proofs.EventLogAlign Proofs.EventLogDistance.

(** ** Conservation *)

(** Whenever ReproduceEventLog returns a result: projected to the recorded side (gaps
    dropped) it is exactly the list of recorded PCR0 events of the bank, projected to the
    simulated side exactly the simulated PCR0 events of the bank — every event once, in
    its original relative order, independent of the bitmaps the search found. *)
Theorem C13_conservation :
  forall (Hp : meas -> Z -> list Z) P isz regs cmds evlog recorded alg st oracle rs iss upd,
  reproduce Hp P isz regs cmds evlog recorded alg st oracle = Ok (rs, iss, upd) ->
  exists log sims,
    recorded = Some log /\
    sim_align cmds evlog 0 alg = Ok sims /\
    rec_side rs = selected log 0 alg /\
    sim_side rs = map snd sims.
Proof. exact conservation. Qed.
Print Assumptions C13_conservation.

(** alignLogs alone: ANY bitmaps of the right lengths with balanced counts are accepted
    (no index panic) and the interleaving conserves both lists. *)
Theorem C13_conservation_any_balanced_bitmaps :
  forall es cs oracle,
  balanced es cs oracle ->
  exists ps, interleave (flag (fst oracle) es) (flag (snd oracle) cs) = Ok ps /\
             somes (map snd ps) = es /\ somes (map fst ps) = cs.
Proof. exact interleave_balanced. Qed.
Print Assumptions C13_conservation_any_balanced_bitmaps.

Example C13_balanced_example :
  balanced [mkEv 0 1 [] None; mkEv 0 2 [] None; mkEv 0 3 [] None] [mkSim 0 1 []; mkSim 1 3 []]
           ([false; true; false], [false; false]).
Proof. repeat split. Qed.

(** the measurements are re-attached to their own events by the pointer walk *)
Theorem C13_measurements_reattached :
  forall al un, somes al = map snd un -> walk_meas al un = attach_spec al un.
Proof. exact walk_meas_spec. Qed.
Print Assumptions C13_measurements_reattached.

(** ** Truthful verdicts *)

(** Per entry of a returned result:
    unexpected <=> only the recorded event; missing <=> only the simulated event;
    mismatch <=> both present, digests differ, and no register was found for it;
    match <=> both present and (digests equal, or it is a PCR0_DATA measurement for which
    the search found a register [v] with which PCR0_DATA hashes to the recorded digest). *)
Theorem C13_status_truthful :
  forall (Hp : meas -> Z -> list Z) P isz regs cmds evlog recorded alg st oracle rs iss upd,
  reproduce Hp P isz regs cmds evlog recorded alg st oracle = Ok (rs, iss, upd) ->
  forall r, In r rs ->
    (re_status r = StUnexpected <-> re_calc r = None /\ re_exp r <> None) /\
    (re_status r = StMissing <-> re_calc r <> None /\ re_exp r = None) /\
    (re_status r = StMismatch <->
       exists c e, re_calc r = Some c /\ re_exp r = Some e /\ digests_equal c e = false /\
                   r_repaired Hp P regs st r = None) /\
    (re_status r = StMatch <->
       exists c e, re_calc r = Some c /\ re_exp r = Some e /\
         (digests_equal c e = true \/
          exists m v, re_meas r = Some m /\ is_pcr0_meas m = true /\
                      r_repaired Hp P regs st r = Some v /\ Hp m v = ev_digest_bytes e)).
Proof. exact status_truthful. Qed.
Print Assumptions C13_status_truthful.

(** The issues are exactly one per entry that is not a plain match, and the returned
    register is the one found for the LAST repaired entry. *)
Theorem C13_issues_and_register :
  forall (Hp : meas -> Z -> list Z) P isz regs cmds evlog recorded alg st oracle rs iss upd,
  reproduce Hp P isz regs cmds evlog recorded alg st oracle = Ok (rs, iss, upd) ->
  Forall (fun r => Some (re_status r) = status_of Hp P regs st r) rs /\
  iss = issues_from Hp P regs st 0 rs /\
  upd = last_some (map (r_repaired Hp P regs st) rs) None.
Proof. exact statuses. Qed.
Print Assumptions C13_issues_and_register.

(** a returned register always justifies some entry marked matching ... *)
Theorem C13_corrected_register_sound :
  forall (Hp : meas -> Z -> list Z) P isz regs cmds evlog recorded alg st oracle rs iss upd v,
  reproduce Hp P isz regs cmds evlog recorded alg st oracle = Ok (rs, iss, upd) ->
  upd = Some v ->
  exists r, In r rs /\ re_status r = StMatch /\ r_repaired Hp P regs st r = Some v.
Proof. exact corrected_register_sound. Qed.
Print Assumptions C13_corrected_register_sound.

(** ... and, as the property states it ("the returned corrected ACM_POLICY_STATUS hashes to
    the recorded digest" of every entry matched that way): PARTIAL — needs at most one
    repaired entry in the result (one PCR0_DATA measurement per bank). *)
Theorem C13_returned_register_justifies_partial :
  forall (Hp : meas -> Z -> list Z) P isz regs cmds evlog recorded alg st oracle rs iss upd,
  reproduce Hp P isz regs cmds evlog recorded alg st oracle = Ok (rs, iss, upd) ->
  (length (filter (fun r => match r_repaired Hp P regs st r with Some _ => true | None => false end) rs) <= 1)%nat ->
  forall r v, In r rs -> r_repaired Hp P regs st r = Some v -> upd = Some v.
Proof. exact corrected_register_justifies. Qed.
Print Assumptions C13_returned_register_justifies_partial.

(** Without that hypothesis it fails: two PCR0_DATA measurements recorded with two
    different registers are both marked matching, one register (4) is returned, and the
    first entry's digest is the hash with 5, not with 4. *)
Theorem C13_returned_register_justifies_refuted :
  exists Hp P isz regs cmds evlog log alg st oracle rs iss v r m e,
    reproduce Hp P isz regs cmds evlog (Some log) alg st oracle = Ok (rs, iss, Some v) /\
    In r rs /\ re_status r = StMatch /\ re_meas r = Some m /\ re_exp r = Some e /\
    Hp m v <> ev_digest_bytes e.
Proof.
  destruct witness_two_repairs as [rs [r1 [r2 [E [R [S1 [_ [M1 [X1 [N _]]]]]]]]]].
  exists w_hp2, 4, w_isz, true, w_cmds2, w_evlog2, w_log2, 4, w_st, ([false; false], [false; false]),
         rs, [IRepaired; IRepaired], 4, r1, w_m1, (mkEv 0 7 [] (Some (mkDg 4 (w_dg 5)))).
  split; [exact E|]. subst rs. split; [left; reflexivity|]. repeat split; try assumption.
Qed.
Print Assumptions C13_returned_register_justifies_refuted.

(** the register search itself (both strategies): sound, and complete inside the linear window *)
Theorem C13_repair_sound :
  forall (Hp : meas -> Z -> list Z) P st m digest v,
  repair Hp P st m digest = Some v -> Hp m v = digest.
Proof. exact repair_sound. Qed.
Print Assumptions C13_repair_sound.

Theorem C13_repair_complete :
  forall (Hp : meas -> Z -> list Z) P st m digest d,
  1 <= P -> 0 <= d < st_lin_limit st ->
  Hp m (wrap64 (m_first8 m - d)) = digest ->
  exists v, repair Hp P st m digest = Some v /\ Hp m v = digest.
Proof. exact repair_complete. Qed.
Print Assumptions C13_repair_complete.

(** ... and the linear part of the repair never tries a decrement at or beyond
    MaxACMPolicyLinearDistance, for every number of goroutines (false before the
    repair 92fa0d4 in /repo, finding C03-D21). *)
Theorem C13_repair_linear_inside_limit :
  forall P limit d, In d (lin_cands P limit) -> 0 <= d < limit.
Proof. exact lin_cands_below_limit. Qed.
Print Assumptions C13_repair_linear_inside_limit.

(** ... with EnableACMPolicyCombinatorialStrategy the search is also complete for every
    register that differs from the simulated one in at most
    MaxACMPolicyCombinatorialDistance bits: [bs] are distinct bit positions of the register
    ([picks bs (seqZ 0 64)]: some of 0..63, ascending), [mask_of bs] the value with exactly
    these bits set; [comb_limit] reads the setting as the code does (uint64, so a negative
    one means all 64 bits) *)
Theorem C13_repair_complete_combinatorial :
  forall (Hp : meas -> Z -> list Z) P st m digest bs,
  st_comb_enabled st = true ->
  picks bs (seqZ 0 64) -> (length bs <= comb_limit (st_comb_limit st))%nat ->
  Hp m (Z.lxor (m_first8 m) (mask_of bs)) = digest ->
  exists v, repair Hp P st m digest = Some v /\ Hp m v = digest.
Proof. exact repair_complete_comb. Qed.
Print Assumptions C13_repair_complete_combinatorial.

Example C13_repair_complete_combinatorial_example :
  picks [3; 40] (seqZ 0 64) /\ mask_of [3; 40] = 2 ^ 3 + 2 ^ 40 /\
  (length [3; 40] <= comb_limit 2)%nat /\ ~ (length [3; 40] <= comb_limit 1)%nat.
Proof.
  split; [vm_compute; repeat constructor|]. split; [reflexivity|]. split; vm_compute; lia.
Qed.

(** The search varies the register and nothing else of the measurement: a recorded digest
    that NO register value explains (PCR0_DATA that differs behind its first 8 bytes:
    another ACM SVN, a bit error in the measured structure) is never repaired - the entry
    stays a mismatch by C13_status_truthful -, and whatever is returned as the corrected
    register is a 64-bit value. *)
Theorem C13_repair_none_without_register :
  forall (Hp : meas -> Z -> list Z) P st m digest,
  (forall v, Hp m v <> digest) -> repair Hp P st m digest = None.
Proof. exact repair_none_if_no_register. Qed.
Print Assumptions C13_repair_none_without_register.

Theorem C13_repair_register_range :
  forall (Hp : meas -> Z -> list Z) P st m digest v,
  0 <= m_first8 m < 2 ^ 64 ->
  repair Hp P st m digest = Some v -> 0 <= v < 2 ^ 64.
Proof. exact repair_register_range. Qed.
Print Assumptions C13_repair_register_range.

(** ** Identical log *)

(** A recorded log whose PCR0 events of the bank agree pairwise (type and digest) with the
    simulated ones: every entry matches, no issues, no corrected register — for every
    search outcome and all settings. *)
Theorem C13_identical_no_issues :
  forall (Hp : meas -> Z -> list Z) P isz regs cmds evlog log alg st oracle sims es,
  sim_align cmds evlog 0 alg = Ok sims ->
  filterEvents log 0 alg = Ok es ->
  identical es (map snd sims) = true ->
  exists rs,
    reproduce Hp P isz regs cmds evlog (Some log) alg st oracle = Ok (rs, [], None) /\
    Forall (fun r => re_status r = StMatch) rs /\
    length rs = length es.
Proof. exact identical_no_issues. Qed.
Print Assumptions C13_identical_no_issues.

Example C13_identical_example :
  identical [mkEv 0 1 [] (Some (mkDg 4 (w_dg 1)))] (map snd [(Some w_meas, mkSim 0 1 (w_dg 1))]) = true /\
  sim_align w_cmds w_evlog 0 4 = Ok [(Some w_meas, mkSim 0 1 (w_dg 1))].
Proof. split; vm_compute; reflexivity. Qed.

(** ** The distance function *)

Theorem C13_distance_zero_if :
  forall es cs,
  identical es cs = true ->
  distance (flag (all_false cs) cs) (flag (all_false es) es) 0 = Ok 0.
Proof. exact distance_zero_if. Qed.
Print Assumptions C13_distance_zero_if.

(** PARTIAL: the equivalence needs fewer than 2^30 events in total (the distance is a
    uint64 sum of terms up to 2^33, which could wrap to 0 beyond that). *)
Theorem C13_distance_zero_iff_partial :
  forall cs es,
  Z.of_nat (length cs + length es) < 2 ^ 30 ->
  (distance cs es 0 = Ok 0 <->
   no_flags cs /\ no_flags es /\ identical (map snd es) (map snd cs) = true).
Proof. exact distance_zero_iff. Qed.
Print Assumptions C13_distance_zero_iff_partial.

(** ** The alignment search (bruteForceAlignedEventLogs, the phases behind the early return)

    [search_results es cs maxdist]: the (distance, bitmaps) results the search may leave for
    recorded events [es], simulated events [cs] and DisabledEventsMaxDistance [maxdist] (the
    nested BruteForce runs as the sets of bitmaps they enumerate; which of several equally
    distant candidates is kept depends on the goroutine schedule, so it is a set).
    Every result: lies in the second-phase space around a first-phase optimum - the recorded
    bitmap within [maxdist] flips of the first-phase one, the simulated bitmap the first-phase
    one plus exactly as many entries as the balance of the amounts demands -, reports the
    distance of its own bitmaps, and NO candidate of that space has a smaller distance: the
    second phase cannot stop short of an entry it may leave out on both sides. *)
Theorem C13_search_result_optimal :
  forall es cs maxdist d p,
  In (d, p) (search_results es cs maxdist) ->
  exists d1 p1,
    In (d1, p1) (argmins (scored es cs (phase1_cands es cs))) /\
    In p (phase2_space es cs maxdist p1) /\
    bm_dist es cs p = Some d /\
    forall p' d', In p' (phase2_space es cs maxdist p1) -> bm_dist es cs p' = Some d' -> d <= d'.
Proof. exact search_result_optimal. Qed.
Print Assumptions C13_search_result_optimal.

(** the first phase: of all ways to leave out |amount difference| entries of the longer
    list, one of minimal distance *)
Theorem C13_search_first_phase_optimal :
  forall es cs d1 p1,
  In (d1, p1) (argmins (scored es cs (phase1_cands es cs))) ->
  In p1 (phase1_cands es cs) /\ bm_dist es cs p1 = Some d1 /\
  forall p' d', In p' (phase1_cands es cs) -> bm_dist es cs p' = Some d' -> d1 <= d'.
Proof. exact search_phase1_optimal. Qed.
Print Assumptions C13_search_first_phase_optimal.

(** every result is a pair of bitmaps alignLogs accepts (right lengths, equally many events
    left on both sides): with C13_conservation_any_balanced_bitmaps, conservation holds for
    whatever the search returns *)
Theorem C13_search_result_balanced :
  forall es cs maxdist d p,
  In (d, p) (search_results es cs maxdist) -> balanced es cs p.
Proof. exact search_result_balanced. Qed.
Print Assumptions C13_search_result_balanced.

(** the documented pairing rule is what the metric says: exactly the pairs of events that
    agree in neither type nor digest cost more than leaving both unpaired (two disabled
    entries, 2 * BIGN) - so a minimal result pairs such events only when it may not leave
    out one more entry on both sides *)
Theorem C13_unrelated_pair_costs_more :
  forall c e, unrelated c e = true <-> 2 * BIGN < pair_cost c e.
Proof. exact unrelated_pair_costs_more. Qed.
Print Assumptions C13_unrelated_pair_costs_more.

(** THE METRIC IN CLOSED FORM.  While the uint64 sum cannot wrap (fewer than 2^30 entries
    is more than enough), eventAndMeasurementsDistance returns BIGN for every disabled
    entry of either side plus the pair costs of the enabled entries taken in order; it
    panics exactly when the bitmaps leave different numbers of entries enabled or two
    paired digests have different lengths.  [en] / [sk]: the enabled entries / the number
    of disabled ones. *)
Theorem C13_distance_closed_form :
  forall n cs es acc,
  (length cs + length es <= n)%nat ->
  0 <= acc -> acc + Z.of_nat n * (2 * BIGN + 2) < W64 ->
  distance cs es acc =
    if ((length (en cs) =? length (en es))%nat && lens_ok (en cs) (en es))%bool
    then Ok (acc + BIGN * (sk cs + sk es) + pcost (en cs) (en es))
    else Panic.
Proof. exact distance_closed. Qed.
Print Assumptions C13_distance_closed_form.

(** so the distance is compositional: the walk compares an enabled simulated event [c] with
    an enabled recorded event [e] exactly when equally many enabled entries precede them,
    and disabling both changes the distance by exactly [2 * BIGN - pair_cost c e],
    whatever the rest of the two logs and bitmaps is *)
Theorem C13_distance_disable_pair :
  forall cs1 c cs2 es1 e es2 d,
  length (en cs1) = length (en es1) ->
  Z.of_nat (length (cs1 ++ (false, c) :: cs2) + length (es1 ++ (false, e) :: es2)) * (2 * BIGN + 2) < W64 ->
  distance (cs1 ++ (false, c) :: cs2) (es1 ++ (false, e) :: es2) 0 = Ok d ->
  distance (cs1 ++ (true, c) :: cs2) (es1 ++ (true, e) :: es2) 0 = Ok (d - pair_cost c e + 2 * BIGN).
Proof. exact distance_disable_pair. Qed.
Print Assumptions C13_distance_disable_pair.

(** bitmaps that pair two events agreeing in neither type nor digest are never of minimal
    distance: the bitmaps that leave both out are strictly cheaper *)
Theorem C13_unrelated_pair_not_minimal :
  forall cs1 c cs2 es1 e es2 d,
  length (en cs1) = length (en es1) ->
  Z.of_nat (length (cs1 ++ (false, c) :: cs2) + length (es1 ++ (false, e) :: es2)) * (2 * BIGN + 2) < W64 ->
  unrelated c e = true ->
  distance (cs1 ++ (false, c) :: cs2) (es1 ++ (false, e) :: es2) 0 = Ok d ->
  exists d', distance (cs1 ++ (true, c) :: cs2) (es1 ++ (true, e) :: es2) 0 = Ok d' /\ d' < d.
Proof. exact unrelated_pair_not_minimal. Qed.
Print Assumptions C13_unrelated_pair_not_minimal.

(** "A MINIMAL RESULT NEVER PAIRS UNRELATED EVENTS WHEN THE BUDGET ALLOWS", for every
    result the search may leave: if a result pairs a recorded event [e] with a simulated
    event [c] that agree in neither type nor digest, then the bitmaps that additionally
    leave out [e] and [c] lie outside the second-phase space the result was taken from
    (DisabledEventsMaxDistance, or the greedy first phase, did not allow them).
    Contrapositive: whenever those bitmaps are in the space, no result pairs [c] with [e]. *)
Theorem C13_search_result_no_unrelated_pair :
  forall es cs maxdist d p cs1 c cs2 es1 e es2,
  In (d, p) (search_results es cs maxdist) ->
  Z.of_nat (length cs + length es) * (2 * BIGN + 2) < W64 ->
  flag (snd p) cs = cs1 ++ (false, c) :: cs2 ->
  flag (fst p) es = es1 ++ (false, e) :: es2 ->
  length (en cs1) = length (en es1) ->
  unrelated c e = true ->
  exists d1 p1,
    In (d1, p1) (argmins (scored es cs (phase1_cands es cs))) /\
    In p (phase2_space es cs maxdist p1) /\
    ~ In (bm_of (es1 ++ (true, e) :: es2), bm_of (cs1 ++ (true, c) :: cs2)) (phase2_space es cs maxdist p1).
Proof. exact search_result_no_unrelated_pair. Qed.
Print Assumptions C13_search_result_no_unrelated_pair.

(** WHAT THE SECOND PHASE ENUMERATES: [flips k base] are exactly the bitmaps at Hamming
    distance [k] from [base], so the space around a first-phase result [p1] consists of the
    recorded bitmaps within min(DisabledEventsMaxDistance, number of recorded events) flips
    of the first-phase one, each with the simulated bitmaps that differ from the
    first-phase one in exactly as many entries as the balance of the amounts demands
    ([p2_bd]) and leave equally many events on both sides *)
Theorem C13_flips_iff :
  forall base k x, In x (flips k base) <-> length x = length base /\ hamming x base = k.
Proof. exact flips_iff. Qed.
Print Assumptions C13_flips_iff.

Theorem C13_phase2_space_iff :
  forall es cs maxdist p1 e m,
  In (e, m) (phase2_space es cs maxdist p1) <->
    length e = length (fst p1) /\ (hamming e (fst p1) <= p2_budget es maxdist)%nat /\
    0 <= p2_bd es cs p1 e /\
    length m = length (snd p1) /\ hamming m (snd p1) = Z.to_nat (p2_bd es cs p1 e) /\
    bm_balanced es cs (e, m) = true.
Proof. exact phase2_space_iff. Qed.
Print Assumptions C13_phase2_space_iff.

(** the second phase only ADDS simulated entries to those the first phase disabled: an
    entry enabled in a bitmap pair of the space was enabled after the first phase *)
Theorem C13_phase2_keeps_first_phase :
  forall es cs maxdist p1 e m i,
  In (e, m) (phase2_space es cs maxdist p1) ->
  nth i m true = false -> nth i (snd p1) true = false.
Proof. exact phase2_keeps_first_phase. Qed.
Print Assumptions C13_phase2_keeps_first_phase.

(** ... and "the budget allows" as an inequality: a result that pairs two events agreeing
    in neither type nor digest, the recorded one left enabled by the first phase (the
    simulated one always is: C13_phase2_keeps_first_phase), has spent the whole
    budget -- its recorded bitmap differs from the first-phase one in at least
    min(DisabledEventsMaxDistance, number of recorded events) positions.  With one flip to
    spare no result contains such a pair. *)
Theorem C13_search_result_unrelated_pair_budget :
  forall es cs maxdist d p cs1 c cs2 es1 e es2,
  In (d, p) (search_results es cs maxdist) ->
  Z.of_nat (length cs + length es) * (2 * BIGN + 2) < W64 ->
  flag (snd p) cs = cs1 ++ (false, c) :: cs2 ->
  flag (fst p) es = es1 ++ (false, e) :: es2 ->
  length (en cs1) = length (en es1) ->
  unrelated c e = true ->
  exists d1 p1,
    In (d1, p1) (argmins (scored es cs (phase1_cands es cs))) /\
    In p (phase2_space es cs maxdist p1) /\
    (nth (length es1) (fst p1) true = false ->
     (p2_budget es maxdist <= hamming (fst p) (fst p1))%nat).
Proof. exact search_result_unrelated_pair_budget'. Qed.
Print Assumptions C13_search_result_unrelated_pair_budget.

(** the hypotheses are satisfiable: with DisabledEventsMaxDistance 0 the result of the
    example below does pair the replaced entry with an unrelated simulated event *)
Example C13_unrelated_pair_hypotheses_satisfiable :
  match w_s3, w_e3 with
  | [s0; s1; s2], [e0; e1] =>
      In (3 * BIGN + 1, ([false; false], [false; false; true])) (search_results w_e3 w_s3 0) /\
      flag [false; false; true] w_s3 = [(false, s0)] ++ (false, s1) :: [(true, s2)] /\
      flag [false; false] w_e3 = [(false, e0)] ++ (false, e1) :: [] /\
      length (en [(false, s0)]) = length (en [(false, e0)]) /\
      unrelated s1 e1 = true
  | _, _ => False
  end.
Proof. vm_compute. repeat split; try reflexivity. left. reflexivity. Qed.

(** one entry deleted and another one replaced (foreign type, fresh digest), three simulated
    events: with DisabledEventsMaxDistance 1 the only result leaves the replaced entry out on
    both sides (unexpected + missing + missing, distance 3 * BIGN); with 0 it must stay
    paired (a mismatch, distance 3 * BIGN + 1, either of the two simulated events left out) *)
Example C13_search_deleted_and_replaced :
  search_results w_e3 w_s3 1 = [(3 * BIGN, ([false; true], [false; true; true])); (3 * BIGN, ([false; true], [false; true; true]))] /\
  search_results w_e3 w_s3 0 = [(3 * BIGN + 1, ([false; false], [false; false; true])); (3 * BIGN + 1, ([false; false], [false; true; false]))].
Proof. exact witness_search_deleted_and_replaced. Qed.

(** ** No panic *)

(** No recorded log makes the comparison panic: for EVERY recorded log (any entries, any
    event data, any digests), bank, settings, GOMAXPROCS, hash function, with or without TXT
    registers.  The remaining hypotheses say nothing about the recorded log: the simulated
    side is one alignLogAndMeasurements accepts and its digests have the bank's size (what
    a simulated TPM produces), and the bitmaps of the unmodelled search have the lengths of
    the two lists (one [make] each in the Go code).
    Before the repairs e99f02a, 60718db, dbffb11 this needed three more conditions on the
    recorded log, each refuted by a witness (findings C13-D20-rangesToChunks-index,
    C13-nil-measurement-deref, C13-range-beyond-image); those witnesses are the Examples
    below. *)
Theorem C13_no_panic :
  forall (Hp : meas -> Z -> list Z) P isz regs cmds evlog recorded alg st oracle sims,
  sim_align cmds evlog 0 alg = Ok sims ->
  (forall size, hash_size alg = Some size ->
     Forall (fun c => Z.of_nat (length (s_digest c)) = size) (map snd sims)) ->
  (forall log es, recorded = Some log -> filterEvents log 0 alg = Ok es ->
     length (fst oracle) = length es /\ length (snd oracle) = length sims) ->
  reproduce Hp P isz regs cmds evlog recorded alg st oracle <> Panic.
Proof. exact no_panic. Qed.
Print Assumptions C13_no_panic.

(** the hypotheses are satisfiable by an input that does reach the explainer *)
Example C13_no_panic_example :
  exists rs, reproduce w_hp 4 w_isz false w_cmds w_evlog (Some w_log_one) 4 w_st ([false], [false])
             = Ok (rs, [IMismatch 0], None) /\ map re_status rs = [StMismatch].
Proof. exact witness_one_pair_ok. Qed.

(** The loop of ReproduceEventLog itself: no aligned entry whatsoever makes it panic (no
    condition on measurements, event data or registers). *)
Theorem C13_result_loop_no_panic :
  forall (Hp : meas -> Z -> list Z) P isz regs st l idx upd0,
  result_loop Hp P isz regs st idx l upd0 <> Panic.
Proof. exact result_loop_no_panic. Qed.
Print Assumptions C13_result_loop_no_panic.

(** The analysis of a recorded entry (newLogEntryExplainer: reference look-up of
    rangesToChunks, range reads of tryMeasurement) never panics: for every image size,
    every measurement or none, every event. *)
Theorem C13_explainer_no_panic :
  forall isz m e, explain isz m e <> Panic.
Proof. exact explain_no_panic. Qed.
Print Assumptions C13_explainer_no_panic.

(** every chunk rangesToChunks makes can be read from the image (Reference.RawBytes does
    not panic on it), for all (offset, length) pairs and all reference lists *)
Theorem C13_explainer_chunks_readable :
  forall isz m ranges,
  forallb (chunk_readable isz) (ranges_to_chunks isz m ranges []) = true.
Proof. intros. apply ranges_to_chunks_readable. reflexivity. Qed.
Print Assumptions C13_explainer_chunks_readable.

(** ... and which chunks these are, for a measurement of image ranges only (no hard-coded
    reference, as the firmware-volume measurements are) or no measurement: one image chunk
    per pair that has a length and fits the image, in the order read - whatever the number
    of pairs and of references (replaces the pre-repair C13_explainer_index_panic_iff,
    which gave the exact panic condition of the look-up). *)
Theorem C13_explainer_chunks_image_only :
  forall isz m ranges,
  match m with Some mm => has_raw (m_refs mm) = false | None => True end ->
  ranges_to_chunks isz m ranges [] = map (image_chunk isz) (filter (kept isz) ranges).
Proof. exact ranges_to_chunks_image_only. Qed.
Print Assumptions C13_explainer_chunks_image_only.

(** the test of rangesToChunks skips exactly the unreadable ranges: a pair (of a length
    >= 0, at a non-negative image offset) is kept iff Reference.RawBytes can read it *)
Theorem C13_range_kept_iff_readable :
  forall isz phys off len,
  0 <= len -> 0 <= image_offset isz phys off ->
  (range_fits isz phys off len = true <-> chunk_readable isz (ChImage phys off len) = true).
Proof. exact range_fits_iff_readable. Qed.
Print Assumptions C13_range_kept_iff_readable.

(** a readable range in plain arithmetic: it ends at or below 4 GiB *)
Theorem C13_range_readable_iff :
  forall isz off len,
  0 < isz <= PHYS_ADDR_BASE -> is_phys_addr off isz = true ->
  (range_readable isz (off, len) <-> off + len <= PHYS_ADDR_BASE).
Proof. exact range_readable_iff. Qed.
Print Assumptions C13_range_readable_iff.

(** Event data is the recorded log's own: the two fields of a 16-byte record are ARBITRARY
    numbers below 2^64 (a length of 2^64 - 1, or one with which "offset + length" wraps around
    to a small number, included), in either field order.  Whatever they are, every chunk the
    analysis reads from the image is a non-empty range of physical addresses wholly inside the
    window [4 GiB - image size, 4 GiB), no longer than the image - stated in unbounded
    arithmetic, so no sum taken modulo 2^64 hides behind it: for every event, every
    measurement or none, every image size up to 4 GiB. *)
Theorem C13_explainer_reads_inside_window :
  forall e isz m p,
  0 < isz <= PHYS_ADDR_BASE ->
  parse_event_data e isz = Ok p ->
  Forall (chunk_inside isz) (ranges_to_chunks isz m (pr_ranges p) []).
Proof. exact explain_chunks_inside. Qed.
Print Assumptions C13_explainer_reads_inside_window.

(** ... and rangesToChunks does not lean on the parser for it: handed ANY list of (offset,
    length) numbers (what a parser that checked nothing would return), every image chunk it
    makes at a physical address lies inside the window. *)
Theorem C13_fit_test_inside_window_any_ranges :
  forall isz m ranges,
  0 < isz <= PHYS_ADDR_BASE ->
  Forall (fun c => match c with ChImage true _ _ => chunk_inside isz c | _ => True end)
         (ranges_to_chunks isz m ranges []).
Proof. exact ranges_to_chunks_inside_any. Qed.
Print Assumptions C13_fit_test_inside_window_any_ranges.

(** the definition is not vacuous: a kept chunk and the bounds it satisfies *)
Example C13_reads_inside_window_example :
  ranges_to_chunks w_isz None [(4294905856, 16); (w_wide_off, w_wide_len)] [] = [ChImage true 4294905856 16] /\
  chunk_inside w_isz (ChImage true 4294905856 16) /\
  ~ chunk_inside w_isz (ChImage true w_wide_off w_wide_len).
Proof.
  split; [vm_compute; reflexivity|]. split.
  - cbn [chunk_inside]. unfold w_isz, PHYS_ADDR_BASE. repeat split; lia.
  - cbn [chunk_inside]. unfold w_isz, w_wide_off, w_wide_len, PHYS_ADDR_BASE. lia.
Qed.

(** Records with a 64-bit length on the model: an address of the window (image offset
    0x1000) next to 2^64 - 0x1000 + 0x10 (image offset + length is 0x10 modulo 2^64), in both
    field orders, and next to 2^64 - 1: not a (length, offset) pair of the format - nothing
    is parsed -, the entry is reported as a mismatch when paired and as unexpected when
    inserted; the fit test drops such a range on its own although its wrapped end "fits". *)
Example C13_wide_records_reported :
  (forall d, In d [w_wide_off_first; w_wide_len_first; w_wide_max] ->
     (exists rs, reproduce w_hp 4 w_isz false w_cmds w_evlog (Some (w_log_wide d)) 4 w_st ([false], [false])
                 = Ok (rs, [IMismatch 0], None) /\ map re_status rs = [StMismatch]) /\
     (exists rs, reproduce w_hp 4 w_isz false w_cmds w_evlog (Some (w_log_wide_ins d)) 4 w_st ([true; false], [false])
                 = Ok (rs, [IUnexpected 0], None) /\ map re_status rs = [StUnexpected; StMatch]) /\
     (forall p, parse_event_data (mkEv 0 EV_POST_CODE d (Some (mkDg 4 (w_dg 2)))) w_isz = Ok p -> pr_ranges p = [])) /\
  wrap64 (image_offset w_isz true w_wide_off + w_wide_len) = 16 /\
  ranges_to_chunks w_isz (Some w_meas) [(w_wide_off, w_wide_len); (w_wide_off, 2 ^ 64 - 1)] [] = [].
Proof.
  split; [|split; [apply witness_wide_fields|apply witness_wide_dropped_by_fit_test]].
  intros d Hd. split; [exact (witness_wide_paired d Hd)|]. split; [exact (witness_wide_unexpected d Hd)|].
  intros p E. exact (witness_wide_not_a_pair d p Hd E).
Qed.

(** The inputs of the repaired defects, on the model of the repaired code.
    D20 (was C13_no_panic_refuted): a recorded EV_POST_CODE entry with a wrong digest and
    TWO (length,offset) pairs in its data, paired with a measurement of ONE reference, is a
    plain mismatch; both ranges become chunks. *)
Example C13_d20_input_reported :
  (exists rs, reproduce w_hp 4 w_isz false w_cmds w_evlog (Some w_log_d20) 4 w_st ([false], [false])
              = Ok (rs, [IMismatch 0], None) /\ map re_status rs = [StMismatch]) /\
  (forall p, parse_event_data (mkEv 0 EV_POST_CODE w_two_pairs (Some (mkDg 4 (w_dg 2)))) w_isz = Ok p ->
     (length (pr_ranges p) > length (m_refs w_meas))%nat /\
     ranges_to_chunks w_isz (Some w_meas) (pr_ranges p) [] =
       [ChImage true 4294905856 16; ChImage true 4294901760 16]).
Proof. split; [exact witness_d20|exact witness_d20_chunks]. Qed.

(** (was C13_no_panic_empty_pair_refuted / C13_no_panic_empty_pairs_example) empty pairs
    before or after a real one, more pairs than references: plain mismatches *)
Example C13_empty_pairs_reported :
  (exists rs, reproduce w_hp 4 w_isz false w_cmds w_evlog (Some w_log_empty_real) 4 w_st ([false], [false])
              = Ok (rs, [IMismatch 0], None) /\ map re_status rs = [StMismatch]) /\
  (exists rs, reproduce w_hp 4 w_isz false w_cmds w_evlog (Some w_log_real_empty_empty) 4 w_st ([false], [false])
              = Ok (rs, [IMismatch 0], None) /\ map re_status rs = [StMismatch]).
Proof. split; [exact witness_empty_after_real|exact witness_empty_pairs_ok]. Qed.

(** (was C13_no_panic_nil_measurement_refuted) a recorded startup-locality entry whose
    digest differs from the simulated one, which has no measurement: a mismatch without a
    measurement, with and without TXT registers *)
Example C13_nil_measurement_reported :
  exists rs, (forall regs, reproduce w_hp 4 w_isz regs w_cmds_loc w_evlog_loc (Some w_log_loc) 4 w_st ([false], [false])
                           = Ok (rs, [IMismatch 0], None)) /\
             map re_status rs = [StMismatch] /\ map re_meas rs = [None].
Proof. exact witness_nil_measurement. Qed.

(** (was C13_no_panic_range_refuted) event data with one valid-looking pair whose range
    reaches past the image end: the range is not readable, no chunk is made, and the entry
    is reported - as a mismatching entry and as an unexpected (inserted) one *)
Example C13_range_input_reported :
  (exists rs, reproduce w_hp 4 w_isz false w_cmds w_evlog (Some w_log_range) 4 w_st ([false], [false])
              = Ok (rs, [IMismatch 0], None) /\ map re_status rs = [StMismatch]) /\
  (exists rs, reproduce w_hp 4 w_isz false w_cmds w_evlog (Some w_log_range_ins) 4 w_st ([true; false], [false])
              = Ok (rs, [IUnexpected 0], None) /\ map re_status rs = [StUnexpected; StMatch]) /\
  (forall p, parse_event_data (mkEv 0 EV_POST_CODE w_past_end (Some (mkDg 4 (w_dg 2)))) w_isz = Ok p ->
     pr_ranges p = [(4294967280, 32)] /\ ~ range_readable w_isz (4294967280, 32) /\
     ranges_to_chunks w_isz (Some w_meas) (pr_ranges p) [] = []).
Proof. split; [exact witness_range|split; [exact witness_range_unexpected|exact witness_range_skipped]]. Qed.

(** ** CombineAsEventLog *)

(** On a result of ReproduceEventLog it does not panic; it lists every simulated PCR0
    event of the bank once and in order, interleaved with exactly the recorded events that
    were not matched, in order. *)
Theorem C13_combine_roundtrip :
  forall (Hp : meas -> Z -> list Z) P isz regs cmds evlog recorded alg st oracle rs iss upd,
  reproduce Hp P isz regs cmds evlog recorded alg st oracle = Ok (rs, iss, upd) ->
  exists cl sims,
    combine_log rs = Ok cl /\
    sim_align cmds evlog 0 alg = Ok sims /\
    csims cl = map snd sims /\
    crecs cl = unmatched_recorded rs.
Proof. exact combine_roundtrip. Qed.
Print Assumptions C13_combine_roundtrip.
