(** Property C13: event-log reproduction conserves events and gives truthful
    per-entry verdicts.  Theorems about the model Model/EventLogAlign.v of
    pcrbruteforcer.ReproduceEventLog; [Hp m v] is the digest of measurement [m] with its
    first 8 bytes (ACM_POLICY_STATUS in PCR0_DATA) replaced by [v] — an arbitrary
    function.  [oracle] are the disable bitmaps left by the (unmodelled) brute-force
    search: every theorem holds for ALL of them. *)
From CSS Require Import Lib.Base Model.EventLog Model.EventLogAlign Proofs.EventLog Proofs.EventLogAlign.

(** ** Conservation *)

(** Whenever ReproduceEventLog returns a result: projected to the recorded side (gaps
    dropped) it is exactly the list of recorded PCR0 events of the bank, projected to the
    simulated side exactly the simulated PCR0 events of the bank — every event once, in
    its original relative order, independent of the bitmaps the search found. *)
Theorem C13_conservation :
  forall (Hp : meas -> Z -> list Z) P isz regs cmds evlog recorded alg st oracle rs iss upd,
  reproduce Hp P isz regs cmds evlog recorded alg st oracle = Ok (rs, iss, upd) ->
  exists log sims,
    recorded = Some log /\
    sim_align cmds evlog 0 alg = Ok sims /\
    rec_side rs = selected log 0 alg /\
    sim_side rs = map snd sims.
Proof. exact conservation. Qed.
Print Assumptions C13_conservation.

(** alignLogs alone: ANY bitmaps of the right lengths with balanced counts are accepted
    (no index panic) and the interleaving conserves both lists. *)
Theorem C13_conservation_any_balanced_bitmaps :
  forall es cs oracle,
  balanced es cs oracle ->
  exists ps, interleave (flag (fst oracle) es) (flag (snd oracle) cs) = Ok ps /\
             somes (map snd ps) = es /\ somes (map fst ps) = cs.
Proof. exact interleave_balanced. Qed.
Print Assumptions C13_conservation_any_balanced_bitmaps.

Example C13_balanced_example :
  balanced [mkEv 0 1 [] None; mkEv 0 2 [] None; mkEv 0 3 [] None] [mkSim 0 1 []; mkSim 1 3 []]
           ([false; true; false], [false; false]).
Proof. repeat split. Qed.

(** the measurements are re-attached to their own events by the pointer walk *)
Theorem C13_measurements_reattached :
  forall al un, somes al = map snd un -> walk_meas al un = attach_spec al un.
Proof. exact walk_meas_spec. Qed.
Print Assumptions C13_measurements_reattached.

(** ** Truthful verdicts *)

(** Per entry of a returned result:
    unexpected <=> only the recorded event; missing <=> only the simulated event;
    mismatch <=> both present, digests differ, and no register was found for it;
    match <=> both present and (digests equal, or it is a PCR0_DATA measurement for which
    the search found a register [v] with which PCR0_DATA hashes to the recorded digest). *)
Theorem C13_status_truthful :
  forall (Hp : meas -> Z -> list Z) P isz regs cmds evlog recorded alg st oracle rs iss upd,
  reproduce Hp P isz regs cmds evlog recorded alg st oracle = Ok (rs, iss, upd) ->
  forall r, In r rs ->
    (re_status r = StUnexpected <-> re_calc r = None /\ re_exp r <> None) /\
    (re_status r = StMissing <-> re_calc r <> None /\ re_exp r = None) /\
    (re_status r = StMismatch <->
       exists c e, re_calc r = Some c /\ re_exp r = Some e /\ digests_equal c e = false /\
                   r_repaired Hp P regs st r = None) /\
    (re_status r = StMatch <->
       exists c e, re_calc r = Some c /\ re_exp r = Some e /\
         (digests_equal c e = true \/
          exists m v, re_meas r = Some m /\ is_pcr0_meas m = true /\
                      r_repaired Hp P regs st r = Some v /\ Hp m v = ev_digest_bytes e)).
Proof. exact status_truthful. Qed.
Print Assumptions C13_status_truthful.

(** The issues are exactly one per entry that is not a plain match, and the returned
    register is the one found for the LAST repaired entry. *)
Theorem C13_issues_and_register :
  forall (Hp : meas -> Z -> list Z) P isz regs cmds evlog recorded alg st oracle rs iss upd,
  reproduce Hp P isz regs cmds evlog recorded alg st oracle = Ok (rs, iss, upd) ->
  Forall (fun r => Some (re_status r) = status_of Hp P regs st r) rs /\
  iss = issues_from Hp P regs st 0 rs /\
  upd = last_some (map (r_repaired Hp P regs st) rs) None.
Proof. exact statuses. Qed.
Print Assumptions C13_issues_and_register.

(** a returned register always justifies some entry marked matching ... *)
Theorem C13_corrected_register_sound :
  forall (Hp : meas -> Z -> list Z) P isz regs cmds evlog recorded alg st oracle rs iss upd v,
  reproduce Hp P isz regs cmds evlog recorded alg st oracle = Ok (rs, iss, upd) ->
  upd = Some v ->
  exists r, In r rs /\ re_status r = StMatch /\ r_repaired Hp P regs st r = Some v.
Proof. exact corrected_register_sound. Qed.
Print Assumptions C13_corrected_register_sound.

(** ... and, as the property states it ("the returned corrected ACM_POLICY_STATUS hashes to
    the recorded digest" of every entry matched that way): PARTIAL — needs at most one
    repaired entry in the result (one PCR0_DATA measurement per bank). *)
Theorem C13_returned_register_justifies_partial :
  forall (Hp : meas -> Z -> list Z) P isz regs cmds evlog recorded alg st oracle rs iss upd,
  reproduce Hp P isz regs cmds evlog recorded alg st oracle = Ok (rs, iss, upd) ->
  (length (filter (fun r => match r_repaired Hp P regs st r with Some _ => true | None => false end) rs) <= 1)%nat ->
  forall r v, In r rs -> r_repaired Hp P regs st r = Some v -> upd = Some v.
Proof. exact corrected_register_justifies. Qed.
Print Assumptions C13_returned_register_justifies_partial.

(** Without that hypothesis it fails: two PCR0_DATA measurements recorded with two
    different registers are both marked matching, one register (4) is returned, and the
    first entry's digest is the hash with 5, not with 4. *)
Theorem C13_returned_register_justifies_refuted :
  exists Hp P isz regs cmds evlog log alg st oracle rs iss v r m e,
    reproduce Hp P isz regs cmds evlog (Some log) alg st oracle = Ok (rs, iss, Some v) /\
    In r rs /\ re_status r = StMatch /\ re_meas r = Some m /\ re_exp r = Some e /\
    Hp m v <> ev_digest_bytes e.
Proof.
  destruct witness_two_repairs as [rs [r1 [r2 [E [R [S1 [_ [M1 [X1 [N _]]]]]]]]]].
  exists w_hp2, 4, w_isz, true, w_cmds2, w_evlog2, w_log2, 4, w_st, ([false; false], [false; false]),
         rs, [IRepaired; IRepaired], 4, r1, w_m1, (mkEv 0 7 [] (Some (mkDg 4 (w_dg 5)))).
  split; [exact E|]. subst rs. split; [left; reflexivity|]. repeat split; try assumption.
Qed.
Print Assumptions C13_returned_register_justifies_refuted.

(** the register search itself: sound, and complete inside the linear window *)
Theorem C13_repair_sound :
  forall (Hp : meas -> Z -> list Z) P st m digest v,
  repair Hp P st m digest = Some v -> Hp m v = digest.
Proof. exact repair_sound. Qed.
Print Assumptions C13_repair_sound.

Theorem C13_repair_complete :
  forall (Hp : meas -> Z -> list Z) P st m digest d,
  1 <= P -> 0 <= d < st_lin_limit st ->
  Hp m (wrap64 (m_first8 m - d)) = digest ->
  exists v, repair Hp P st m digest = Some v /\ Hp m v = digest.
Proof. exact repair_complete. Qed.
Print Assumptions C13_repair_complete.

(** ** Identical log *)

(** A recorded log whose PCR0 events of the bank agree pairwise (type and digest) with the
    simulated ones: every entry matches, no issues, no corrected register — for every
    search outcome and all settings. *)
Theorem C13_identical_no_issues :
  forall (Hp : meas -> Z -> list Z) P isz regs cmds evlog log alg st oracle sims es,
  sim_align cmds evlog 0 alg = Ok sims ->
  filterEvents log 0 alg = Ok es ->
  identical es (map snd sims) = true ->
  exists rs,
    reproduce Hp P isz regs cmds evlog (Some log) alg st oracle = Ok (rs, [], None) /\
    Forall (fun r => re_status r = StMatch) rs /\
    length rs = length es.
Proof. exact identical_no_issues. Qed.
Print Assumptions C13_identical_no_issues.

Example C13_identical_example :
  identical [mkEv 0 1 [] (Some (mkDg 4 (w_dg 1)))] (map snd [(Some w_meas, mkSim 0 1 (w_dg 1))]) = true /\
  sim_align w_cmds w_evlog 0 4 = Ok [(Some w_meas, mkSim 0 1 (w_dg 1))].
Proof. split; vm_compute; reflexivity. Qed.

(** ** The distance function *)

Theorem C13_distance_zero_if :
  forall es cs,
  identical es cs = true ->
  distance (flag (all_false cs) cs) (flag (all_false es) es) 0 = Ok 0.
Proof. exact distance_zero_if. Qed.
Print Assumptions C13_distance_zero_if.

(** PARTIAL: the equivalence needs fewer than 2^30 events in total (the distance is a
    uint64 sum of terms up to 2^33, which could wrap to 0 beyond that). *)
Theorem C13_distance_zero_iff_partial :
  forall cs es,
  Z.of_nat (length cs + length es) < 2 ^ 30 ->
  (distance cs es 0 = Ok 0 <->
   no_flags cs /\ no_flags es /\ identical (map snd es) (map snd cs) = true).
Proof. exact distance_zero_iff. Qed.
Print Assumptions C13_distance_zero_iff_partial.

(** ** No panic *)

(** PARTIAL.  Missing for the unconditional statement (each is refuted below):
    (1) every parsed (offset,length) range of a recorded event handed to the explainer is
        read after fewer chunk-making ranges than the paired measurement has references
        ([index_safe]: a range makes a chunk when its length is not 0, or - possibly - when
        the measurement has a hard-coded reference; EMPTY ranges over image references do
        not count, so the list may be longer than the reference list) (D20);
    (2) a paired simulated event has a measurement whenever TXT registers are present and
        the digests differ (startup-locality entries have none);
    (3) those ranges lie inside the image.
    [safe_entry] is exactly (digests equal) or ((2) and (PCR0_DATA entry or ((1) and (3)))).
    Also assumed: the simulated side is well-formed (alignLogAndMeasurements accepts it,
    digests have the bank's size) and the bitmaps have the lengths of the lists. *)
Theorem C13_no_panic_partial :
  forall (Hp : meas -> Z -> list Z) P isz regs cmds evlog recorded alg st oracle sims,
  sim_align cmds evlog 0 alg = Ok sims ->
  (forall size, hash_size alg = Some size ->
     Forall (fun c => Z.of_nat (length (s_digest c)) = size) (map snd sims)) ->
  (forall log es, recorded = Some log -> filterEvents log 0 alg = Ok es ->
     length (fst oracle) = length es /\ length (snd oracle) = length sims) ->
  (forall log es ps, recorded = Some log -> filterEvents log 0 alg = Ok es ->
     align_logs es (map snd sims) oracle = Ok ps -> Forall (safe_entry regs isz) (attach sims ps)) ->
  reproduce Hp P isz regs cmds evlog recorded alg st oracle <> Panic.
Proof. exact no_panic_partial. Qed.
Print Assumptions C13_no_panic_partial.

(** the hypotheses are satisfiable by an input that does reach the explainer *)
Example C13_no_panic_example :
  exists rs, reproduce w_hp 4 w_isz false w_cmds w_evlog (Some w_log_one) 4 w_st ([false], [false])
             = Ok (rs, [IMismatch 0], None) /\ map re_status rs = [StMismatch].
Proof. exact witness_one_pair_ok. Qed.

(** ... also by one whose event data holds MORE pairs than the measurement has references
    (one real pair and two empty ones, the empty ones read first, one reference): its
    ranges satisfy (1) and (3), and the entry is reported as a plain mismatch *)
Example C13_no_panic_empty_pairs_example :
  (forall p, parse_event_data (mkEv 0 EV_POST_CODE (w_one_pair ++ w_empty_pair ++ w_empty_pair) (Some (mkDg 4 (w_dg 2)))) w_isz = Ok p ->
     (length (pr_ranges p) > length (m_refs w_meas))%nat /\
     index_safe (m_refs w_meas) (pr_ranges p) /\ Forall (range_readable w_isz) (pr_ranges p)) /\
  exists rs, reproduce w_hp 4 w_isz false w_cmds w_evlog (Some w_log_real_empty_empty) 4 w_st ([false], [false])
             = Ok (rs, [IMismatch 0], None) /\ map re_status rs = [StMismatch].
Proof. split; [exact witness_empty_pairs_safe|exact witness_empty_pairs_ok]. Qed.

(** (1) is implied by the plain count "not more ranges than references" ... *)
Theorem C13_index_safe_of_length :
  forall refs ranges, (length ranges <= length refs)%nat -> index_safe refs ranges.
Proof. exact index_safe_of_length. Qed.
Print Assumptions C13_index_safe_of_length.

(** ... and is EXACT for a measurement of image ranges only (no hard-coded reference, as
    the firmware-volume measurements are): rangesToChunks panics on its reference look-up
    iff some range of the list comes after at least as many NON-EMPTY ranges as the
    measurement has references - whatever the number of empty ranges, wherever they are. *)
Theorem C13_explainer_index_panic_iff :
  forall isz mm ranges,
  has_raw (m_refs mm) = false ->
  (ranges_to_chunks isz (Some mm) ranges [] = Panic <->
   exists pre r post, ranges = pre ++ r :: post /\
     (length (m_refs mm) <= length (filter nonempty pre))%nat).
Proof. exact ranges_to_chunks_panic_iff. Qed.
Print Assumptions C13_explainer_index_panic_iff.

(** a readable range in plain arithmetic: it ends at or below 4 GiB *)
Theorem C13_range_readable_iff :
  forall isz off len,
  0 < isz <= PHYS_ADDR_BASE -> is_phys_addr off isz = true ->
  (range_readable isz (off, len) <-> off + len <= PHYS_ADDR_BASE).
Proof. exact range_readable_iff. Qed.
Print Assumptions C13_range_readable_iff.

(** REFUTED (finding C13-D20-rangesToChunks-index): a recorded EV_POST_CODE entry with a
    wrong digest and TWO (length,offset) pairs in its data, paired with a measurement of
    ONE reference, panics (References[1] of 1). *)
Theorem C13_no_panic_refuted :
  exists Hp P isz regs cmds evlog log alg st oracle,
    reproduce Hp P isz regs cmds evlog (Some log) alg st oracle = Panic.
Proof.
  exists w_hp, 4, w_isz, false, w_cmds, w_evlog, w_log_d20, 4, w_st, ([false], [false]). exact witness_d20.
Qed.
Print Assumptions C13_no_panic_refuted.

(** REFUTED (same finding): the second pair need not have a length - an EMPTY pair stored
    before a real one (so read after it) is looked up at References[1] of 1 as well, while
    the same two pairs in the other order are fine (C13_no_panic_empty_pairs_example). *)
Theorem C13_no_panic_empty_pair_refuted :
  reproduce w_hp 4 w_isz false w_cmds w_evlog (Some w_log_empty_real) 4 w_st ([false], [false]) = Panic.
Proof. exact witness_empty_after_real. Qed.
Print Assumptions C13_no_panic_empty_pair_refuted.

(** REFUTED (finding C13-nil-measurement-deref): with TXT registers present, a recorded
    startup-locality entry whose digest differs from the simulated one panics (the
    simulated entry has no measurement; isPCRxDataMeasurement dereferences nil). *)
Theorem C13_no_panic_nil_measurement_refuted :
  exists Hp P isz cmds evlog log alg st oracle,
    reproduce Hp P isz true cmds evlog (Some log) alg st oracle = Panic /\
    reproduce Hp P isz false cmds evlog (Some log) alg st oracle <> Panic.
Proof.
  exists w_hp, 4, w_isz, w_cmds_loc, w_evlog_loc, w_log_loc, 4, w_st, ([false], [false]).
  split; [exact witness_nil_measurement|].
  destruct witness_nil_measurement_no_regs as [rs E]. rewrite E. discriminate.
Qed.
Print Assumptions C13_no_panic_nil_measurement_refuted.

(** REFUTED (finding C13-range-beyond-image): event data with one valid-looking pair whose
    range reaches past the image end panics in Reference.RawBytes — for a mismatching
    entry and for an unexpected (inserted) one. *)
Theorem C13_no_panic_range_refuted :
  exists Hp P isz regs cmds evlog alg st,
    (exists log oracle, reproduce Hp P isz regs cmds evlog (Some log) alg st oracle = Panic /\ count_true (fst oracle) = O) /\
    (exists log oracle, reproduce Hp P isz regs cmds evlog (Some log) alg st oracle = Panic /\ count_true (fst oracle) = 1%nat).
Proof.
  exists w_hp, 4, w_isz, false, w_cmds, w_evlog, 4, w_st. split.
  - exists w_log_range, ([false], [false]). split; [exact witness_range|reflexivity].
  - exists w_log_range_ins, ([true; false], [false]). split; [exact witness_range_unexpected|reflexivity].
Qed.
Print Assumptions C13_no_panic_range_refuted.

(** ** CombineAsEventLog *)

(** On a result of ReproduceEventLog it does not panic; it lists every simulated PCR0
    event of the bank once and in order, interleaved with exactly the recorded events that
    were not matched, in order. *)
Theorem C13_combine_roundtrip :
  forall (Hp : meas -> Z -> list Z) P isz regs cmds evlog recorded alg st oracle rs iss upd,
  reproduce Hp P isz regs cmds evlog recorded alg st oracle = Ok (rs, iss, upd) ->
  exists cl sims,
    combine_log rs = Ok cl /\
    sim_align cmds evlog 0 alg = Ok sims /\
    csims cl = map snd sims /\
    crecs cl = unmatched_recorded rs.
Proof. exact combine_roundtrip. Qed.
Print Assumptions C13_combine_roundtrip.
