(** C03 — PCR0 reproduction (pcrbruteforcer.ReproduceExpectedPCR0) is sound and
    complete in its search space at any parallelism.
    Only the property theorems, each closed by [exact]; proofs in Proofs/PCR0Search.v.

    Vocabulary (model: Model/PCR0Search.v; predicates: Proofs/PCR0Search.v).

    Hashing is abstract: the theorems hold for EVERY type [D] of digests with a
    decidable equality [deqb] (bytes.Equal), every [pcr_init loc] (PCR0 after
    TPMInit at the locality), [extend old d] (TPM2_PCR_Extend) and
    [pcr0data tail reg] (digest of PCR0_DATA whose first 8 bytes are the
    register [reg]); in particular for SHA-1 / SHA-256.

    - [log : list (meas D)]: the PCR0 extends of the requested bank in the command
      log ([filteredMeasurements]); [m_dig] the recorded digest, [m_data] =
      [Some (tail, reg)] for an entry caused by the MeasurePCR0DATA step.
    - [st : settings]: MaxDisabledMeasurements, MaxReorders, combinatorial
      strategy on/off, its distance limit, MaxACMPolicyLinearDistance.
    - [cf]: GOMAXPROCS.  [outcomes .. cf : list fres]: EVERY value the call can
      produce under some interleaving of its goroutines: [FSome r] = (result,
      nil), [FNone] = (nil, nil), [FHang] = the call never returns (more results
      sent than resultCh has room for; [C03_returns]: never), [FPanic].
      (An error return value does not exist: errors of a job are logged and
      dropped by the handler.)  Theorems quantify over all elements of the list.
    - [result]: [r_loc] locality, [r_reg] corrected ACM_POLICY_STATUS (if any),
      [r_disabled] positions (in [log]) of the disabled measurements,
      [r_swaps] the order swaps (positions in [log]).
    - [replay_result r]: apply [r] to the log — re-hash PCR0_DATA (the first
      measurement that is not disabled) with [r_reg], apply the swaps in order to
      the full list, remove the disabled entries, replay from TPMInit([r_loc]).
    - [swaps_wf n (fresh n) s]: [s] is a list of pairwise disjoint swaps (a, b),
      a < b < n.
    - [space decs loc comb reg s]: dropping the measurements listed in [comb],
      replacing the register of a leading PCR0_DATA by [reg] — the original value
      minus some d in [decs], or with at most MaxACMPolicyCombinatorialDistance
      bits flipped when that strategy is enabled ([comb_cand]) —, applying the
      <= MaxReorders disjoint swaps [s] and replaying from locality [loc] gives
      the requested value.
    - [in_reach c]: [c] is a strictly increasing list of positions 0..len and has
      fewer than min(len, MaxDisabledMeasurements) elements.
    - [reachable decs]: some locality in {0, 3}, some [c] in reach, some [reg], [s]
      with [space decs ...].  [prop_decs st] = 0 .. MaxACMPolicyLinearDistance-1 is
      the search space of the property text; [lin_decs limit cf] is what
      linearSearch.Process really tries under GOMAXPROCS = cf
      ([C03_linear_search_space]: the same decrements).
    - [no_overflow]: len+1 < 2^63 and C(len+1, k) < 2^64 for the k searched
      (true for up to 62 measurements, [C03_ex_no_overflow]).
    - [acm_unique cf]: for no combination two different register candidates of the
      same strategy verify (holds unless the hash collides on PCR0_DATA
      candidates; needed because the code returns the register of one succeeding
      goroutine with the swaps stored by another: "TODO: fix consistency on
      control flow between orderSwapsResult and reg").

    - [comb_offered_at cf reg d]: combinatorialSearch.Process under GOMAXPROCS =
      [cf], per init() call (= per worker goroutine of bruteforcer.run at
      distance [d]; a (register buffer, context) pair belongs to ONE goroutine)
      the registers offered to check(), in order: the slice [piece] of the
      candidates [flip_reg reg bs], [bs] in [subsets d 0 64] (the [d]-bit
      combinations in combination-ID order).  [comb_offered cf reg maxd]: the
      same for the distance-0 shortcut and the distances 1..maxd.  Several
      workers exist only from distance 3 on (10000 combinations per worker;
      [C03_ex_comb_workers]), i.e. beyond the default
      MaxACMPolicyCombinatorialDistance = 2.
    - [flip_reg reg bs]: ApplyBitFlipsBytes on the 8 little-endian bytes
      [le_bytes 8 reg] of the register, read back with [of_le].

    - [extend_injective extend], [pcr0data_injective pcr0data]: the abstract hash
      has no collision (H(old || d) determines old and d; the digest of PCR0_DATA
      determines the 64-bit register).  [C03_acm_unique_collision_free]: then
      [acm_unique] holds for EVERY log, target, settings (MaxACMPolicyLinearDistance
      a Go int: <= 2^64) and GOMAXPROCS; the [_collision_free] theorems are the
      [_partial] ones with that hypothesis in place of [acm_unique].  That it cannot
      be dropped: [C03_sound_colliding_hash_refuted] (one collision of [extend]; not
      replayable on the real code, which would need a SHA-1/SHA-256 collision).
      The free terms of the correspondence check are collision-free
      ([C03_ex_collision_free]).

    The two ends on the caller's tpm.CommandLog (Model/PCR0Tool.v):
    - [lcmd D]: an entry of the command log ([LInit loc], [LExt pcr alg m], [LLog]);
      [filter_log alg 0 cmds]: filteredMeasurements, the measurements with their
      positions in the log; the [log] of the theorems above is [map snd] of it.
    - [tool_verdict alg cmds target loc reg dis sw]: what pcr0tool's
      printReproducePCR0Result (cmd/exp/pcr0tool/commands/sum/command.go, the only
      consumer of a result in the repository; as repaired by /repo 00d338a and
      84ad407) prints when it is handed the command log, the requested value and
      a result with locality [loc], register [reg], disabled measurements at the
      log positions [dis] and swaps [sw]: [TVOk] = "Resulting PCR0: ...",
      [TVMismatch] = "internal error: replayed PCR0 does not match the expected
      one; the information above could not be trusted", [TVSilent] = neither (an
      error is logged and the function returns), [TVPanic] = ApplyOrderSwaps
      indexes out of range.  The model follows the code: the kept entries (the
      disabled ones still among them, the log's TPMInit element 0 if it is the
      first command and has the reported locality), the first enabled
      measurement re-hashed with the reported register, the swaps applied behind
      the TPMInit entry, the disabled entries dropped, the replay.
    - [cmd_positions f dis_f]: log positions of the disabled measurements of a
      result ([r_disabled] counts in the filtered list).
    - [data_first log r]: if a register is reported, the first measurement that is
      not disabled is a PCR0_DATA measurement -- what "re-hash the first enabled
      measurement" (the brute-forcer and the tool) and [replay_result] (re-hash it
      if it is PCR0_DATA) both presuppose; true of every reported result
      ([C03_reported_results_wellformed]); needed ([C03_ex_tool_agreement]).

    Open finding (KNOWN_FINDINGS.json): C03-drop-all-not-searched ([_refuted]
    below).  Repaired in /repo (section "fixed" there): C03-D21-linear-blocks
    (92fa0d4: blocks clamped to [0, limit); [C03_linear_blocks_exact],
    [C03_none], [C03_parallelism_*] lost the hypothesis GOMAXPROCS - 1 <= limit)
    and C03-resultch-deadlock (1dc507b: resultCh has one slot per goroutine;
    [C03_returns], and [FHang] left the conclusions of [C03_complete_partial] and
    [C03_parallelism_partial]), C03-tool-replay-swap-indices (00d338a) and
    C03-tool-replay-ignores-register (84ad407): the four closed witnesses of the
    former [C03_tool_replay_refuted] are instances of [C03_tool_replay_agrees]
    now ([C03_ex_tool_repaired]). *)
From CSS Require Import Lib.Base Lib.Cases Model.Comb Proofs.Comb
     Model.PCR0Search Model.PCR0Tool Model.PCR0SearchCases Proofs.PCR0Search
     Proofs.PCR0SearchUnique Proofs.PCR0Tool.
From Coq Require Import Sorting.Sorted.

(** * 1. Order brute force (pairwise swaps) *)

Theorem C03_order_search_sound : forall D (deqb : D -> D -> bool) (pcr_init : Z -> D)
    (extend : D -> D -> D) st target,
  (forall a b, deqb a b = true <-> a = b) ->
  forall loc ms s, order_search D deqb pcr_init extend st target loc ms = Some s ->
    swaps_wf (length ms) (fresh (length ms)) s /\ Z.of_nat (length s) <= max_reorders st /\
    replay D pcr_init extend loc (apply_swaps s ms) = target.
Proof. exact order_sound. Qed.
Print Assumptions C03_order_search_sound.

Theorem C03_order_search_complete : forall D (deqb : D -> D -> bool) (pcr_init : Z -> D)
    (extend : D -> D -> D) st target,
  (forall a b, deqb a b = true <-> a = b) ->
  forall loc ms s, swaps_wf (length ms) (fresh (length ms)) s ->
    Z.of_nat (length s) <= max_reorders st ->
    replay D pcr_init extend loc (apply_swaps s ms) = target ->
    order_search D deqb pcr_init extend st target loc ms <> None.
Proof. exact order_complete. Qed.
Print Assumptions C03_order_search_complete.

(** idxShifts: swaps found on the enabled sublist, shifted, act on the full list
    exactly as the found swaps act on the sublist *)
Theorem C03_swap_index_translation : forall D (deqb : D -> D -> bool) (pcr0data : Z -> Z -> D)
    (log : list (meas D)) loc comb reg s,
  (forall a b, deqb a b = true <-> a = b) ->
  Forall (fun i => (i < length (select (enabled_flags D log comb) log))%nat) (swap_idx s) ->
  apply_result D pcr0data log
    (mkResult loc reg (disabled_of D log comb) (shift_swaps (idx_shifts (enabled_flags D log comb) 0) s))
  = apply_swaps s (enabled_digests D pcr0data log comb reg).
Proof. exact index_translation. Qed.
Print Assumptions C03_swap_index_translation.

(** * 2. The two partitions of the work among GOMAXPROCS goroutines *)

(** every decrement below the limit is tried, whatever GOMAXPROCS *)
Theorem C03_linear_blocks_cover : forall limit cf d,
  1 <= cf -> 0 <= d < limit -> In d (lin_decs limit cf).
Proof. exact lin_decs_cover. Qed.
Print Assumptions C03_linear_blocks_cover.

(** [In d (lin_decs limit cf)] iff goroutine i (0 <= i < cf) has d in its block *)
Theorem C03_linear_blocks_spec : forall limit cf d,
  In d (lin_decs limit cf) <-> exists i, 0 <= i < cf /\ in_block limit cf i d.
Proof. exact in_lin_decs. Qed.
Print Assumptions C03_linear_blocks_spec.

(** no decrement is tried by two goroutines *)
Theorem C03_linear_blocks_disjoint : forall limit cf i j d,
  0 <= i < cf -> 0 <= j < cf -> in_block limit cf i d -> in_block limit cf j d -> i = j.
Proof. exact in_block_inj. Qed.
Print Assumptions C03_linear_blocks_disjoint.

(** only decrements below the limit are tried, whatever GOMAXPROCS (any integer) and
    whatever the limit (negative and zero limits try nothing) *)
Theorem C03_linear_blocks_exact : forall limit cf d,
  In d (lin_decs limit cf) -> 0 <= d < limit.
Proof. exact lin_decs_exact. Qed.
Print Assumptions C03_linear_blocks_exact.

(** hence: the decrements tried are exactly 0 .. limit-1 ... *)
Theorem C03_linear_search_space : forall limit cf d,
  1 <= cf -> (In d (lin_decs limit cf) <-> 0 <= d < limit).
Proof. exact lin_decs_iff. Qed.
Print Assumptions C03_linear_search_space.

(** ... and do not depend on the number of cores *)
Theorem C03_linear_blocks_parallelism : forall limit cf1 cf2 d,
  1 <= cf1 -> 1 <= cf2 -> (In d (lin_decs limit cf1) <-> In d (lin_decs limit cf2)).
Proof. exact lin_decs_parallel. Qed.
Print Assumptions C03_linear_blocks_parallelism.

(** the goroutines of one level of Job.Execute visit valid combinations of the
    level's size only and, jointly, every one of them; SetCombinationID never panics *)
Theorem C03_combination_slices_cover : forall D (deqb : D -> D -> bool) st (log : list (meas D)) cf k,
  (forall a b, deqb a b = true <-> a = b) ->
  1 <= cf -> no_overflow D st log -> (k < kmax D st log)%nat ->
  exists ws, level_workers D log cf k = Ok ws /\
    (forall cs c, In cs ws -> In c cs -> Valid (Z.of_nat (nlog D log)) c /\ length c = k) /\
    (forall c, Valid (Z.of_nat (nlog D log)) c -> length c = k -> exists cs, In cs ws /\ In c cs).
Proof. exact comb_partition. Qed.
Print Assumptions C03_combination_slices_cover.

(** the worker contexts of the combinatorial strategy: under every GOMAXPROCS the
    1..GOMAXPROCS contexts of one distance are offered, jointly and in ID order,
    every candidate of that distance exactly once; no context is idle *)
Theorem C03_comb_workers_partition : forall cf reg d,
  1 <= cf -> (d <= 64)%nat ->
  concat (comb_offered_at cf reg d) = map (flip_reg reg) (subsets d 0 64) /\
  (1 <= length (comb_offered_at cf reg d))%nat /\
  Z.of_nat (length (comb_offered_at cf reg d)) <= cf /\
  Forall (fun l => l <> []) (comb_offered_at cf reg d).
Proof.
  intros cf reg d H1 H2. split; [exact (comb_offered_at_partition cf reg d H1 H2)|].
  exact (comb_offered_at_count cf reg d H1 H2).
Qed.
Print Assumptions C03_comb_workers_partition.

(** what all contexts together are offered is the bit-flip part of the search
    space of the property text (at most [maxd] bits flipped), whatever GOMAXPROCS *)
Theorem C03_comb_workers_space : forall cf reg maxd v,
  1 <= cf -> (maxd <= 64)%nat -> 0 <= reg < 2 ^ 64 ->
  (In v (concat (comb_offered cf reg maxd)) <->
   exists k bs, (k <= maxd)%nat /\ In bs (subsets k 0 64) /\ v = flip_reg reg bs).
Proof. exact comb_offered_space. Qed.
Print Assumptions C03_comb_workers_space.

(** the hits of one distance, by which [outcomes] describes the strategy, are the
    hits among what the worker contexts are offered, under every GOMAXPROCS *)
Theorem C03_comb_hits_by_workers : forall D (deqb : D -> D -> bool) (pcr_init : Z -> D)
    (extend : D -> D -> D) (pcr0data : Z -> Z -> D) st target cf loc tail reg ms d,
  1 <= cf -> (d <= 64)%nat ->
  comb_hits_at D deqb pcr_init extend pcr0data st target loc tail reg ms d
  = somes (map (fun v => match acm_try D deqb pcr_init extend pcr0data st target loc tail ms v with
                         | Some sw => Some (v, sw)
                         | None => None
                         end) (concat (comb_offered_at cf reg d))).
Proof. exact comb_hits_at_workers. Qed.
Print Assumptions C03_comb_hits_by_workers.

(** the register buffer: [le_bytes] is the little-endian decomposition and
    [of_le] reads a 64-bit register back *)
Theorem C03_register_bytes : forall v,
  (forall n, le_bytes (S n) v = (v mod 256) :: le_bytes n (v / 256)) /\
  (0 <= v < 2 ^ 64 -> of_le (le_bytes 8 v) = v /\ flip_reg v [] = v).
Proof.
  intro v. split; [intro n; apply le_bytes_div_mod|].
  intro H. split; [now apply of_le_le_bytes_8|now apply flip_reg_nil].
Qed.
Print Assumptions C03_register_bytes.

(** * 3. Soundness: a reported result replays to the requested PCR0 *)

(** PARTIAL: needs [acm_unique cf] (see the vocabulary).  What is missing for the
    statement of the property: nothing but this hypothesis, and it cannot be had
    for an arbitrary hash ([C03_sound_colliding_hash_refuted]); it follows from
    collision-freeness ([C03_acm_unique_collision_free]), which gives
    [C03_sound_collision_free]. *)
Theorem C03_sound_partial : forall D (deqb : D -> D -> bool),
  (forall a b, deqb a b = true <-> a = b) ->
  forall (pcr_init : Z -> D) (extend : D -> D -> D) (pcr0data : Z -> Z -> D) st
         (log : list (meas D)) (target : D) cf r,
  acm_unique D deqb pcr_init extend pcr0data st log target cf ->
  In (FSome r) (outcomes D deqb pcr_init extend pcr0data st log target cf) ->
  replay_result D pcr_init extend pcr0data log r = target /\ (r_loc r = 0 \/ r_loc r = 3).
Proof. exact sound. Qed.
Print Assumptions C03_sound_partial.

(** [acm_unique] is a consequence of collision-freeness: two register candidates
    that verify for the same measurements replay two digest lists of one length
    to the same value, so the lists are equal (injective extend), both are
    permutations of "candidate digest :: the other measurements", so the candidate
    digests are equal, so the registers are (injective PCR0_DATA digest); the
    candidates of a strategy are pairwise different registers ([C03_candidates_distinct]) *)
Theorem C03_acm_unique_collision_free : forall D (deqb : D -> D -> bool),
  (forall a b, deqb a b = true <-> a = b) ->
  forall (pcr_init : Z -> D) (extend : D -> D -> D) (pcr0data : Z -> Z -> D) st
         (log : list (meas D)) (target : D) cf,
  extend_injective extend -> pcr0data_injective pcr0data -> lin_limit st <= 2 ^ 64 ->
  acm_unique D deqb pcr_init extend pcr0data st log target cf.
Proof. exact acm_unique_collision_free. Qed.
Print Assumptions C03_acm_unique_collision_free.

(** the decrements below a limit <= 2^64 and the bit-flip sets give pairwise
    different 64-bit registers, whatever the start value *)
Theorem C03_candidates_distinct :
  (forall reg d1 d2 L, L <= 2 ^ 64 -> 0 <= d1 < L -> 0 <= d2 < L ->
     wrap64 (reg - d1) = wrap64 (reg - d2) -> d1 = d2) /\
  (forall reg k1 b1 k2 b2, In b1 (subsets k1 0 64) -> In b2 (subsets k2 0 64) ->
     flip_reg reg b1 = flip_reg reg b2 -> b1 = b2) /\
  (forall reg k bs, In bs (subsets k 0 64) -> 0 <= flip_reg reg bs < 2 ^ 64).
Proof. exact (conj wrap64_sub_inj (conj flip_reg_inj flip_reg_range)). Qed.
Print Assumptions C03_candidates_distinct.

(** soundness for a collision-free hash: every log, setting, GOMAXPROCS, schedule *)
Theorem C03_sound_collision_free : forall D (deqb : D -> D -> bool),
  (forall a b, deqb a b = true <-> a = b) ->
  forall (pcr_init : Z -> D) (extend : D -> D -> D) (pcr0data : Z -> Z -> D) st
         (log : list (meas D)) (target : D) cf r,
  extend_injective extend -> pcr0data_injective pcr0data -> lin_limit st <= 2 ^ 64 ->
  In (FSome r) (outcomes D deqb pcr_init extend pcr0data st log target cf) ->
  replay_result D pcr_init extend pcr0data log r = target /\ (r_loc r = 0 \/ r_loc r = 3).
Proof. exact sound_cf. Qed.
Print Assumptions C03_sound_collision_free.

(** ... and not without: with ONE collision of the extend function (two PCR values
    whose extension with the same digest gives the requested value) the three
    goroutines of linearSearch.Process under GOMAXPROCS = 3 all succeed, and the
    model lets the call return the register of one with the swaps stored by another
    ("TODO: fix consistency on control flow between orderSwapsResult and reg"): that
    result does not replay to the requested value (other swaps would), and (nil, nil)
    is possible too although the value is reachable.  Not replayable on the real
    code: it needs a collision of SHA-1 / SHA-256. *)
Theorem C03_sound_colliding_hash_refuted :
  In (FSome r_cw) (outcomes term term_eqb Init ext_cw DataH st_cw log_cw tgt_cw 3) /\
  replay_result term Init ext_cw DataH log_cw r_cw <> tgt_cw /\
  ~ extend_injective ext_cw /\
  (exists sw', replay_result term Init ext_cw DataH log_cw (mkResult 0 (Some (R0 - 1)) [] sw') = tgt_cw) /\
  In FNone (outcomes term term_eqb Init ext_cw DataH st_cw log_cw tgt_cw 3).
Proof. exact sound_collision_witness. Qed.
Print Assumptions C03_sound_colliding_hash_refuted.

(** without any hypothesis: locality, register and disabled measurements of every
    reported result are right — there are swaps with which it replays to the target *)
Theorem C03_sound_upto_swaps : forall D (deqb : D -> D -> bool),
  (forall a b, deqb a b = true <-> a = b) ->
  forall (pcr_init : Z -> D) (extend : D -> D -> D) (pcr0data : Z -> Z -> D) st
         (log : list (meas D)) (target : D) cf r,
  In (FSome r) (outcomes D deqb pcr_init extend pcr0data st log target cf) ->
  exists sw', replay_result D pcr_init extend pcr0data log
                (mkResult (r_loc r) (r_reg r) (r_disabled r) sw') = target.
Proof. exact sound_upto_swaps. Qed.
Print Assumptions C03_sound_upto_swaps.

(** every reported result is a point of the space really searched under [cf] *)
Theorem C03_result_in_searched_space : forall D (deqb : D -> D -> bool),
  (forall a b, deqb a b = true <-> a = b) ->
  forall (pcr_init : Z -> D) (extend : D -> D -> D) (pcr0data : Z -> Z -> D) st
         (log : list (meas D)) (target : D) cf r,
  1 <= cf -> no_overflow D st log ->
  In (FSome r) (outcomes D deqb pcr_init extend pcr0data st log target cf) ->
  exists c reg s', (r_loc r = 0 \/ r_loc r = 3) /\ in_reach D st log c /\ r_reg r = reg /\
    r_disabled r = disabled_of D log c /\
    space D pcr_init extend pcr0data st log target (lin_decs (lin_limit st) cf) (r_loc r) c reg s'.
Proof. exact found_in_space. Qed.
Print Assumptions C03_result_in_searched_space.

(** * 4. Completeness: a reachable value is found *)

(** the call always returns: at every level resultCh has room for a result of
    every goroutine started, for every log, setting and GOMAXPROCS *)
Theorem C03_returns : forall D (deqb : D -> D -> bool),
  (forall a b, deqb a b = true <-> a = b) ->
  forall (pcr_init : Z -> D) (extend : D -> D -> D) (pcr0data : Z -> Z -> D) st
         (log : list (meas D)) (target : D) cf,
  ~ In FHang (outcomes D deqb pcr_init extend pcr0data st log target cf).
Proof. exact no_hang. Qed.
Print Assumptions C03_returns.

(** PARTIAL: [acm_unique]; "fewer than MaxDisabledMeasurements dropped" is
    "fewer than min(len, MaxDisabledMeasurements)" in [in_reach] (finding
    C03-drop-all-not-searched).  Every outcome is a result: never (nil, nil),
    never a panic, never a hang.
    Missing for the statement of the property: (a) [acm_unique] -- follows from
    collision-freeness ([C03_complete_collision_free_partial]) and is needed in
    some form ([C03_sound_colliding_hash_refuted] has (nil, nil) for a reachable
    value); (b) the drop-everything clause for logs shorter than
    MaxDisabledMeasurements -- false of the code ([C03_complete_dropall_refuted]);
    for all other logs the statement is the property's ([C03_complete_long_log]). *)
Theorem C03_complete_partial : forall D (deqb : D -> D -> bool),
  (forall a b, deqb a b = true <-> a = b) ->
  forall (pcr_init : Z -> D) (extend : D -> D -> D) (pcr0data : Z -> Z -> D) st
         (log : list (meas D)) (target : D) cf,
  1 <= cf -> no_overflow D st log ->
  acm_unique D deqb pcr_init extend pcr0data st log target cf ->
  reachable D pcr_init extend pcr0data st log target (prop_decs st) ->
  forall o, In o (outcomes D deqb pcr_init extend pcr0data st log target cf) ->
    exists r, o = FSome r.
Proof. exact complete. Qed.
Print Assumptions C03_complete_partial.

(** PARTIAL only in "fewer than min(len, MaxDisabledMeasurements)" ([in_reach];
    finding C03-drop-all-not-searched, refuted below): [acm_unique] replaced by
    collision-freeness *)
Theorem C03_complete_collision_free_partial : forall D (deqb : D -> D -> bool),
  (forall a b, deqb a b = true <-> a = b) ->
  forall (pcr_init : Z -> D) (extend : D -> D -> D) (pcr0data : Z -> Z -> D) st
         (log : list (meas D)) (target : D) cf,
  extend_injective extend -> pcr0data_injective pcr0data -> lin_limit st <= 2 ^ 64 ->
  1 <= cf -> no_overflow D st log ->
  reachable D pcr_init extend pcr0data st log target (prop_decs st) ->
  forall o, In o (outcomes D deqb pcr_init extend pcr0data st log target cf) ->
    exists r, o = FSome r.
Proof. exact complete_cf. Qed.
Print Assumptions C03_complete_collision_free_partial.

(** completeness exactly as the property states it ("fewer than the configured
    number of measurements dropped", any positions 0..len) for every log that has
    at least MaxDisabledMeasurements PCR0 measurements -- the complement of the
    region of the open finding *)
Theorem C03_complete_long_log : forall D (deqb : D -> D -> bool),
  (forall a b, deqb a b = true <-> a = b) ->
  forall (pcr_init : Z -> D) (extend : D -> D -> D) (pcr0data : Z -> Z -> D) st
         (log : list (meas D)) (target : D) cf,
  extend_injective extend -> pcr0data_injective pcr0data -> lin_limit st <= 2 ^ 64 ->
  1 <= cf -> no_overflow D st log ->
  max_disabled st <= Z.of_nat (length log) ->
  (exists loc c reg s, (loc = 0 \/ loc = 3) /\
     Valid (Z.of_nat (length log)) c /\ Z.of_nat (length c) < max_disabled st /\
     space D pcr_init extend pcr0data st log target (prop_decs st) loc c reg s) ->
  forall o, In o (outcomes D deqb pcr_init extend pcr0data st log target cf) ->
    exists r, o = FSome r.
Proof. exact complete_long_log. Qed.
Print Assumptions C03_complete_long_log.

(** ... and some outcome always exists (unconditionally), so the statements about
    "every outcome" are not vacuous *)
Theorem C03_outcomes_nonempty : forall D (deqb : D -> D -> bool) (pcr_init : Z -> D)
    (extend : D -> D -> D) (pcr0data : Z -> Z -> D) st (log : list (meas D)) (target : D) cf,
  exists o, In o (outcomes D deqb pcr_init extend pcr0data st log target cf).
Proof. exact outcomes_nonempty. Qed.
Print Assumptions C03_outcomes_nonempty.


(** finding C03-drop-all-not-searched: one measurement, MaxDisabledMeasurements = 4,
    requested value = PCR0 after TPMInit(0) (the measurement dropped): (nil, nil) *)
Theorem C03_complete_dropall_refuted :
  Z.of_nat (length log_da) < max_disabled st_da /\
  replay term Init Ext 0 [] = Init 0 /\
  (forall cf, In cf [1; 2; 4; 64] ->
     outcomes term term_eqb Init Ext DataH st_da log_da (Init 0) cf = [FNone]).
Proof. exact dropall_witness. Qed.
Print Assumptions C03_complete_dropall_refuted.

(** * 5. Not reachable: (nil, nil), no error, no panic, no hang *)

Theorem C03_none_searched : forall D (deqb : D -> D -> bool),
  (forall a b, deqb a b = true <-> a = b) ->
  forall (pcr_init : Z -> D) (extend : D -> D -> D) (pcr0data : Z -> Z -> D) st
         (log : list (meas D)) (target : D) cf,
  1 <= cf -> no_overflow D st log ->
  ~ reachable D pcr_init extend pcr0data st log target (lin_decs (lin_limit st) cf) ->
  outcomes D deqb pcr_init extend pcr0data st log target cf = [FNone].
Proof. exact none_searched. Qed.
Print Assumptions C03_none_searched.

(** the same for the search space of the property text, under every GOMAXPROCS *)
Theorem C03_none : forall D (deqb : D -> D -> bool),
  (forall a b, deqb a b = true <-> a = b) ->
  forall (pcr_init : Z -> D) (extend : D -> D -> D) (pcr0data : Z -> Z -> D) st
         (log : list (meas D)) (target : D) cf,
  1 <= cf -> no_overflow D st log ->
  ~ reachable D pcr_init extend pcr0data st log target (prop_decs st) ->
  outcomes D deqb pcr_init extend pcr0data st log target cf = [FNone].
Proof. exact none. Qed.
Print Assumptions C03_none.

(** * 6. Every CPU-parallelism setting *)

(** the space searched is the space of the property text under every GOMAXPROCS,
    hence the same under any two *)
Theorem C03_parallelism_space : forall D (deqb : D -> D -> bool),
  (forall a b, deqb a b = true <-> a = b) ->
  forall (pcr_init : Z -> D) (extend : D -> D -> D) (pcr0data : Z -> Z -> D) st
         (log : list (meas D)) (target : D) cf,
  1 <= cf ->
  (reachable D pcr_init extend pcr0data st log target (lin_decs (lin_limit st) cf) <->
   reachable D pcr_init extend pcr0data st log target (prop_decs st)).
Proof. exact reachable_searched_iff. Qed.
Print Assumptions C03_parallelism_space.

(** PARTIAL ([acm_unique] under [cf2], the only missing clause; from
    collision-freeness: [C03_parallelism_collision_free]): a result under [cf1]
    excludes (nil, nil) under [cf2]; every outcome under [cf2] is a result *)
Theorem C03_parallelism_partial : forall D (deqb : D -> D -> bool),
  (forall a b, deqb a b = true <-> a = b) ->
  forall (pcr_init : Z -> D) (extend : D -> D -> D) (pcr0data : Z -> Z -> D) st
         (log : list (meas D)) (target : D) cf1 cf2 r,
  1 <= cf1 -> 1 <= cf2 -> no_overflow D st log ->
  acm_unique D deqb pcr_init extend pcr0data st log target cf2 ->
  In (FSome r) (outcomes D deqb pcr_init extend pcr0data st log target cf1) ->
  forall o, In o (outcomes D deqb pcr_init extend pcr0data st log target cf2) ->
    exists r', o = FSome r'.
Proof. exact parallelism. Qed.
Print Assumptions C03_parallelism_partial.

(** PARTIAL ([acm_unique] under [cf1], the only missing clause; from
    collision-freeness: [C03_parallelism_none_collision_free]): (nil, nil) under
    [cf1] is (nil, nil) under [cf2] *)
Theorem C03_parallelism_none_partial : forall D (deqb : D -> D -> bool),
  (forall a b, deqb a b = true <-> a = b) ->
  forall (pcr_init : Z -> D) (extend : D -> D -> D) (pcr0data : Z -> Z -> D) st
         (log : list (meas D)) (target : D) cf1 cf2,
  1 <= cf1 -> 1 <= cf2 -> no_overflow D st log ->
  acm_unique D deqb pcr_init extend pcr0data st log target cf1 ->
  outcomes D deqb pcr_init extend pcr0data st log target cf1 = [FNone] ->
  outcomes D deqb pcr_init extend pcr0data st log target cf2 = [FNone].
Proof. exact parallelism_none. Qed.
Print Assumptions C03_parallelism_none_partial.

(** both for a collision-free hash, any two GOMAXPROCS values *)
Theorem C03_parallelism_collision_free : forall D (deqb : D -> D -> bool),
  (forall a b, deqb a b = true <-> a = b) ->
  forall (pcr_init : Z -> D) (extend : D -> D -> D) (pcr0data : Z -> Z -> D) st
         (log : list (meas D)) (target : D) cf1 cf2 r,
  extend_injective extend -> pcr0data_injective pcr0data -> lin_limit st <= 2 ^ 64 ->
  1 <= cf1 -> 1 <= cf2 -> no_overflow D st log ->
  In (FSome r) (outcomes D deqb pcr_init extend pcr0data st log target cf1) ->
  forall o, In o (outcomes D deqb pcr_init extend pcr0data st log target cf2) ->
    exists r', o = FSome r'.
Proof. exact parallelism_cf. Qed.
Print Assumptions C03_parallelism_collision_free.

Theorem C03_parallelism_none_collision_free : forall D (deqb : D -> D -> bool),
  (forall a b, deqb a b = true <-> a = b) ->
  forall (pcr_init : Z -> D) (extend : D -> D -> D) (pcr0data : Z -> Z -> D) st
         (log : list (meas D)) (target : D) cf1 cf2,
  extend_injective extend -> pcr0data_injective pcr0data -> lin_limit st <= 2 ^ 64 ->
  1 <= cf1 -> 1 <= cf2 -> no_overflow D st log ->
  outcomes D deqb pcr_init extend pcr0data st log target cf1 = [FNone] ->
  outcomes D deqb pcr_init extend pcr0data st log target cf2 = [FNone].
Proof. exact parallelism_none_cf. Qed.
Print Assumptions C03_parallelism_none_collision_free.

(** * 7. The caller's command log: what is searched, and the repository's own
    application of a result (pcr0tool) *)

(** filteredMeasurements hands the search exactly the PCR0 extends of the requested
    bank, each once, in log order (positions strictly increasing) *)
Theorem C03_filter_exact : forall D alg (cmds : list (lcmd D)),
  (forall p m, In (p, m) (PCR0Tool.filter_log D alg 0 cmds) <-> nth_error cmds p = Some (LExt 0 alg m)) /\
  StronglySorted lt (map fst (PCR0Tool.filter_log D alg 0 cmds)).
Proof. exact filter_log_exact. Qed.
Print Assumptions C03_filter_exact.

(** the repository's own "apply the result to the command log and replay it" is
    the independent [replay_result]: ANY log (TPMInit first with either locality,
    elsewhere, twice, absent; event-log entries; other PCRs and banks), any
    disabled measurements, any swaps, a corrected register or none.  Hypotheses:
    the result refers to measurements of the log (indices in range: otherwise
    ApplyOrderSwaps panics resp. a pointer is foreign) and [data_first].  The tool
    prints one of its two verdicts; it never panics and never stays silent. *)
Theorem C03_tool_replay_agrees : forall D (deqb : D -> D -> bool) (pcr_init : Z -> D)
    (extend : D -> D -> D) (pcr0data : Z -> Z -> D) alg (cmds : list (lcmd D)) target r,
  let f := PCR0Tool.filter_log D alg 0 cmds in
  Forall (fun i => (i < length f)%nat) (r_disabled r) ->
  Forall (fun i => (i < length f)%nat) (swap_idx (r_swaps r)) ->
  data_first D (map snd f) r ->
  tool_verdict D deqb pcr_init extend pcr0data alg cmds target
               (r_loc r) (r_reg r) (cmd_positions f (r_disabled r)) (r_swaps r)
  = if deqb (replay_result D pcr_init extend pcr0data (map snd f) r) target then TVOk else TVMismatch.
Proof. exact tool_replay_agrees. Qed.
Print Assumptions C03_tool_replay_agrees.

(** every reported result meets these hypotheses, whatever the hash, the
    settings, GOMAXPROCS and the schedule *)
Theorem C03_reported_results_wellformed : forall D (deqb : D -> D -> bool),
  (forall a b, deqb a b = true <-> a = b) ->
  forall (pcr_init : Z -> D) (extend : D -> D -> D) (pcr0data : Z -> Z -> D) st
         (log : list (meas D)) (target : D) cf r,
  In (FSome r) (outcomes D deqb pcr_init extend pcr0data st log target cf) ->
  Forall (fun i => (i < length log)%nat) (r_disabled r) /\
  Forall (fun i => (i < length log)%nat) (swap_idx (r_swaps r)) /\
  data_first D log r.
Proof. exact reported_wf. Qed.
Print Assumptions C03_reported_results_wellformed.

(** hence: for EVERY reported result the tool's replay equals the independent
    replay -- no hypothesis on the hash ... *)
Theorem C03_tool_replay_reported : forall D (deqb : D -> D -> bool),
  (forall a b, deqb a b = true <-> a = b) ->
  forall (pcr_init : Z -> D) (extend : D -> D -> D) (pcr0data : Z -> Z -> D) st alg
         (cmds : list (lcmd D)) (target : D) cf r,
  let f := PCR0Tool.filter_log D alg 0 cmds in
  In (FSome r) (outcomes D deqb pcr_init extend pcr0data st (map snd f) target cf) ->
  tool_verdict D deqb pcr_init extend pcr0data alg cmds target
               (r_loc r) (r_reg r) (cmd_positions f (r_disabled r)) (r_swaps r)
  = if deqb (replay_result D pcr_init extend pcr0data (map snd f) r) target then TVOk else TVMismatch.
Proof. exact tool_replay_reported. Qed.
Print Assumptions C03_tool_replay_reported.

(** ... and with a collision-free hash the tool confirms every reported result *)
Theorem C03_tool_confirms_reported : forall D (deqb : D -> D -> bool),
  (forall a b, deqb a b = true <-> a = b) ->
  forall (pcr_init : Z -> D) (extend : D -> D -> D) (pcr0data : Z -> Z -> D) st alg
         (cmds : list (lcmd D)) (target : D) cf r,
  let f := PCR0Tool.filter_log D alg 0 cmds in
  extend_injective extend -> pcr0data_injective pcr0data -> lin_limit st <= 2 ^ 64 ->
  In (FSome r) (outcomes D deqb pcr_init extend pcr0data st (map snd f) target cf) ->
  tool_verdict D deqb pcr_init extend pcr0data alg cmds target
               (r_loc r) (r_reg r) (cmd_positions f (r_disabled r)) (r_swaps r)
  = TVOk.
Proof. exact tool_confirms_reported. Qed.
Print Assumptions C03_tool_confirms_reported.


(** * Hypotheses are satisfiable *)

Example C03_ex_term_eqb : forall a b, term_eqb a b = true <-> a = b.
Proof. exact term_eqb_spec. Qed.

Example C03_ex_no_overflow : forall D st (log : list (meas D)),
  (length log <= 62)%nat -> no_overflow D st log.
Proof. exact no_overflow_small. Qed.

(** the free terms of the correspondence check are collision-free *)
Example C03_ex_collision_free : extend_injective Ext /\ pcr0data_injective DataH.
Proof. exact (conj term_extend_injective term_pcr0data_injective). Qed.

(** the witnesses of the two repaired tool findings: the results are the only
    outcome, replay to the requested value, and the repaired tool confirms each
    (it used to answer "internal error", "internal error" at locality 3, an index
    panic, nothing) *)
Example C03_ex_tool_repaired :
  (forall cf, In cf [1; 4] ->
     outcomes term term_eqb Init Ext DataH st_w1 (t_log 4 cmds_w1) tgt_w1 cf = [FSome r_w1]) /\
  t_replay_result (t_log 4 cmds_w1) r_w1 = tgt_w1 /\
  t_tool 4 cmds_w1 tgt_w1 3 (Some (R0 - 1)) [] [] = TVOk /\
  (forall loc, In loc [0; 3] ->
     outcomes term term_eqb Init Ext DataH st_w2 (t_log 4 cmds_w2) (tgt_w2 loc) 1 = [FSome (r_w2 loc)] /\
     t_replay_result (t_log 4 cmds_w2) (r_w2 loc) = tgt_w2 loc /\
     t_tool 4 cmds_w2 (tgt_w2 loc) loc (Some R0) [] [(1, 2)%nat] = TVOk) /\
  outcomes term term_eqb Init Ext DataH st_w3 (t_log 4 cmds_w3) tgt_w3 1 = [FSome r_w3] /\
  t_replay_result (t_log 4 cmds_w3) r_w3 = tgt_w3 /\
  t_tool 4 cmds_w3 tgt_w3 0 (Some R0) [2%nat] [(2, 3)%nat] = TVOk /\
  outcomes term term_eqb Init Ext DataH st_w2 (t_log 4 cmds_w4) tgt_w4 1 = [FSome r_w4] /\
  t_replay_result (t_log 4 cmds_w4) r_w4 = tgt_w4 /\
  t_tool 4 cmds_w4 tgt_w4 3 (Some R0) [] [(0, 1)%nat] = TVOk.
Proof. exact tool_repaired_witnesses. Qed.

(** the hypotheses of [C03_tool_replay_agrees] on a result with a dropped
    measurement, a swap across it, a corrected register, in a log with its own
    TPMInit; and [data_first] is needed: a register "reported" for a log whose
    first enabled measurement is not PCR0_DATA (the search never does) cannot be
    applied by the tool (no verdict) and is ignored by [replay_result] *)
Example C03_ex_tool_agreement :
  (let f := filter_log 4 0 cmds_w3 in
   Forall (fun i => (i < length f)%nat) (r_disabled r_ex1) /\
   Forall (fun i => (i < length f)%nat) (swap_idx (r_swaps r_ex1)) /\
   data_first term (map snd f) r_ex1 /\ cmd_positions f (r_disabled r_ex1) = [3%nat] /\
   t_replay_result (map snd f) r_ex1 = tgt_ex1 /\
   t_tool 4 cmds_w3 tgt_ex1 3 (Some (R0 - 1)) [3%nat] [(1, 3)%nat] = TVOk) /\
  (let f := filter_log 4 0 cmds_w1 in
   ~ data_first term (map snd f) r_nd /\
   t_replay_result (map snd f) r_nd = tgt_nd /\
   t_tool 4 cmds_w1 tgt_nd 0 (Some R0) (cmd_positions f (r_disabled r_nd)) [] = TVSilent).
Proof. exact tool_agreement_examples. Qed.

(** one register candidate: [acm_unique] for every hash and every log *)
Example C03_ex_acm_unique : forall D deqb pcr_init extend pcr0data st (log : list (meas D)) target,
  lin_limit st = 1 -> comb_limit st = 0 ->
  acm_unique D deqb pcr_init extend pcr0data st log target 1.
Proof. exact acm_unique_single. Qed.

(** a reachable request with 8 measurements (one dropped); it is the witness of the
    repaired finding C03-resultch-deadlock: under GOMAXPROCS = 5 the channel has
    room for 9 results, 7 goroutines succeed, every outcome is a result *)
Example C03_ex_reachable :
  reachable term Init Ext DataH st_h log_h tgt_h (prop_decs st_h) /\
  res_cap (amount64 8 1) 5 = 9 /\
  length (filter is_fsome (outcomes term term_eqb Init Ext DataH st_h log_h tgt_h 5)) = 7%nat /\
  forallb is_fsome (outcomes term term_eqb Init Ext DataH st_h log_h tgt_h 5) = true.
Proof. exact hang_fixed_witness. Qed.

(** the witness of the repaired finding C03-D21: MaxACMPolicyLinearDistance = 2;
    register off by 2 (outside the space): (nil, nil) under every GOMAXPROCS tried;
    off by 1: the same result under every one of them *)
Example C03_ex_d21_fixed :
  lin_limit st_d21 = 2 /\
  (forall cf, In cf [1; 2; 3; 4; 5; 16; 64] ->
     outcomes term term_eqb Init Ext DataH st_d21 log_d21 tgt_d21 cf = [FNone] /\
     outcomes term term_eqb Init Ext DataH st_d21 log_d21 tgt_d21_in cf
       = [FSome (mkResult 3 (Some (R0 - 1)) [] [])]).
Proof. exact d21_fixed_witness. Qed.

(** the workers of one combinatorial search: 4, 4, 3, 2, 1 of them for the 41664
    three-bit candidates under GOMAXPROCS 4, 64, 3, 2, 1; one for two bits *)
Example C03_ex_comb_workers :
  let lens cf d := map (fun l => Z.of_nat (length l)) (comb_offered_at cf 5 d) in
  lens 4 3%nat = [10416; 10416; 10416; 10416] /\
  lens 64 3%nat = [10416; 10416; 10416; 10416] /\
  lens 3 3%nat = [13888; 13888; 13888] /\
  lens 2 3%nat = [20832; 20832] /\
  lens 1 3%nat = [41664] /\
  lens 64 2%nat = [2016].
Proof. exact comb_workers_example. Qed.

Example C03_ex_linear_limit_2 : lin_decs 2 4 = [0; 1] /\ lin_decs 2 1 = [0; 1].
Proof. exact lin_decs_d21_fixed. Qed.
