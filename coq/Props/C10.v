(** C10 — validators flag exactly the unprotected actor code and uncovered
    executables.  Only the property theorems (closed by [exact]) and examples that
    the hypotheses are satisfiable.  Model: Model/Validators.v (the three
    validators of pkg/bootflow/bootengine/validator over a projection of
    bootengine.Log), on top of Model/Refs.v + Model/Ranges.v (C11).

    Vocabulary (Proofs/Validators.v; [sz a] = Size() of the artifact with identity a):
    - [step]: one StepResult: [s_actor] (identity of the actor in charge at the end
      of the step, None = nil), [s_code] (ActorCode, None = unknown), [s_meas]
      (all references measured in the step), [s_issues];
    - [covers sz s a j]: byte [j] (an offset inside artifact [a]) is referenced by
      the list [s]; a reference gives image offsets (no mapper) or physical
      addresses (PhysMemMapper: offset = address - (2^32 - sz a));
    - [meas_upto l]: every reference measured by the steps of [l];
    - [last_actor None l]: the last non-nil actor in charge over the steps of [l];
    - [takes_over l i st a]: step [i] of [l] is [st], actor [a] is in charge at its
      end and [a] is not [last_actor None (firstn i l)] (a re-entered actor takes
      over again; a nil gap between two steps of the same actor does not count);
    - [unprot sz l i code x j]: byte [j] of artifact [x] belongs to [code] and is
      not covered by [meas_upto (firstn i l)] (STRICTLY earlier steps);
    - [WFlog sz A l] (the property's universe): every reference of the log is an
      offset reference or a physical-address reference at or above the start of
      the image's window, no range wraps around 2^64, artifacts are drawn from [A]
      and have the sizes [sz] says;
    - [ArtsDist A]: distinct artifacts have distinct type names and vice versa
      (what compareReferenceType needs: finding D6);
    - [std_refs sz s], [arts_in A s]: the same conditions for a single list of
      references (the file references of the final-coverage validator);
    - [pointed r]: the reference has at least one byte;
    - [den s a m k] (C11): the list denotes (artifact a, address space m, address k);
    - [vap], [vfc], [vni]: ValidatorActorsAreProtected / FinalCoverageIsComplete /
      NoIssues; [vi_step], [vi_kind], [vi_refs] = StepIdx, kind, NonMeasured.

    Slice level (Model/ValidatorsHeap.v, Proofs/ValidatorsHeap.v): the validators
    sort the range arrays they are given in place (and re-allocate before they
    append), and those arrays belong to the log, which validator.All() / pcr0tool
    hand to one validator after the other.
    - [heap]: the backing arrays; [sl]: a Go slice header (array, offset, len, cap);
      [rd h s]: what the slice reads as; a log step [hstep] holds, for every
      reference, the slice header of its Ranges; [windows l]: all of them;
    - [hvap h l], [hvfc h files l]: the two range validators run on the log [l] over
      the memory [h]: (memory afterwards, issues);
    - [WFheap h W]: every slice lies inside its array and two slices are the same
      window or do not overlap (spare capacity is arbitrary and may overlap anything);
    - [kept h0 W h]: arrays keep their lengths and every slice of [W] reads in [h]
      as a permutation of what it reads as in [h0].

    Histories (Model/ValidatorsHeap.v, Proofs/ValidatorsRefine.v, Proofs/ValidatorsHist.v):
    - [pass]: one run over the log: [PVap], [PVfc files] (the two range validators),
      [PSm] (state.MeasuredData.References() + SortAndMerge(), which pcr0tool
      validate_security does before it validates), [PAll files]
      (validator.All().Validate: the three validators, results appended);
      [run_passes h0 l ps]: the runs [ps] made one after the other on the log [l],
      each in the memory the previous one left: (memory afterwards, results);
      [vpass l' p]: what the VALUE-level model says about a run [p] on the log [l'];
      [kth_run h0 l ps k p r]: the k-th run of [ps] is [p] and returned [r];
    - [log_sized l]: the Size() recorded beside every artifact of the log is the
      length of its content (a projection invariant of the harness);
    - [sreq]: two logs that differ only in the order of ranges inside references.

    UEFIFiles (Model/Validators.v [uefi_files], Proofs/ValidatorsFiles.v):
    - [fnode]: a *uefi.File node of the parsed image (range, section types);
      [file_matches]: the filter of the final-coverage validator;
      [node_ok sz img n]: the node lies inside the image and has a byte;
      [in_exec_file nodes j]: byte j belongs to a file that has a PE32/PIC/TE section.

    PARTIAL theorems, exactly what is missing and why it cannot be had here:
    all of them carry the one hypothesis [ArtsDist A] and nothing else.  The code
    orders and pairs references with compareReferenceType, which looks at the
    artifact's TYPE NAME only: for two artifacts of one type the statements are
    FALSE of the faithful model -- [C10_actor_iff_refuted] (missed issue, two
    RawBytes), [C10_final_exact_refuted] (missed coverage issue, two RawBytes),
    [C10_validators_return_refuted] (panic, two BIOSImage instances) -- and the
    first is reproduced on the real code by the probe and by generated flows
    (finding C10-D6-foreign-artifact).  Removing the hypothesis needs the repair
    of compareReferenceType (C11-D6), not a better proof. *)
From Coq Require Import Permutation.
From CSS Require Import Lib.Base Model.Ranges Model.Refs Model.Validators Model.ValidatorsHeap
  Proofs.Ranges Proofs.Refs Proofs.Validators Proofs.ValidatorsHeap
  Proofs.ValidatorsRefine Proofs.ValidatorsFiles Proofs.ValidatorsHist.

(** ** The model's SortAndMerge / Exclude are instances of C11's relations *)

Theorem C10_model_uses_C11_algebra : forall s exc out,
  (sm s = Ok out -> sortmerge_rel s out) /\ (exclude s exc = Ok out -> exclude_rel s exc out).
Proof. exact (fun s exc out => conj (sm_rel s out) (exclude_is_rel s exc out)). Qed.
Print Assumptions C10_model_uses_C11_algebra.

(** ** Actors are protected *)

(** An issue is reported for step i exactly when step i hands control to a new
    actor whose code is known and at least one byte of that code was not measured
    by strictly earlier steps — for all logs of the universe: overlapping,
    adjacent, duplicated, partially covering ranges, zero-length ranges and code
    references without ranges, offsets and physical addresses mixed, same-step
    measurements, re-entered actors.
    PARTIAL: needs [ArtsDist] (two artifacts of one type, e.g. two RawBytes, are
    confused by compareReferenceType: [C10_actor_iff_refuted]). *)
Theorem C10_actor_iff_partial : forall sz A l out,
  ArtsDist A -> WFlog sz A l -> vap l = Ok out ->
  forall i, (exists v, In v out /\ vi_step v = Z.of_nat i) <->
    (exists st a code, takes_over l i st a /\ s_code st = Some code /\ exists x j, unprot sz l i code x j).
Proof. exact actor_iff. Qed.
Print Assumptions C10_actor_iff_partial.

(** Every reported issue is of the "not protected" kind, belongs to a step where a
    new actor with known code takes over, and its NonMeasured references denote
    (as image offsets, no mapper left) exactly the unprotected bytes.  PARTIAL: as above. *)
Theorem C10_actor_reports_exact_ranges_partial : forall sz A l out,
  ArtsDist A -> WFlog sz A l -> vap l = Ok out ->
  forall v, In v out -> exists i st a code,
    vi_step v = Z.of_nat i /\ vi_kind v = 4 /\ takes_over l i st a /\ s_code st = Some code /\
    (forall x m j, den (vi_refs v) x m j <-> m = MNil /\ unprot sz l i code x j) /\
    (exists x j, unprot sz l i code x j).
Proof. exact actor_sound. Qed.
Print Assumptions C10_actor_reports_exact_ranges_partial.

(** Without [ArtsDist] the equivalence fails (finding C10-D6-foreign-artifact):
    bytes 0..16 of RawBytes artifact 2 are measured, an actor living in bytes 0..16
    of RawBytes artifact 1 takes over, no issue. *)
Theorem C10_actor_iff_refuted : exists sz A l out i,
  WFlog sz A l /\ vap l = Ok out /\
  (exists st a code, takes_over l i st a /\ s_code st = Some code /\ exists x j, unprot sz l i code x j) /\
  ~ (exists v, In v out /\ vi_step v = Z.of_nat i).
Proof. exact actor_iff_refuted. Qed.
Print Assumptions C10_actor_iff_refuted.

(** An actor without a single code byte (the zero-length range 5:5; a reference
    without ranges) is inside the universe of the two theorems above and is not
    reported, whether or not anything of its artifact was measured before (the
    inputs of the former finding C10-empty-code-range). *)
Example C10_ex_actor_empty_code :
  ArtsDist [ximg] /\ WFlog xsz64 [ximg] empty_code_log /\ WFlog xsz64 [ximg] empty_code_log2 /\
  vap empty_code_log = Ok [] /\ vap empty_code_log2 = Ok [].
Proof.
  exact (conj (proj1 empty_code_hyps) (conj (proj1 (proj2 empty_code_hyps)) (conj (proj2 (proj2 empty_code_hyps)) empty_code_vap))).
Qed.

(** ** Final coverage *)

(** [files] = the references UEFIFiles(PE32|PIC|TE) returned (physical
    addresses).  Both sides are resolved before the subtraction, so the verdict is
    about BYTES of the artifacts, whatever address space a measurement was given
    in: the validator reports nothing iff every file byte was measured by some step
    of the run, and otherwise exactly one issue at the last step whose NonMeasured
    (image offsets, no mapper left) denotes exactly files \ measured and whose
    Measured denotes exactly the measured bytes.
    PARTIAL: needs [ArtsDist] (finding C10-D6-foreign-artifact, as for the actors
    validator).  [Forall pointed files]: UEFIFiles never returns a reference
    without bytes (every file has its header); the validator tests the number of
    remaining references. *)
Theorem C10_final_exact_partial : forall sz A files l out,
  ArtsDist A -> std_refs sz files -> arts_in A files -> Forall pointed files -> WFlog sz A l ->
  l <> [] -> vfc (Ok files) l = Ok out ->
  exists nm measured,
    (forall a m j, den measured a m j <-> m = MNil /\ covers sz (meas_upto l) a j) /\
    (forall a m j, den nm a m j <-> m = MNil /\ covers sz files a j /\ ~ covers sz (meas_upto l) a j) /\
    (nm = [] <-> forall a j, covers sz files a j -> covers sz (meas_upto l) a j) /\
    out = match nm with
          | [] => []
          | _ => [mkVI (zlen l - 1) 6 nm measured]
          end.
Proof. exact final_exact. Qed.
Print Assumptions C10_final_exact_partial.

(** The inputs of the former finding C10-final-mixed-address-space are inside the
    universe of the theorem: the file is given by physical addresses, the whole
    image is measured through an offset reference (or half by offsets and half by
    physical addresses): no issue; only bytes 0..16 measured: bytes 16..24 of the
    file are reported. *)
Example C10_ex_final_mixed :
  ArtsDist [ximg] /\ std_refs xsz64 mixed_files /\ arts_in [ximg] mixed_files /\ Forall pointed mixed_files /\
  WFlog xsz64 [ximg] mixed_log /\ WFlog xsz64 [ximg] mixed_log2 /\ WFlog xsz64 [ximg] mixed_log3 /\
  vfc (Ok mixed_files) mixed_log = Ok [] /\ vfc (Ok mixed_files) mixed_log2 = Ok [] /\
  vfc (Ok mixed_files) mixed_log3 = Ok [mkVI 0 6 [mkRef ximg MNil [mkR 16 8]] [mkRef ximg MNil [mkR 0 16]]].
Proof.
  destruct mixed_hyps as (H1 & H2 & H3 & H4 & H5 & H6 & H7). destruct mixed_vfc as (V1 & V2 & V3).
  repeat (split; [assumption|]). assumption.
Qed.

(** empty log: nothing; UEFIFiles failed: one issue at the last step *)
Theorem C10_final_degenerate : forall files c l out,
  vfc files [] = Ok [] /\
  (l <> [] -> vfc (Err c) l = Ok out -> out = [mkVI (zlen l - 1) 5 [] []]).
Proof. exact (fun files c l out => conj (final_empty_log files) (final_files_error c l out)). Qed.
Print Assumptions C10_final_degenerate.

(** ** No issues: exactly the issues the interpreter recorded, in log order, with multiplicity *)

Theorem C10_noissues_exact : forall l,
  vni l = flat_map (fun p => map (fun x => (Z.of_nat (fst p), x)) (s_issues (snd p)))
                   (combine (seq 0 (length l)) l).
Proof. exact noissues_exact. Qed.
Print Assumptions C10_noissues_exact.

Theorem C10_noissues_in : forall l i x,
  In (i, x) (vni l) <-> exists k st, i = Z.of_nat k /\ nth_error l k = Some st /\ In x (s_issues st).
Proof. exact noissues_in. Qed.
Print Assumptions C10_noissues_in.

(** ** Validating a log does not rewrite it *)

(** The verdicts are a function of the flow only if a validator leaves the log as
    it found it: the next validator of the chain, or a second pass, reads the same
    log.  Slice-level statement: the only writes to the memory behind the log are
    in-place sorts of whole slices, so every slice keeps its ranges up to order --
    for every memory layout: arbitrary spare capacities, slices of one array one
    behind the other.  It composes over any number of passes ([kept] is relative
    to the first memory [h0], and [kept h0 W h0] holds). *)
Theorem C10_validation_keeps_log : forall h0 l h files,
  WFheap h0 (windows l) -> kept h0 (windows l) h ->
  kept h0 (windows l) (fst (hvap h l)) /\ kept h0 (windows l) (fst (hvfc h files l)).
Proof.
  exact (fun h0 l h files WF K =>
    conj (vap_keeps h0 _ WF h l K (incl_refl _)) (vfc_keeps h0 _ WF h files l K (incl_refl _))).
Qed.
Print Assumptions C10_validation_keeps_log.

(** what [kept] gives a reader of the log: every group of references (the measured
    references of a step, an actor's code) denotes the same bytes as before, and
    the hypotheses hold again for the next pass *)
Theorem C10_kept_log_reads_the_same : forall h0 W h,
  kept h0 W h0 /\
  (kept h0 W h ->
   (forall refs a m k, incl (map l_sl refs) W ->
      den (map (val_lref h) refs) a m k <-> den (map (val_lref h0) refs) a m k) /\
   (WFheap h0 W -> WFheap h W)).
Proof.
  exact (fun h0 W h => conj (kept_refl h0 W)
    (fun K => conj (fun refs a m k I => kept_den h0 W h refs a m k K I) (fun WF => kept_wf h0 W h WF K))).
Qed.
Print Assumptions C10_kept_log_reads_the_same.

(** the hypotheses are satisfiable by a log whose validation does write to memory
    (three ranges out of order in a slice with spare capacity: sorted in place,
    nothing else changes) *)
Example C10_ex_keeps_hyps :
  WFheap ok_heap (windows ok_log) /\
  fst (hvap ok_heap ok_log) = [[]; [mkR 16 4; mkR 32 4; mkR 48 4; mkR 0 0]; [mkR 8 4]].
Proof. exact (conj ok_log_hyps ok_log_sorted). Qed.

(** ... and by the log of the former finding C10-shared-backing-append (a one-range
    slice with a spare element, followed by another measurement): the memory is
    left as it was, both validators say what they say on a first pass *)
Example C10_ex_keeps_small_spare :
  WFheap bad_heap (windows bad_log) /\
  hvap bad_heap bad_log = (bad_heap, Ok []) /\ hvfc bad_heap (Err 1) bad_log = (bad_heap, Ok [mkVI 2 5 [] []]).
Proof. exact (conj bad_log_wf bad_log_kept). Qed.

(** ** The hypotheses are satisfiable by a non-trivial log (the D7 pattern) *)

(** step 0 measures three disjoint ranges as three references (offsets and a
    physical address), step 1 measures the new actor's code AND hands control to
    it, step 2 keeps the actor, step 3 enters an actor whose code was measured
    piecewise by steps 0 and 1 *)
Example C10_ex_hyps : ArtsDist [ximg] /\ WFlog xsz64 [ximg] ex_log.
Proof. exact ex_log_hyps. Qed.

(** the same-step measurement does not protect the actor (what the D7 fix restored);
    the re-used and the piecewise protected actors are not reported *)
Example C10_ex_actor :
  vap ex_log = Ok [mkVI 1 4 [mkRef ximg MNil [mkR 32 8]]
                            [mkRef ximg MNil [mkR 0 1; mkR 10 1; mkR 20 1; mkR 32 8]]].
Proof. exact ex_log_vap. Qed.

Example C10_ex_noissues : vni ex_log = [(0, 7); (2, 8); (2, 9)].
Proof. exact ex_log_vni. Qed.

(** final coverage, one address space: bytes 8..24 are a file, 8..16 are measured *)
Example C10_ex_final :
  let files := [mkRef ximg MPhys [mkR (W32 - 64 + 8) 16]] in
  let l := [mkStep None None [mkRef ximg MPhys [mkR (W32 - 64 + 8) 8]] []; mkStep None None [] []] in
  std_refs xsz64 files /\ arts_in [ximg] files /\ Forall pointed files /\ WFlog xsz64 [ximg] l /\
  vfc (Ok files) l = Ok [mkVI 1 6 [mkRef ximg MNil [mkR 16 8]] [mkRef ximg MNil [mkR 8 8]]].
Proof.
  cbv zeta. split; [apply (wf_refsb_spec xsz64 [ximg]); vm_compute; reflexivity|].
  split; [apply (wf_refsb_spec xsz64 [ximg]); vm_compute; reflexivity|].
  split; [constructor; [apply pointedb_spec; vm_compute; reflexivity | constructor]|].
  split; [apply wf_logb_spec; vm_compute; reflexivity|].
  vm_compute. reflexivity.
Qed.

(** ** The validators return (no panic, no impossible sort order) *)

(** PARTIAL: [ArtsDist] (see the header: without it compareReferenceType panics on
    two instances of one non-RawBytes type, [C10_validators_return_refuted]). *)
Theorem C10_validators_return_partial : forall sz A files l,
  ArtsDist A -> WFlog sz A l ->
  match files with Ok f => std_refs sz f /\ arts_in A f | _ => True end ->
  (exists out, vap l = Ok out) /\ (exists out, vfc files l = Ok out).
Proof. exact (fun sz A files l AD W F => conj (vap_total sz A AD l W) (vfc_total sz A AD files l W F)). Qed.
Print Assumptions C10_validators_return_partial.

Theorem C10_validators_return_refuted : exists sz A l,
  WFlog sz A l /\ vap l = Panic /\ vfc (Err 1) l = Panic.
Proof. exact validators_return_refuted. Qed.
Print Assumptions C10_validators_return_refuted.

(** ** The data source of the final-coverage validator is part of the model *)

(** datasources.UEFIFiles(filter).Data on the file nodes of a parsed image: no
    error, references that meet every hypothesis [C10_final_exact_partial] makes
    about [files], covering exactly the bytes of the files the filter selects --
    files with SOME section of type PE32, PIC or TE (constants tied to fiano's
    source by spec/consts.json). *)
Theorem C10_uefi_files_exact : forall sz img nodes,
  zlen (acontent img) = sz (aid img) -> sz (aid img) <= W32 -> Forall (node_ok sz img) nodes ->
  exists files, uefi_files img nodes = Ok files /\
    std_refs sz files /\ arts_in [img] files /\ Forall pointed files /\
    forall a j, covers sz files a j <-> a = aid img /\ in_exec_file nodes j.
Proof. exact (fun sz img nodes Hs Hl F => uefi_files_spec sz img Hs Hl nodes F). Qed.
Print Assumptions C10_uefi_files_exact.

Theorem C10_filter_any_section : forall n,
  file_matches n = true <-> exists t, In t (fn_secs n) /\ (t = SEC_PE32 \/ t = SEC_PIC \/ t = SEC_TE).
Proof. exact file_matches_iff. Qed.
Print Assumptions C10_filter_any_section.

(** the hypotheses are met by a node list with adjacent executable files (merged
    into one range), a file whose executable section is not the first one, a file
    with RAW/DEPEX sections only and a file without sections *)
Example C10_ex_uefi_files : Forall (node_ok xsz64 ximg) ex_nodes /\
  uefi_files ximg ex_nodes = Ok [mkRef ximg MPhys [mkR (W32 - 64 + 32) 16]].
Proof. exact ex_nodes_ok. Qed.

(** The final-coverage clause with the files computed from the image: nothing is
    reported iff every byte of every file with a PE32/PIC/TE section was measured
    by some step, otherwise one issue at the last step whose NonMeasured denotes
    exactly the unmeasured bytes of those files.  The hypotheses about [files] of
    [C10_final_exact_partial] are gone.  PARTIAL: [ArtsDist] only. *)
Theorem C10_final_exact_files_partial : forall sz A img nodes l out,
  ArtsDist A -> In img A -> zlen (acontent img) = sz (aid img) -> sz (aid img) <= W32 ->
  Forall (node_ok sz img) nodes -> WFlog sz A l -> l <> [] ->
  vfc (uefi_files img nodes) l = Ok out ->
  exists nm measured,
    (forall a m j, den measured a m j <-> m = MNil /\ covers sz (meas_upto l) a j) /\
    (forall a m j, den nm a m j <-> m = MNil /\ (a = aid img /\ in_exec_file nodes j) /\ ~ covers sz (meas_upto l) a j) /\
    (nm = [] <-> forall j, in_exec_file nodes j -> covers sz (meas_upto l) (aid img) j) /\
    out = match nm with
          | [] => []
          | _ => [mkVI (zlen l - 1) 6 nm measured]
          end.
Proof. exact final_exact_files. Qed.
Print Assumptions C10_final_exact_files_partial.

(** without [ArtsDist] the final-coverage statement fails (two RawBytes artifacts:
    a file of the first one, the same offsets of the second one measured: nothing
    reported) *)
Theorem C10_final_exact_refuted : exists sz A files l out,
  std_refs sz files /\ arts_in A files /\ Forall pointed files /\ WFlog sz A l /\ l <> [] /\
  vfc (Ok files) l = Ok out /\ out = [] /\
  exists a j, covers sz files a j /\ ~ covers sz (meas_upto l) a j.
Proof. exact final_exact_refuted. Qed.
Print Assumptions C10_final_exact_refuted.

(** MeasuredDataSlice.References(): all references of all entries, in order *)
Theorem C10_measured_references_flatten : forall (T : Type) (ds d2 : list (list T)) (x : T),
  (In x (mds_refs ds) <-> exists d, In d ds /\ In x d) /\ mds_refs (ds ++ d2) = mds_refs ds ++ mds_refs d2.
Proof. exact (fun T ds d2 x => conj (mds_refs_in ds x) (mds_refs_app ds d2)). Qed.
Print Assumptions C10_measured_references_flatten.

(** ** Histories: every run of any sequence of runs over one log in one memory *)

(** The verdict does not depend on the order in which the ranges of a reference
    lie in memory (which is all a run can change, [C10_validation_keeps_log]). *)
Theorem C10_verdict_blind_to_range_order : forall sz A files l l',
  Forall2 sreq l l' -> WFlog sz A l ->
  vap l = vap l' /\ vfc files l = vfc files l' /\ vni l = vni l'.
Proof.
  exact (fun sz A files l l' F W =>
    conj (vap_req sz A l l' F W) (conj (vfc_req sz A files l l' F W) (vni_go_req l l' F 0))).
Qed.
Print Assumptions C10_verdict_blind_to_range_order.

(** One run: the slice-level model (the one compared with the code together with
    the memory behind the log) returns the issues of the value-level model (the one
    the verdict theorems are about) on the log as it reads when the run starts. *)
Theorem C10_slice_model_refines_value_model : forall sz A h l files,
  WFheap h (windows l) -> log_sized l -> WFlog sz A (val_log h l) ->
  snd (hvap h l) = vap (val_log h l) /\ snd (hvfc h files l) = vfc files (val_log h l).
Proof. exact heap_refines. Qed.
Print Assumptions C10_slice_model_refines_value_model.

(** Induction over the sequence of runs (init: the log as projected; step: one run
    of any of the four kinds; invariant: the memory is the first one up to in-place
    sorts of slices of the log): EVERY run returns what the value-level model says
    about the log as it read BEFORE THE FIRST RUN -- the chain of validator.All(),
    pcr0tool's merge of all measurements before it, any number of repetitions in
    any order.  No hypothesis on spare capacities or on slices sharing arrays
    beyond [WFheap]. *)
Theorem C10_every_run_is_the_first : forall sz A h0 l ps,
  WFheap h0 (windows l) -> log_sized l -> WFlog sz A (val_log h0 l) ->
  snd (run_passes h0 l ps) = map (vpass (val_log h0 l)) ps /\
  kept h0 (windows l) (fst (run_passes h0 l ps)).
Proof. exact passes_first. Qed.
Print Assumptions C10_every_run_is_the_first.

(** hence the actors clause at full strength for every run of the actors
    validator, whatever ran before it on the same log.  PARTIAL: [ArtsDist] only. *)
Theorem C10_actor_iff_every_run_partial : forall sz A h0 l ps k out,
  ArtsDist A -> WFheap h0 (windows l) -> log_sized l -> WFlog sz A (val_log h0 l) ->
  kth_run h0 l ps k PVap (RIss (Ok out)) ->
  forall i, (exists v, In v out /\ vi_step v = Z.of_nat i) <->
    (exists st a code, takes_over (val_log h0 l) i st a /\ s_code st = Some code /\
       exists x j, unprot sz (val_log h0 l) i code x j).
Proof. exact actor_iff_every_run. Qed.
Print Assumptions C10_actor_iff_every_run_partial.

(** ... and the final-coverage clause, with the files of the parsed image.
    PARTIAL: [ArtsDist] only. *)
Theorem C10_final_exact_every_run_partial : forall sz A img nodes h0 l ps k out,
  ArtsDist A -> In img A -> zlen (acontent img) = sz (aid img) -> sz (aid img) <= W32 ->
  Forall (node_ok sz img) nodes ->
  WFheap h0 (windows l) -> log_sized l -> WFlog sz A (val_log h0 l) -> l <> [] ->
  kth_run h0 l ps k (PVfc (uefi_files img nodes)) (RIss (Ok out)) ->
  exists nm measured,
    (forall a m j, den measured a m j <-> m = MNil /\ covers sz (meas_upto (val_log h0 l)) a j) /\
    (forall a m j, den nm a m j <-> m = MNil /\ (a = aid img /\ in_exec_file nodes j) /\ ~ covers sz (meas_upto (val_log h0 l)) a j) /\
    (nm = [] <-> forall j, in_exec_file nodes j -> covers sz (meas_upto (val_log h0 l)) (aid img) j) /\
    out = match nm with
          | [] => []
          | _ => [mkVI (zlen l - 1) 6 nm measured]
          end.
Proof. exact final_exact_every_run. Qed.
Print Assumptions C10_final_exact_every_run_partial.

(** validator.All().Validate, at any place of the sequence: the issues of the three
    validators (each as the theorems above say), appended in the order of All() *)
Theorem C10_chain_every_run : forall sz A h0 l ps k files c,
  WFheap h0 (windows l) -> log_sized l -> WFlog sz A (val_log h0 l) ->
  kth_run h0 l ps k (PAll files) (RChain (Ok c)) ->
  exists a b, vap (val_log h0 l) = Ok a /\ vfc files (val_log h0 l) = Ok b /\
    c = chain a b (vni (val_log h0 l)).
Proof. exact chain_every_run. Qed.
Print Assumptions C10_chain_every_run.

(** every run returns (an error of UEFIFiles included).  PARTIAL: [ArtsDist] only. *)
Theorem C10_every_run_returns_partial : forall sz A h0 l ps k p r,
  ArtsDist A -> WFheap h0 (windows l) -> log_sized l -> WFlog sz A (val_log h0 l) ->
  kth_run h0 l ps k p r ->
  match p, r with
  | PVap, RIss o => exists out, o = Ok out
  | PSm, RRefs o => exists out, o = Ok out
  | PVfc (Err _), RIss o => exists out, o = Ok out
  | PAll (Err _), RChain o => exists out, o = Ok out
  | PVfc _, RIss _ => True
  | PAll _, RChain _ => True
  | _, _ => False
  end.
Proof. exact every_run_returns. Qed.
Print Assumptions C10_every_run_returns_partial.

(** the hypotheses of the history theorems are met by a log whose memory IS
    written by the runs: the three ranges of step 0 lie out of order in a slice
    with spare capacity; pcr0tool's merge sorts them in place, and the five runs
    return what the first reading says *)
Example C10_ex_history :
  WFheap ok_heap (windows ok_log) /\ log_sized ok_log /\ ArtsDist [wimg] /\ WFlog xsz64 [wimg] (val_log ok_heap ok_log) /\
  fst (run_passes ok_heap ok_log ok_passes) = [[]; [mkR 16 4; mkR 32 4; mkR 48 4; mkR 0 0]; [mkR 8 4]] /\
  snd (run_passes ok_heap ok_log ok_passes) =
    [RRefs (Ok [mkRef wimg MNil [mkR 8 4; mkR 16 4; mkR 32 4; mkR 48 4]]);
     RIss (Ok []); RIss (Ok [mkVI 1 5 [] []]); RChain (Ok [inl (mkVI 1 5 [] [])]); RIss (Ok [])].
Proof.
  destruct ok_log_hist_hyps as (H1 & H2 & H3 & H4). destruct ok_log_runs as (R1 & R2).
  repeat (split; [assumption|]). assumption.
Qed.

(** the final-coverage clause with the files of the image on a concrete history:
    the files of [ex_nodes] (executable bytes 32..48), the log of [ok_log] (measured:
    8..12, 16..20, 32..36, 48..52): bytes 36..48 are reported by the first run and,
    identically, after pcr0tool's merge has sorted the memory of the log *)
Example C10_ex_history_files :
  snd (run_passes ok_heap ok_log [PVfc (uefi_files wimg ex_nodes); PSm; PVfc (uefi_files wimg ex_nodes)]) =
    [RIss (Ok [mkVI 1 6 [mkRef wimg MNil [mkR 36 12]] [mkRef wimg MNil [mkR 8 4; mkR 16 4; mkR 32 4; mkR 48 4]]]);
     RRefs (Ok [mkRef wimg MNil [mkR 8 4; mkR 16 4; mkR 32 4; mkR 48 4]]);
     RIss (Ok [mkVI 1 6 [mkRef wimg MNil [mkR 36 12]] [mkRef wimg MNil [mkR 8 4; mkR 16 4; mkR 32 4; mkR 48 4]]])].
Proof. exact ok_log_files_runs. Qed.

(** the premise of [C10_verdict_blind_to_range_order] is met by two DIFFERENT
    readings of one log: before and after an in-place sort *)
Example C10_ex_blind :
  Forall2 sreq (val_log ok_heap ok_log) (val_log (fst (run_passes ok_heap ok_log [PSm])) ok_log) /\
  val_log ok_heap ok_log <> val_log (fst (run_passes ok_heap ok_log [PSm])) ok_log.
Proof. exact ok_log_sreq. Qed.
