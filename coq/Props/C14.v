(** C14 — data sources and firmware walker denote the bytes they name; address maps cohere.
    This file holds only the property theorems, each closed by [exact].

    Vocabulary (model in Model/AddrMap.v, definitions of the statements in Proofs/AddrMap.v):
    - [BASE] = 2^32; [MAXU64] = "offset unknown"; [u64 z] : 0 <= z < 2^64;
    - [pmm_resolve size] / [pmm_unresolve size] : PhysMemMapper.Resolve(FullImageOffset) /
      Unresolve(FullImageOffset) on an artifact of [size] bytes; [pmm_*_bios blen] the BIOS-region
      variants; [uefi_phys_to_offset len] / [uefi_offset_to_phys len] : UEFI.PhysAddrToOffset /
      OffsetToPhysAddr; [calc_*] : pkg/uefi/consts; [is_phys_addr] : isPhysAddr;
      [calc_image_offset layout imglen addr] : tools.CalcImageOffset on an image of [imglen] bytes;
      every Go uint64 operation is mod 2^64;
    - [tree], [walk rm fb t] : ffs.NodeVisitor.Run over an abstract node tree, [rm] the rows of
      fiano's table visitor per name (NameToRangesMap), [fb] = FallbackToContainerRange;
      [pre t false] : the nodes in visit order (with "below a processed section");
      [vis t false []] : the nodes the callback is called for, each with its ancestors;
      [rows_ok rm all] : per name, the rows list the nodes in visit order with their true offsets
      (no claim below processed sections); [offs_ok] : no true offset is 2^64-1;
      [denotes fb (n, ancestors) r] : r is "unknown", the node's own (offset, length), or -- only
      with the fallback -- the (offset, length) of one of its ancestors;
    - [volume_of_one size nodes r] : VolumeOf for one resolved range given what the walker reports;
    - [visp t false false] : the nodes the callback is called for, each with "below a processed
      section"; [located p] : the node has a name and is not below a processed section;
      [visit ...] returns the reported ranges and the final per-name visit counters ([cm_get]);
    - [pcr0_digest_ref first ds alg] : the range of the ibbDigest reference MeasurePCR0DATA builds
      for hash algorithm [alg], [first] = address of the first entry of the BPM's IBB digest list,
      [ds] = (algorithm, buffer length) per entry; [pcr0_digest_refs] : for SHA1 and SHA256, in the
      order they are measured; [dentry] = (algorithm, hash bytes), [ser_list es] the bytes of the
      entries on flash (HashAlg(2) Size(2) HashBuffer), [shape_of es] their shape,
      [slice off len l] = len bytes of l from off;
    - [heap] : the arrays a caller of the mappers owns, each with ALL its elements (spare capacity
      behind a slice included); [MCall which size bios a lo n] : entry point [which] (0 Resolve,
      1 ResolveFullImageOffset, 2 Unresolve, 3 UnresolveFullImageOffset, 4/5 the BIOS-region
      variants) called with the slice [a[lo:lo+n]] spread as its variadic argument
      ([heap_slice h a lo n]); its answer becomes a new array at the end of the heap;
      [msession h ops] : what every call returned and the heap after the session;
      [pmm_apply] : the entry point as a function of the list;
    - [vstate] : the rangeMap / countMap fields of ONE NodeVisitor object; [run_v st rows fb t] : a
      Run of that object on tree [t] ([rows] = NameToRangesMap of the node given to this Run);
      [vsession st runs] : what consecutive Runs of one object hand to the callback;
    - (Model/Delivered.v, on top of property C11's model of Reference.RawBytes in Model/Refs.v)
      [delivered content rs] : Reference.RawBytes() of the reference every data source answers
      with -- {Artifact: the BIOS image holding [content], AddressMapper: PhysMemMapper{},
      Ranges: rs (physical addresses)} -- i.e. what Data.RawBytes() hands to the hash;
      [delivered_data content refs] : Data.RawBytes() for several such references;
      [mem_ranges_bytes] / [guid_first_bytes content reported] / [uefi_files_bytes content
      reported] : MemRanges / UEFIGUIDFirst{g} / UEFIFiles(pred) followed by Data.RawBytes(),
      [reported] = the ranges (image offsets) the walker handed over for the selected objects;
      [pick cov k l] : the elements of [l] (positions k, k+1, ...) at the positions [cov]
      selects, each once, ascending; [covers rs k] : k lies in one of the ranges;
      [bytes_at_addrs content rs] : the image bytes whose address 4 GiB - size + offset is
      covered by [rs]; [bytes_at_offsets content rs] : the image bytes whose offset is;
    - (Model/VolumeOf.v) [volume_of size nodes refs] : VolumeOf(inner).Data on an image of [size]
      bytes, [refs] = the references of the inner data source's Data, each (mapped, ranges):
      physical addresses behind PhysMemMapper (mapped = true) or image offsets without a mapper;
      the result = the ranges of the returned reference ([] = the empty Data);
      [resolved_all size refs] : every range of every reference, resolved, in the order given;
      [volume_of_offsets nodes rs] : one look-up ([volume_pick], section 7) per resolved range
      AS GIVEN, then SortAndMerge -- the volumes as image offsets;
      [located_volume nodes v] : the walker reports v as a volume with a known offset;
      [in_range v a] : offset a lies in v; [volumes_ok nodes] : the located volumes are ranges
      (offset + length < 2^64); [no_straddle nodes r] : every located volume that touches r
      contains it; [volume_of_merge_first] : NOT the code -- the given ranges sorted and merged
      before they are looked up. *)
From CSS Require Import Lib.Base Model.AddrMap Proofs.AddrMap Proofs.AddrMapExt.
From CSS Require Import Model.Delivered.
From CSS Require Proofs.Delivered.
From CSS Require Import Model.VolumeOf Proofs.VolumeOf.
From Coq Require Import Permutation.

(** * 1. Address maps are mutually inverse — for every 64-bit value and every size *)

Theorem C14_maps_inverse :
  forall size x, u64 x ->
    pmm_resolve size (pmm_unresolve size x) = x /\
    pmm_unresolve size (pmm_resolve size x) = x /\
    pmm_resolve_bios size (pmm_unresolve_bios size x) = x /\
    pmm_unresolve_bios size (pmm_resolve_bios size x) = x /\
    uefi_phys_to_offset size (uefi_offset_to_phys size x) = x /\
    uefi_offset_to_phys size (uefi_phys_to_offset size x) = x /\
    calc_offset_from_phys (uefi_offset_to_phys size x) size = x /\
    uefi_offset_to_phys size (calc_offset_from_phys x size) = x /\
    calc_tail_from_phys (calc_phys_from_tail x) = x /\
    calc_phys_from_tail (calc_tail_from_phys x) = x.
Proof. exact maps_inverse. Qed.
Print Assumptions C14_maps_inverse.

(** * 2. ... and agree with address = 4 GiB - size + offset, for every size up to 4 GiB
      (the BIOS-region variants when the region is the whole image) *)

Theorem C14_maps_agree :
  forall size off addr,
    0 <= size <= BASE -> 0 <= off < size -> addr = BASE - size + off ->
    pmm_resolve size addr = off /\
    pmm_unresolve size off = addr /\
    pmm_resolve_bios size addr = off /\
    pmm_unresolve_bios size off = addr /\
    uefi_phys_to_offset size addr = off /\
    uefi_offset_to_phys size off = addr /\
    calc_offset_from_phys addr size = off /\
    calc_tail_from_phys addr = size - off /\
    calc_phys_from_tail (size - off) = addr /\
    is_phys_addr addr size = true.
Proof. exact maps_agree. Qed.
Print Assumptions C14_maps_agree.

Example C14_maps_agree_example :
  pmm_resolve 65536 4294967280 = 65520 /\ uefi_offset_to_phys 6160384 0 = 4288806912.
Proof. split; reflexivity. Qed.

(** * 3. isPhysAddr is membership in the window the image is mapped to *)

Theorem C14_isPhysAddr_iff :
  forall size addr, 0 <= size <= BASE -> u64 addr ->
    (is_phys_addr addr size = true <-> exists off, 0 <= off < size /\ addr = BASE - size + off).
Proof. exact is_phys_addr_iff. Qed.
Print Assumptions C14_isPhysAddr_iff.

(** images larger than 4 GiB have no window: the test is constantly false *)
Theorem C14_isPhysAddr_oversize :
  forall size addr, BASE < size < W64 -> u64 addr -> is_phys_addr addr size = false.
Proof. exact is_phys_addr_big. Qed.
Print Assumptions C14_isPhysAddr_oversize.

(** * 4. Range lists: length preserved, each range mapped on its own, never an error;
      a resolved range is inside the image exactly when the physical one is inside the window *)

Theorem C14_resolve_ranges :
  forall size rs,
    exists out, pmm_resolve_ranges size rs = Ok out /\ length out = length rs /\
      forall i r, nth_error rs i = Some r -> nth_error out i = Some (pmm_resolve size (fst r), snd r).
Proof. exact resolve_ranges_spec. Qed.
Print Assumptions C14_resolve_ranges.

Theorem C14_unresolve_ranges :
  forall size rs,
    exists out, pmm_unresolve_ranges size rs = Ok out /\ length out = length rs /\
      forall i r, nth_error rs i = Some r -> nth_error out i = Some (pmm_unresolve size (fst r), snd r).
Proof. exact unresolve_ranges_spec. Qed.
Print Assumptions C14_unresolve_ranges.

Theorem C14_ranges_roundtrip :
  forall size rs, Forall (fun r => u64 (fst r)) rs ->
    bind (pmm_unresolve_ranges size rs) (pmm_resolve_ranges size) = Ok rs /\
    bind (pmm_resolve_ranges size rs) (pmm_unresolve_ranges size) = Ok rs.
Proof. exact resolve_unresolve_ranges. Qed.
Print Assumptions C14_ranges_roundtrip.

Theorem C14_resolve_in_image_iff :
  forall size a l, 0 < size <= BASE -> u64 a -> 0 <= l -> a + l < W64 ->
    (pmm_resolve size a + l <= size <-> BASE - size <= a /\ a + l <= BASE).
Proof. exact resolve_in_image_iff. Qed.
Print Assumptions C14_resolve_in_image_iff.

Theorem C14_unresolve_in_window :
  forall size o l, 0 < size <= BASE -> 0 <= o -> 0 <= l -> o + l <= size ->
    BASE - size <= pmm_unresolve size o /\ pmm_unresolve size o + l <= BASE.
Proof. exact unresolve_in_window. Qed.
Print Assumptions C14_unresolve_in_window.

(** the BIOS-region variants fail exactly when there is no (single) BIOS region *)
Theorem C14_bios_region_ranges :
  forall bios rs,
    (bios = None -> exists c d, pmm_resolve_bios_ranges bios rs = Err c /\ pmm_unresolve_bios_ranges bios rs = Err d) /\
    (forall b, bios = Some b ->
       pmm_resolve_bios_ranges bios rs = Ok (map_ranges (pmm_resolve_bios b) rs) /\
       pmm_unresolve_bios_ranges bios rs = Ok (map_ranges (pmm_unresolve_bios b) rs)).
Proof. exact bios_ranges_spec. Qed.
Print Assumptions C14_bios_region_ranges.

(** * 5. CalcImageOffset: exact for full flash images and coreboot images whose BIOS region /
      COREBOOT area ends the image, and for bare BIOS regions (the former finding D9, repaired
      by fix 98fb605) *)

Theorem C14_calcoffset_full_flash :
  forall off size imgsize o,
    0 <= off -> 0 <= size -> off + size = imgsize -> imgsize < W32 -> 0 <= o < imgsize ->
    calc_image_offset (LFullFlash off size) imgsize (BASE - imgsize + o) = Ok o.
Proof. exact calcoffset_full_flash. Qed.
Print Assumptions C14_calcoffset_full_flash.

Theorem C14_calcoffset_coreboot :
  forall off size imgsize o,
    0 <= off -> 0 <= size -> off + size = imgsize -> imgsize < W32 -> 0 <= o < imgsize ->
    calc_image_offset (LCoreboot off size) imgsize (BASE - imgsize + o) = Ok o.
Proof. exact calcoffset_coreboot. Qed.
Print Assumptions C14_calcoffset_coreboot.

(** in general the END of the region is what is anchored at 4 GiB *)
Theorem C14_calcoffset_region_anchor :
  forall off size addr,
    0 <= off -> 0 <= size -> off + size < W32 -> BASE - (off + size) <= addr < W64 ->
    calc_region_offset off size addr = addr - (BASE - (off + size)).
Proof. exact calc_region_offset_exact. Qed.
Print Assumptions C14_calcoffset_region_anchor.

(** bare BIOS region: address = 4GiB - size + offset, for every image size up to 4 GiB and every
    offset inside the image *)
Theorem C14_calcoffset_bios_only :
  forall imgsize o, 0 < imgsize <= BASE -> 0 <= o < imgsize ->
    calc_image_offset LBiosOnly imgsize (BASE - imgsize + o) = Ok o.
Proof. exact calcoffset_bios_only. Qed.
Print Assumptions C14_calcoffset_bios_only.

(** ... it is the region formula of the other two layouts with the whole image as the region *)
Theorem C14_calcoffset_bios_only_anchor :
  forall imgsize addr, 0 <= imgsize < W32 -> BASE - imgsize <= addr < W64 ->
    calc_image_offset LBiosOnly imgsize addr = Ok (calc_region_offset 0 imgsize addr) /\
    calc_region_offset 0 imgsize addr = addr - (BASE - imgsize).
Proof. exact calcoffset_bios_only_anchor. Qed.
Print Assumptions C14_calcoffset_bios_only_anchor.

(** the recorded failing inputs of the former defect: the bundled 64 KiB image at 0xfffffff0
    (was 0x10) and the first byte of the 0x5e0000-byte image (was 0x5e0000, one past the end) *)
Theorem C14_calcoffset_bios_only_witness :
  calc_image_offset LBiosOnly 65536 4294967280 = Ok 65520 /\
  calc_image_offset LBiosOnly 6160384 4288806912 = Ok 0.
Proof. exact calcoffset_bios_only_witness. Qed.
Print Assumptions C14_calcoffset_bios_only_witness.

(** * 6. Walker bookkeeping.
      _partial: needs the hypothesis [rows_ok] -- the rows that NameToRangesMap harvests from
      fiano's table visitor list the nodes in visit order WITH THEIR TRUE OFFSETS. That is an
      assumption about third-party code and it is false below non-processed sections (D23, see
      [C14_walker_unconditional_refuted]). Under it: the walk succeeds (no index panic), every
      reported range is "unknown", the node's own range or -- with the fallback -- an ancestor's
      range; without fallback never an ancestor's; and if the callback always continues every
      node is reported, in visit order. *)

Theorem C14_walker_partial :
  forall rm fb t,
    rows_ok rm (pre t false) -> offs_ok (pre t false) ->
    exists rs, walk rm fb t = Ok rs /\
      Forall2 (denotes fb) (vis t false []) rs /\
      (fb = false ->
         Forall2 (fun p r => r = unknown_range (fst p) \/ r = true_range (fst p)) (vis t false []) rs) /\
      (no_stop t = true -> map fst (vis t false []) = map fst (pre t false)).
Proof. exact walker_partial. Qed.
Print Assumptions C14_walker_partial.

Example C14_walker_partial_example :
  (rows_ok ex_rows (pre ex_tree false) /\ offs_ok (pre ex_tree false) /\ no_stop ex_tree = true) /\
  walk ex_rows true ex_tree
  = Ok [(0, 4096); (72, 100); (176, 200); (176, 200); (176, 200); (0, 4096)] /\
  walk ex_rows false ex_tree
  = Ok [(0, 4096); (72, 100); (176, 200); (MAXU64, 150); (MAXU64, 90); (MAXU64, 8)].
Proof. exact (conj ex_rows_ok ex_walk). Qed.

(** D23: with rows as fiano produces them below a non-processed section (offsets restart at the
    section) the walker reports, for the volume inside, a range that is neither unknown nor its own. *)
Theorem C14_walker_unconditional_refuted :
  exists rm t rs i p r,
    no_stop t = true /\ offs_ok (pre t false) /\
    walk rm false t = Ok rs /\
    nth_error (vis t false []) i = Some p /\ nth_error rs i = Some r /\
    r <> unknown_range (fst p) /\ r <> true_range (fst p).
Proof. exact walker_unconditional_refuted. Qed.
Print Assumptions C14_walker_unconditional_refuted.

(** Under the same hypothesis: every node that HAS a name and is not below a processed section
    is reported with exactly its own range -- "unknown" is not an option for it, and neither
    is the row of a namesake, whether that namesake was visited outside or below a processed
    (compressed) section. *)
Theorem C14_walker_located_partial :
  forall rm fb t,
    rows_ok rm (pre t false) -> offs_ok (pre t false) ->
    exists rs, walk rm fb t = Ok rs /\
      Forall2 (fun p r => located p -> r = true_range (fst p)) (visp t false false) rs /\
      map fst (visp t false false) = map fst (vis t false []).
Proof. exact walker_located. Qed.
Print Assumptions C14_walker_located_partial.

(** ... because the per-name visit counter advances for EVERY named node, also for those
    whose row is not used (below processed sections): at the end it equals the number of
    nodes (= rows) of that name. *)
Theorem C14_walker_counts_partial :
  forall rm fb t,
    rows_ok rm (pre t false) -> offs_ok (pre t false) ->
    exists rs cm, visit rm fb t false false None [] = Ok (rs, cm) /\
      forall n, n <> 0 -> cm_get cm n = length (filter (has_name n) (pre t false)).
Proof. exact walker_counts. Qed.
Print Assumptions C14_walker_counts_partial.

(** satisfiable with a name (2) that occurs below a processed section and again after it:
    the later nodes get the 4th and 5th row of that name, i.e. their own offsets *)
Example C14_walker_repeated_name_example :
  (rows_ok rep_rows (pre rep_tree false) /\ offs_ok (pre rep_tree false) /\ no_stop rep_tree = true) /\
  walk rep_rows false rep_tree
  = Ok [(0, 4096); (96, 300); (MAXU64, 276); (MAXU64, 200); (MAXU64, 40); (MAXU64, 40);
        (400, 64); (464, 512); (560, 40)].
Proof. exact (conj rep_rows_ok rep_walk). Qed.

(** * 7. VolumeOf (one range): an answer is never "no volumes, no error"; it is the first
      located volume that touches the range; _partial: it CONTAINS the range if the range does not
      straddle the boundary of any located volume (hypothesis) *)

Theorem C14_volumeof_answer :
  forall size nodes r l,
    volume_of_one size nodes r = Ok l ->
    exists v, l = [(pmm_unresolve size (fst v), snd v)] /\
              In (true, v) nodes /\ intersect v r = true /\ fst v <> MAXU64.
Proof. exact volume_of_one_spec. Qed.
Print Assumptions C14_volumeof_answer.

Theorem C14_volumeof_contains_partial :
  forall size nodes r l,
    (forall w, In (true, w) nodes -> fst w <> MAXU64 -> intersect w r = true -> contains w r) ->
    volume_of_one size nodes r = Ok l ->
    exists v, l = [(pmm_unresolve size (fst v), snd v)] /\ In (true, v) nodes /\ contains v r.
Proof. exact volume_of_one_contains. Qed.
Print Assumptions C14_volumeof_contains_partial.

Example C14_volumeof_example :
  volume_of_one 65536 [(false, (0, 65536)); (true, (MAXU64, 4096)); (true, (12288, 8192)); (true, (20480, 4096))] (16384, 16)
  = Ok [(4294914048, 8192)].
Proof. reflexivity. Qed.

Theorem C14_volumeof_error_only_without_volume :
  forall size nodes r c,
    volume_of_one size nodes r = Err c ->
    forall w, In (true, w) nodes -> intersect w r = true -> fst w = MAXU64.
Proof. exact volume_of_one_err. Qed.
Print Assumptions C14_volumeof_error_only_without_volume.

(** * 8. PCR0_DATA: the reference to the IBB digest of a hash algorithm addresses exactly the
      hash buffer of the FIRST entry of the BPM's digest list with that algorithm -- for every
      list (any order, any other algorithms in between, duplicates, other buffer lengths),
      and independently of which algorithms were looked up before. [first] is the address of
      the first entry; the entries' bytes [ser_list es] lie from there on. *)

Theorem C14_pcr0_digest_exact :
  forall first es alg addr len,
    0 <= first -> first + Z.of_nat (length (ser_list es)) < W64 ->
    pcr0_digest_ref first (shape_of es) alg = Some (addr, len) ->
    exists before e after,
      es = before ++ e :: after /\ fst e = alg /\ Forall (fun x => fst x <> alg) before /\
      addr = first + Z.of_nat (length (ser_list before)) + 4 /\
      len = Z.of_nat (length (snd e)) /\
      slice (addr - first) len (ser_list es) = snd e.
Proof. exact pcr0_digest_exact. Qed.
Print Assumptions C14_pcr0_digest_exact.

(** no reference exactly when the list has no entry of the algorithm *)
Theorem C14_pcr0_digest_none_iff :
  forall first es alg,
    pcr0_digest_ref first (shape_of es) alg = None <-> Forall (fun x => fst x <> alg) es.
Proof. exact pcr0_digest_none. Qed.
Print Assumptions C14_pcr0_digest_none_iff.

(** the search starts at the first entry for every algorithm *)
Theorem C14_pcr0_digest_refs_pointwise :
  forall first ds,
    pcr0_digest_refs first ds = [pcr0_digest_ref first ds ALG_SHA1; pcr0_digest_ref first ds ALG_SHA256].
Proof. exact pcr0_digest_refs_pointwise. Qed.
Print Assumptions C14_pcr0_digest_refs_pointwise.

Example C14_pcr0_digest_example :
  pcr0_digest_refs 4294924000 (shape_of ex_digests) = [Some (4294924022, 5); Some (4294924004, 8)] /\
  slice (4294924022 - 4294924000) 5 (ser_list ex_digests) = [20;21;22;23;24] /\
  slice (4294924004 - 4294924000) 8 (ser_list ex_digests) = [1;2;3;4;5;6;7;8].
Proof. exact ex_digest_refs. Qed.

(** * 9. Walkers and mappers keep nothing between calls and leave their arguments alone

      One NodeVisitor object used for any number of Runs (other images, the same image with
      another Node.AddOffset, sub-trees, another fallback setting), starting from ANY leftover
      state [st] of its private maps: every Run hands the callback exactly what a fresh visitor
      would. *)

Theorem C14_walker_session_stateless :
  forall st runs, vsession st runs = map walk_of runs.
Proof. exact walker_session_stateless. Qed.
Print Assumptions C14_walker_session_stateless.

(** ... hence the guarantees of section 6 hold for EVERY Run of a reused visitor (same
    hypothesis about the rows, per Run): denotes / named nodes located / all nodes visited. *)
Theorem C14_walker_session_partial :
  forall st runs, Forall run_rows_ok runs -> Forall2 run_denotes runs (vsession st runs).
Proof. exact walker_session_partial. Qed.
Print Assumptions C14_walker_session_partial.

(** not vacuous: a visitor that harvests the rows only on its first Run satisfies the
    hypotheses on both images (a BIOS region, then the same region behind a 4 KiB descriptor),
    is right on the first and reports the volume of the second where it was in the first *)
Theorem C14_walker_stale_rows_witness :
  run_rows_ok (stale_t1, stale_rows1, false) /\ run_rows_ok (stale_t2, stale_rows2, false) /\
  let (o1, st1) := run_v_keep v_fresh stale_rows1 false stale_t1 in
  let (o2, _) := run_v_keep st1 stale_rows2 false stale_t2 in
  o1 = walk stale_rows1 false stale_t1 /\
  o2 = Ok [(0, 12288); (0, 4096)] /\
  walk stale_rows2 false stale_t2 = Ok [(0, 12288); (4096, 4096)].
Proof. exact walker_stale_rows_witness. Qed.
Print Assumptions C14_walker_stale_rows_witness.

(** A mapper call changes no array of its caller -- not the list it was given, not the
    elements around the slice, not the spare capacity -- and answers with one new array. *)
Theorem C14_mapper_call_preserves_arguments :
  forall h which size bios a lo n,
    let (res, h') := mop_step h (MCall which size bios a lo n) in
    res = Some (pmm_apply which size bios (heap_slice h a lo n)) /\
    firstn (length h) h' = h /\ length h' = S (length h) /\
    nth (length h) h' [] = answer_array (pmm_apply which size bios (heap_slice h a lo n)).
Proof. exact mapper_call_preserves. Qed.
Print Assumptions C14_mapper_call_preserves_arguments.

Theorem C14_mapper_session_frame :
  forall h ops, forallb is_call ops = true -> firstn (length h) (snd (msession h ops)) = h.
Proof. exact mapper_session_frame. Qed.
Print Assumptions C14_mapper_session_frame.

(** Every answer is the function of that call's own arguments as the caller wrote them,
    whatever was converted before -- so converting the same list twice gives the same answer. *)
Theorem C14_mapper_session_independent :
  forall h ops, forallb is_call ops = true ->
    forall k which size bios a lo n,
      nth_error ops k = Some (MCall which size bios a lo n) -> (a < length h)%nat ->
      nth_error (fst (msession h ops)) k = Some (Some (pmm_apply which size bios (heap_slice h a lo n))).
Proof. exact mapper_session_independent. Qed.
Print Assumptions C14_mapper_session_independent.

Theorem C14_mapper_session_twice :
  forall h ops i j which size bios a lo n,
    forallb is_call ops = true ->
    nth_error ops i = Some (MCall which size bios a lo n) ->
    nth_error ops j = Some (MCall which size bios a lo n) -> (a < length h)%nat ->
    nth_error (fst (msession h ops)) i = nth_error (fst (msession h ops)) j /\
    nth_error (fst (msession h ops)) i = Some (Some (pmm_apply which size bios (heap_slice h a lo n))).
Proof. exact mapper_session_twice. Qed.
Print Assumptions C14_mapper_session_twice.

(** offsets -> addresses -> offsets (and the other way round) through the caller's memory: the
    second call is given the ANSWER of the first and returns the original list, which is
    itself still in place *)
Theorem C14_mapper_session_roundtrip :
  forall h size a lo n,
    (a < length h)%nat -> Forall (fun r => u64 (fst r)) (heap_slice h a lo n) ->
    let l := heap_slice h a lo n in
    fst (msession h [MCall 3 size None a lo n; MCall 1 size None (length h) 0 (length l)])
      = [Some (Ok (map_ranges (pmm_unresolve size) l)); Some (Ok l)] /\
    fst (msession h [MCall 0 size None a lo n; MCall 2 size None (length h) 0 (length l)])
      = [Some (Ok (map_ranges (pmm_resolve size) l)); Some (Ok l)] /\
    firstn (length h) (snd (msession h [MCall 3 size None a lo n; MCall 1 size None (length h) 0 (length l)])) = h.
Proof. exact mapper_session_roundtrip. Qed.
Print Assumptions C14_mapper_session_roundtrip.

(** an answer is memory of its own: a later write of the caller into its list does not reach
    an answer it was given before, nor the other way round *)
Theorem C14_mapper_answer_private :
  forall h a i r b, a <> b -> nth b (heap_write h a i r) [] = nth b h [].
Proof. exact mapper_answer_private. Qed.
Print Assumptions C14_mapper_answer_private.

Example C14_mapper_session_example :
  msession [[(4294901760, 16); (4294905856, 32); (7, 7)]]
           [MCall 1 65536 None 0 0 2; MCall 1 65536 None 0 0 2; MCall 3 65536 None 1 0 2; MWrite 0 0 (1, 1)]
  = ([Some (Ok [(0, 16); (4096, 32)]); Some (Ok [(0, 16); (4096, 32)]);
      Some (Ok [(4294901760, 16); (4294905856, 32)]); None],
     [[(1, 1); (4294905856, 32); (7, 7)]; [(0, 16); (4096, 32)]; [(0, 16); (4096, 32)];
      [(4294901760, 16); (4294905856, 32)]]).
Proof. exact mapper_session_example. Qed.

(** * 10. The BYTES a data-source result delivers are exactly the bytes of the image positions
      its ranges name -- each named position once, in ascending order, nothing else -- for
      EVERY list of ranges inside the image's address window: in any order, overlapping,
      one inside the other, given twice, empty.  (What is hashed and extended is
      Data.RawBytes(); a reference whose ranges are right but whose bytes carry, say, a zero
      tail as long as the overlap changes every digest silently.) *)

Theorem C14_delivered_bytes_exact :
  forall content,
    zlen content <= BASE ->
    forall rs,
    Forall (fun r => BASE - zlen content <= fst r /\ 0 <= snd r /\ fst r + snd r <= BASE) rs ->
    delivered content rs = Ok (bytes_at_addrs content rs).
Proof. exact Proofs.Delivered.delivered_exact. Qed.
Print Assumptions C14_delivered_bytes_exact.

(** non-vacuity and a reading aid: ranges [a+2,+3) [a+3,+4) [a,+1) over an 8-byte image
    (a = 4 GiB - 8): positions 0, 2..6; the lengths add up to 8, six bytes are delivered *)
Example C14_delivered_bytes_example :
  delivered [10; 11; 12; 13; 14; 15; 16; 17] [(4294967290, 3); (4294967291, 4); (4294967288, 1)]
    = Ok [10; 12; 13; 14; 15; 16]
  /\ bytes_at_addrs [10; 11; 12; 13; 14; 15; 16; 17] [(4294967290, 3); (4294967291, 4); (4294967288, 1)]
    = [10; 12; 13; 14; 15; 16].
Proof. split; vm_compute; reflexivity. Qed.

(** the delivered bytes depend on the SET of named addresses only ... *)
Theorem C14_delivered_bytes_named_set_only :
  forall content,
    zlen content <= BASE ->
    forall rs rs',
    Forall (fun r => BASE - zlen content <= fst r /\ 0 <= snd r /\ fst r + snd r <= BASE) rs ->
    Forall (fun r => BASE - zlen content <= fst r /\ 0 <= snd r /\ fst r + snd r <= BASE) rs' ->
    (forall a, covers rs a = covers rs' a) ->
    delivered content rs = delivered content rs'.
Proof. exact Proofs.Delivered.delivered_same_set. Qed.
Print Assumptions C14_delivered_bytes_named_set_only.

(** ... so not on the order of the list ... *)
Theorem C14_delivered_bytes_any_order :
  forall content,
    zlen content <= BASE ->
    forall rs rs',
    Forall (fun r => BASE - zlen content <= fst r /\ 0 <= snd r /\ fst r + snd r <= BASE) rs ->
    Permutation rs rs' ->
    delivered content rs = delivered content rs'.
Proof. exact Proofs.Delivered.delivered_perm. Qed.
Print Assumptions C14_delivered_bytes_any_order.

(** ... and ranges that name nothing new (the same range again, a range inside the others, a
    range overlapping them only where they already are) add nothing: no byte twice, no padding *)
Theorem C14_delivered_bytes_overlap_adds_nothing :
  forall content,
    zlen content <= BASE ->
    forall rs extra,
    Forall (fun r => BASE - zlen content <= fst r /\ 0 <= snd r /\ fst r + snd r <= BASE) rs ->
    Forall (fun r => BASE - zlen content <= fst r /\ 0 <= snd r /\ fst r + snd r <= BASE) extra ->
    (forall a, covers extra a = true -> covers rs a = true) ->
    delivered content (rs ++ extra) = delivered content rs.
Proof. exact Proofs.Delivered.delivered_absorb. Qed.
Print Assumptions C14_delivered_bytes_overlap_adds_nothing.

(** never more bytes than the image holds, whatever the lengths of the ranges add up to *)
Theorem C14_delivered_bytes_length :
  forall content,
    zlen content <= BASE ->
    forall rs bs,
    Forall (fun r => BASE - zlen content <= fst r /\ 0 <= snd r /\ fst r + snd r <= BASE) rs ->
    delivered content rs = Ok bs -> zlen bs <= zlen content.
Proof. exact Proofs.Delivered.delivered_length. Qed.
Print Assumptions C14_delivered_bytes_length.

(** sorting and merging the addresses before the reference is built (UEFIFiles, VolumeOf) or
    not (UEFIGUIDFirst, MemRanges, FITAll, IBB) delivers the same bytes *)
Theorem C14_delivered_bytes_merge_first_immaterial :
  forall content,
    zlen content <= BASE ->
    forall rs,
    Forall (fun r => BASE - zlen content <= fst r /\ 0 <= snd r /\ fst r + snd r <= BASE) rs ->
    delivered content (sort_merge rs) = delivered content rs.
Proof. exact Proofs.Delivered.delivered_sort_merge. Qed.
Print Assumptions C14_delivered_bytes_merge_first_immaterial.

(** a Data with several references (PCR0_DATA): the pieces one after the other, in list order *)
Theorem C14_delivered_data_exact :
  forall content,
    zlen content <= BASE ->
    forall refs,
    Forall (Forall (fun r => BASE - zlen content <= fst r /\ 0 <= snd r /\ fst r + snd r <= BASE)) refs ->
    delivered_data content refs = Ok (concat (map (bytes_at_addrs content) refs)).
Proof. exact Proofs.Delivered.delivered_data_exact. Qed.
Print Assumptions C14_delivered_data_exact.

(** Data sources.  MemRanges: the bytes at the addresses given. *)
Theorem C14_mem_ranges_bytes_exact :
  forall content,
    zlen content <= BASE ->
    forall rs,
    Forall (fun r => BASE - zlen content <= fst r /\ 0 <= snd r /\ fst r + snd r <= BASE) rs ->
    mem_ranges_bytes content rs = Ok (bytes_at_addrs content rs).
Proof. exact Proofs.Delivered.delivered_exact. Qed.
Print Assumptions C14_mem_ranges_bytes_exact.

(** UEFIGUIDFirst{g}: the bytes at the image offsets the walker reported for the objects named
    g -- also when the container fallback reports the same container once per object in it
    (several objects of that name in one compressed section), or a volume and a file inside it *)
Theorem C14_guid_first_bytes_exact :
  forall content,
    zlen content <= BASE ->
    forall reported, reported <> [] ->
    Forall (fun r => 0 <= fst r /\ 0 <= snd r /\ fst r + snd r <= zlen content) reported ->
    guid_first_bytes content reported = Ok (bytes_at_offsets content reported).
Proof. exact Proofs.Delivered.guid_first_exact. Qed.
Print Assumptions C14_guid_first_bytes_exact.

Example C14_guid_first_bytes_example :
  guid_first_bytes [10; 11; 12; 13; 14; 15; 16; 17] [(2, 4); (2, 4); (3, 1)] = Ok [12; 13; 14; 15].
Proof. vm_compute. reflexivity. Qed.

(** UEFIFiles(pred): likewise (no selected file: no bytes) *)
Theorem C14_uefi_files_bytes_exact :
  forall content,
    zlen content <= BASE ->
    forall reported,
    Forall (fun r => 0 <= fst r /\ 0 <= snd r /\ fst r + snd r <= zlen content) reported ->
    uefi_files_bytes content reported = Ok (bytes_at_offsets content reported).
Proof. exact Proofs.Delivered.uefi_files_exact. Qed.
Print Assumptions C14_uefi_files_bytes_exact.

(** The statements have teeth: a Reference.RawBytes that sizes its buffer from the ranges as
    given and merges them afterwards ([delivered_presized]) agrees with [delivered] on a list
    without overlap and delivers a zero tail as long as the overlap otherwise -- which
    C14_delivered_bytes_exact excludes. *)
Theorem C14_delivered_presized_witness :
  let content := [10; 11; 12; 13; 14; 15; 16; 17] in
  Proofs.Delivered.delivered_presized content [(4294967290, 3); (4294967294, 2)]
    = delivered content [(4294967290, 3); (4294967294, 2)]
  /\ delivered content [(4294967290, 3); (4294967291, 4)] = Ok [12; 13; 14; 15; 16]
  /\ Proofs.Delivered.delivered_presized content [(4294967290, 3); (4294967291, 4)]
    = Ok [12; 13; 14; 15; 16; 0; 0].
Proof. repeat split; vm_compute; reflexivity. Qed.

(** * 11. VolumeOf on a LIST of ranges (several ranges per reference, several references, any
      order, any relation to each other and to the borders between the volumes): the answer is
      made of ONE look-up per given range as given.  In particular two given ranges that touch
      each other exactly where two neighbour volumes touch are two look-ups, each inside one
      volume, and both volumes are in the answer -- looked up as the one range they merge into,
      the second volume would be missing without any error (C14_volumeof_merge_first_witness). *)

(** the offsets the answer names are exactly those of the volumes picked for the given ranges,
    each range on its own *)
Theorem C14_volumeof_list_pointwise :
  forall nodes rs l,
    volumes_ok nodes ->
    volume_of_offsets nodes rs = Ok l ->
    forall a, covers l a = true <->
              exists r v, In r rs /\ volume_pick nodes r = Some v /\ in_range v a.
Proof. exact volume_of_offsets_pointwise. Qed.
Print Assumptions C14_volumeof_list_pointwise.

(** "returns the volumes that contain the given ranges": for every given range the volume
    that contains it is in the answer, whole; and every offset the answer names lies in a volume
    that contains one of the given ranges.
    _partial: hypothesis [no_straddle] -- no given range straddles the border of a located
    volume (a range across a border has no enclosing volume; the code answers with the first
    volume it touches, C14_volumeof_answer). *)
Theorem C14_volumeof_list_exact_partial :
  forall nodes rs l,
    volumes_ok nodes ->
    (forall r, In r rs -> no_straddle nodes r) ->
    volume_of_offsets nodes rs = Ok l ->
    (forall r, In r rs ->
       exists v, located_volume nodes v /\ contains v r /\ forall a, in_range v a -> covers l a = true) /\
    (forall a, covers l a = true ->
       exists r v, In r rs /\ located_volume nodes v /\ contains v r /\ in_range v a).
Proof. exact volume_of_offsets_exact. Qed.
Print Assumptions C14_volumeof_list_exact_partial.

(** satisfiable: 64 KiB image, volumes 0+0x1000 and 0x1000+0x4000 are neighbours; the last 100
    bytes of the first and the first 10 of the second: both volumes (one merged range) *)
Example C14_volumeof_list_example :
  volumes_ok ex_nodes /\
  (forall r, In r [(3996, 100); (4096, 10)] -> no_straddle ex_nodes r) /\
  volume_of_offsets ex_nodes [(3996, 100); (4096, 10)] = Ok [(0, 20480)].
Proof. exact ex_hypotheses. Qed.

(** the list fails exactly when one of its ranges, asked alone, has no located volume; there
    is no third outcome *)
Theorem C14_volumeof_list_error_iff :
  forall size nodes rs,
    ((exists c, volume_of_offsets nodes rs = Err c) <->
     Exists (fun r => exists c, volume_of_one size nodes r = Err c) rs) /\
    ((exists l, volume_of_offsets nodes rs = Ok l) \/ volume_of_offsets nodes rs = Err 1).
Proof. intros. split; [apply volume_of_offsets_error_iff | apply volume_of_offsets_total]. Qed.
Print Assumptions C14_volumeof_list_error_iff.

(** the order in which the ranges are given is immaterial *)
Theorem C14_volumeof_list_any_order :
  forall nodes rs rs' l,
    volumes_ok nodes -> Permutation rs rs' ->
    volume_of_offsets nodes rs = Ok l ->
    exists l', volume_of_offsets nodes rs' = Ok l' /\ forall a, covers l' a = covers l a.
Proof. exact volume_of_offsets_perm. Qed.
Print Assumptions C14_volumeof_list_any_order.

(** from the inner source's addresses to offsets and from the volumes' offsets to the addresses
    of the returned reference: address = 4 GiB - size + offset both ways *)
Theorem C14_volumeof_given_as_addresses :
  forall size offs,
    0 <= size <= BASE -> Forall (fun r => 0 <= fst r <= size) offs ->
    vref_resolved size (true, map_ranges (fun o => BASE - size + o) offs) = offs.
Proof. exact resolved_addresses. Qed.
Print Assumptions C14_volumeof_given_as_addresses.

Theorem C14_volumeof_list_addresses :
  forall size nodes refs l,
    0 <= size <= BASE ->
    (forall v, located_volume nodes v -> 0 <= fst v /\ 0 <= snd v /\ fst v + snd v <= size) ->
    volume_of size nodes refs = Ok l ->
    exists m, volume_of_offsets nodes (resolved_all size refs) = Ok m /\
              l = map (fun x => (BASE - size + fst x, snd x)) m /\
              forall a, covers l (BASE - size + a) = covers m a.
Proof. exact volume_of_addresses. Qed.
Print Assumptions C14_volumeof_list_addresses.

(** teeth: the end of volume 0+0x1000 and the start of its neighbour 0x1000+0x4000, as
    addresses of the 64 KiB image: both volumes; looked up after merging the GIVEN ranges the
    neighbour is lost, silently; with one byte of gap between the given ranges the two agree *)
Theorem C14_volumeof_merge_first_witness :
  volume_of 65536 ex_nodes [(true, [(4294905756, 100); (4294905856, 10)])] = Ok [(4294901760, 20480)] /\
  volume_of_merge_first 65536 ex_nodes [(true, [(4294905756, 100); (4294905856, 10)])] = Ok [(4294901760, 4096)] /\
  volume_of 65536 ex_nodes [(true, [(4294905756, 99); (4294905856, 10)])] = Ok [(4294901760, 20480)] /\
  volume_of_merge_first 65536 ex_nodes [(true, [(4294905756, 99); (4294905856, 10)])] = Ok [(4294901760, 20480)].
Proof. exact merge_first_witness. Qed.
Print Assumptions C14_volumeof_merge_first_witness.
