(** C07 — the generic brute-forcer is sound, complete and distance-minimal at
    any concurrency.  Only the property theorems, each closed by [exact].

    Vocabulary (definitions in Model/BruteForce.v and Proofs/BruteForce.v):
    - [bf_run flip P ifail gomax maxconc data isz wmin wmax tr res]: the goroutines
      of run() can jointly offer the per-distance, per-worker traces [tr] to
      checkFunc and return [res]; [bf_outcome] = exists tr.  [res]: [Ok (Some r)]
      = (r, nil), [Ok None] = (nil, nil), [Err _], [Panic].
    - [candidate total wmin wmax s]: [s] is a strictly increasing list of bit
      positions below [total] with wmin <= |s| <= wmax.
    - [satisfies flip P data s]: flipping [s] on [data] gives a value accepted by P.
    - [std ...]: applyBitFlipsFunc fits the data ([flips_ok], discharged for
      bools and bytes below), GOMAXPROCS >= 1, initFunc never fails,
      0 <= wmin <= wmax, the MaxInt64 guard is out of reach ([no_overflow],
      discharged for up to 512 bits and distances up to 4 below).
    - [chain a b l]: the intervals of [l] are non-empty, consecutive, from a to b.
    - values (Proofs/BruteForceValues.v): [bit_of v p] = bit [p mod 8] of byte [p / 8];
      [diff_bytes a b] / [diff_bools a b] = the positions in which [a] and [b] differ, in
      increasing order; [hamming_bytes a b] / [hamming_bools a b] = how many there are;
      [good_value P data wmin wmax t] = [t] is a byte string as long as [data], its
      Hamming distance from [data] lies in the window, and P accepts it ([good_bools]
      likewise).
    - integer types (Model/BruteForceConc.v): [cfactor_go] = the worker count with run()'s
      conversions between int (GOMAXPROCS, the count), uint64 (the amount) and uint (the
      maxConcurrency argument, ANY value of the type) performed in 64-bit two's complement;
      [piece_size_go] = what run() does with the count next (divide by it, size a channel
      with it); [cfactor_signed_cap] = the same with the limit compared as an int.
    - processes (Model/BruteForceProc.v): [table] = the package-level
      binomialCoefficientsLookupTable every worker's seek reads; [table_zero] its value
      before init(), [proc_boot] = the state main starts with (init() has filled it);
      [seek_t t] / [bf_outcome_t t] = setCombinationID / the schedule relation reading
      table [t]; [pcall] = one BruteForce call (item type, GOMAXPROCS, maxConcurrency,
      arguments); [process calls results] = a process boots and makes [calls] in this
      order with [results] (any number of calls, any worker counts; the first call is
      the first use of the package); [call_alone c r] = [bf_outcome] for the call [c]
      on its own, i.e. the relation all theorems above the process section speak about. *)
From CSS Require Import Lib.Base Lib.Cases Model.Comb Proofs.Comb
     Model.BruteForce Model.BruteForceCases Proofs.BruteForce Proofs.BruteForceValues
     Model.BruteForceProc Proofs.BruteForceProc
     Model.BruteForceConc Proofs.BruteForceConc.

(** ** The partition of the combination IDs into worker slices *)

Theorem C07_partition_exact : forall amount cf, 1 <= cf <= amount ->
  let ps := pieces amount cf in
  length ps = Z.to_nat cf /\
  chain 0 amount ps /\
  Forall (fun se => 0 <= fst se /\ fst se < snd se /\ snd se <= amount) ps /\
  ForallOrdPairs (fun x y : Z * Z => snd x <= fst y) ps /\
  (forall id, 0 <= id < amount ->
     exists se, In se ps /\ fst se <= id < snd se /\
                forall se', In se' ps -> fst se' <= id < snd se' -> se' = se).
Proof. exact partition_exact. Qed.
Print Assumptions C07_partition_exact.

Theorem C07_cfactor_range : forall gomax maxconc amount, 1 <= gomax -> 1 <= amount ->
  1 <= cfactor gomax maxconc amount <= amount /\
  cfactor gomax maxconc amount <= gomax /\
  (0 < maxconc -> cfactor gomax maxconc amount <= maxconc).
Proof. exact cfactor_ok. Qed.
Print Assumptions C07_cfactor_range.

(** ** Result clauses, for every outcome of the schedule relation *)

Theorem C07_sound : forall (A : Type) (flip : list Z -> list A -> outcome (list A)) (P : list A -> bool)
    data isz wmin wmax gomax maxconc ifail r,
  std flip data isz wmin wmax gomax ifail ->
  bf_outcome flip P ifail gomax maxconc data isz wmin wmax (Ok (Some r)) ->
  candidate (total_bits data isz) wmin wmax r /\ satisfies flip P data r.
Proof. exact @sound. Qed.
Print Assumptions C07_sound.

Theorem C07_complete : forall (A : Type) (flip : list Z -> list A -> outcome (list A)) (P : list A -> bool)
    data isz wmin wmax gomax maxconc ifail res,
  std flip data isz wmin wmax gomax ifail ->
  (exists s, candidate (total_bits data isz) wmin wmax s /\ satisfies flip P data s) ->
  bf_outcome flip P ifail gomax maxconc data isz wmin wmax res ->
  exists r, res = Ok (Some r) /\ candidate (total_bits data isz) wmin wmax r /\ satisfies flip P data r.
Proof. exact @complete. Qed.
Print Assumptions C07_complete.

Theorem C07_minimal : forall (A : Type) (flip : list Z -> list A -> outcome (list A)) (P : list A -> bool)
    data isz wmin wmax gomax maxconc ifail r,
  std flip data isz wmin wmax gomax ifail ->
  bf_outcome flip P ifail gomax maxconc data isz wmin wmax (Ok (Some r)) ->
  forall s, candidate (total_bits data isz) wmin wmax s -> satisfies flip P data s ->
            (length r <= length s)%nat.
Proof. exact @minimal. Qed.
Print Assumptions C07_minimal.

Theorem C07_none : forall (A : Type) (flip : list Z -> list A -> outcome (list A)) (P : list A -> bool)
    data isz wmin wmax gomax maxconc ifail res,
  std flip data isz wmin wmax gomax ifail ->
  (forall s, candidate (total_bits data isz) wmin wmax s -> ~ satisfies flip P data s) ->
  bf_outcome flip P ifail gomax maxconc data isz wmin wmax res ->
  res = Ok None.
Proof. exact @none. Qed.
Print Assumptions C07_none.

Theorem C07_no_error : forall (A : Type) (flip : list Z -> list A -> outcome (list A)) (P : list A -> bool)
    data isz wmin wmax gomax maxconc ifail res,
  std flip data isz wmin wmax gomax ifail ->
  bf_outcome flip P ifail gomax maxconc data isz wmin wmax res ->
  exists o, res = Ok o.
Proof. exact @no_error. Qed.
Print Assumptions C07_no_error.

(** every combination ID (hence every candidate) of a distance is offered at
    most once over all workers — also when some initFunc calls fail *)
Theorem C07_once : forall (A : Type) (flip : list Z -> list A -> outcome (list A)) (P : list A -> bool)
    data isz wmin wmax gomax maxconc ifail tr res,
  flips_ok flip data (total_bits data isz) -> total_bits data isz < I63 -> 1 <= gomax ->
  0 <= wmin -> no_overflow (total_bits data isz) wmin wmax ->
  bf_run flip P ifail gomax maxconc data isz wmin wmax tr res ->
  Forall (fun round => NoDup (map (rank (total_bits data isz - 1)) (concat round)) /\
                       NoDup (concat round)) tr.
Proof. exact @once. Qed.
Print Assumptions C07_once.

(** found / not found and the distance of the result do not depend on
    GOMAXPROCS or maxConcurrency; which candidate of that distance is returned may *)
Theorem C07_conc_independent : forall (A : Type) (flip : list Z -> list A -> outcome (list A)) (P : list A -> bool)
    data isz wmin wmax ifail gomax1 maxconc1 gomax2 maxconc2 res1 res2,
  std flip data isz wmin wmax gomax1 ifail -> 1 <= gomax2 ->
  bf_outcome flip P ifail gomax1 maxconc1 data isz wmin wmax res1 ->
  bf_outcome flip P ifail gomax2 maxconc2 data isz wmin wmax res2 ->
  (res1 = Ok None /\ res2 = Ok None) \/
  (exists r1 r2, res1 = Ok (Some r1) /\ res2 = Ok (Some r2) /\ length r1 = length r2).
Proof. exact @conc_independent. Qed.
Print Assumptions C07_conc_independent.

(** ** maxConcurrency over the whole range of uint *)

(** run() computes the worker count across int / uint64 / uint: for every GOMAXPROCS an int can
    hold, EVERY value of the uint argument (0, 1, ..., 2^63 - 1, 2^63, ..., 2^64 - 1) and every
    amount that passes the MaxInt64 guard, the conversions change nothing ([cfactor] is what
    all theorems of this file speak about), the division by the count and the channel sized with
    it are defined, and the piece size is the model's *)
Theorem C07_worker_count_all_limits : forall gomax maxconc amount,
  1 <= gomax < TWO63 -> 0 <= maxconc < W64 -> 0 <= amount < TWO63 ->
  cfactor_go gomax maxconc amount = cfactor gomax maxconc amount /\
  piece_size_go amount (cfactor_go gomax maxconc amount) = Ok (amount / cfactor gomax maxconc amount).
Proof. intros g m a Hg Hm Ha. split; [exact (cfactor_go_eq g m a Hg Hm Ha)|exact (piece_size_go_ok g m a Hg Hm Ha)]. Qed.
Print Assumptions C07_worker_count_all_limits.

(** a limit only ever lowers the worker count, and one that does not bind changes nothing *)
Theorem C07_limit_only_lowers : forall gomax maxconc amount, 1 <= gomax ->
  cfactor gomax maxconc amount <= cfactor gomax 0 amount /\
  (maxconc <= 0 \/ cfactor gomax 0 amount <= maxconc ->
   cfactor gomax maxconc amount = cfactor gomax 0 amount).
Proof. exact cfactor_cap_lowers. Qed.
Print Assumptions C07_limit_only_lowers.

(** a limit of at least GOMAXPROCS ("no limit of my own": the largest uint, 2^63, ...) is no limit:
    the call has exactly the runs - per-worker traces and results - of the call with limit 0 *)
Theorem C07_huge_limit_is_no_limit : forall (A : Type) (flip : list Z -> list A -> outcome (list A)) (P : list A -> bool)
    ifail gomax maxconc data isz wmin wmax tr res,
  1 <= gomax -> gomax <= maxconc ->
  (bf_run flip P ifail gomax maxconc data isz wmin wmax tr res <->
   bf_run flip P ifail gomax 0 data isz wmin wmax tr res).
Proof. exact huge_limit_is_no_limit. Qed.
Print Assumptions C07_huge_limit_is_no_limit.

(** the model is sensitive to the placement of the conversions: comparing the limit as an int
    gives a negative count as soon as the top bit of the limit is set (then run() panics
    sizing its channel) and is indistinguishable on every limit below 2^63 *)
Example C07_ex_cap_conversion_matters :
  cfactor_go 4 (W64 - 1) 100 = 1 /\ cfactor_signed_cap 4 (W64 - 1) 100 = -1 /\
  piece_size_go 100 (cfactor_signed_cap 4 (W64 - 1) 100) = Panic /\
  cfactor_go 16 TWO63 635376 = 16 /\ cfactor_signed_cap 16 TWO63 635376 = - TWO63 /\
  piece_size_go 635376 (cfactor_signed_cap 16 TWO63 635376) = Panic /\
  (forall g m a, 1 <= g < TWO63 -> 0 <= m < TWO63 -> 0 <= a < TWO63 ->
                 cfactor_signed_cap g m a = cfactor_go g m a).
Proof. exact signed_cap_differs. Qed.

(** try(): the worker's private copy is the caller's data again after every
    miss, i.e. every candidate is evaluated on [flip s] of the caller's data and
    the model never hands back modified initial data.  (The real slice is
    compared by the harness on every run.) *)
Theorem C07_input_unchanged : forall (A : Type) (flip : list Z -> list A -> outcome (list A)) (P : list A -> bool)
    data total s,
  flips_ok flip data total -> Valid (total - 1) s ->
  exists v, flip s data = Ok v /\
    (try1 flip P s data = Ok (true, v) /\ P v = true \/
     try1 flip P s data = Ok (false, data) /\ P v = false).
Proof. exact @input_unchanged. Qed.
Print Assumptions C07_input_unchanged.

(** ** The standing assumptions hold in the property's domain *)

Theorem C07_flips_ok_bools : forall data isz,
  total_bits data isz <= Z.of_nat (length data) -> flips_ok flip_bools data (total_bits data isz).
Proof. exact flips_ok_bools. Qed.
Print Assumptions C07_flips_ok_bools.

Theorem C07_flips_ok_bytes : forall data isz,
  total_bits data isz <= 8 * Z.of_nat (length data) -> flips_ok flip_bytes data (total_bits data isz).
Proof. exact flips_ok_bytes. Qed.
Print Assumptions C07_flips_ok_bytes.

(** itemSize c: 1 for bools, up to 8 for bytes *)
Theorem C07_item_size_fits : forall (A : Type) (data : list A) isz c, 0 <= isz <= c -> c <= 8 ->
  Z.of_nat (length data) < I63 / 8 -> total_bits data isz <= c * Z.of_nat (length data).
Proof. exact @total_bits_fit. Qed.
Print Assumptions C07_item_size_fits.

Theorem C07_no_overflow_domain : forall total wmin wmax,
  total <= 512 -> wmax <= 4 -> no_overflow total wmin wmax.
Proof. exact no_overflow_domain. Qed.
Print Assumptions C07_no_overflow_domain.

(** ** The property for VALUES: "some value within the requested Hamming-distance window" *)

(** Any byte string of the same length is reached by flipping exactly the bit
    positions in which it differs from the data - however long the string and
    wherever the positions (8*j+b for byte j, bit b); they form a valid
    combination and their number is the Hamming distance by definition. *)
Theorem C07_bytes_reach : forall a b,
  length b = length a -> Forall is_byte a -> Forall is_byte b ->
  Valid (8 * Z.of_nat (length a) - 1) (diff_bytes a b) /\
  flip_bytes (diff_bytes a b) a = Ok b /\
  (forall p, In p (diff_bytes a b) <->
             0 <= p < 8 * Z.of_nat (length a) /\ bit_of a p <> bit_of b p).
Proof.
  intros a b Hl Ha Hb. split; [apply diff_bytes_valid|]. split; [apply flip_bytes_diff; assumption|].
  intro p. unfold diff_bytes. rewrite In_filter_seqZ, nat8.
  destruct (bit_of a p), (bit_of b p); cbn; intuition congruence.
Qed.
Print Assumptions C07_bytes_reach.

Theorem C07_bools_reach : forall a b, length b = length a ->
  Valid (Z.of_nat (length a) - 1) (diff_bools a b) /\ flip_bools (diff_bools a b) a = Ok b.
Proof. intros a b Hl. split; [apply diff_bools_valid|apply flip_bools_diff; assumption]. Qed.
Print Assumptions C07_bools_reach.

(** If some byte string within the Hamming window satisfies the predicate, every
    outcome of the schedule relation is a result inside the window whose
    flipping gives a satisfying value, and no satisfying value of the window is
    closer to the data. *)
Theorem C07_bytes_value_complete : forall (P : list Z -> bool) data wmin wmax gomax maxconc ifail,
  Forall is_byte data -> Z.of_nat (length data) < I63 / 8 -> 1 <= gomax ->
  (forall d i, ifail d i = false) -> 0 <= wmin <= wmax ->
  no_overflow (8 * Z.of_nat (length data)) wmin wmax ->
  forall t res, good_value P data wmin wmax t ->
  bf_outcome flip_bytes P ifail gomax maxconc data 8 wmin wmax res ->
  exists r v, res = Ok (Some r) /\ flip_bytes r data = Ok v /\ P v = true /\
    wmin <= Z.of_nat (length r) <= wmax /\
    forall t', good_value P data wmin wmax t' -> Z.of_nat (length r) <= hamming_bytes data t'.
Proof. exact bytes_value_complete. Qed.
Print Assumptions C07_bytes_value_complete.

Theorem C07_bools_value_complete : forall (P : list bool -> bool) data wmin wmax gomax maxconc ifail,
  Z.of_nat (length data) < I63 -> 1 <= gomax ->
  (forall d i, ifail d i = false) -> 0 <= wmin <= wmax ->
  no_overflow (Z.of_nat (length data)) wmin wmax ->
  forall t res, good_bools P data wmin wmax t ->
  bf_outcome flip_bools P ifail gomax maxconc data 1 wmin wmax res ->
  exists r v, res = Ok (Some r) /\ flip_bools r data = Ok v /\ P v = true /\
    wmin <= Z.of_nat (length r) <= wmax /\
    forall t', good_bools P data wmin wmax t' -> Z.of_nat (length r) <= hamming_bools data t'.
Proof. exact bools_value_complete. Qed.
Print Assumptions C07_bools_value_complete.

(** a value that differs from 64 zero bytes only in the last byte (bit positions
    504 and 511, beyond what fits into 8 bits) is at distance 2 *)
Example C07_ex_far_positions :
  let data := repeat 0 64 in
  let t := repeat 0 63 ++ [129] in
  diff_bytes data t = [504; 511] /\ hamming_bytes data t = 2 /\ flip_bytes [504; 511] data = Ok t.
Proof. exact ex_far_positions. Qed.

(** ** The relation is never empty, and the checker of the correspondence run is sound for it *)

Theorem C07_outcome_exists : forall (A : Type) (flip : list Z -> list A -> outcome (list A)) (P : list A -> bool)
    ifail gomax maxconc data isz wmin wmax,
  exists res, bf_outcome flip P ifail gomax maxconc data isz wmin wmax res.
Proof. exact @outcome_exists. Qed.
Print Assumptions C07_outcome_exists.

Theorem C07_admits_sound : forall (A : Type) (flip : list Z -> list A -> outcome (list A))
    (eqbA : A -> A -> bool) (P : list A -> bool) ifail gomax maxconc data isz wmin wmax robs res ninit,
  admits flip eqbA P ifail gomax maxconc data isz wmin wmax robs res ninit = true ->
  bf_outcome flip P ifail gomax maxconc data isz wmin wmax res.
Proof. exact @admits_sound. Qed.
Print Assumptions C07_admits_sound.

(** ** Processes: the first call, later calls, package state *)

(** when main starts, every cell of the lookup table that binomialCoefficientFast can
    read holds the binomial coefficient (mod 2^64) *)
Theorem C07_boot_table : forall n k, 0 <= n <= CACHE_MAX_N -> 0 <= k <= CACHE_MAX_K ->
  tget proc_boot n k = binom (Z.to_nat n) (Z.to_nat k) mod W64.
Proof. exact boot_table_binom. Qed.
Print Assumptions C07_boot_table.

(** a worker that seeks through such a table gets the start of its slice exactly as
    in Model/Comb.v, whatever the slice *)
Theorem C07_seek_reads_table : forall t, table_ok t -> forall m k id, seek_t t m k id = seek m k id.
Proof. exact seek_t_ok. Qed.
Print Assumptions C07_seek_reads_table.

(** the results of a process are exactly the lists in which every call has an outcome
    of the state-free relation: nothing depends on how many calls came before, on
    their item types, windows or worker counts, or on the call being the first one *)
Theorem C07_process_history_free : forall calls results,
  process calls results <-> Forall2 call_alone calls results.
Proof. exact process_history_free. Qed.
Print Assumptions C07_process_history_free.

(** and no call changes the package state *)
Theorem C07_process_state_kept : forall calls results t',
  proc_run proc_boot calls results t' -> t' = proc_boot /\ table_ok t'.
Proof. exact process_state_kept. Qed.
Print Assumptions C07_process_state_kept.

(** the property's result clauses for the call at ANY place [i] of ANY process
    (i = 0: the first use of the package, with any GOMAXPROCS / maxConcurrency):
    no error; if a satisfying candidate exists in the window the result is sound
    and of minimal distance; otherwise (nil, nil) *)
Theorem C07_process_call_bools : forall calls results i, process calls results ->
  forall gomax maxconc data isz wmin wmax P ifail res,
  nth_error calls i = Some (PBools gomax maxconc data isz wmin wmax P ifail) ->
  nth_error results i = Some res ->
  std flip_bools data isz wmin wmax gomax ifail ->
  (exists o, res = Ok o) /\
  ((exists s, candidate (total_bits data isz) wmin wmax s /\ satisfies flip_bools P data s) ->
   exists r, res = Ok (Some r) /\ candidate (total_bits data isz) wmin wmax r /\
             satisfies flip_bools P data r /\
             forall s, candidate (total_bits data isz) wmin wmax s -> satisfies flip_bools P data s ->
                       (length r <= length s)%nat) /\
  ((forall s, candidate (total_bits data isz) wmin wmax s -> ~ satisfies flip_bools P data s) ->
   res = Ok None).
Proof. exact process_call_bools. Qed.
Print Assumptions C07_process_call_bools.

Theorem C07_process_call_bytes : forall calls results i, process calls results ->
  forall gomax maxconc data isz wmin wmax P ifail res,
  nth_error calls i = Some (PBytes gomax maxconc data isz wmin wmax P ifail) ->
  nth_error results i = Some res ->
  std flip_bytes data isz wmin wmax gomax ifail ->
  (exists o, res = Ok o) /\
  ((exists s, candidate (total_bits data isz) wmin wmax s /\ satisfies flip_bytes P data s) ->
   exists r, res = Ok (Some r) /\ candidate (total_bits data isz) wmin wmax r /\
             satisfies flip_bytes P data r /\
             forall s, candidate (total_bits data isz) wmin wmax s -> satisfies flip_bytes P data s ->
                       (length r <= length s)%nat) /\
  ((forall s, candidate (total_bits data isz) wmin wmax s -> ~ satisfies flip_bytes P data s) ->
   res = Ok None).
Proof. exact process_call_bytes. Qed.
Print Assumptions C07_process_call_bytes.

(** the correspondence check of a fresh process (case CFresh: all BruteForce calls
    of a re-executed harness, the first one searched by several workers): if it
    passes, the observed calls and results are a process of the model *)
Theorem C07_fresh_check_sound : forall calls,
  check (CFresh calls) = true -> process (map pcall_of calls) (map call_res calls).
Proof. exact fresh_check_sound. Qed.
Print Assumptions C07_fresh_check_sound.

(** the state is not idle in the model: 64 bools, distance 3, four workers - the
    second worker's slice starts at ID 10416 = [5; 35; 50].  A worker reading the
    table before it is filled panics in setCombinationID, one reading a table of
    which 32 rows are filled starts somewhere else. *)
Example C07_ex_table_matters :
  seek_t proc_boot 63 3 10416 = Ok [5; 35; 50] /\
  seek_t table_zero 63 3 10416 = Panic /\
  (exists s, seek_t (table_rows_filled 32) 63 3 10416 = s /\ s <> Ok [5; 35; 50]).
Proof. split; [exact (proj1 ex_seek_booted)|]. split; [exact ex_seek_zero_table|exact ex_seek_half_table]. Qed.

(** ** The hypotheses are satisfiable by non-trivial values *)

Definition ex_data : list bool := [true; false; true; true; false].
Definition ex_P : list bool -> bool := eval_pred Bool.eqb (PAny [[true; true; true; false; false]; [false; true; false; false; true]]).
Definition nofail : Z -> Z -> bool := fun _ _ => false.

Example C07_ex_std : std flip_bools ex_data 1 1 4 16 nofail.
Proof.
  unfold std. split; [apply flips_ok_bools; vm_compute; discriminate|].
  split; [vm_compute; reflexivity|]. split; [lia|]. split; [reflexivity|]. split; [lia|].
  apply no_overflow_domain; [vm_compute; discriminate|lia].
Qed.

(** two candidates satisfy the predicate: [1;3] at distance 2 and [0;1;2;3;4]
    at distance 5 (outside the window 1..4) *)
Example C07_ex_candidate :
  candidate (total_bits ex_data 1) 1 4 [1; 3] /\ satisfies flip_bools ex_P ex_data [1; 3].
Proof.
  split.
  - split; [cbn; lia|cbn; lia].
  - eexists. split; [vm_compute; reflexivity|vm_compute; reflexivity].
Qed.

(** a run the checker admits (one worker per distance; distance 1 exhausted,
    the hit is the 6th candidate of distance 2), hence an outcome of the relation *)
Example C07_ex_outcome :
  bf_outcome flip_bools ex_P nofail 16 0 ex_data 1 1 4 (Ok (Some [1; 3])).
Proof.
  apply (admits_sound flip_bools Bool.eqb ex_P nofail 16 0 ex_data 1 1 4
           [[WObs [0] 5 false (EDig 1261199)]; [WObs [0; 1] 6 true (EDig 41408987637)]]
           (Ok (Some [1; 3])) 2).
  vm_compute. reflexivity.
Qed.

(** and it is the minimal one, as the theorems say *)
Example C07_ex_minimal : forall res,
  bf_outcome flip_bools ex_P nofail 16 0 ex_data 1 1 4 res ->
  exists r, res = Ok (Some r) /\ length r = 2%nat.
Proof.
  intros res H.
  destruct (complete flip_bools ex_P ex_data 1 1 4 16 0 nofail res C07_ex_std
              (ex_intro _ [1; 3] C07_ex_candidate) H) as (r & -> & Hc & Hs).
  exists r. split; [reflexivity|].
  pose proof (minimal flip_bools ex_P ex_data 1 1 4 16 0 nofail r C07_ex_std H [1; 3]
                (proj1 C07_ex_candidate) (proj2 C07_ex_candidate)) as Hle. cbn [length] in Hle.
  destruct (conc_independent flip_bools ex_P ex_data 1 1 4 nofail 16 0 16 0 _ _ C07_ex_std ltac:(lia) H C07_ex_outcome)
    as [[E _]|(r1 & r2 & E1 & E2 & El)]; [discriminate|].
  inversion E1; inversion E2; subst. exact El.
Qed.
