(** C16 — register collections survive serialisation unchanged.
    This file holds only the property theorems, each closed by [exact].

    Vocabulary (model in Model/Marshal.v, definitions below in Proofs/Marshal.v):
    - [reg] = (ID, raw value); the 256-bit key's raw value is its 32 bytes read little-endian;
    - [registry] : the 26 register types of pkg/registers ([r_bits] = width of the Go type,
      [r_ser] = bytes written by ValueBytes, [r_parser] = bytes read by ValueFromBytes);
    - [valid r]   : the ID is registered and the raw value fits the Go type
                    ([exists i, lookup (fst r) registry = Some i /\ snd r < 2 ^ r_bits i];
                    [validb] is its boolean form, [C16_validb_iff]);
    - [ids l]     = [map fst l];
    - [value_bytes] / [value_from_bytes] : legacy JSON byte format ([value_from_bytes_legacy]:
      ValueFromBytes before 4a8d65e, witness theorems of section 12 only); [new] = registers.New;
      [own_value r] = what r.Value() hands back to New;
    - [value] = what New is handed: [VNil], [VUint bits n] (any Go integer), [VBytes b] (byte
      slice / byte array), [VReg r] (a register value, i.e. one of the 26 typed integers / the typed
      array), [VOther]; [value_wf v] : bytes are bytes, a register value is [valid];
      [is_key id] : id is TXT.PUBLIC.KEY; [incompatible id v] : v is of another kind than register id;
    - [json_roundtrip] / [yaml_roundtrip] : marshal then unmarshal a collection
      (results [ROk] / [RErr] / [RPanic]);
    - [reg_le a b] : [reg_leb a b = true], the order of Registers.Sort (address, then ID);
    - [yval] = what the YAML decoder hands over for one mapping value: [YInt n] (a plain scalar
      yaml.v3 resolved as an integer), [YStr s] (quoted scalar, or plain scalar that stays a
      string), [YOther]; [yaml_scalar quoted text] is that resolution, [yaml_plain] its plain part;
    - [yaml_entry id v] = valueUnpack + registers.New for one entry ([value_unpack_string]: the
      case-sensitive prefix switch "0x" / "base64:"); [yaml_doc entries] = a whole document
      (repeated key = error, result sorted);
    - [b64_enc] / [b64_dec] : encoding/base64 StdEncoding (padded);
    - [hex_upper c] = the letter a-f in upper case (any other character itself);
      [respelled s s'] : s' is s with any of its letters a-f in upper case; [zeros k] = k zeros;
      [pfx_hex] = "0x", [pfx_b64] = "base64:", [pfx_of u] = "0X" if u else "0x";
    - [denotes r v] : the YAML value v is one of the accepted ways to write register r
      (the integer; "0x" + any spelling of the hexadecimal digits, zero padded at will — the
      key: of the hexadecimal text of its 32 bytes; "base64:" + base64 of ValueBytes);
    - [doc] = [DJson entries] | [DYaml entries]; [parse_doc d] its parse ([None] = a plain
      scalar outside the modelled class); [unmarshal dst d] = (destination afterwards,
      succeeded?) of json/yaml.Unmarshal into a variable holding [dst];
      [unmarshal_seq dst docs] = the same after each of several calls on ONE variable;
      [json_marshal] / [yaml_marshal] = the entries MarshalJSON / MarshalYAML write;
    - [json_doc entries] = the parse of a legacy JSON document (list of (ID, value bytes); a
      missing, null or "" value is the entry of no bytes); [width_ok i] : r_parser i = r_ser i > 0;
      [full_width i] : the Go type is as wide as the serialisation (r_bits i = 8 * r_parser i);
    - (Model/MarshalOps.v) [value_from_bytes_tables] = ValueFromBytes AS WRITTEN: the key's special
      case, then the parser tables [parser64_ids] / [parser32_ids] / [parser8_ids] in this order,
      binary.Read + the bytes-left-over test ([read_uint]), no look at the registry;
      [parser_width id] = the width the first table listing id reads; [table_ids] = the key's ID
      followed by the three tables;
    - [find id l] = Registers.Find; [op] = one call on a Registers variable ([OUnmarshal d],
      [OSort], [OMarshalJSON], [OMarshalYAML], [OFind id], and FlagRegisters.Set without a
      document: [OSetNoPath], [OSetMissing], [OSetBlank]); [step st o] = (variable afterwards,
      what the call showed); [run st ops] the same after each call of a history, [final st ops]
      the variable at its end; [reads_only o] : o is neither Unmarshal nor Sort;
      [quiet o] : o is no Unmarshal that succeeds; [is_sort o];
    - [bytes_ok b] : every element is a byte; [doc_wf d] : the values of a JSON document are
      bytes and no ID is repeated; [op_wf o] : the document of an Unmarshal is well formed;
      [inv st] : every register of st is [valid] and no ID is repeated;
      [reachable init st] : some history of well-formed calls takes the variable from init to st. *)
From Coq Require Import NArith List String Permutation Sorting.Sorted.
From CSS Require Import Model.Marshal Model.MarshalOps Proofs.Marshal Proofs.MarshalOps.
Import ListNotations.
Open Scope N_scope.

(** * Vocabulary *)

Theorem C16_validb_iff : forall r, validb r = true <-> valid r.
Proof. exact validb_iff. Qed.
Print Assumptions C16_validb_iff.

(** the generic lemmas below hold for every registry entry because each of the 26 entries
    passes [entry_ok] (parser width <= serialised width, Go type fits the parser width,
    the key is 32 bytes / 256 bits) *)
Theorem C16_registry_ok : List.length registry = 26%nat /\ forallb entry_ok registry = true.
Proof. exact (conj registry_length registry_ok). Qed.
Print Assumptions C16_registry_ok.

(** * 1. little-endian bytes *)

Theorem C16_le_roundtrip : forall n x, x < 256 ^ N.of_nat n -> le_value (le_bytes n x) = x.
Proof. exact le_roundtrip. Qed.
Print Assumptions C16_le_roundtrip.

Theorem C16_le_bytes_length : forall n x, List.length (le_bytes n x) = n.
Proof. exact le_bytes_length. Qed.
Print Assumptions C16_le_bytes_length.

Theorem C16_le_bytes_range : forall n x, Forall (fun b => b < 256) (le_bytes n x).
Proof. exact le_bytes_range. Qed.
Print Assumptions C16_le_bytes_range.

(** * 2. ValueBytes / ValueFromBytes, every register type *)

Theorem C16_bytes_roundtrip : forall r, valid r ->
  exists b, value_bytes r = ROk b /\ value_from_bytes (fst r) b = ROk r.
Proof. exact bytes_roundtrip. Qed.
Print Assumptions C16_bytes_roundtrip.

Theorem C16_from_bytes_never_panics : forall id b, value_from_bytes id b <> RPanic.
Proof. exact from_bytes_never_panics. Qed.
Print Assumptions C16_from_bytes_never_panics.

Theorem C16_value_bytes_never_panics : forall r, value_bytes r <> RPanic.
Proof. exact value_bytes_never_panics. Qed.
Print Assumptions C16_value_bytes_never_panics.

(** * 3. registers.New *)

Theorem C16_new_own : forall r, valid r -> new (fst r) (own_value r) = ROk r.
Proof. exact new_own. Qed.
Print Assumptions C16_new_own.

Theorem C16_new_unknown : forall id v, lookup id registry = None -> new id v = RErr.
Proof. exact new_unknown. Qed.
Print Assumptions C16_new_unknown.

Theorem C16_new_never_panics : forall id v, new id v <> RPanic.
Proof. exact new_never_panics. Qed.
Print Assumptions C16_new_never_panics.

(** * 4. legacy JSON: order preserved, duplicates allowed *)

Theorem C16_json_roundtrip : forall regs, Forall valid regs -> json_roundtrip regs = ROk regs.
Proof. exact json_roundtrip_ok. Qed.
Print Assumptions C16_json_roundtrip.

(** * 5. hexadecimal *)

Theorem C16_hex_roundtrip : forall bits x, x < 2 ^ bits -> parse_hex bits (to_hex x) = Some x.
Proof. exact hex_roundtrip. Qed.
Print Assumptions C16_hex_roundtrip.

Theorem C16_hex_bytes_roundtrip : forall b,
  Forall (fun x => x < 256) b -> hex_to_bytes (bytes_to_hex b) = Some b.
Proof. exact hex_bytes_roundtrip. Qed.
Print Assumptions C16_hex_bytes_roundtrip.

(** * 6. YAML *)

Theorem C16_sort_perm : forall l, Permutation (sort_regs l) l.
Proof. exact sort_perm. Qed.
Print Assumptions C16_sort_perm.

Theorem C16_sort_sorted : forall l,
  StronglySorted (fun a b => reg_leb a b = true) (sort_regs l).
Proof. exact sort_sorted. Qed.
Print Assumptions C16_sort_sorted.

(** [_partial]: the third hypothesis is missing from the property as written.  A key whose
    32 bytes, read as the big-endian number the YAML document shows, fit 64 bits comes back
    as an error (known finding C16-yaml-small-public-key, next theorem).
    The clause cannot be had: the statement without the hypothesis is false of the code
    ([C16_yaml_small_key_refuted], open finding), and the hypothesis is EXACTLY what is missing,
    neither more nor less: [C16_yaml_roundtrip_iff] (section 17) proves that the round trip
    is the identity iff it holds, [C16_yaml_roundtrip_err_iff] that it is an error iff it fails,
    and [C16_small_key_iff] restates it on the raw value (a multiple of 2^192: the first 24
    bytes of the key are zero). *)
Theorem C16_yaml_roundtrip_partial : forall regs,
  Forall valid regs -> NoDup (ids regs) ->
  (forall r, In r regs -> fst r = key_id -> 2 ^ 64 <= be_value (le_bytes 32 (snd r))) ->
  yaml_roundtrip regs = ROk (sort_regs regs).
Proof. exact yaml_roundtrip_partial. Qed.
Print Assumptions C16_yaml_roundtrip_partial.

Theorem C16_yaml_small_key_refuted :
  exists regs, Forall valid regs /\ NoDup (ids regs) /\ yaml_roundtrip regs = RErr.
Proof. exact yaml_small_key_refuted. Qed.
Print Assumptions C16_yaml_small_key_refuted.

(** without the key hypothesis: the sorted collection or an error, never a panic *)
Theorem C16_yaml_roundtrip_total : forall regs, Forall valid regs -> NoDup (ids regs) ->
  yaml_roundtrip regs = ROk (sort_regs regs) \/ yaml_roundtrip regs = RErr.
Proof. exact yaml_roundtrip_total. Qed.
Print Assumptions C16_yaml_roundtrip_total.

(** * 7. the YAML result does not depend on the order of the collection *)

Theorem C16_sort_order_independent : forall a b,
  Permutation a b -> NoDup (ids a) -> sort_regs a = sort_regs b.
Proof. exact sort_perm_unique. Qed.
Print Assumptions C16_sort_order_independent.

Theorem C16_order_independent : forall a b,
  Permutation a b -> Forall valid a -> NoDup (ids a) -> yaml_roundtrip a = yaml_roundtrip b.
Proof. exact order_independent. Qed.
Print Assumptions C16_order_independent.

(** * 8. base64 (the obsolete "base64:" value form rests on it) *)

Theorem C16_b64_roundtrip : forall b,
  Forall (fun x => x < 256) b -> b64_dec (b64_enc b) = Some b.
Proof. exact b64_roundtrip. Qed.
Print Assumptions C16_b64_roundtrip.

Theorem C16_b64_injective : forall a b,
  Forall (fun x => x < 256) a -> Forall (fun x => x < 256) b -> b64_enc a = b64_enc b -> a = b.
Proof. exact b64_enc_injective. Qed.
Print Assumptions C16_b64_injective.

(** * 9. hexadecimal digits in any case, with leading zeros *)

Theorem C16_hex_any_spelling : forall bits x k s',
  x < 2 ^ bits -> respelled (to_hex x) s' -> parse_hex bits (zeros k ++ s') = Some x.
Proof. exact hex_any_spelling. Qed.
Print Assumptions C16_hex_any_spelling.

Theorem C16_hex_bytes_any_spelling : forall s s', respelled s s' -> hex_to_bytes s' = hex_to_bytes s.
Proof. exact (fun s => proj1 (hex_to_bytes_respelled s)). Qed.
Print Assumptions C16_hex_bytes_any_spelling.

(** * 10. every accepted textual form of a value decodes to the value it denotes *)

Theorem C16_entry_forms : forall r v, valid r -> denotes r v -> yaml_entry (fst r) v = ROk r.
Proof. exact entry_forms. Qed.
Print Assumptions C16_entry_forms.

(** what yaml.v3 makes of a plain hexadecimal scalar, "0x" or "0X", any spelling: the number
    below 2^64, the text itself from there on (both are covered by [denotes] for an integer
    register; for the key the first case is known finding C16-yaml-small-public-key) *)
Theorem C16_plain_hex_scalar : forall u x k s', respelled (to_hex x) s' ->
  yaml_plain (pfx_of u ++ zeros k ++ s') =
  Some (if x <? 2 ^ 64 then YInt x else YStr (pfx_of u ++ zeros k ++ s')).
Proof. exact plain_hex_scalar. Qed.
Print Assumptions C16_plain_hex_scalar.

Theorem C16_plain_hex_bytes_scalar : forall u b s',
  Forall (fun x => x < 256) b -> b <> [] -> respelled (bytes_to_hex b) s' ->
  yaml_plain (pfx_of u ++ s') =
  Some (if be_value b <? 2 ^ 64 then YInt (be_value b) else YStr (pfx_of u ++ s')).
Proof. exact plain_hex_bytes_scalar. Qed.
Print Assumptions C16_plain_hex_bytes_scalar.

(** a document whose entries denote, in any of the forms, the registers of a collection
    parses to that collection (sorted) *)
Theorem C16_yaml_doc_forms : forall regs es,
  Forall valid regs -> NoDup (ids regs) ->
  Forall2 (fun r e => fst e = fst r /\ denotes r (snd e)) regs es ->
  yaml_doc es = ROk (sort_regs regs).
Proof. exact yaml_doc_forms. Qed.
Print Assumptions C16_yaml_doc_forms.

(** * 11. unmarshalling replaces the destination *)

Theorem C16_unmarshal_replaces : forall dst d l,
  parse_doc d = Some (ROk l) -> unmarshal dst d = Some (l, true).
Proof. exact unmarshal_replaces. Qed.
Print Assumptions C16_unmarshal_replaces.

Theorem C16_unmarshal_error_keeps : forall dst d,
  parse_doc d = Some RErr -> unmarshal dst d = Some (dst, false).
Proof. exact unmarshal_error_keeps. Qed.
Print Assumptions C16_unmarshal_error_keeps.

(** after any earlier calls on the same variable, successful or not, a successful call leaves
    exactly the collection of its own document *)
Theorem C16_unmarshal_seq_last : forall docs dst d l,
  (forall d', In d' docs -> parse_doc d' <> None) -> parse_doc d = Some (ROk l) ->
  exists pre, unmarshal_seq dst (docs ++ [d]) = Some (pre ++ [(l, true)]) /\
              List.length pre = List.length docs.
Proof. exact unmarshal_seq_last. Qed.
Print Assumptions C16_unmarshal_seq_last.

(** legacy JSON: Marshal, then Unmarshal into a variable holding anything *)
Theorem C16_unmarshal_json_marshalled : forall dst regs, Forall valid regs ->
  exists e, json_marshal regs = ROk e /\ unmarshal dst (DJson e) = Some (regs, true).
Proof. exact unmarshal_json_marshalled. Qed.
Print Assumptions C16_unmarshal_json_marshalled.

(** YAML: the entries MarshalYAML writes, read back through the scalar resolution of
    yaml.v3, behave exactly as [yaml_roundtrip] of sections 6 and 7 says *)
Theorem C16_yaml_marshal_parse : forall regs, Forall valid regs -> NoDup (ids regs) ->
  exists e, yaml_marshal regs = ROk e /\ parse_doc (DYaml e) = Some (yaml_roundtrip regs).
Proof. exact yaml_marshal_parse. Qed.
Print Assumptions C16_yaml_marshal_parse.

(** [_partial]: the key hypothesis of C16_yaml_roundtrip_partial (same known finding; exact,
    see [C16_yaml_roundtrip_iff]: by [C16_yaml_marshal_parse] the document MarshalYAML writes
    parses to [yaml_roundtrip regs], which is an error iff the hypothesis fails) *)
Theorem C16_unmarshal_yaml_marshalled_partial : forall dst regs,
  Forall valid regs -> NoDup (ids regs) ->
  (forall r, In r regs -> fst r = key_id -> 2 ^ 64 <= be_value (le_bytes 32 (snd r))) ->
  exists e, yaml_marshal regs = ROk e /\ unmarshal dst (DYaml e) = Some (sort_regs regs, true).
Proof. exact unmarshal_yaml_marshalled_partial. Qed.
Print Assumptions C16_unmarshal_yaml_marshalled_partial.

(** * 12. inputs that do not denote a value of the register's width

    A register value travels as a byte string of ONE length, the register's serialised width:
    the bytes ValueBytes writes, which is what the parser table of ValueFromBytes reads
    ([C16_registry_width_ok]: for each of the 26 entries r_parser = r_ser > 0).  Bytes of any
    other length denote no value of the register and are refused; bytes of that length
    denote the little-endian number. *)

Theorem C16_registry_width_ok : forallb width_ok registry = true.
Proof. exact registry_width_ok. Qed.
Print Assumptions C16_registry_width_ok.

(** a value iff the length is the register's width, and then the little-endian number (cut to
    the Go type of the register) *)
Theorem C16_from_bytes_value_iff_width : forall id i b r,
  lookup id registry = Some i -> Forall (fun x => x < 256) b ->
  (value_from_bytes id b = ROk r <->
   List.length b = r_parser i /\ r = (id, le_value b mod 2 ^ r_bits i)).
Proof. exact from_bytes_value_iff_width. Qed.
Print Assumptions C16_from_bytes_value_iff_width.

(** the same over all identifiers *)
Theorem C16_from_bytes_characterised : forall id b r, Forall (fun x => x < 256) b ->
  (value_from_bytes id b = ROk r <->
   exists i, lookup id registry = Some i /\ List.length b = r_parser i /\
             r = (id, le_value b mod 2 ^ r_bits i)).
Proof. exact from_bytes_characterised. Qed.
Print Assumptions C16_from_bytes_characterised.

Theorem C16_from_bytes_key_iff : forall b r, Forall (fun x => x < 256) b ->
  (value_from_bytes key_id b = ROk r <-> List.length b = 32%nat /\ r = (key_id, le_value b)).
Proof. exact from_bytes_key_iff. Qed.
Print Assumptions C16_from_bytes_key_iff.

(** the refusing half, without the byte-range hypothesis: any other length ... *)
Theorem C16_from_bytes_wrong_width_refused : forall id i b, lookup id registry = Some i ->
  List.length b <> r_parser i -> value_from_bytes id b = RErr.
Proof. exact from_bytes_wrong_width_refused. Qed.
Print Assumptions C16_from_bytes_wrong_width_refused.

(** ... too short by any number of bytes, down to none at all (nil, empty) ... *)
Theorem C16_from_bytes_short_refused : forall id i b, lookup id registry = Some i ->
  (List.length b < r_parser i)%nat -> value_from_bytes id b = RErr.
Proof. exact from_bytes_short_refused. Qed.
Print Assumptions C16_from_bytes_short_refused.

Theorem C16_from_bytes_empty_refused : forall id, value_from_bytes id [] = RErr.
Proof. exact from_bytes_empty_refused. Qed.
Print Assumptions C16_from_bytes_empty_refused.

(** ... or too long *)
Theorem C16_from_bytes_long_refused : forall id i b, lookup id registry = Some i ->
  (r_parser i < List.length b)%nat -> value_from_bytes id b = RErr.
Proof. exact from_bytes_long_refused. Qed.
Print Assumptions C16_from_bytes_long_refused.

Theorem C16_from_bytes_unknown : forall id b, lookup id registry = None -> value_from_bytes id b = RErr.
Proof. exact from_bytes_unknown. Qed.
Print Assumptions C16_from_bytes_unknown.

(** the accepting half *)
Theorem C16_from_bytes_own_width : forall id i b, lookup id registry = Some i ->
  List.length b = r_parser i -> Forall (fun x => x < 256) b ->
  value_from_bytes id b = ROk (id, le_value b mod 2 ^ r_bits i).
Proof. exact from_bytes_own_width. Qed.
Print Assumptions C16_from_bytes_own_width.

(** the Go type cuts nothing for the 25 registers that are as wide as their serialisation
    (ACM_STATUS is the exception: 8 bytes carry a 32-bit register) *)
Theorem C16_from_bytes_own_width_full : forall id i b, lookup id registry = Some i ->
  List.length b = r_parser i -> Forall (fun x => x < 256) b ->
  r_bits i = 8 * N.of_nat (r_parser i) ->
  value_from_bytes id b = ROk (id, le_value b).
Proof. exact from_bytes_own_width_full. Qed.
Print Assumptions C16_from_bytes_own_width_full.

Theorem C16_full_width_count : List.length (filter full_width registry) = 25%nat.
Proof. exact full_width_count. Qed.
Print Assumptions C16_full_width_count.

(** ** the code before 4a8d65e ([value_from_bytes_legacy], former finding
    C16-from-bytes-trailing-bytes-accepted): it agreed with the repaired code on every input
    not longer than the width, ignored on longer ones whatever followed the first [r_parser]
    bytes, and the former witness (one byte too many for the one-byte TXT.ESTS) was a value
    then and is an error now *)
Theorem C16_from_bytes_legacy_agrees : forall id i b, lookup id registry = Some i ->
  (List.length b <= r_parser i)%nat -> value_from_bytes_legacy id b = value_from_bytes id b.
Proof. exact from_bytes_legacy_agrees. Qed.
Print Assumptions C16_from_bytes_legacy_agrees.

Theorem C16_from_bytes_legacy_trailing_ignored : forall id i b, lookup id registry = Some i ->
  id <> key_id -> (r_parser i <= List.length b)%nat ->
  value_from_bytes_legacy id b = value_from_bytes id (firstn (r_parser i) b).
Proof. exact from_bytes_legacy_trailing_ignored. Qed.
Print Assumptions C16_from_bytes_legacy_trailing_ignored.

Theorem C16_from_bytes_legacy_witness :
  exists id i b r, lookup id registry = Some i /\ Forall (fun x => x < 256) b /\
    List.length b <> r_parser i /\ value_from_bytes_legacy id b = ROk r /\
    value_from_bytes id b = RErr.
Proof. exact from_bytes_legacy_witness. Qed.
Print Assumptions C16_from_bytes_legacy_witness.

(** * 13. every transport refuses a value of another width, and with it the document *)

Theorem C16_json_doc_bad_entry_refused : forall es,
  Exists (fun e => value_from_bytes (fst e) (snd e) = RErr) es -> json_doc es = RErr.
Proof. exact json_doc_bad_entry_refused. Qed.
Print Assumptions C16_json_doc_bad_entry_refused.

(** a legacy JSON document holding, anywhere, an entry of another length than the register's
    width ("value":"", null and a missing value field are the entry of no bytes) is refused
    and the variable keeps what it held *)
Theorem C16_json_doc_wrong_width_entry_refused : forall dst es id i b, In (id, b) es ->
  lookup id registry = Some i -> List.length b <> r_parser i ->
  json_doc es = RErr /\ unmarshal dst (DJson es) = Some (dst, false).
Proof. exact json_doc_wrong_width_entry_refused. Qed.
Print Assumptions C16_json_doc_wrong_width_entry_refused.

Theorem C16_yaml_doc_bad_entry_refused : forall es,
  Exists (fun e => yaml_entry (fst e) (snd e) = RErr) es -> yaml_doc es = RErr.
Proof. exact yaml_doc_bad_entry_refused. Qed.
Print Assumptions C16_yaml_doc_bad_entry_refused.

(** the obsolete "base64:" value: text that is no base64, or base64 of another number of bytes
    than the register's width *)
Theorem C16_b64_entry_wrong_width_refused : forall id t,
  (b64_dec t = None \/
   exists b i, b64_dec t = Some b /\ lookup id registry = Some i /\ List.length b <> r_parser i) ->
  yaml_entry id (YStr (pfx_b64 ++ t)) = RErr.
Proof. exact b64_entry_wrong_width_refused. Qed.
Print Assumptions C16_b64_entry_wrong_width_refused.

(** "base64:" and "0x" with nothing behind, for every identifier *)
Theorem C16_b64_entry_empty_refused : forall id, yaml_entry id (YStr pfx_b64) = RErr.
Proof. exact b64_entry_empty_refused. Qed.
Print Assumptions C16_b64_entry_empty_refused.

Theorem C16_hex_entry_empty_refused : forall id, yaml_entry id (YStr pfx_hex) = RErr.
Proof. exact hex_entry_empty_refused. Qed.
Print Assumptions C16_hex_entry_empty_refused.

(** the key in hexadecimal: any number of bytes other than 32 *)
Theorem C16_hex_key_wrong_length_refused : forall h b,
  hex_to_bytes h = Some b -> List.length b <> 32%nat ->
  yaml_entry key_id (YStr (pfx_hex ++ h)) = RErr.
Proof. exact hex_key_wrong_length_refused. Qed.
Print Assumptions C16_hex_key_wrong_length_refused.

(** * 14. ValueFromBytes as written: the parser tables

    Sections 2, 12 and 13 speak about [value_from_bytes], which reads the width off the registry
    entry.  The Go function does not consult the registry: it tries the key, then three
    switch tables.  The two are the same function, for every identifier and every byte string;
    the tables list each registered identifier exactly once and nothing else (which table lists
    an identifier is tied to the code by an exhaustive sweep on every run: every register type
    and unknown identifiers x every byte length 0..40 through the real ValueFromBytes). *)

Theorem C16_parser_width_registry : forall id,
  parser_width id = match lookup id registry with Some i => Some (r_parser i) | None => None end.
Proof. exact parser_width_registry. Qed.
Print Assumptions C16_parser_width_registry.

Theorem C16_from_bytes_tables_agree : forall id b,
  value_from_bytes_tables id b = value_from_bytes id b.
Proof. exact from_bytes_tables_agree. Qed.
Print Assumptions C16_from_bytes_tables_agree.

Theorem C16_parser_tables_partition :
  NoDup table_ids /\ Permutation table_ids (map r_id registry).
Proof. exact (conj table_ids_nodup table_ids_registry). Qed.
Print Assumptions C16_parser_tables_partition.

(** some byte string is a value of the identifier iff the identifier is registered *)
Theorem C16_from_bytes_known_iff_registered : forall id,
  (exists b r, value_from_bytes_tables id b = ROk r) <-> lookup id registry <> None.
Proof. exact from_bytes_known_iff_registered. Qed.
Print Assumptions C16_from_bytes_known_iff_registered.

(** * 15. Registers.Find *)

Theorem C16_find_spec : forall id l r, find id l = Some r -> In r l /\ fst r = id.
Proof. exact find_some. Qed.
Print Assumptions C16_find_spec.

Theorem C16_find_none_iff : forall id l, find id l = None <-> ~ In id (ids l).
Proof. exact find_none. Qed.
Print Assumptions C16_find_none_iff.

Theorem C16_find_nodup_in : forall l r, NoDup (ids l) -> In r l -> find (fst r) l = Some r.
Proof. exact find_nodup_in. Qed.
Print Assumptions C16_find_nodup_in.

(** what Find returns does not depend on the order of the collection *)
Theorem C16_find_order_independent : forall a b id,
  Permutation a b -> NoDup (ids a) -> find id a = find id b.
Proof. exact find_perm. Qed.
Print Assumptions C16_find_order_independent.

(** whenever the YAML round trip yields a collection, every lookup in it gives what the same
    lookup gave before *)
Theorem C16_find_after_yaml : forall regs out id, Forall valid regs -> NoDup (ids regs) ->
  yaml_roundtrip regs = ROk out -> find id out = find id regs.
Proof. exact find_after_yaml_partial. Qed.
Print Assumptions C16_find_after_yaml.

(** * 16. Sort is idempotent *)

Theorem C16_sort_idempotent : forall l, sort_regs (sort_regs l) = sort_regs l.
Proof. exact sort_idem. Qed.
Print Assumptions C16_sort_idempotent.

(** * 17. the YAML round trip, exactly *)

Theorem C16_yaml_roundtrip_iff : forall regs, Forall valid regs -> NoDup (ids regs) ->
  (yaml_roundtrip regs = ROk (sort_regs regs) <->
   forall r, In r regs -> fst r = key_id -> 2 ^ 64 <= be_value (le_bytes 32 (snd r))).
Proof. exact yaml_roundtrip_iff. Qed.
Print Assumptions C16_yaml_roundtrip_iff.

Theorem C16_yaml_roundtrip_err_iff : forall regs, Forall valid regs -> NoDup (ids regs) ->
  (yaml_roundtrip regs = RErr <->
   exists r, In r regs /\ fst r = key_id /\ be_value (le_bytes 32 (snd r)) < 2 ^ 64).
Proof. exact yaml_roundtrip_err_iff. Qed.
Print Assumptions C16_yaml_roundtrip_err_iff.

(** the condition on the raw value of the key (its 32 bytes read little-endian): the first 24
    bytes are zero *)
Theorem C16_small_key_iff : forall x,
  be_value (le_bytes 32 x) < 2 ^ 64 <-> x mod 2 ^ 192 = 0.
Proof. exact small_key_iff. Qed.
Print Assumptions C16_small_key_iff.

(** * 18. whatever is decoded is a valid register of the identifier asked for *)

Theorem C16_from_bytes_result_valid : forall id b r,
  bytes_ok b -> value_from_bytes id b = ROk r -> valid r /\ fst r = id.
Proof. exact from_bytes_valid. Qed.
Print Assumptions C16_from_bytes_result_valid.

Theorem C16_yaml_entry_result_valid : forall id v r,
  yaml_entry id v = ROk r -> valid r /\ fst r = id.
Proof. exact yaml_entry_valid. Qed.
Print Assumptions C16_yaml_entry_result_valid.

Theorem C16_parsed_doc_invariant : forall d l,
  doc_wf d -> parse_doc d = Some (ROk l) -> inv l.
Proof. exact parse_doc_inv. Qed.
Print Assumptions C16_parsed_doc_invariant.

(** * 19. one Registers variable under any history of calls *)

(** step: every call keeps the invariant ... *)
Theorem C16_step_invariant : forall st o st' s,
  inv st -> op_wf o -> step st o = Some (st', s) -> inv st'.
Proof. exact step_inv. Qed.
Print Assumptions C16_step_invariant.

(** ... so it holds after every call of every history ... *)
Theorem C16_history_invariant : forall ops st tr,
  inv st -> Forall op_wf ops -> run st ops = Some tr -> Forall (fun x => inv (fst x)) tr.
Proof. exact run_inv. Qed.
Print Assumptions C16_history_invariant.

(** ... and in every reachable state *)
Theorem C16_reachable_invariant : forall init st, inv init -> reachable init st -> inv st.
Proof. exact reachable_inv. Qed.
Print Assumptions C16_reachable_invariant.

(** serialising (and Find, and a Set that reads no document) shows the variable and leaves it
    as it is *)
Theorem C16_reads_only_keeps : forall st o st' s,
  reads_only o = true -> step st o = Some (st', s) -> st' = st.
Proof. exact step_reads_only. Qed.
Print Assumptions C16_reads_only_keeps.

(** every reachable state survives legacy JSON unchanged, order included, whatever the
    destination held *)
Theorem C16_reachable_json_fixpoint : forall init st, inv init -> reachable init st ->
  exists e, step st OMarshalJSON = Some (st, SJson (ROk e)) /\
            forall dst, step dst (OUnmarshal (DJson e)) = Some (st, SCall true).
Proof. exact reachable_json_fixpoint. Qed.
Print Assumptions C16_reachable_json_fixpoint.

(** [_partial]: the key hypothesis of C16_yaml_roundtrip_partial, now on a reachable state (it
    is exact there too: C16_yaml_roundtrip_iff applies to every state satisfying [inv]) *)
Theorem C16_reachable_yaml_fixpoint_partial : forall init st, inv init -> reachable init st ->
  (forall r, In r st -> fst r = key_id -> 2 ^ 64 <= be_value (le_bytes 32 (snd r))) ->
  exists e, step st OMarshalYAML = Some (st, SYaml (ROk e)) /\
            forall dst, step dst (OUnmarshal (DYaml e)) = Some (sort_regs st, SCall true).
Proof. exact reachable_yaml_fixpoint_partial. Qed.
Print Assumptions C16_reachable_yaml_fixpoint_partial.

(** nothing of the history before the last successful Unmarshal is left in the variable: it
    holds the collection of that document, sorted if a Sort came after it *)
Theorem C16_history_last_unmarshal : forall pre d l post st st0,
  final st pre = Some st0 -> parse_doc d = Some (ROk l) -> forallb quiet post = true ->
  final st (pre ++ OUnmarshal d :: post) = Some (if existsb is_sort post then sort_regs l else l).
Proof. exact history_last_unmarshal. Qed.
Print Assumptions C16_history_last_unmarshal.

Theorem C16_run_final : forall ops st tr,
  run st ops = Some tr -> final st ops = Some (last (map fst tr) st).
Proof. exact run_final. Qed.
Print Assumptions C16_run_final.

(** * 20. values that denote nothing, continued *)

(** a hexadecimal string spelling a number that does not fit the register's serialised width
    (counterpart of C16_entry_forms / C16_hex_any_spelling, which accept every number that fits) *)
Theorem C16_hex_entry_too_wide_refused : forall id i h v,
  lookup id registry = Some i -> id <> key_id ->
  of_hex_aux h 0 = Some v -> 2 ^ (8 * N.of_nat (r_ser i)) <= v ->
  yaml_entry id (YStr (pfx_hex ++ h)) = RErr.
Proof. exact hex_entry_too_wide_refused. Qed.
Print Assumptions C16_hex_entry_too_wide_refused.

(** null (an empty value, ~, null) and the booleans, as plain scalars, are neither an integer
    nor a string, and such a value is refused for every identifier *)
Theorem C16_null_bool_scalar : forall s,
  orb (in_words s null_words) (in_words s bool_words) = true -> yaml_scalar false s = Some YOther.
Proof. exact null_bool_scalar. Qed.
Print Assumptions C16_null_bool_scalar.

Theorem C16_other_entry_refused : forall id, yaml_entry id YOther = RErr.
Proof. exact other_entry_refused. Qed.
Print Assumptions C16_other_entry_refused.

(** * 21. registers.New as a public constructor: every identifier, every kind of value

    What New returns is a register OF THE IDENTIFIER ASKED FOR (never the value's own identifier),
    found under that identifier in any collection it heads; a register value of another register
    type (a typed integer / the typed 32-byte array: a value copied from one register into
    another) is accepted iff both are integer registers or both the key, and then keeps its raw
    value whenever it fits - always when the two registers have the same Go width; values of
    another kind are errors. *)

Theorem C16_new_result_valid : forall id v r,
  value_wf v -> new id v = ROk r -> valid r /\ fst r = id.
Proof. exact new_valid. Qed.
Print Assumptions C16_new_result_valid.

Theorem C16_new_result_found : forall id v r l,
  value_wf v -> new id v = ROk r -> find id (r :: l) = Some r.
Proof. exact new_find. Qed.
Print Assumptions C16_new_result_found.

Theorem C16_new_register_characterised : forall id i src,
  lookup id registry = Some i -> valid src ->
  new id (VReg src) =
    if Bool.eqb (is_key id) (is_key (fst src)) then ROk (id, snd src mod 2 ^ r_bits i) else RErr.
Proof. exact new_register_characterised. Qed.
Print Assumptions C16_new_register_characterised.

Theorem C16_new_register_keeps_value : forall id i src,
  lookup id registry = Some i -> valid src -> is_key id = is_key (fst src) ->
  snd src < 2 ^ r_bits i -> new id (VReg src) = ROk (id, snd src).
Proof. exact new_register_keeps. Qed.
Print Assumptions C16_new_register_keeps_value.

(** "a value of the register's own width": the value of any register of the same Go width *)
Theorem C16_new_register_same_width : forall id i src j,
  lookup id registry = Some i -> lookup (fst src) registry = Some j -> r_bits i = r_bits j ->
  snd src < 2 ^ r_bits j -> new id (VReg src) = ROk (id, snd src).
Proof. exact new_register_same_width. Qed.
Print Assumptions C16_new_register_same_width.

Theorem C16_new_uint_keeps_value : forall id i bits n,
  lookup id registry = Some i -> id <> key_id -> n < 2 ^ r_bits i ->
  new id (VUint bits n) = ROk (id, n).
Proof. exact new_uint_keeps. Qed.
Print Assumptions C16_new_uint_keeps_value.

Theorem C16_new_key_bytes : forall b,
  List.length b = 32%nat -> new key_id (VBytes b) = ROk (key_id, le_value b).
Proof. exact new_key_bytes. Qed.
Print Assumptions C16_new_key_bytes.

(** [incompatible id v]: an integer (or an integer register's value) for the 32-byte register,
    the key register's value or any bytes for an integer register, bytes of another length than
    32 for the key, and whatever is neither a number nor bytes *)
Theorem C16_new_incompatible_refused : forall id v, incompatible id v -> new id v = RErr.
Proof. exact new_incompatible. Qed.
Print Assumptions C16_new_incompatible_refused.

(** * Examples: the hypotheses above are satisfiable by non-trivial values *)

Open Scope string_scope.
Example C16_ex_hyps :
  Forall valid ex_regs /\ NoDup (ids ex_regs) /\
  (forall r, In r ex_regs -> fst r = key_id -> 2 ^ 64 <= be_value (le_bytes 32 (snd r))).
Proof. exact ex_hyps. Qed.
Example C16_ex_results :
  ex_regs = [("TXT.PUBLIC.KEY", ex_key); ("ACM_STATUS", 0x4f857010%N); ("TXT.ESTS", 0xff%N)] /\
  json_roundtrip ex_regs = ROk ex_regs /\
  yaml_roundtrip ex_regs =
    ROk [("TXT.ESTS", 0xff%N); ("ACM_STATUS", 0x4f857010%N); ("TXT.PUBLIC.KEY", ex_key)] /\
  value_bytes ("ACM_STATUS", 0x4f857010%N) = ROk [0x10; 0x70; 0x85; 0x4f; 0; 0; 0; 0]%N /\
  yaml_value ("ACM_STATUS", 0x4f857010%N) = ROk "4f857010" /\
  value_bytes ("TXT.ESTS", 0xff%N) = ROk [0xff]%N /\
  yaml_value ("TXT.ESTS", 0xff%N) = ROk "ff".
Proof. exact ex_results. Qed.
(** a duplicated ID: JSON keeps both entries, YAML keeps the last one *)
Example C16_ex_dup :
  json_roundtrip [("TXT.ESTS", 1%N); ("TXT.ESTS", 2%N)]
    = ROk [("TXT.ESTS", 1%N); ("TXT.ESTS", 2%N)] /\
  yaml_roundtrip [("TXT.ESTS", 1%N); ("TXT.ESTS", 2%N)] = ROk [("TXT.ESTS", 2%N)].
Proof. exact ex_dup. Qed.
(** the small-key finding on a second witness: only the last of the 32 bytes is non-zero *)
Example C16_ex_small_key :
  valid (key_id, 2 ^ 255)%N /\ yaml_roundtrip [(key_id, 2 ^ 255)%N] = RErr.
Proof. exact ex_small_key. Qed.
(** value forms: base64 is case sensitive (lower-casing the text denotes another value),
    hexadecimal digits are not; "0X" inside a quoted scalar is refused, not misread *)
Example C16_ex_forms :
  b64_enc [0x10; 0x70; 0x85; 0x4f; 0; 0; 0; 0]%N = "EHCFTwAAAAA=" /\
  yaml_entry "ACM_STATUS" (YStr "base64:EHCFTwAAAAA=") = ROk ("ACM_STATUS", 0x4f857010%N) /\
  yaml_entry "ACM_STATUS" (YStr "base64:ehcftwaaaaa=") = ROk ("ACM_STATUS", 0xb71f177a%N) /\
  respelled "4f857010" "4F857010" /\
  yaml_scalar false "0x4F857010" = Some (YInt 0x4f857010%N) /\
  yaml_entry "ACM_STATUS" (YStr "0x004F857010") = ROk ("ACM_STATUS", 0x4f857010%N) /\
  yaml_entry "ACM_STATUS" (YStr "0X4f857010") = RErr /\
  yaml_entry "TXT.ESTS" (YStr "base64:/w==") = ROk ("TXT.ESTS", 0xff%N).
Proof. exact ex_forms. Qed.
(** one variable, three calls: JSON, a failing YAML document (variable untouched), YAML in two
    value forms (nothing of the earlier contents is left) *)
Example C16_ex_seq :
  unmarshal_seq [("TXT.ESTS", 7%N)]
    [DJson [("TXT.STS", [1; 2; 3; 4; 5; 6; 7; 8]%N)];
     DYaml [("BOGUS", (false, "0x1"))];
     DYaml [("TXT.ESTS", (true, "base64:/w==")); ("ACM_STATUS", (false, "0x12"))]]
  = Some [([("TXT.STS", 0x0807060504030201%N)], true);
          ([("TXT.STS", 0x0807060504030201%N)], false);
          ([("TXT.ESTS", 0xff%N); ("ACM_STATUS", 0x12%N)], true)].
Proof. exact ex_seq. Qed.
(** widths: no bytes, too few, exactly four, one too many (refused; a value before 4a8d65e);
    the key one byte short and one byte long; legacy JSON documents with an entry of no bytes
    and of one byte too many; the empty "base64:" / "0x" values; base64 of two bytes for the
    one-byte register and of the four bytes of the Go type of ACM_STATUS *)
Example C16_ex_widths :
  value_from_bytes "TXT.ERRORCODE" [] = RErr /\
  value_from_bytes "TXT.ERRORCODE" [1; 0; 0]%N = RErr /\
  value_from_bytes "TXT.ERRORCODE" [1; 0; 0; 0xc0]%N = ROk ("TXT.ERRORCODE", 0xc0000001%N) /\
  value_from_bytes "TXT.ERRORCODE" [1; 0; 0; 0xc0; 7]%N = RErr /\
  value_from_bytes_legacy "TXT.ERRORCODE" [1; 0; 0; 0xc0; 7]%N = ROk ("TXT.ERRORCODE", 0xc0000001%N) /\
  value_from_bytes key_id (repeat 1%N 31) = RErr /\ value_from_bytes key_id (repeat 1%N 33) = RErr /\
  json_doc [("ACM_POLICY_STATUS", [0x42; 0; 0; 0; 0; 0; 0; 0]%N); ("TXT.ERRORCODE", [])] = RErr /\
  json_doc [("TXT.ESTS", [1; 255]%N)] = RErr /\
  yaml_entry "TXT.ESTS" (YStr "base64:") = RErr /\ yaml_entry "TXT.ESTS" (YStr "0x") = RErr /\
  yaml_entry "TXT.ESTS" (YStr "base64:Af8=") = RErr /\
  yaml_entry "ACM_STATUS" (YStr "base64:EHCFTw==") = RErr.
Proof. exact ex_widths. Qed.
(** one variable, nine calls (section 19) *)
Example C16_ex_ops :
  run [("TXT.ESTS", 7%N)]
    [OUnmarshal (DJson [("ACM_STATUS", [0x12; 0; 0; 0; 0; 0; 0; 0]%N); ("TXT.STS", [1; 2; 3; 4; 5; 6; 7; 8]%N)]);
     OFind "ACM_STATUS"; OMarshalYAML; OSort; OFind "TXT.ESTS";
     OUnmarshal (DYaml [("BOGUS", (false, "0x1"))]); OSetNoPath; OSetMissing; OMarshalJSON]
  = Some [([("ACM_STATUS", 0x12%N); ("TXT.STS", 0x0807060504030201%N)], SCall true);
          ([("ACM_STATUS", 0x12%N); ("TXT.STS", 0x0807060504030201%N)], SFound (Some ("ACM_STATUS", 0x12%N)));
          ([("ACM_STATUS", 0x12%N); ("TXT.STS", 0x0807060504030201%N)],
             SYaml (ROk [("ACM_STATUS", (false, "0x12")); ("TXT.STS", (false, "0x807060504030201"))]));
          ([("TXT.STS", 0x0807060504030201%N); ("ACM_STATUS", 0x12%N)], SNone);
          ([("TXT.STS", 0x0807060504030201%N); ("ACM_STATUS", 0x12%N)], SFound None);
          ([("TXT.STS", 0x0807060504030201%N); ("ACM_STATUS", 0x12%N)], SCall false);
          ([("TXT.STS", 0x0807060504030201%N); ("ACM_STATUS", 0x12%N)], SCall true);
          ([("TXT.STS", 0x0807060504030201%N); ("ACM_STATUS", 0x12%N)], SCall false);
          ([("TXT.STS", 0x0807060504030201%N); ("ACM_STATUS", 0x12%N)],
             SJson (ROk [("TXT.STS", [1; 2; 3; 4; 5; 6; 7; 8]%N); ("ACM_STATUS", [0x12; 0; 0; 0; 0; 0; 0; 0]%N)]))].
Proof. exact ex_ops. Qed.
(** the hypotheses of section 19 on these values: invariant, well-formed calls, two reachable
    states (before and after the Sort), a successful document and a quiet tail *)
Example C16_ex_ops_hyps :
  inv [("TXT.ESTS", 7%N)] /\
  Forall op_wf [OUnmarshal ex_doc; OSort] /\
  reachable [("TXT.ESTS", 7%N)] [("ACM_STATUS", 0x12%N); ("TXT.STS", 0x0807060504030201%N)] /\
  reachable [("TXT.ESTS", 7%N)] [("TXT.STS", 0x0807060504030201%N); ("ACM_STATUS", 0x12%N)] /\
  parse_doc ex_doc = Some (ROk [("ACM_STATUS", 0x12%N); ("TXT.STS", 0x0807060504030201%N)]) /\
  forallb quiet [OMarshalJSON; OSort; OUnmarshal (DYaml [("BOGUS", (false, "0x1"))]); OFind "TXT.STS"] = true.
Proof. exact ex_ops_hyps. Qed.
(** the tables (section 14) *)
Example C16_ex_tables :
  parser_width "ACM_STATUS" = Some 8%nat /\ parser_width "TXT.ERRORCODE" = Some 4%nat /\
  parser_width "TXT.ESTS" = Some 1%nat /\ parser_width key_id = Some 32%nat /\ parser_width "BOGUS" = None /\
  value_from_bytes_tables "TXT.ERRORCODE" [1; 0; 0; 0xc0]%N = ROk ("TXT.ERRORCODE", 0xc0000001%N) /\
  value_from_bytes_tables "TXT.ERRORCODE" [1; 0; 0]%N = RErr /\
  value_from_bytes_tables "TXT.ERRORCODE" [1; 0; 0; 0xc0; 7]%N = RErr /\
  value_from_bytes_tables "ACM_STATUS" [1; 2; 3; 4; 5; 6; 7; 8]%N = ROk ("ACM_STATUS", 0x04030201%N).
Proof. exact ex_tables. Qed.
(** the key condition on both sides of its boundary (section 17) *)
Example C16_ex_small_key_bytes :
  (be_value (le_bytes 32 (2 ^ 255)) < 2 ^ 64 /\ (2 ^ 255) mod 2 ^ 192 = 0 /\
   2 ^ 64 <= be_value (le_bytes 32 (2 ^ 191)) /\ (2 ^ 191) mod 2 ^ 192 <> 0)%N.
Proof. exact ex_small_key_bytes. Qed.

(** section 20: 0x100 for the one-byte register, 2^32 for a 32-bit one; null and true *)
Example C16_ex_too_wide :
  lookup "TXT.ESTS" registry <> None /\ "TXT.ESTS" <> key_id /\
  of_hex_aux "100" 0 = Some 256%N /\ (2 ^ (8 * 1) <= 256)%N /\
  yaml_entry "TXT.ESTS" (YStr "0x100") = RErr /\ yaml_entry "TXT.ESTS" (YStr "0xff") = ROk ("TXT.ESTS", 255%N) /\
  yaml_entry "TXT.ERRORCODE" (YStr "0x100000000") = RErr /\
  yaml_scalar false "~" = Some YOther /\ yaml_scalar false "" = Some YOther /\ yaml_scalar false "True" = Some YOther /\
  orb (in_words "null" null_words) (in_words "null" bool_words) = true.
Proof. exact ex_too_wide. Qed.

(** section 21: a value copied from TXT.HEAP.BASE into TXT.ERRORCODE is a TXT.ERRORCODE register
    (a collection holding the unconverted value would not answer Find); key and integer
    registers do not mix; a wider value is cut (not judged by the oracle) *)
Example C16_ex_new_values :
  new "TXT.ERRORCODE" (VReg ("TXT.HEAP.BASE", 0x80000007%N)) = ROk ("TXT.ERRORCODE", 0x80000007%N) /\
  new "TXT.ESTS" (VReg (key_id, 5%N)) = RErr /\ new key_id (VReg ("TXT.ESTS", 5%N)) = RErr /\
  new key_id (VReg (key_id, 2 ^ 255 + 1)%N) = ROk (key_id, 2 ^ 255 + 1)%N /\
  new "TXT.ESTS" (VReg ("TXT.HEAP.BASE", 0x1ff%N)) = ROk ("TXT.ESTS", 0xff%N) /\
  new "ACM_POLICY_STATUS" (VReg ("TXT.ESTS", 0xff%N)) = ROk ("ACM_POLICY_STATUS", 0xff%N) /\
  new "TXT.ESTS" (VBytes [1%N]) = RErr /\ new key_id (VUint 64 7) = RErr /\
  find "TXT.ERRORCODE" [("TXT.HEAP.BASE", 0x80000007%N)] = None /\
  valid ("TXT.HEAP.BASE", 0x80000007%N) /\ is_key "TXT.ERRORCODE" = is_key "TXT.HEAP.BASE" /\
  incompatible "TXT.ESTS" (VReg (key_id, 5%N)) /\ incompatible key_id (VBytes [1; 2]%N).
Proof. exact ex_new_values. Qed.
