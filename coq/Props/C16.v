(** C16 — register collections survive serialisation unchanged.
    This file holds only the property theorems, each closed by [exact].

    Vocabulary (model in Model/Marshal.v, definitions below in Proofs/Marshal.v):
    - [reg] = (ID, raw value); the 256-bit key's raw value is its 32 bytes read little-endian;
    - [registry] : the 26 register types of pkg/registers ([r_bits] = width of the Go type,
      [r_ser] = bytes written by ValueBytes, [r_parser] = bytes read by ValueFromBytes);
    - [valid r]   : the ID is registered and the raw value fits the Go type
                    ([exists i, lookup (fst r) registry = Some i /\ snd r < 2 ^ r_bits i];
                    [validb] is its boolean form, [C16_validb_iff]);
    - [ids l]     = [map fst l];
    - [value_bytes] / [value_from_bytes] : legacy JSON byte format; [new] = registers.New;
      [own_value r] = what r.Value() hands back to New;
    - [json_roundtrip] / [yaml_roundtrip] : marshal then unmarshal a collection
      (results [ROk] / [RErr] / [RPanic]);
    - [reg_le a b] : [reg_leb a b = true], the order of Registers.Sort (address, then ID). *)
From Coq Require Import NArith List String Permutation Sorting.Sorted.
From CSS Require Import Model.Marshal Proofs.Marshal.
Import ListNotations.
Open Scope N_scope.

(** * Vocabulary *)

Theorem C16_validb_iff : forall r, validb r = true <-> valid r.
Proof. exact validb_iff. Qed.
Print Assumptions C16_validb_iff.

(** the generic lemmas below hold for every registry entry because each of the 26 entries
    passes [entry_ok] (parser width <= serialised width, Go type fits the parser width,
    the key is 32 bytes / 256 bits) *)
Theorem C16_registry_ok : List.length registry = 26%nat /\ forallb entry_ok registry = true.
Proof. exact (conj registry_length registry_ok). Qed.
Print Assumptions C16_registry_ok.

(** * 1. little-endian bytes *)

Theorem C16_le_roundtrip : forall n x, x < 256 ^ N.of_nat n -> le_value (le_bytes n x) = x.
Proof. exact le_roundtrip. Qed.
Print Assumptions C16_le_roundtrip.

Theorem C16_le_bytes_length : forall n x, List.length (le_bytes n x) = n.
Proof. exact le_bytes_length. Qed.
Print Assumptions C16_le_bytes_length.

Theorem C16_le_bytes_range : forall n x, Forall (fun b => b < 256) (le_bytes n x).
Proof. exact le_bytes_range. Qed.
Print Assumptions C16_le_bytes_range.

(** * 2. ValueBytes / ValueFromBytes, every register type *)

Theorem C16_bytes_roundtrip : forall r, valid r ->
  exists b, value_bytes r = ROk b /\ value_from_bytes (fst r) b = ROk r.
Proof. exact bytes_roundtrip. Qed.
Print Assumptions C16_bytes_roundtrip.

Theorem C16_from_bytes_never_panics : forall id b, value_from_bytes id b <> RPanic.
Proof. exact from_bytes_never_panics. Qed.
Print Assumptions C16_from_bytes_never_panics.

Theorem C16_value_bytes_never_panics : forall r, value_bytes r <> RPanic.
Proof. exact value_bytes_never_panics. Qed.
Print Assumptions C16_value_bytes_never_panics.

(** * 3. registers.New *)

Theorem C16_new_own : forall r, valid r -> new (fst r) (own_value r) = ROk r.
Proof. exact new_own. Qed.
Print Assumptions C16_new_own.

Theorem C16_new_unknown : forall id v, lookup id registry = None -> new id v = RErr.
Proof. exact new_unknown. Qed.
Print Assumptions C16_new_unknown.

Theorem C16_new_never_panics : forall id v, new id v <> RPanic.
Proof. exact new_never_panics. Qed.
Print Assumptions C16_new_never_panics.

(** * 4. legacy JSON: order preserved, duplicates allowed *)

Theorem C16_json_roundtrip : forall regs, Forall valid regs -> json_roundtrip regs = ROk regs.
Proof. exact json_roundtrip_ok. Qed.
Print Assumptions C16_json_roundtrip.

(** * 5. hexadecimal *)

Theorem C16_hex_roundtrip : forall bits x, x < 2 ^ bits -> parse_hex bits (to_hex x) = Some x.
Proof. exact hex_roundtrip. Qed.
Print Assumptions C16_hex_roundtrip.

Theorem C16_hex_bytes_roundtrip : forall b,
  Forall (fun x => x < 256) b -> hex_to_bytes (bytes_to_hex b) = Some b.
Proof. exact hex_bytes_roundtrip. Qed.
Print Assumptions C16_hex_bytes_roundtrip.

(** * 6. YAML *)

Theorem C16_sort_perm : forall l, Permutation (sort_regs l) l.
Proof. exact sort_perm. Qed.
Print Assumptions C16_sort_perm.

Theorem C16_sort_sorted : forall l,
  StronglySorted (fun a b => reg_leb a b = true) (sort_regs l).
Proof. exact sort_sorted. Qed.
Print Assumptions C16_sort_sorted.

(** [_partial]: the third hypothesis is missing from the property as written.  A key whose
    32 bytes, read as the big-endian number the YAML document shows, fit 64 bits comes back
    as an error (known finding C16-yaml-small-public-key, next theorem). *)
Theorem C16_yaml_roundtrip_partial : forall regs,
  Forall valid regs -> NoDup (ids regs) ->
  (forall r, In r regs -> fst r = key_id -> 2 ^ 64 <= be_value (le_bytes 32 (snd r))) ->
  yaml_roundtrip regs = ROk (sort_regs regs).
Proof. exact yaml_roundtrip_partial. Qed.
Print Assumptions C16_yaml_roundtrip_partial.

Theorem C16_yaml_small_key_refuted :
  exists regs, Forall valid regs /\ NoDup (ids regs) /\ yaml_roundtrip regs = RErr.
Proof. exact yaml_small_key_refuted. Qed.
Print Assumptions C16_yaml_small_key_refuted.

(** without the key hypothesis: the sorted collection or an error, never a panic *)
Theorem C16_yaml_roundtrip_total : forall regs, Forall valid regs -> NoDup (ids regs) ->
  yaml_roundtrip regs = ROk (sort_regs regs) \/ yaml_roundtrip regs = RErr.
Proof. exact yaml_roundtrip_total. Qed.
Print Assumptions C16_yaml_roundtrip_total.

(** * 7. the YAML result does not depend on the order of the collection *)

Theorem C16_sort_order_independent : forall a b,
  Permutation a b -> NoDup (ids a) -> sort_regs a = sort_regs b.
Proof. exact sort_perm_unique. Qed.
Print Assumptions C16_sort_order_independent.

Theorem C16_order_independent : forall a b,
  Permutation a b -> Forall valid a -> NoDup (ids a) -> yaml_roundtrip a = yaml_roundtrip b.
Proof. exact order_independent. Qed.
Print Assumptions C16_order_independent.

(** * Examples: the hypotheses above are satisfiable by non-trivial values *)

Open Scope string_scope.
Example C16_ex_hyps :
  Forall valid ex_regs /\ NoDup (ids ex_regs) /\
  (forall r, In r ex_regs -> fst r = key_id -> 2 ^ 64 <= be_value (le_bytes 32 (snd r))).
Proof. exact ex_hyps. Qed.
Example C16_ex_results :
  ex_regs = [("TXT.PUBLIC.KEY", ex_key); ("ACM_STATUS", 0x4f857010%N); ("TXT.ESTS", 0xff%N)] /\
  json_roundtrip ex_regs = ROk ex_regs /\
  yaml_roundtrip ex_regs =
    ROk [("TXT.ESTS", 0xff%N); ("ACM_STATUS", 0x4f857010%N); ("TXT.PUBLIC.KEY", ex_key)] /\
  value_bytes ("ACM_STATUS", 0x4f857010%N) = ROk [0x10; 0x70; 0x85; 0x4f; 0; 0; 0; 0]%N /\
  yaml_value ("ACM_STATUS", 0x4f857010%N) = ROk "4f857010" /\
  value_bytes ("TXT.ESTS", 0xff%N) = ROk [0xff]%N /\
  yaml_value ("TXT.ESTS", 0xff%N) = ROk "ff".
Proof. exact ex_results. Qed.
(** a duplicated ID: JSON keeps both entries, YAML keeps the last one *)
Example C16_ex_dup :
  json_roundtrip [("TXT.ESTS", 1%N); ("TXT.ESTS", 2%N)]
    = ROk [("TXT.ESTS", 1%N); ("TXT.ESTS", 2%N)] /\
  yaml_roundtrip [("TXT.ESTS", 1%N); ("TXT.ESTS", 2%N)] = ROk [("TXT.ESTS", 2%N)].
Proof. exact ex_dup. Qed.
(** the small-key finding on a second witness: only the last of the 32 bytes is non-zero *)
Example C16_ex_small_key :
  valid (key_id, 2 ^ 255)%N /\ yaml_roundtrip [(key_id, 2 ^ 255)%N] = RErr.
Proof. exact ex_small_key. Qed.
