(** C16 — register collections survive serialisation unchanged (placeholder until Proofs/Marshal.v lands). *)
From Coq Require Import NArith List String.
From CSS Require Import Model.Marshal.
Import ListNotations.
Open Scope N_scope.

Theorem C16_new_unknown_id_is_error : forall v, new "BOGUS"%string v = RErr.
Proof. intro v. reflexivity. Qed.
Print Assumptions C16_new_unknown_id_is_error.
