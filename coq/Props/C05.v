(** C05 — platform verdict predicates are exact and fail closed.
    This file holds only the property theorems, each closed by [exact].

    Vocabulary (model in Model/Verdicts.v, definitions used below in Proofs/Verdicts.v):
    - [verd]: what a check returns, projected: [V ok e1 e2] ((bool, error, error) with the
      two errors reduced to "is non-nil") or [VPanic]; [pass = V true false false],
      [fail = V false true false] (test error), [ierr] (internal error), [warn] (true with
      a test error); for the (bool, error) Boot Guard verdicts [good = pass], [bad = fail].
    - [fent = (type, address, size field, version)]: one FIT entry header; [ft fa fs fv] its
      projections; a type-7 (BIOS startup module, "IBB") or type-2 (startup ACM) entry denotes
      the half-open range [[fa e, fa e + 16 * fs e)] on unbounded integers.
      [overlapZ a1 s1 a2 s2]: the ranges [[a1,a1+s1)] and [[a2,a2+s2)] share a point.
      [containsZ a s lo hi]: [[lo,hi)] lies inside [[a,a+s)].
      [l = l1 ++ e1 :: l2 ++ e2 :: l3]: e1 is listed before e2 in the table l.
      [all_iv_ok l]: no entry's range reaches 2^64; [fent_typed e]: fields in the range of
      their Go types (uint64 address, 24-bit size); [apart e1 e2]: neither empty nor touching.
    - [dsz_real]: getFITDataSize as it behaves (panics for every startup ACM entry, finding
      C05-FIT-ACM-size-panic); [dsz_total]: the same with that repaired.
    - TXT registers are uint32 values ([u32]); [heap_spec], [dpr_spec]: the containment
      conditions the checks print in their error texts, on unbounded integers; the DPR
      register encodes size [bits dpr 4 255] MiB and top [bits dpr 20 4095 + 1] MiB.
    - SMRR: base [bits pbm 12 1048575 * 4096], mask [bits pmm 12 1048575 * 4096]; a
      contiguous mask [2^32 - 2^k] describes the interval [[base, base + 2^k)]; TSEG is [[tb, tl)].
    - [nvattr_spec mask want opt]: the attribute word equals the wanted one up to the optional
      bits; [nv20_spec]: Table J-2 as tpm.go cites it (attributes up to Written, data size =
      base + TPM digest size of the name algorithm; AUX two digests); [lcp2_spec]: the
      LCP_POLICY2 pattern PSIndexHasValidLCP states; [sinit_spec caps tpm present]: the SINIT
      ACM lists the family of the TPM in use (constants of tools/acm.go).
    - [me_disqualified v f b]: one of the conditions SaneMEBootGuardProvisioning names holds
      (f = decoded HFSTS6, b = decoded MSR 13Ah, v = 1 Boot Guard 1.0 / 2 CBnT);
      [bpm_ok]: none of the conditions SaneBPMSecurityProps names holds;
      [insecure_alg a]: SHA1, Null or unset.
    Suffixes: [_partial] needs the extra hypothesis named in its comment; [_refuted] is a
    closed witness that the statement as written in the property fails on the code (listed in
    KNOWN_FINDINGS.json under the id given in the comment). *)
From CSS Require Import Lib.Base Model.Verdicts Proofs.Verdicts.
Local Open Scope Z_scope.

(** * 1. FIT range checks against exact interval arithmetic *)

(** NoIBBOverlap never panics and always gives a verdict. *)
Theorem C05_NoIBBOverlap_total : forall l,
  no_ibb_overlap dsz_real l = pass \/ no_ibb_overlap dsz_real l = fail.
Proof. exact NoIBBOverlap_total. Qed.
Print Assumptions C05_NoIBBOverlap_total.

(** Sound: a pass means no two BIOS startup modules share a byte.
    PARTIAL: no range reaches 2^64 (see [C05_NoIBBOverlap_wrap64_refuted]). *)
Theorem C05_NoIBBOverlap_sound_partial : forall l, all_iv_ok l ->
  no_ibb_overlap dsz_real l = pass ->
  forall l1 e1 l2 e2 l3, l = l1 ++ e1 :: l2 ++ e2 :: l3 ->
    ft e1 = T_IBB -> ft e2 = T_IBB ->
    ~ overlapZ (fa e1) (fs e1 * 16) (fa e2) (fs e2 * 16).
Proof. exact NoIBBOverlap_sound_partial. Qed.
Print Assumptions C05_NoIBBOverlap_sound_partial.

(** Exact.  PARTIAL: additionally the modules are pairwise [apart] (adjacent or empty
    modules are reported as overlapping: [C05_NoIBBOverlap_adjacent_refuted]). *)
Theorem C05_NoIBBOverlap_exact_partial : forall l, all_iv_ok l ->
  (forall l1 e1 l2 e2 l3, l = l1 ++ e1 :: l2 ++ e2 :: l3 -> ft e1 = T_IBB -> ft e2 = T_IBB -> apart e1 e2) ->
  (no_ibb_overlap dsz_real l = pass <->
   forall l1 e1 l2 e2 l3, l = l1 ++ e1 :: l2 ++ e2 :: l3 -> ft e1 = T_IBB -> ft e2 = T_IBB ->
     ~ overlapZ (fa e1) (fs e1 * 16) (fa e2) (fs e2 * 16)).
Proof. exact NoIBBOverlap_exact_partial. Qed.
Print Assumptions C05_NoIBBOverlap_exact_partial.

(** finding C05-NoIBBOverlap-adjacent *)
Theorem C05_NoIBBOverlap_adjacent_refuted :
  exists l, all_iv_ok l /\
    (forall e1 e2, In e1 l -> In e2 l -> e1 <> e2 -> ~ overlapZ (fa e1) (fs e1 * 16) (fa e2) (fs e2 * 16)) /\
    no_ibb_overlap dsz_real l = fail.
Proof. exact NoIBBOverlap_adjacent_refuted. Qed.
Print Assumptions C05_NoIBBOverlap_adjacent_refuted.

(** finding C05-FIT-overlap-wrap64 *)
Theorem C05_NoIBBOverlap_wrap64_refuted :
  exists e1 e2, overlapZ (fa e1) (fs e1 * 16) (fa e2) (fs e2 * 16) /\
    ft e1 = T_IBB /\ ft e2 = T_IBB /\ no_ibb_overlap dsz_real [e1; e2] = pass.
Proof. exact NoIBBOverlap_wrap64_refuted. Qed.
Print Assumptions C05_NoIBBOverlap_wrap64_refuted.

(** NoBIOSACMOverlap as it is: never a rejection — a pass or a panic. *)
Theorem C05_NoBIOSACMOverlap_code_never_rejects : forall l,
  no_acm_overlap dsz_real l = pass \/ no_acm_overlap dsz_real l = VPanic.
Proof. exact NoBIOSACMOverlap_never_rejects. Qed.
Print Assumptions C05_NoBIOSACMOverlap_code_never_rejects.

(** finding C05-FIT-ACM-size-panic: a healthy FIT gets no verdict from either ACM check *)
Theorem C05_ACMChecks_healthy_refuted :
  exists ibb acm, ft ibb = T_IBB /\ ft acm = T_SACM /\
    ~ overlapZ (fa ibb) (fs ibb * 16) (fa acm) (fs acm * 16) /\
    no_acm_overlap dsz_real [ibb; acm] = VPanic /\ acm_below_4g dsz_real [ibb; acm] = VPanic.
Proof. exact NoBIOSACMOverlap_healthy_refuted. Qed.
Print Assumptions C05_ACMChecks_healthy_refuted.

(** PARTIAL: with getFITDataSize repaired ([dsz_total]), no 2^64 wrap, and only for an ACM
    listed AFTER the module (see [C05_NoBIOSACMOverlap_order_refuted]). *)
Theorem C05_NoBIOSACMOverlap_sound_partial : forall l, all_iv_ok l ->
  no_acm_overlap dsz_total l = pass ->
  forall l1 e1 l2 e2 l3, l = l1 ++ e1 :: l2 ++ e2 :: l3 ->
    ft e1 = T_IBB -> ft e2 = T_SACM ->
    ~ overlapZ (fa e1) (fs e1 * 16) (fa e2) (fs e2 * 16).
Proof. exact NoBIOSACMOverlap_sound_partial. Qed.
Print Assumptions C05_NoBIOSACMOverlap_sound_partial.

(** finding C05-NoBIOSACMOverlap-order *)
Theorem C05_NoBIOSACMOverlap_order_refuted :
  exists acm ibb, ft acm = T_SACM /\ ft ibb = T_IBB /\
    overlapZ (fa ibb) (fs ibb * 16) (fa acm) (fs acm * 16) /\
    no_acm_overlap dsz_total [acm; ibb] = pass /\ no_acm_overlap dsz_real [acm; ibb] = pass.
Proof. exact NoBIOSACMOverlap_order_refuted. Qed.
Print Assumptions C05_NoBIOSACMOverlap_order_refuted.

(** BIOSACMIsBelow4G as it is: a verdict only for tables without ACM entry. *)
Theorem C05_BIOSACMIsBelow4G_code : forall l,
  (count_type T_SACM l = 0 -> acm_below_4g dsz_real l = pass) /\
  (count_type T_SACM l <> 0 -> acm_below_4g dsz_real l = VPanic).
Proof. exact BIOSACMIsBelow4G_real. Qed.
Print Assumptions C05_BIOSACMIsBelow4G_code.

(** PARTIAL: with getFITDataSize repaired the comparison is exact. *)
Theorem C05_BIOSACMIsBelow4G_exact_partial : forall l,
  (forall e, In e l -> 0 <= fa e /\ 0 <= fs e /\ fa e + fs e * 16 < W64) ->
  (acm_below_4g dsz_total l = pass <->
   forall e, In e l -> ft e = T_SACM -> fa e + fs e * 16 <= FOUR_GIB).
Proof. exact BIOSACMIsBelow4G_total_exact. Qed.
Print Assumptions C05_BIOSACMIsBelow4G_exact_partial.

(** IBBCoversResetVector / IBBCoversFITVector: exact for every table. *)
Theorem C05_IBBCoversResetVector_exact : forall l, (forall e, In e l -> fent_typed e) ->
  (ibb_covers_rv dsz_real l = pass <->
   exists e, In e l /\ ft e = T_IBB /\ containsZ (fa e) (fs e * 16) RESET_VECTOR (RESET_VECTOR + 4)).
Proof. exact IBBCoversResetVector_exact. Qed.
Print Assumptions C05_IBBCoversResetVector_exact.

Theorem C05_IBBCoversFITVector_exact : forall l, (forall e, In e l -> fent_typed e) ->
  (ibb_covers_fv dsz_real l = pass <->
   exists e, In e l /\ ft e = T_IBB /\ containsZ (fa e) (fs e * 16) FIT_VECTOR (FIT_VECTOR + 4)).
Proof. exact IBBCoversFITVector_exact. Qed.
Print Assumptions C05_IBBCoversFITVector_exact.

(** IBBCoversFIT.  PARTIAL: the table ends below 4 GiB (what HasFIT establishes). *)
Theorem C05_IBBCoversFIT_partial : forall fitptr l, 0 <= fitptr ->
  fitptr + Z.of_nat (length l) * 16 < W32 ->
  (forall e, In e l -> fent_typed e) ->
  (ibb_covers_fit dsz_real fitptr l = pass <->
   exists e, In e l /\ ft e = T_IBB /\
     containsZ (fa e) (fs e * 16) fitptr (fitptr + Z.of_nat (length l) * 16)).
Proof. exact IBBCoversFIT_partial. Qed.
Print Assumptions C05_IBBCoversFIT_partial.

(** finding C05-IBBCoversFIT-wrap32 *)
Theorem C05_IBBCoversFIT_wrap32_refuted :
  exists fitptr l, (forall e, In e l -> fent_typed e) /\ 0 <= fitptr < W32 /\
    ibb_covers_fit dsz_real fitptr l = pass /\
    ~ exists e, In e l /\ ft e = T_IBB /\
        containsZ (fa e) (fs e * 16) fitptr (fitptr + Z.of_nat (length l) * 16).
Proof. exact IBBCoversFIT_wrap32_refuted. Qed.
Print Assumptions C05_IBBCoversFIT_wrap32_refuted.

(** presence checks, FIT pointer and table bounds: exact *)
Theorem C05_HasEntry_exact : forall t l,
  has_type t l = pass <-> exists e, In e l /\ ft e = t.
Proof. exact HasType_exact. Qed.
Print Assumptions C05_HasEntry_exact.

Theorem C05_HasBIOSPolicy_exact : forall mode l,
  has_bios_policy mode l = pass <-> mode = 0 \/ count_type T_BIOSPOLICY l = 1.
Proof. exact HasBIOSPolicy_exact. Qed.
Print Assumptions C05_HasBIOSPolicy_exact.

Theorem C05_PolicyAllowsTXT_exact : forall rd l,
  policy_allows_txt rd l = pass <->
  (forall e, In e l -> ft e <> T_TXTPOLICY) \/
  (exists l1 e l2 b, l = l1 ++ e :: l2 /\ (forall x, In x l1 -> ft x <> T_TXTPOLICY) /\
     ft e = T_TXTPOLICY /\ fv e = 1 /\ rd = Some b /\ Z.odd b = true).
Proof. exact PolicyAllowsTXT_exact. Qed.
Print Assumptions C05_PolicyAllowsTXT_exact.

Theorem C05_FITVectorIsSet_exact : forall p,
  fit_vector_is_set p = pass <-> exists v, p = Some v /\ VALID_FIT_RANGE <= v < FIT_VECTOR.
Proof. exact FITVectorIsSet_exact. Qed.
Print Assumptions C05_FITVectorIsSet_exact.

Theorem C05_HasFIT_exact : forall fitptr n rd1 rd2, 0 <= fitptr -> 0 <= n ->
  (has_fit fitptr n rd1 rd2 = pass <->
   rd1 = true /\ rd2 = true /\ 0 < n /\ fitptr + n * 16 <= FIT_VECTOR).
Proof. exact HasFIT_exact. Qed.
Print Assumptions C05_HasFIT_exact.

(** * 2. TXT heap / SINIT / DPR containment, SMRR / TSEG *)

(** TXTHeapSpaceValid.  PARTIAL: heap base + size does not exceed 32 bits. *)
Theorem C05_HeapValid_partial : forall hb hs sb ss mj,
  u32 hb -> u32 hs -> u32 sb -> u32 ss -> u32 mj ->
  hb + hs < W32 ->
  (heap_valid hb hs sb ss mj = pass <-> heap_spec hb hs sb ss).
Proof. exact HeapValid_partial. Qed.
Print Assumptions C05_HeapValid_partial.

(** finding C05-heap-wrap32 *)
Theorem C05_HeapValid_wrap32_refuted :
  exists hb hs sb ss mj, u32 hb /\ u32 hs /\ u32 sb /\ u32 ss /\ u32 mj /\
    heap_valid hb hs sb ss mj = pass /\ ~ heap_spec hb hs sb ss.
Proof. exact HeapValid_wrap32_refuted. Qed.
Print Assumptions C05_HeapValid_wrap32_refuted.

(** why: the "above 4 GiB" guards compare a uint32 sum with 2^32 and can never fire *)
Theorem C05_HeapValid_guards_vacuous : forall a b, (wrap32 (a + b) >=? FOUR_GIB) = false.
Proof. exact HeapValid_guards_vacuous. Qed.
Print Assumptions C05_HeapValid_guards_vacuous.

(** TXTMemoryIsDPR.  PARTIAL: none of the uint32 sums / differences wraps. *)
Theorem C05_DPR_partial : forall dpr hb hs sb ss,
  u32 hb -> u32 hs -> u32 sb -> u32 ss ->
  let S := bits dpr 4 255 * MiB in
  let L := (bits dpr 20 4095 + 1) * MiB in
  bits dpr 20 4095 < 4095 ->
  S <= L ->
  hb + hs < W32 -> sb + ss < W32 ->
  2 * MiB + hs + ss <= L ->
  (memory_is_dpr dpr hb hs sb ss = pass <-> dpr_spec S L hb hs sb ss).
Proof. exact DPR_partial. Qed.
Print Assumptions C05_DPR_partial.

(** finding C05-DPR-wrap32 *)
Theorem C05_DPR_underflow_refuted :
  exists dpr hb hs sb ss, u32 hb /\ u32 hs /\ u32 sb /\ u32 ss /\
    memory_is_dpr dpr hb hs sb ss = pass /\
    ~ dpr_spec (bits dpr 4 255 * MiB) ((bits dpr 20 4095 + 1) * MiB) hb hs sb ss.
Proof. exact DPR_underflow_refuted. Qed.
Print Assumptions C05_DPR_underflow_refuted.

(** ValidSMRR as a function of (SMRR MSRs, TSEG base, TSEG limit): exact against the interval
    reading.  PARTIAL: contiguous mask of granularity 2^k (the only masks with an interval
    reading). *)
Theorem C05_ValidSMRR_interval_partial : forall pbm pmm tb tl k,
  12 <= k < 32 -> u32 tb -> u32 tl ->
  let PB := bits pbm 12 1048575 * 4096 in
  bits pmm 12 1048575 * 4096 = W32 - 2 ^ k ->
  (valid_smrr pbm pmm tb tl = pass <->
   PB <> 0 /\ PB mod 2 ^ k = 0 /\ tb = PB /\ tl = PB + 2 ^ k /\ tl <> U32MAX).
Proof. exact ValidSMRR_interval_partial. Qed.
Print Assumptions C05_ValidSMRR_interval_partial.

(** for every mask: what a pass guarantees *)
Theorem C05_ValidSMRR_failclosed : forall pbm pmm tb tl,
  valid_smrr pbm pmm tb tl = pass ->
  let pb := bits pbm 12 1048575 in
  let pm := bits pmm 12 1048575 in
  pm <> 0 /\ pb <> 0 /\ tb <> 0 /\ tb <> U32MAX /\ tl <> 0 /\ tl <> U32MAX /\
  tb = wrap32 (pb * 4096) /\
  Z.land tb (U32MAX - wrap32 (pm * 4096)) = 0 /\
  Z.land tl (U32MAX - wrap32 (pm * 4096)) = 0 /\
  Z.land (wrap32 (tl - 1)) (wrap32 (pm * 4096)) = wrap32 (pb * 4096).
Proof. exact ValidSMRR_failclosed. Qed.
Print Assumptions C05_ValidSMRR_failclosed.

(** finding C05-ValidSMRR-tseglimit-lib: on every host bridge but Broadwell-DE the library
    reports TSEG limit 0, so no configuration — a correct one included — is accepted *)
Theorem C05_ValidSMRR_accepts_refuted : forall pbm pmm tb raw,
  valid_smrr pbm pmm tb (tseg_limit false raw) <> pass.
Proof. exact ValidSMRR_sandy_never_passes. Qed.
Print Assumptions C05_ValidSMRR_accepts_refuted.

(** * 3. Attribute and capability checks: accepted bit patterns *)

(** checkTPM2NVAttr as it is: everything but the all-zero word (finding C05-NVAttr-precedence) *)
Theorem C05_NVAttr_code : forall mask want opt,
  nvattr mask want opt = true <-> mask <> 0 \/ Z.odd (Z.lor want opt) = false.
Proof. exact NVAttr_real. Qed.
Print Assumptions C05_NVAttr_code.

Theorem C05_NVAttr_exact_refuted :
  (exists mask want opt, 0 <= mask /\ nvattr mask want opt = true /\ ~ nvattr_spec mask want opt) /\
  (exists mask want opt, 0 <= mask /\ nvattr mask want opt = false /\ nvattr_spec mask want opt).
Proof. exact NVAttr_exact_refuted. Qed.
Print Assumptions C05_NVAttr_exact_refuted.

(** PS / AUX index, TPM 2.0: a correctly configured index is accepted.
    PARTIAL: name algorithm SHA256/384/512 (for SHA1 and SM3 the Go hash table gives another
    size, finding C05-NVIndex-nameAlg-cryptoHash). *)
Theorem C05_NVIndex20_accepts_partial : forall which blob namealg attrs h ds,
  which = 0 \/ which = 1 ->
  parse_nvpub blob = Some (namealg, attrs, h, ds) ->
  namealg = 11 \/ namealg = 12 \/ namealg = 13 ->
  0 <= attrs -> nv20_spec which namealg attrs ds ->
  nv_index_config20 which blob = pass.
Proof. exact NVIndex20_accepts_partial. Qed.
Print Assumptions C05_NVIndex20_accepts_partial.

(** what PSIndexConfig / AUXIndexConfig accept *)
Theorem C05_NVIndex20_code : forall which blob, which = 0 \/ which = 1 ->
  (nv_index_config20 which blob = pass <->
   exists namealg attrs h ds hsz, parse_nvpub blob = Some (namealg, attrs, h, ds) /\
     nvattr attrs (idx_want which) ATTR_WRITTEN = true /\
     go_hash_size' namealg = Some hsz /\ ds = idx_size which hsz).
Proof. exact NVIndex20_real. Qed.
Print Assumptions C05_NVIndex20_code.

(** findings C05-NVAttr-precedence, C05-NVIndex-nameAlg-cryptoHash *)
Theorem C05_NVIndex20_exact_refuted :
  (exists blob namealg attrs h ds, parse_nvpub blob = Some (namealg, attrs, h, ds) /\
     nv_index_config20 0 blob = pass /\ ~ nv20_spec 0 namealg attrs ds) /\
  (exists blob namealg attrs h ds, parse_nvpub blob = Some (namealg, attrs, h, ds) /\
     nv20_spec 0 namealg attrs ds /\ nv_index_config20 0 blob = fail) /\
  (exists blob, nv_index_config20 0 blob = VPanic).
Proof. exact NVIndex20_refuted. Qed.
Print Assumptions C05_NVIndex20_exact_refuted.

(** finding C05-POIndexConfig-never-passes *)
Theorem C05_POIndexConfig_accepts_refuted :
  (forall blob, nv_index_config20 2 blob <> pass) /\
  (forall p1 p2 size attrs rst wst wd, nv_index_config12 2 p1 p2 size attrs rst wst wd <> pass) /\
  (exists blob namealg attrs h ds, parse_nvpub blob = Some (namealg, attrs, h, ds) /\
     nv20_spec 2 namealg attrs ds).
Proof. exact POIndexConfig_never_passes_refuted. Qed.
Print Assumptions C05_POIndexConfig_accepts_refuted.

(** TPM 1.2 PS / AUX index (Table J-1): exact *)
Theorem C05_NVIndex12_exact : forall which p1 p2 size attrs rst wst wd,
  (nv_index_config12 0 p1 p2 size attrs rst wst wd = pass <->
     p1 = 0 /\ p2 = 0 /\ size = 54 /\ attrs = NVPER_WRITESTCLEAR /\ rst = false /\ wst = false /\ wd = true) /\
  (nv_index_config12 1 p1 p2 size attrs rst wst wd = pass <->
     p1 = 0 /\ p2 = 0 /\ size = 64 /\ attrs = 0 /\ rst = false /\ wst = false /\ wd = false) /\
  (nv_index_config12 which p1 p2 size attrs rst wst wd = warn ->
     (which = 0 \/ which = 1) /\ p1 = 0 /\ p2 = 0 /\ rst = false /\ wst = false).
Proof. exact NVIndex12_exact. Qed.
Print Assumptions C05_NVIndex12_exact.

Theorem C05_AUXIndexHash_exact : forall blob,
  aux_index_hash blob = pass <->
  exists namealg attrs ds, parse_nvpub blob = Some (namealg, attrs, AUX_HASH, ds).
Proof. exact AUXIndexHash_exact. Qed.
Print Assumptions C05_AUXIndexHash_exact.

(** LCP validity, LCP_POLICY (version <= 2.4): exact *)
Theorem C05_LCP1_exact : forall version hashalg ptype sinitmin polctrl maxsinit hashzero,
  lcp_valid1 version hashalg ptype sinitmin polctrl maxsinit hashzero = pass <->
  version < LCP_V2 /\ hashalg = 0 /\ (ptype = 0 \/ ptype = 1) /\ sinitmin <> 0 /\
  ~ (ptype = 0 /\ polctrl = 0) /\ maxsinit = 0 /\ hashzero = false.
Proof. exact LCP1_exact. Qed.
Print Assumptions C05_LCP1_exact.

(** LCP_POLICY2 (version >= 3.0): exact for PolicyType ANY; every other type is a nil
    dereference as soon as version and hash algorithm are right (finding C05-LCP2-nil-deref) *)
Theorem C05_LCP2_code : forall preset version hashalg ptype hmask smask,
  (lcp_valid2 preset version hashalg ptype hmask smask = pass <->
   lcp2_spec preset version hashalg ptype hmask smask /\ ptype = 1) /\
  (lcp_valid2 preset version hashalg ptype hmask smask = VPanic <->
   LCP_V3 <= version /\ hashalg = preset /\ ptype <> 1).
Proof. exact LCP2_real. Qed.
Print Assumptions C05_LCP2_code.

Theorem C05_LCP2_list_refuted :
  exists preset version hashalg ptype hmask smask,
    lcp2_spec preset version hashalg ptype hmask smask /\
    lcp_valid2 preset version hashalg ptype hmask smask = VPanic.
Proof. exact LCP2_list_refuted. Qed.
Print Assumptions C05_LCP2_list_refuted.

(** SINITACMcomplyTPMSpec as it is: decided by the module that FOLLOWS the SINIT ACM in the
    SINIT region ([caps2]), accepted iff its capabilities word is non-zero *)
Theorem C05_SINITTPMSpec_code : forall caps1 caps2 tpm present,
  sinit_tpm_spec caps1 caps2 tpm present = pass <->
  exists c, caps2 = Some c /\ c <> 0 /\ present = true /\ (tpm = 1 \/ tpm = 2).
Proof. exact SINITTPMSpec_real. Qed.
Print Assumptions C05_SINITTPMSpec_code.

(** findings C05-sinitACM-double-parse, C05-SINITTPMSpec-precedence *)
Theorem C05_SINITTPMSpec_exact_refuted :
  (forall caps tpm present, sinit_tpm_spec caps None tpm present = fail) /\
  (exists caps tpm, sinit_spec caps tpm true) /\
  (exists caps tpm, sinit_tpm_spec caps (Some caps) tpm true = pass /\ ~ sinit_spec caps tpm true) /\
  (exists caps1 caps2 tpm, sinit_spec caps1 tpm true /\ sinit_tpm_spec caps1 (Some caps2) tpm true = fail).
Proof. exact SINITTPMSpec_refuted. Qed.
Print Assumptions C05_SINITTPMSpec_exact_refuted.

(** single-register checks: exact bit patterns *)
Theorem C05_IBBMeasured_exact : forall w, ibb_measured w = pass <-> bit w 63 = true /\ bit w 62 = false.
Proof. exact IBBMeasured_exact. Qed.
Print Assumptions C05_IBBMeasured_exact.

Theorem C05_IBBIsTrusted_exact : forall w, ibb_trusted w = pass <-> bit w 63 = true /\ bit w 59 = true.
Proof. exact IBBIsTrusted_exact. Qed.
Print Assumptions C05_IBBIsTrusted_exact.

Theorem C05_ValidTXTRegister_exact : forall a p b,
  valid_txt_register a p b = good <-> bit a 31 = true /\ bit a 15 = true /\ bit p 6 = false /\ bit b 31 = true.
Proof. exact ValidTXTRegister_exact. Qed.
Print Assumptions C05_ValidTXTRegister_exact.

Theorem C05_SmallChecks_exact :
  (forall e, no_sinit_errors e = pass <-> e = 3221225473) /\
  (forall d, dpr_locked d = pass <-> bit d 0 = true) /\
  (forall ver size nproc, biosdata_valid ver size nproc = pass <-> 2 <= ver /\ 8 <= size /\ nproc <> 0) /\
  (forall sig, weybridge_or_later sig = pass <-> bits sig 8 15 = 6) /\
  (forall fc, txt_not_disabled fc = pass <->
     Z.land (bits fc 8 511) 255 = 255 \/ Z.land (bits fc 8 511) 256 = 256) /\
  (forall fc, ia32_feature_ctrl fc = pass <-> bit fc 0 = true).
Proof. exact SmallChecks_exact. Qed.
Print Assumptions C05_SmallChecks_exact.

(** IA32DebugInterfaceLockedDisabled as it is, and the finding C05-DebugInterface-inverted *)
Theorem C05_DebugInterface_code : forall ecx msr,
  debug_locked ecx msr = pass <->
  bit ecx 11 = true \/ (bit msr 31 = false /\ bit msr 30 = true /\ bit msr 0 = false).
Proof. exact DebugInterface_real. Qed.
Print Assumptions C05_DebugInterface_code.

Theorem C05_DebugInterface_inverted_refuted :
  exists ecx msr, debug_locked ecx msr = pass /\ ~ debug_spec ecx msr.
Proof. exact DebugInterface_inverted_refuted. Qed.
Print Assumptions C05_DebugInterface_inverted_refuted.

(** * 4. Boot Guard provisioning and manifest-security verdicts never report success when a
      named disqualifying condition holds *)

(** SaneMEBootGuardProvisioning: success exactly when no disqualifying condition holds, for
    every assignment of the status bits; never a panic. *)
Theorem C05_SaneME_exact : forall v f b,
  (sane_me v f b = good <-> ~ me_disqualified v f b) /\
  (sane_me v f b = good \/ sane_me v f b = bad).
Proof. exact SaneME_exact. Qed.
Print Assumptions C05_SaneME_exact.

Theorem C05_SaneME_failclosed : forall v f b, me_disqualified v f b -> sane_me v f b <> good.
Proof. exact SaneME_failclosed. Qed.
Print Assumptions C05_SaneME_failclosed.

Theorem C05_StrictSaneME_exact : forall v f b,
  strict_sane_me v f b = good <-> f_eep f = 3 /\ ~ me_disqualified v f b.
Proof. exact StrictSaneME_exact. Qed.
Print Assumptions C05_StrictSaneME_exact.

(** the same read off the raw HFSTS6 word and MSR 13Ah *)
Theorem C05_SaneME_raw_failclosed : forall strict v hfsts6 msr,
  sane_me_raw strict v hfsts6 msr = good ->
  bit hfsts6 4 = false /\ bit hfsts6 5 = false /\ bit hfsts6 30 = true /\
  (bits hfsts6 6 3 <> 0 /\ bits hfsts6 6 3 <> 2) /\ (strict = true -> bits hfsts6 6 3 = 3) /\
  bit hfsts6 3 = true /\ (v = 2 -> bit msr 4 = true) /\ bit msr 6 = true /\ bit msr 7 = false /\
  bit hfsts6 28 = false /\ bit msr 32 = true.
Proof. exact SaneME_raw_failclosed. Qed.
Print Assumptions C05_SaneME_raw_failclosed.

(** ValidateMEAgainstManifests, Boot Guard 1.0 and CBnT: exact *)
Theorem C05_ValidateME_exact : forall v f bpmsvn kmsvn kmid,
  (v = 1 -> (validate_me v f bpmsvn kmsvn kmid = good <->
             f_bpmsvn f = bpmsvn /\ f_kmsvn f = kmsvn /\ f_kmid f = kmid)) /\
  (v = 2 -> (validate_me v f bpmsvn kmsvn kmid = good <->
             f_bpmsvn f <= bpmsvn /\ f_kmsvn f = kmsvn /\ f_kmid f = kmid)).
Proof. exact ValidateME_exact. Qed.
Print Assumptions C05_ValidateME_exact.

(** finding C05-BG-unknown-version-failopen: for a BootGuard value whose version is neither
    1.0 nor 2.0 every manifest verdict is "success" *)
Theorem C05_BG_unknown_version_failclosed_refuted : forall v, v <> 1 -> v <> 2 ->
  (forall f a b c, validate_me v f a b c = good) /\
  (forall nse algs lsize sig, bpm_crypto v nse algs lsize sig = good) /\
  (forall a1 algs, km_crypto v a1 algs = good) /\
  (forall nse flags pbet base0 vtdbar txte nseg, sane_bpm v nse flags pbet base0 vtdbar txte nseg = good) /\
  (forall nse flags pbet base0 vtdbar txte nseg, strict_sane_bpm v nse flags pbet base0 vtdbar txte nseg = good).
Proof. exact BG_unknown_version_failopen_refuted. Qed.
Print Assumptions C05_BG_unknown_version_failclosed_refuted.

(** BPMCryptoSecure, Boot Guard 1.0: exact *)
Theorem C05_BPMCrypto_v1_exact : forall nse algs lsize sig, nse <> 0 ->
  (bpm_crypto 1 nse algs lsize sig = good <-> insecure_alg (hd 0 algs) = false /\ insecure_alg sig = false).
Proof. exact BPMCrypto_v1_exact. Qed.
Print Assumptions C05_BPMCrypto_v1_exact.

(** CBnT.  PARTIAL (visible in the statement): the digest list is only looked at when
    DigestList.Size < 2 — a byte size that is never below 4 *)
Theorem C05_BPMCrypto_v2_failclosed_partial : forall nse algs lsize sig, nse <> 0 ->
  (bpm_crypto 2 nse algs lsize sig = good <->
   insecure_alg sig = false /\ (lsize < 2 -> forall a, In a algs -> insecure_alg a = false)).
Proof. exact BPMCrypto_v2_real. Qed.
Print Assumptions C05_BPMCrypto_v2_failclosed_partial.

(** finding C05-BPMCrypto-sha1-digestlist *)
Theorem C05_BPMCrypto_v2_sha1_refuted :
  exists algs lsize sig, 4 <= lsize /\ insecure_alg (hd 0 algs) = true /\
    bpm_crypto 2 1 algs lsize sig = good.
Proof. exact BPMCrypto_v2_sha1_refuted. Qed.
Print Assumptions C05_BPMCrypto_v2_sha1_refuted.

Theorem C05_KMCrypto_exact : forall a1 algs,
  (km_crypto 1 a1 algs = good <-> insecure_alg a1 = false /\ insecure_alg (hd 0 algs) = false) /\
  (km_crypto 2 a1 algs = good <-> insecure_alg a1 = false /\ forall a, In a algs -> insecure_alg a = false).
Proof. exact KMCrypto_exact. Qed.
Print Assumptions C05_KMCrypto_exact.

(** SaneBPMSecurityProps / StrictSaneBPMSecurityProps *)
Theorem C05_SaneBPM_failclosed : forall v nse flags pbet base0 vtdbar txte nseg,
  v = 1 \/ v = 2 ->
  sane_bpm v nse flags pbet base0 vtdbar txte nseg = good ->
  bpm_ok v flags pbet base0 vtdbar txte nseg.
Proof. exact SaneBPM_failclosed. Qed.
Print Assumptions C05_SaneBPM_failclosed.

Theorem C05_SaneBPM_accepts : forall v nse flags pbet base0 vtdbar txte nseg,
  v = 1 \/ v = 2 -> nse <> 0 ->
  bpm_ok v flags pbet base0 vtdbar txte nseg ->
  sane_bpm v nse flags pbet base0 vtdbar txte nseg = good.
Proof. exact SaneBPM_accepts. Qed.
Print Assumptions C05_SaneBPM_accepts.

Theorem C05_StrictSaneBPM_failclosed : forall v nse flags pbet base0 vtdbar txte nseg,
  v = 1 \/ v = 2 ->
  strict_sane_bpm v nse flags pbet base0 vtdbar txte nseg = good ->
  bpm_ok v flags pbet base0 vtdbar txte nseg /\ bit flags 3 = true /\
  (v = 2 -> exists cf, txte = Some cf /\ bits cf 5 3 = 2).
Proof. exact StrictSaneBPM_failclosed. Qed.
Print Assumptions C05_StrictSaneBPM_failclosed.

(** finding C05-SaneBPM-nil-TXTE: no verdict for an empty SE list or a CBnT BPM without TXT
    element *)
Theorem C05_SaneBPM_total_refuted :
  (forall v flags pbet base0 vtdbar txte nseg, v = 1 \/ v = 2 ->
     sane_bpm v 0 flags pbet base0 vtdbar txte nseg = VPanic) /\
  (exists flags pbet nseg, bit flags 0 = true /\ bit flags 2 = true /\ Z.land pbet 15 <> 0 /\ 1 <= nseg /\
     sane_bpm 2 1 flags pbet 0 0 None nseg = VPanic).
Proof. exact SaneBPM_panics_refuted. Qed.
Print Assumptions C05_SaneBPM_total_refuted.

(** * Examples: the hypotheses are satisfiable, correctly configured objects are accepted *)

Definition ex_fit : list fent :=
  [(0, 2314885530818453087, 5, 256); (1, 4292870144, 0, 256);
   (7, 4293918720, 28672, 256); (7, 4294443008, 32768, 256)].

Example C05_ex_fit : all_iv_ok ex_fit /\ (forall e, In e ex_fit -> fent_typed e) /\
  no_ibb_overlap dsz_real ex_fit = pass /\ ibb_covers_rv dsz_real ex_fit = pass /\
  ibb_covers_fv dsz_real ex_fit = pass /\ has_type T_IBB ex_fit = pass /\
  apart (7, 4293918720, 28672, 256) (7, 4294443008, 32768, 256).
Proof.
  split; [|split; [|repeat split; try (vm_compute; reflexivity); vm_compute; congruence]].
  - intros e [<-|[<-|[<-|[<-|[]]]]]; unfold ibb_iv_ok, W64; cbn; lia.
  - intros e [<-|[<-|[<-|[<-|[]]]]]; unfold fent_typed, W64; cbn; lia.
Qed.

Example C05_ex_covers_fit :
  ibb_covers_fit dsz_real 4294770688 [(0, 2314885530818453087, 2, 256); (7, 4294443008, 32768, 256)] = pass.
Proof. vm_compute. reflexivity. Qed.

Example C05_ex_heap : heap_spec 2065694720 917504 2065629184 65536 /\
  heap_valid 2065694720 917504 2065629184 65536 4096 = pass.
Proof. split; [unfold heap_spec, W32, LEGACY_MIN_HEAP, MIN_SINIT; repeat split; try reflexivity; lia|vm_compute; reflexivity]. Qed.

(** DPR [0x7B000000, 0x7B400000), heap at its top, SINIT below *)
Example C05_ex_dpr : memory_is_dpr 2066743361 2066874368 917504 2066743296 131072 = pass /\
  dpr_spec (bits 2066743361 4 255 * MiB) ((bits 2066743361 20 4095 + 1) * MiB) 2066874368 917504 2066743296 131072.
Proof. split; [vm_compute; reflexivity|]. vm_compute. repeat split; intros; congruence. Qed.

(** SMRR = TSEG = [0x7B000000, 0x7B800000), k = 23 *)
Example C05_ex_smrr : bits 4286580736 12 1048575 * 4096 = W32 - 2 ^ 23 /\
  valid_smrr 2063597574 4286580736 2063597568 2071986176 = pass.
Proof. split; vm_compute; reflexivity. Qed.

Example C05_ex_nvindex : nv_index_config20 0 (ps_blob [98; 4; 4; 8] 11 70) = pass /\
  (exists h, parse_nvpub (ps_blob [98; 4; 4; 8] 11 70) = Some (11, PS20_ATTR, h, 70)) /\
  nv20_spec 0 11 PS20_ATTR 70.
Proof.
  split; [vm_compute; reflexivity|]. split; [eexists; vm_compute; reflexivity|].
  split; [reflexivity|]. exists 32. split; reflexivity.
Qed.

Example C05_ex_lcp : lcp_valid1 514 0 1 1 2 0 false = pass /\ lcp_valid2 11 768 11 1 8 8 = pass.
Proof. split; vm_compute; reflexivity. Qed.

(** HFSTS6 = FPF lock | immediate shutdown | protect BIOS, MSR 13Ah = capability | verified | FACB *)
Example C05_ex_me : sane_me_raw true 2 1073742024 4294967376 = good /\
  ~ me_disqualified 2 (decode_hfsts6 1073742024) (decode_bgmsr 4294967376) /\
  me_disqualified 2 (decode_hfsts6 (1073742024 + 16)) (decode_bgmsr 4294967376).
Proof.
  split; [vm_compute; reflexivity|]. split.
  - apply (proj1 (SaneME_exact _ _ _)). vm_compute. reflexivity.
  - left. vm_compute. reflexivity.
Qed.

Example C05_ex_bpm : bpm_ok 2 13 15 0 0 (Some 64) 1 /\ sane_bpm 2 1 13 15 0 0 (Some 64) 1 = good /\
  strict_sane_bpm 2 1 13 15 0 0 (Some 64) 1 = good /\ bpm_crypto 2 1 [11] 36 11 = good /\ km_crypto 2 11 [11; 12] = good.
Proof.
  split; [|repeat split; vm_compute; reflexivity].
  unfold bpm_ok. repeat split; try (vm_compute; congruence).
  - intros _. left. reflexivity.
  - intros _. exists 64. split; reflexivity.
Qed.
