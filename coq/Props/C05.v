(** C05 — platform verdict predicates are exact and fail closed.
    This file holds only the property theorems, each closed by [exact].

    Vocabulary (model in Model/Verdicts.v, definitions used below in Proofs/Verdicts.v):
    - [verd]: what a check returns, projected: [V ok e1 e2] ((bool, error, error) with the
      two errors reduced to "is non-nil") or [VPanic]; [pass = V true false false],
      [fail = V false true false] (test error), [ierr] (internal error), [warn] (true with
      a test error); for the (bool, error) Boot Guard verdicts [good = pass], [bad = fail].
    - [fent = (type, address, size field, version)]: one FIT entry header; [ft fa fs fv] its
      projections; a type-7 entry (BIOS startup module, "IBB") denotes the half-open range
      [[fa e, fa e + 16 * fs e)] on unbounded integers, a type-2 entry (startup ACM) the range
      [[fa e, fa e + s)] where [s] is the size its module header states in physical memory.
      [mem : physmem]: that memory as the size reader sees it (address of a size field -> value);
      [dsz mem e]: getFITDataSize - [Ok s], or an error ([Err]) when an ACM header cannot be read
      (address not below 4 GiB, no memory there) or the range of the entry leaves the 64-bit
      address space; the error becomes the internal error of the check.
      [overlapZ a1 s1 a2 s2]: the ranges [[a1,a1+s1)] and [[a2,a2+s2)] share a point.
      [containsZ a s lo hi]: [[lo,hi)] lies inside [[a,a+s)].
      [l = l1 ++ e1 :: l2 ++ e2 :: l3]: e1 is listed before e2 in the table l.
      [typed_table l]: the fields of every entry are in the range of their Go types (uint64
      address, 24-bit size); [ibbs_in_space l]: no BIOS startup module reaches 2^64.
    - TXT registers are uint32 values ([u32]); [heap_spec], [dpr_spec]: the containment
      conditions the checks print in their error texts, on unbounded integers; the DPR
      register encodes size [bits dpr 4 255] MiB and top [bits dpr 20 4095 + 1] MiB.
    - SMRR: base [bits pbm 12 1048575 * 4096], mask [bits pmm 12 1048575 * 4096]; a
      contiguous mask [2^32 - 2^k] describes the interval [[base, base + 2^k)]; TSEG is [[tb, tl)].
    - [nvattr_spec mask want opt]: the attribute word equals the wanted one up to the optional
      bits; [nv20_spec]: Table J-2 as tpm.go cites it (attributes up to Written, data size =
      base + TPM digest size of the name algorithm; AUX two digests); [lcp2_spec]: the
      LCP_POLICY2 pattern PSIndexHasValidLCP states; [sinit_spec caps tpm present]: the SINIT
      ACM lists the family of the TPM in use (constants of tools/acm.go).
    - [me_disqualified v f b]: one of the conditions SaneMEBootGuardProvisioning names holds
      (f = decoded HFSTS6, b = decoded MSR 13Ah, v = 1 Boot Guard 1.0 / 2 CBnT);
      [bpm_ok]: none of the conditions SaneBPMSecurityProps names holds;
      [insecure_alg a]: SHA1, Null or unset.
    - A platform as the status readers see it: [l : list pcidev], the visible PCI devices IN
      ENUMERATION ORDER, each [mkdev bus device function cfg] with [cfg] the six dwords at the
      config offsets of HFSTS1..6 ([None]: config space unreadable); [ee]: the enumeration
      reports an error behind the last device.  [is_me d]: device number 16 or 22, function
      0 - the ME's address as me.go names it; [no_me l]: no such device in [l];
      [l = pre ++ d :: post] with [no_me pre] and [is_me d = true]: [d] is the FIRST such
      device in enumeration order - the ME (the walk of hfsts.go asks to stop there; sysfs
      enumerates bus 0 first).  [read_hfsts n l ee]: readHFSTSFromPCIConfigSpace ([HErr] or
      the dword); [hfsts_word n d]: the HFSTSn register of device [d];
      [sane_me_plat] / [validate_me_plat]: the verdicts fed from GetHFSTS6 (and MSR 13Ah) of
      the platform; [test_*]: the pkg/test entry points BootGuardSaneMEConfig /
      BootGuardValidateME.
    - The LCP checks on a platform (Model/VerdictsLCP.v): [lcp_index po tpm pub data preset] is
      PSIndexHasValidLCP ([po = false]) / POIndexHasValidLCP on a TPM of family [tpm] (1 = 1.2,
      2 = 2.0) whose index has the NV public area [pub] ([NvAbsent]: not defined, [NvFail]:
      unreadable, [NvBlob b]) and stores the bytes [data] ([None]: unreadable; a read beyond the
      end of the index fails), with PreSet.LCPHash = [preset]; [parse_policy]: tools.ParsePolicy.
      [version_word d]: the first two bytes of [d], little endian.  [lcp_bytes_spec preset d]:
      [d] starts with a COMPLETE policy of one of the two versions showing the accepted pattern -
      an LCP_POLICY (54 bytes, version word below 0x0204, fields as in [C05_LCP1_exact]) or an
      LCP_POLICY2 (38 bytes + the digest of its HashAlg by the TCG size table, version word from
      0x0300, [lcp2_spec]).  [index_window po tpm pub data d]: [d] is the content of the index as
      its table entry sizes it - the first 54 bytes (TPM 1.2) / the first 38 + digest size of
      the index' name algorithm bytes (TPM 2.0) of the stored bytes, all of them readable.
    Suffixes: [_partial] needs the extra hypothesis named in its comment; [_refuted] is a
    closed witness that the statement as written in the property fails on the code (listed in
    KNOWN_FINDINGS.json under the id given in the comment).  Theorems about "the former
    witness" of a repaired finding evaluate the model on the input that used to fail. *)
From CSS Require Import Lib.Base Model.Verdicts Model.VerdictsLCP Proofs.Verdicts Proofs.VerdictsPlatform Proofs.VerdictsLCP.
Local Open Scope Z_scope.

(** * 1. FIT range checks against exact interval arithmetic *)

(** NoIBBOverlap never panics. *)
Theorem C05_NoIBBOverlap_total : forall mem l,
  no_ibb_overlap (dsz mem) l <> VPanic.
Proof. exact NoIBBOverlap_total. Qed.
Print Assumptions C05_NoIBBOverlap_total.

(** Sound for EVERY table (entries in the range of their Go types): a pass means that no two
    BIOS startup modules share a byte.  Ranges that leave the 64-bit address space included:
    getFITDataSize rejects them (former finding C05-FIT-overlap-wrap64). *)
Theorem C05_NoIBBOverlap_sound : forall mem l, typed_table l ->
  no_ibb_overlap (dsz mem) l = pass ->
  forall l1 e1 l2 e2 l3, l = l1 ++ e1 :: l2 ++ e2 :: l3 ->
    ft e1 = T_IBB -> ft e2 = T_IBB ->
    ~ overlapZ (fa e1) (fs e1 * 16) (fa e2) (fs e2 * 16).
Proof. exact NoIBBOverlap_sound. Qed.
Print Assumptions C05_NoIBBOverlap_sound.

(** Exact; modules that only touch are disjoint (former finding C05-NoIBBOverlap-adjacent).
    PARTIAL: the modules are non-empty and stay inside the 64-bit address space (an empty module
    strictly inside another one is reported as overlapping; a module beyond 2^64 is an internal
    error). *)
Theorem C05_NoIBBOverlap_exact_partial : forall mem l, typed_table l ->
  (forall e, In e l -> ft e = T_IBB -> 0 < fs e /\ fa e + fs e * 16 < W64) ->
  (no_ibb_overlap (dsz mem) l = pass <->
   forall l1 e1 l2 e2 l3, l = l1 ++ e1 :: l2 ++ e2 :: l3 -> ft e1 = T_IBB -> ft e2 = T_IBB ->
     ~ overlapZ (fa e1) (fs e1 * 16) (fa e2) (fs e2 * 16)).
Proof. exact NoIBBOverlap_exact_partial. Qed.
Print Assumptions C05_NoIBBOverlap_exact_partial.

(** the former witness of C05-NoIBBOverlap-adjacent: the back-to-back layout passes *)
Theorem C05_NoIBBOverlap_adjacent : forall mem, no_ibb_overlap (dsz mem) fit_adjacent = pass.
Proof. exact NoIBBOverlap_adjacent_accepted. Qed.
Print Assumptions C05_NoIBBOverlap_adjacent.

(** the former witness of C05-FIT-overlap-wrap64: nested modules crossing 2^64 do not pass *)
Theorem C05_NoIBBOverlap_wrap64 : forall mem,
  no_ibb_overlap (dsz mem) [(7, 18446744073709551584, 4, 256); (7, 18446744073709551600, 1, 256)] = ierr.
Proof. exact NoIBBOverlap_wrap64_rejected. Qed.
Print Assumptions C05_NoIBBOverlap_wrap64.

(** NoBIOSACMOverlap never panics (former finding C05-FIT-ACM-size-panic). *)
Theorem C05_NoBIOSACMOverlap_total : forall mem l, no_acm_overlap (dsz mem) l <> VPanic.
Proof. exact NoBIOSACMOverlap_total. Qed.
Print Assumptions C05_NoBIOSACMOverlap_total.

(** Sound for every table and EVERY ORDER of the entries (former finding
    C05-NoBIOSACMOverlap-order): a pass means that the size of every startup ACM could be read
    from its module header ([dsz mem acm = Ok s]) and no ACM shares a byte with a BIOS startup
    module. *)
Theorem C05_NoBIOSACMOverlap_sound : forall mem l, typed_table l ->
  no_acm_overlap (dsz mem) l = pass ->
  forall ibb acm, In ibb l -> In acm l -> ft ibb = T_IBB -> ft acm = T_SACM ->
    exists s, dsz mem acm = Ok s /\ ~ overlapZ (fa ibb) (fs ibb * 16) (fa acm) s.
Proof. exact NoBIOSACMOverlap_sound. Qed.
Print Assumptions C05_NoBIOSACMOverlap_sound.

(** Exact.  PARTIAL: ranges non-empty and inside the address space, every ACM header readable. *)
Theorem C05_NoBIOSACMOverlap_exact_partial : forall mem l, typed_table l ->
  (forall e, In e l -> ft e = T_IBB -> 0 < fs e /\ fa e + fs e * 16 < W64) ->
  (forall e, In e l -> ft e = T_SACM -> exists s, dsz mem e = Ok s /\ 0 < s) ->
  (no_acm_overlap (dsz mem) l = pass <->
   forall ibb acm s, In ibb l -> In acm l -> ft ibb = T_IBB -> ft acm = T_SACM -> dsz mem acm = Ok s ->
     ~ overlapZ (fa ibb) (fs ibb * 16) (fa acm) s).
Proof. exact NoBIOSACMOverlap_exact_partial. Qed.
Print Assumptions C05_NoBIOSACMOverlap_exact_partial.

(** the former witness of C05-NoBIOSACMOverlap-order: an ACM listed before the module that contains it *)
Theorem C05_NoBIOSACMOverlap_order :
  no_acm_overlap (dsz [(4293984280, 16384)]) [(2, 4293984256, 0, 256); (7, 4293918720, 65536, 256)] = fail.
Proof. exact NoBIOSACMOverlap_order_rejected. Qed.
Print Assumptions C05_NoBIOSACMOverlap_order.

(** the former witness of C05-FIT-ACM-size-panic: the healthy FIT gets a pass from both ACM checks *)
Theorem C05_ACMChecks_healthy :
  let mem := [(4292870168, 16384)] in
  let l := [(7, 4293918720, 65536, 256); (2, 4292870144, 0, 256)] in
  no_acm_overlap (dsz mem) l = pass /\ acm_below_4g (dsz mem) l = pass /\
  dsz mem (2, 4292870144, 0, 256) = Ok 65536.
Proof. exact ACMChecks_healthy_accepted. Qed.
Print Assumptions C05_ACMChecks_healthy.

(** BIOSACMIsBelow4G: exact for every table - a pass iff every startup ACM has a readable size
    and ends at or below 4 GiB. *)
Theorem C05_BIOSACMIsBelow4G_exact : forall mem l, typed_table l ->
  (acm_below_4g (dsz mem) l = pass <->
   forall e, In e l -> ft e = T_SACM -> exists s, dsz mem e = Ok s /\ fa e + s <= FOUR_GIB).
Proof. exact BIOSACMIsBelow4G_exact. Qed.
Print Assumptions C05_BIOSACMIsBelow4G_exact.

Theorem C05_BIOSACMIsBelow4G_total : forall mem l, acm_below_4g (dsz mem) l <> VPanic.
Proof. exact BIOSACMIsBelow4G_total. Qed.
Print Assumptions C05_BIOSACMIsBelow4G_total.

(** IBBCoversResetVector / IBBCoversFITVector / IBBCoversFIT never panic ... *)
Theorem C05_IBBCovers_total : forall mem fitptr l,
  ibb_covers_rv (dsz mem) l <> VPanic /\ ibb_covers_fv (dsz mem) l <> VPanic /\ ibb_covers_fit (dsz mem) fitptr l <> VPanic.
Proof. exact IBBCovers_total. Qed.
Print Assumptions C05_IBBCovers_total.

(** ... and are sound for every table: a pass means that some BIOS startup module contains the
    reset vector / the FIT vector / the whole FIT (its end computed without 32-bit wrap: former
    finding C05-IBBCoversFIT-wrap32). *)
Theorem C05_IBBCovers_sound : forall mem fitptr l, typed_table l ->
  (ibb_covers_rv (dsz mem) l = pass ->
     exists e, In e l /\ ft e = T_IBB /\ containsZ (fa e) (fs e * 16) RESET_VECTOR (RESET_VECTOR + 4)) /\
  (ibb_covers_fv (dsz mem) l = pass ->
     exists e, In e l /\ ft e = T_IBB /\ containsZ (fa e) (fs e * 16) FIT_VECTOR (FIT_VECTOR + 4)) /\
  (ibb_covers_fit (dsz mem) fitptr l = pass ->
     exists e, In e l /\ ft e = T_IBB /\ containsZ (fa e) (fs e * 16) fitptr (fitptr + Z.of_nat (length l) * 16)).
Proof. exact IBBCovers_sound. Qed.
Print Assumptions C05_IBBCovers_sound.

(** Exact.  PARTIAL: no BIOS startup module leaves the 64-bit address space (such an entry, met
    before the covering module, is an internal error). *)
Theorem C05_IBBCoversResetVector_exact_partial : forall mem l, typed_table l -> ibbs_in_space l ->
  (ibb_covers_rv (dsz mem) l = pass <->
   exists e, In e l /\ ft e = T_IBB /\ containsZ (fa e) (fs e * 16) RESET_VECTOR (RESET_VECTOR + 4)).
Proof. exact IBBCoversResetVector_exact_partial. Qed.
Print Assumptions C05_IBBCoversResetVector_exact_partial.

Theorem C05_IBBCoversFITVector_exact_partial : forall mem l, typed_table l -> ibbs_in_space l ->
  (ibb_covers_fv (dsz mem) l = pass <->
   exists e, In e l /\ ft e = T_IBB /\ containsZ (fa e) (fs e * 16) FIT_VECTOR (FIT_VECTOR + 4)).
Proof. exact IBBCoversFITVector_exact_partial. Qed.
Print Assumptions C05_IBBCoversFITVector_exact_partial.

(** IBBCoversFIT: also for a table that reaches or crosses 4 GiB. *)
Theorem C05_IBBCoversFIT_exact_partial : forall mem fitptr l, typed_table l -> ibbs_in_space l ->
  (ibb_covers_fit (dsz mem) fitptr l = pass <->
   exists e, In e l /\ ft e = T_IBB /\
     containsZ (fa e) (fs e * 16) fitptr (fitptr + Z.of_nat (length l) * 16)).
Proof. exact IBBCoversFIT_exact_partial. Qed.
Print Assumptions C05_IBBCoversFIT_exact_partial.

(** the former witness of C05-IBBCoversFIT-wrap32 *)
Theorem C05_IBBCoversFIT_wrap32 : forall mem,
  ibb_covers_fit (dsz mem) 4294967280 [(0, 2314885530818453087, 2, 256); (7, 4294901760, 16, 256)] = fail.
Proof. exact IBBCoversFIT_wrap32_rejected. Qed.
Print Assumptions C05_IBBCoversFIT_wrap32.

(** presence checks, FIT pointer and table bounds: exact *)
Theorem C05_HasEntry_exact : forall t l,
  has_type t l = pass <-> exists e, In e l /\ ft e = t.
Proof. exact HasType_exact. Qed.
Print Assumptions C05_HasEntry_exact.

Theorem C05_HasBIOSPolicy_exact : forall mode l,
  has_bios_policy mode l = pass <-> mode = 0 \/ count_type T_BIOSPOLICY l = 1.
Proof. exact HasBIOSPolicy_exact. Qed.
Print Assumptions C05_HasBIOSPolicy_exact.

Theorem C05_PolicyAllowsTXT_exact : forall rd l,
  policy_allows_txt rd l = pass <->
  (forall e, In e l -> ft e <> T_TXTPOLICY) \/
  (exists l1 e l2 b, l = l1 ++ e :: l2 /\ (forall x, In x l1 -> ft x <> T_TXTPOLICY) /\
     ft e = T_TXTPOLICY /\ fv e = 1 /\ rd = Some b /\ Z.odd b = true).
Proof. exact PolicyAllowsTXT_exact. Qed.
Print Assumptions C05_PolicyAllowsTXT_exact.

Theorem C05_FITVectorIsSet_exact : forall p,
  fit_vector_is_set p = pass <-> exists v, p = Some v /\ VALID_FIT_RANGE <= v < FIT_VECTOR.
Proof. exact FITVectorIsSet_exact. Qed.
Print Assumptions C05_FITVectorIsSet_exact.

Theorem C05_HasFIT_exact : forall fitptr n rd1 rd2, 0 <= fitptr -> 0 <= n ->
  (has_fit fitptr n rd1 rd2 = pass <->
   rd1 = true /\ rd2 = true /\ 0 < n /\ fitptr + n * 16 <= FIT_VECTOR).
Proof. exact HasFIT_exact. Qed.
Print Assumptions C05_HasFIT_exact.

(** * 2. TXT heap / SINIT / DPR containment, SMRR / TSEG *)

(** TXTHeapSpaceValid: exact for every register image (former finding C05-heap-wrap32). *)
Theorem C05_HeapValid_exact : forall hb hs sb ss mj,
  u32 hb -> u32 hs -> u32 sb -> u32 ss -> u32 mj ->
  (heap_valid hb hs sb ss mj = pass <-> heap_spec hb hs sb ss).
Proof. exact HeapValid_exact. Qed.
Print Assumptions C05_HeapValid_exact.

(** the former witness: a heap ending at 4 GiB + 1 MiB *)
Theorem C05_HeapValid_wrap32 : heap_valid 4293918720 2097152 0 65536 0 = fail.
Proof. exact HeapValid_wrap32_rejected. Qed.
Print Assumptions C05_HeapValid_wrap32.

(** TXTMemoryIsDPR: exact for every register image (former finding C05-DPR-wrap32). *)
Theorem C05_DPR_exact : forall dpr hb hs sb ss,
  u32 hb -> u32 hs -> u32 sb -> u32 ss ->
  (memory_is_dpr dpr hb hs sb ss = pass <->
   dpr_spec (bits dpr 4 255 * MiB) ((bits dpr 20 4095 + 1) * MiB) hb hs sb ss).
Proof. exact DPR_exact. Qed.
Print Assumptions C05_DPR_exact.

(** the former witness: no room for a 2 MiB MLE *)
Theorem C05_DPR_underflow : memory_is_dpr 2146435121 2144337920 3145728 0 4026531840 = fail.
Proof. exact DPR_underflow_rejected. Qed.
Print Assumptions C05_DPR_underflow.

(** the sum of three 32-bit registers at 2^32 and around it (seeded change C05-m12 added them
    in 32 bits): DPR [7B000000, 7B400000), heap E0000 at the top, SINIT base 0 *)
Theorem C05_DPR_sum_at_4G :
  memory_is_dpr 2066743361 2066874368 917504 0 4291952640 = fail /\
  memory_is_dpr 2066743361 2066874368 917504 0 4291952639 = fail /\
  memory_is_dpr 2066743361 2066874368 917504 0 4294967295 = fail /\
  memory_is_dpr 2066743361 2066874368 917504 0 131072 = pass.
Proof. exact DPR_sum_at_4G_rejected. Qed.
Print Assumptions C05_DPR_sum_at_4G.

(** ValidSMRR as a function of (SMRR MSRs, TSEG base, TSEG limit): exact against the interval
    reading.  PARTIAL: contiguous mask of granularity 2^k (the only masks with an interval
    reading). *)
Theorem C05_ValidSMRR_interval_partial : forall pbm pmm tb tl k,
  12 <= k < 32 -> u32 tb -> u32 tl ->
  let PB := bits pbm 12 1048575 * 4096 in
  bits pmm 12 1048575 * 4096 = W32 - 2 ^ k ->     (* contiguous mask *)
  (valid_smrr pbm pmm tb tl = pass <->
   PB <> 0 /\ PB mod 2 ^ k = 0 /\ tb = PB /\ tl = PB + 2 ^ k /\ tl <> U32MAX).
Proof. exact ValidSMRR_interval_partial. Qed.
Print Assumptions C05_ValidSMRR_interval_partial.

(** for every mask: what a pass guarantees *)
Theorem C05_ValidSMRR_failclosed : forall pbm pmm tb tl,
  valid_smrr pbm pmm tb tl = pass ->
  let pb := bits pbm 12 1048575 in
  let pm := bits pmm 12 1048575 in
  pm <> 0 /\ pb <> 0 /\ tb <> 0 /\ tb <> U32MAX /\ tl <> 0 /\ tl <> U32MAX /\
  tb = wrap32 (pb * 4096) /\
  Z.land tb (U32MAX - wrap32 (pm * 4096)) = 0 /\
  Z.land tl (U32MAX - wrap32 (pm * 4096)) = 0 /\
  Z.land (wrap32 (tl - 1)) (wrap32 (pm * 4096)) = wrap32 (pb * 4096).
Proof. exact ValidSMRR_failclosed. Qed.
Print Assumptions C05_ValidSMRR_failclosed.

(** finding C05-ValidSMRR-tseglimit-lib: on every host bridge but Broadwell-DE the library
    reports TSEG limit 0, so no configuration - a correct one included - is accepted *)
Theorem C05_ValidSMRR_accepts_refuted : forall pbm pmm tb raw,
  valid_smrr pbm pmm tb (tseg_limit false raw) <> pass.
Proof. exact ValidSMRR_sandy_never_passes. Qed.
Print Assumptions C05_ValidSMRR_accepts_refuted.

(** * 3. Attribute and capability checks: accepted bit patterns *)

(** checkTPM2NVAttr: exact (former finding C05-NVAttr-precedence) *)
Theorem C05_NVAttr_exact : forall mask want opt,
  nvattr mask want opt = true <-> nvattr_spec mask want opt.
Proof. exact NVAttr_exact. Qed.
Print Assumptions C05_NVAttr_exact.

(** PS / AUX / PO index, TPM 2.0: never a panic (former finding C05-NVIndex-nameAlg-cryptoHash) *)
Theorem C05_NVIndex20_total : forall which blob, nv_index_config20 which blob <> VPanic.
Proof. exact NVIndex20_total. Qed.
Print Assumptions C05_NVIndex20_total.

(** Exact against Table J-2 for all three indices (PO included: former finding
    C05-POIndexConfig-never-passes).  PARTIAL: the name algorithm is not SM3-256. *)
Theorem C05_NVIndex20_exact_partial : forall which blob namealg attrs h ds,
  parse_nvpub blob = Some (namealg, attrs, h, ds) -> namealg <> 18 ->
  (nv_index_config20 which blob = pass <-> nv20_spec which namealg attrs ds).
Proof. exact NVIndex20_exact_partial. Qed.
Print Assumptions C05_NVIndex20_exact_partial.

(** for every name algorithm: a pass means the specified pattern *)
Theorem C05_NVIndex20_sound : forall which blob,
  nv_index_config20 which blob = pass ->
  exists namealg attrs h ds, parse_nvpub blob = Some (namealg, attrs, h, ds) /\ nv20_spec which namealg attrs ds.
Proof. exact NVIndex20_sound. Qed.
Print Assumptions C05_NVIndex20_sound.

(** the former witnesses of C05-NVAttr-precedence, C05-NVIndex-nameAlg-cryptoHash (SHA1, 0x27)
    and C05-POIndexConfig-never-passes *)
Theorem C05_NVIndex20_former_witnesses :
  nv_index_config20 0 (ps_blob [0; 0; 0; 1] 11 70) = fail /\
  nv_index_config20 0 (ps_blob [98; 4; 4; 8] 4 58) = pass /\
  nv_index_config20 0 (ps_blob [98; 4; 4; 8] 39 70) = fail /\
  nv_index_config20 2 (ps_blob [2; 4; 0; 10] 11 70) = pass.
Proof. exact NVIndex20_former_witnesses. Qed.
Print Assumptions C05_NVIndex20_former_witnesses.

(** finding C05-NVIndex-SM3-lib *)
Theorem C05_NVIndex20_sm3_refuted :
  exists blob namealg attrs h ds, parse_nvpub blob = Some (namealg, attrs, h, ds) /\
    nv20_spec 0 namealg attrs ds /\ nv_index_config20 0 blob = fail.
Proof. exact NVIndex20_sm3_refuted. Qed.
Print Assumptions C05_NVIndex20_sm3_refuted.

(** TPM 1.2 PS / AUX / PO index (Table J-1): exact *)
Theorem C05_NVIndex12_exact : forall which p1 p2 size attrs rst wst wd,
  (nv_index_config12 0 p1 p2 size attrs rst wst wd = pass <->
     p1 = 0 /\ p2 = 0 /\ size = 54 /\ attrs = NVPER_WRITESTCLEAR /\ rst = false /\ wst = false /\ wd = true) /\
  (nv_index_config12 1 p1 p2 size attrs rst wst wd = pass <->
     p1 = 0 /\ p2 = 0 /\ size = 64 /\ attrs = 0 /\ rst = false /\ wst = false /\ wd = false) /\
  (nv_index_config12 2 p1 p2 size attrs rst wst wd = pass <-> size = 54 /\ attrs = 0) /\
  (nv_index_config12 which p1 p2 size attrs rst wst wd = warn ->
     (which = 0 \/ which = 1) /\ p1 = 0 /\ p2 = 0 /\ rst = false /\ wst = false).
Proof. exact NVIndex12_exact. Qed.
Print Assumptions C05_NVIndex12_exact.

Theorem C05_AUXIndexHash_exact : forall blob,
  aux_index_hash blob = pass <->
  exists namealg attrs ds, parse_nvpub blob = Some (namealg, attrs, AUX_HASH, ds).
Proof. exact AUXIndexHash_exact. Qed.
Print Assumptions C05_AUXIndexHash_exact.

(** LCP validity, LCP_POLICY (version <= 2.4): exact *)
Theorem C05_LCP1_exact : forall version hashalg ptype sinitmin polctrl maxsinit hashzero,
  lcp_valid1 version hashalg ptype sinitmin polctrl maxsinit hashzero = pass <->
  version < LCP_V2 /\ hashalg = 0 /\ (ptype = 0 \/ ptype = 1) /\ sinitmin <> 0 /\
  ~ (ptype = 0 /\ polctrl = 0) /\ maxsinit = 0 /\ hashzero = false.
Proof. exact LCP1_exact. Qed.
Print Assumptions C05_LCP1_exact.

(** LCP_POLICY2 (version >= 3.0): exact, never a panic (former finding C05-LCP2-nil-deref) *)
Theorem C05_LCP2_exact : forall preset version hashalg ptype hmask smask,
  (lcp_valid2 preset version hashalg ptype hmask smask = pass <->
   lcp2_spec preset version hashalg ptype hmask smask) /\
  lcp_valid2 preset version hashalg ptype hmask smask <> VPanic.
Proof. exact LCP2_exact. Qed.
Print Assumptions C05_LCP2_exact.

(** the former witness: a v3.0 SHA256 LIST policy *)
Theorem C05_LCP2_list : lcp_valid2 11 768 11 0 8 8 = pass.
Proof. exact LCP2_list_accepted. Qed.
Print Assumptions C05_LCP2_list.

(** ** The LCP checks on the BYTES of an index, on either TPM family *)

(** tools.ParsePolicy decides the layout from the version word: an LCP_POLICY is only made of a
    word up to 0x0204 (and 54 bytes), an LCP_POLICY2 only of a word from 0x0300 (and 38 bytes) *)
Theorem C05_ParsePolicy_split : forall b,
  match parse_policy b with
  | L1 v _ _ _ _ _ _ => v = version_word b /\ v <= LCP_V2 /\ (54 <= length b)%nat
  | L2 v _ _ _ _ => v = version_word b /\ LCP_V3 <= v /\ (38 <= length b)%nat
  | LErr => True
  end.
Proof. exact ParsePolicy_split. Qed.
Print Assumptions C05_ParsePolicy_split.

(** ... and a word between the two families is a parse error *)
Theorem C05_ParsePolicy_gap : forall b,
  LCP_V2 < version_word b < LCP_V3 -> parse_policy b = LErr.
Proof. exact ParsePolicy_gap. Qed.
Print Assumptions C05_ParsePolicy_gap.

(** PSIndexHasValidLCP / POIndexHasValidLCP never panic, whatever the platform presents *)
Theorem C05_LCPIndex_total : forall po tpm pub data preset, lcp_index po tpm pub data preset <> VPanic.
Proof. exact LCPIndex_total. Qed.
Print Assumptions C05_LCPIndex_total.

(** SOUND on every platform and for every preset: a pass means that the index could be read in
    full and that its content starts with a complete policy of one of the two versions showing
    the accepted pattern *)
Theorem C05_LCPIndex_sound : forall po tpm pub data preset,
  lcp_index po tpm pub data preset = pass ->
  exists d, index_window po tpm pub data d /\ lcp_bytes_spec preset d.
Proof. exact LCPIndex_sound. Qed.
Print Assumptions C05_LCPIndex_sound.

(** an index whose bytes begin with a version word of neither family (0x0204 .. 0x02ff) is never
    reported as holding a valid policy: for either index, on every TPM family, every NV public
    area, every preset, and whatever follows the version word *)
Theorem C05_LCPIndex_undefined_version : forall po tpm pub full preset,
  LCP_V2 <= version_word full < LCP_V3 ->
  lcp_index po tpm pub (Some full) preset <> pass.
Proof. exact LCPIndex_undefined_version. Qed.
Print Assumptions C05_LCPIndex_undefined_version.

(** EXACT wherever the index can be read: a pass iff the content shows the specified bytes;
    otherwise the result is false (never true with an error).
    PARTIAL: neither the preset LCP hash nor the name algorithm of the index is SM3-256
    (finding C05-NVIndex-SM3-lib: go-tpm's Algorithm.Hash() does not know it). *)
Theorem C05_LCPIndex_exact_partial : forall po tpm pub data preset d,
  index_window po tpm pub data d -> preset <> 18 ->
  (forall b alg attrs h ds, pub = NvBlob b -> parse_nvpub b = Some (alg, attrs, h, ds) -> alg <> 18) ->
  (lcp_index po tpm pub data preset = pass <-> lcp_bytes_spec preset d) /\
  (~ lcp_bytes_spec preset d -> exists e1 e2, lcp_index po tpm pub data preset = V false e1 e2).
Proof. exact LCPIndex_exact_partial. Qed.
Print Assumptions C05_LCPIndex_exact_partial.

(** the hypotheses are satisfiable and correctly configured indices are accepted: an LCP_POLICY
    in the PS and PO index of a TPM 1.2, a SHA256 LCP_POLICY2 in the PS and PO index (named by
    SHA256) of a TPM 2.0, a SHA1 LCP_POLICY2 in an index named by SHA384 *)
Theorem C05_LCPIndex_accepts :
  lcp_index false 1 NvAbsent (Some (pol1_bytes 514)) 11 = pass /\
  lcp_index true 1 (NvBlob [0]) (Some (pol1_bytes 514)) 11 = pass /\
  lcp_index false 2 (pub20 11) (Some (pol2_bytes 768 11 32)) 11 = pass /\
  lcp_index true 2 (pub20 11) (Some (pol2_bytes 768 11 32)) 11 = pass /\
  lcp_index false 2 (pub20 12) (Some (pol2_bytes 772 4 20 ++ repeat 0 28)) 4 = pass /\
  lcp_bytes_spec 11 (pol2_bytes 768 11 32) /\ lcp_bytes_spec 11 (pol1_bytes 514).
Proof. exact LCPIndex_accepts. Qed.
Print Assumptions C05_LCPIndex_accepts.

(** the same LCP_POLICY2 under the version words 0x0205, 0x02ff and 0x0204 in a TPM 2.0 index *)
Theorem C05_LCPIndex_gap_witness :
  lcp_index false 2 (pub20 11) (Some (pol2_bytes 517 11 32)) 11 = fail /\
  lcp_index true 2 (pub20 11) (Some (pol2_bytes 767 11 32)) 11 = ierr /\
  lcp_index false 2 (pub20 11) (Some (pol2_bytes 516 11 32)) 11 = fail.
Proof. exact LCPIndex_gap_witness. Qed.
Print Assumptions C05_LCPIndex_gap_witness.

(** finding C05-NVIndex-SM3-lib seen from the LCP checks: with SM3-256 as the preset LCP hash a
    complete, well-formed SM3 LCP_POLICY2 in a readable index is refused *)
Theorem C05_LCPIndex_sm3_refuted :
  exists d, index_window false 2 (pub20 11) (Some d) d /\ lcp_bytes_spec 18 d /\
    lcp_index false 2 (pub20 11) (Some d) 18 = fail.
Proof. exact LCPIndex_sm3_refuted. Qed.
Print Assumptions C05_LCPIndex_sm3_refuted.

(** SINITACMcomplyTPMSpec as it is: decided by the SINIT ACM itself (former finding
    C05-sinitACM-double-parse), accepted iff its capabilities word is non-zero *)
Theorem C05_SINITTPMSpec_code : forall caps1 caps2 tpm present,
  sinit_tpm_spec caps1 caps2 tpm present = pass <->
  caps1 <> 0 /\ present = true /\ (tpm = 1 \/ tpm = 2).
Proof. exact SINITTPMSpec_real. Qed.
Print Assumptions C05_SINITTPMSpec_code.

(** a SINIT ACM that lists the family of the TPM in use is accepted *)
Theorem C05_SINITTPMSpec_accepts : forall caps1 caps2 tpm present,
  sinit_spec caps1 tpm present -> sinit_tpm_spec caps1 caps2 tpm present = pass.
Proof. exact SINITTPMSpec_accepts. Qed.
Print Assumptions C05_SINITTPMSpec_accepts.

Theorem C05_SINITTPMSpec_first_module : forall caps1 caps2 caps2' tpm present,
  sinit_tpm_spec caps1 caps2 tpm present = sinit_tpm_spec caps1 caps2' tpm present.
Proof. exact SINITTPMSpec_first_module. Qed.
Print Assumptions C05_SINITTPMSpec_first_module.

(** finding C05-SINITTPMSpec-precedence *)
Theorem C05_SINITTPMSpec_exact_refuted :
  exists caps tpm, sinit_tpm_spec caps None tpm true = pass /\ ~ sinit_spec caps tpm true.
Proof. exact SINITTPMSpec_refuted. Qed.
Print Assumptions C05_SINITTPMSpec_exact_refuted.

(** single-register checks: exact bit patterns *)
Theorem C05_IBBMeasured_exact : forall w, ibb_measured w = pass <-> bit w 63 = true /\ bit w 62 = false.
Proof. exact IBBMeasured_exact. Qed.
Print Assumptions C05_IBBMeasured_exact.

Theorem C05_IBBIsTrusted_exact : forall w, ibb_trusted w = pass <-> bit w 63 = true /\ bit w 59 = true.
Proof. exact IBBIsTrusted_exact. Qed.
Print Assumptions C05_IBBIsTrusted_exact.

Theorem C05_ValidTXTRegister_exact : forall a p b,
  valid_txt_register a p b = good <-> bit a 31 = true /\ bit a 15 = true /\ bit p 6 = false /\ bit b 31 = true.
Proof. exact ValidTXTRegister_exact. Qed.
Print Assumptions C05_ValidTXTRegister_exact.

Theorem C05_SmallChecks_exact :
  (forall e, no_sinit_errors e = pass <-> e = 3221225473) /\
  (forall d, dpr_locked d = pass <-> bit d 0 = true) /\
  (forall ver size nproc, biosdata_valid ver size nproc = pass <-> 2 <= ver /\ 8 <= size /\ nproc <> 0) /\
  (forall sig, weybridge_or_later sig = pass <-> bits sig 8 15 = 6) /\
  (forall fc, txt_not_disabled fc = pass <->
     Z.land (bits fc 8 511) 255 = 255 \/ Z.land (bits fc 8 511) 256 = 256) /\
  (forall fc, ia32_feature_ctrl fc = pass <-> bit fc 0 = true).
Proof. exact SmallChecks_exact. Qed.
Print Assumptions C05_SmallChecks_exact.

(** IA32DebugInterfaceLockedDisabled: exact (former finding C05-DebugInterface-inverted) *)
Theorem C05_DebugInterface_exact : forall ecx msr,
  debug_locked ecx msr = pass <-> debug_spec ecx msr.
Proof. exact DebugInterface_exact. Qed.
Print Assumptions C05_DebugInterface_exact.

Theorem C05_DebugInterface_enabled : debug_locked 2048 1 = fail.
Proof. exact DebugInterface_enabled_rejected. Qed.
Print Assumptions C05_DebugInterface_enabled.

(** * 4. Boot Guard provisioning and manifest-security verdicts never report success when a
      named disqualifying condition holds *)

(** SaneMEBootGuardProvisioning: success exactly when no disqualifying condition holds, for
    every assignment of the status bits; never a panic. *)
Theorem C05_SaneME_exact : forall v f b,
  (sane_me v f b = good <-> ~ me_disqualified v f b) /\
  (sane_me v f b = good \/ sane_me v f b = bad).
Proof. exact SaneME_exact. Qed.
Print Assumptions C05_SaneME_exact.

Theorem C05_SaneME_failclosed : forall v f b, me_disqualified v f b -> sane_me v f b <> good.
Proof. exact SaneME_failclosed. Qed.
Print Assumptions C05_SaneME_failclosed.

Theorem C05_StrictSaneME_exact : forall v f b,
  strict_sane_me v f b = good <-> f_eep f = 3 /\ ~ me_disqualified v f b.
Proof. exact StrictSaneME_exact. Qed.
Print Assumptions C05_StrictSaneME_exact.

(** the same read off the raw HFSTS6 word and MSR 13Ah *)
Theorem C05_SaneME_raw_failclosed : forall strict v hfsts6 msr,
  sane_me_raw strict v hfsts6 msr = good ->
  bit hfsts6 4 = false /\ bit hfsts6 5 = false /\ bit hfsts6 30 = true /\
  (bits hfsts6 6 3 <> 0 /\ bits hfsts6 6 3 <> 2) /\ (strict = true -> bits hfsts6 6 3 = 3) /\
  bit hfsts6 3 = true /\ (v = 2 -> bit msr 4 = true) /\ bit msr 6 = true /\ bit msr 7 = false /\
  bit hfsts6 28 = false /\ bit msr 32 = true.
Proof. exact SaneME_raw_failclosed. Qed.
Print Assumptions C05_SaneME_raw_failclosed.

(** ** which device the status comes from (hfsts.go) *)

(** The status word is the register of the FIRST device with the ME's device/function number
    in enumeration order: the devices behind it - further look-alikes included, readable or
    not - and an enumeration error behind it have no influence. *)
Theorem C05_HFSTS_first_match : forall n pre d post ee, 1 <= n <= 6 -> no_me pre -> is_me d = true ->
  read_hfsts n (pre ++ d :: post) ee =
  match hfsts_word n d with Some w => HWord w | None => HErr end.
Proof. exact HFSTS_first_match. Qed.
Print Assumptions C05_HFSTS_first_match.

(** devices with another device or function number can be added or removed anywhere *)
Theorem C05_HFSTS_other_devices_irrelevant : forall n l ee,
  read_hfsts n l ee = read_hfsts n (filter is_me l) ee.
Proof. exact HFSTS_other_devices_irrelevant. Qed.
Print Assumptions C05_HFSTS_other_devices_irrelevant.

(** a delivered word is the register of that first device, on every platform *)
Theorem C05_HFSTS_word_origin : forall n l ee w, read_hfsts n l ee = HWord w ->
  exists pre d post, l = pre ++ d :: post /\ no_me pre /\ is_me d = true /\ hfsts_word n d = Some w.
Proof. exact HFSTS_word_origin. Qed.
Print Assumptions C05_HFSTS_word_origin.

(** a platform without ME device: an error, for every register, with or without enumeration
    error (former finding C05-HFSTS-no-ME-device, repaired by f889c7f) *)
Theorem C05_HFSTS_no_device : forall n l ee, no_me l -> read_hfsts n l ee = HErr.
Proof. exact HFSTS_no_device. Qed.
Print Assumptions C05_HFSTS_no_device.

(** (Strict)SaneMEBootGuardProvisioning fed from the platform: a success means that there is
    an ME device, that the first one in enumeration order could be read, and that none of the
    named conditions holds for ITS HFSTS6; for every platform, every MSR value. *)
Theorem C05_SaneME_platform_failclosed : forall strict v l ee msr,
  sane_me_plat strict v l ee msr = good ->
  exists pre d post w, l = pre ++ d :: post /\ no_me pre /\ is_me d = true /\
    hfsts_word 6 d = Some w /\
    ~ me_disqualified v (decode_hfsts6 w) (decode_bgmsr msr) /\
    (strict = true -> bits w 6 3 = 3).
Proof. exact SaneME_platform_failclosed. Qed.
Print Assumptions C05_SaneME_platform_failclosed.

(** a correctly provisioned ME is accepted whatever else is visible on the platform *)
Theorem C05_SaneME_platform_accepts : forall strict v pre d post ee msr w,
  no_me pre -> is_me d = true -> hfsts_word 6 d = Some w ->
  ~ me_disqualified v (decode_hfsts6 w) (decode_bgmsr msr) -> (strict = true -> bits w 6 3 = 3) ->
  sane_me_plat strict v (pre ++ d :: post) ee msr = good.
Proof. exact SaneME_platform_accepts. Qed.
Print Assumptions C05_SaneME_platform_accepts.

(** no ME device, or an ME device that cannot be read: never a success *)
Theorem C05_SaneME_platform_no_status : forall strict v msr,
  (forall l ee, no_me l -> sane_me_plat strict v l ee msr = bad) /\
  (forall pre d post ee, no_me pre -> is_me d = true -> hfsts_word 6 d = None ->
     sane_me_plat strict v (pre ++ d :: post) ee msr = bad).
Proof. exact SaneME_platform_no_status. Qed.
Print Assumptions C05_SaneME_platform_no_status.

(** ValidateMEAgainstManifests fed from the platform is the comparison with the first ME
    device's HFSTS6 ... *)
Theorem C05_ValidateME_platform_first : forall v pre d post ee b k i, no_me pre -> is_me d = true ->
  validate_me_plat v (pre ++ d :: post) ee b k i =
  match hfsts_word 6 d with Some w => validate_me v (decode_hfsts6 w) b k i | None => bad end.
Proof. exact ValidateME_platform_first. Qed.
Print Assumptions C05_ValidateME_platform_first.

(** ... so a success is a success for that device, on every platform *)
Theorem C05_ValidateME_platform_sound : forall v l ee b k i,
  validate_me_plat v l ee b k i = good ->
  exists pre d post w, l = pre ++ d :: post /\ no_me pre /\ is_me d = true /\
    hfsts_word 6 d = Some w /\ validate_me v (decode_hfsts6 w) b k i = good.
Proof. exact ValidateME_platform_sound. Qed.
Print Assumptions C05_ValidateME_platform_sound.

(** former finding C05-HFSTS-no-ME-device: without ME device neither reader delivers a status
    and no verdict or pkg/test entry point fed from the platform succeeds *)
Theorem C05_HFSTS_no_device_failclosed : forall l ee, no_me l ->
  (forall n, read_hfsts n l ee = HErr) /\
  get_hfsts1 l ee = None /\ get_hfsts6 l ee = None /\
  (forall strict v msr, sane_me_plat strict v l ee msr = bad /\ test_sane_me_plat strict v l ee msr = fail) /\
  (forall v b k i, validate_me_plat v l ee b k i = bad /\ test_validate_me_plat v l ee b k i = fail).
Proof. exact HFSTS_no_device_failclosed. Qed.
Print Assumptions C05_HFSTS_no_device_failclosed.

(** the former witness (host bridge and LPC bridge only, manifests with SVNs / key manifest id
    0): rejected now; the reader before the repair ([read_hfsts_legacy]) made up the status 0,
    with which these manifests agree *)
Theorem C05_HFSTS_no_device_witness :
  no_me plat_no_me /\
  read_hfsts 6 plat_no_me false = HErr /\ validate_me_plat 2 plat_no_me false 0 0 0 = bad /\
  test_validate_me_plat 2 plat_no_me false 0 0 0 = fail /\
  read_hfsts_legacy 6 plat_no_me false = HWord 0 /\
  validate_me 2 (decode_hfsts6 0) 0 0 0 = good.
Proof. exact HFSTS_no_device_witness. Qed.
Print Assumptions C05_HFSTS_no_device_witness.

(** the pkg/test entry points pass exactly when the verdict fed from the platform succeeds,
    and never panic *)
Theorem C05_TestEntryPoints_pass_iff : forall strict v l ee msr b k i,
  (test_sane_me_plat strict v l ee msr = pass <-> sane_me_plat strict v l ee msr = good) /\
  (test_validate_me_plat v l ee b k i = pass <-> validate_me_plat v l ee b k i = good) /\
  test_sane_me_plat strict v l ee msr <> VPanic /\ test_validate_me_plat v l ee b k i <> VPanic.
Proof. exact TestEntryPoints_pass_iff. Qed.
Print Assumptions C05_TestEntryPoints_pass_iff.

(** ValidateMEAgainstManifests, Boot Guard 1.0 and CBnT: exact *)
Theorem C05_ValidateME_exact : forall v f bpmsvn kmsvn kmid,
  (v = 1 -> (validate_me v f bpmsvn kmsvn kmid = good <->
             f_bpmsvn f = bpmsvn /\ f_kmsvn f = kmsvn /\ f_kmid f = kmid)) /\
  (v = 2 -> (validate_me v f bpmsvn kmsvn kmid = good <->
             f_bpmsvn f <= bpmsvn /\ f_kmsvn f = kmsvn /\ f_kmid f = kmid)).
Proof. exact ValidateME_exact. Qed.
Print Assumptions C05_ValidateME_exact.

(** for a BootGuard value whose version is neither 1.0 nor 2.0 no manifest verdict is a success
    (former finding C05-BG-unknown-version-failopen) *)
Theorem C05_BG_unknown_version_failclosed : forall v, v <> 1 -> v <> 2 ->
  (forall f a b c, validate_me v f a b c = bad) /\
  (forall nse algs lsize sig, bpm_crypto v nse algs lsize sig = bad) /\
  (forall a1 algs, km_crypto v a1 algs = bad) /\
  (forall nse flags pbet base0 vtdbar txte nseg, sane_bpm v nse flags pbet base0 vtdbar txte nseg = bad) /\
  (forall nse flags pbet base0 vtdbar txte nseg, strict_sane_bpm v nse flags pbet base0 vtdbar txte nseg = bad).
Proof. exact BG_unknown_version_failclosed. Qed.
Print Assumptions C05_BG_unknown_version_failclosed.

(** BPMCryptoSecure, Boot Guard 1.0: exact *)
Theorem C05_BPMCrypto_v1_exact : forall nse algs lsize sig,
  (bpm_crypto 1 nse algs lsize sig = good <->
   nse <> 0 /\ insecure_alg (hd 0 algs) = false /\ insecure_alg sig = false).
Proof. exact BPMCrypto_v1_exact. Qed.
Print Assumptions C05_BPMCrypto_v1_exact.

(** CBnT: exact (former finding C05-BPMCrypto-sha1-digestlist) *)
Theorem C05_BPMCrypto_v2_exact : forall nse algs lsize sig,
  (bpm_crypto 2 nse algs lsize sig = good <->
   nse <> 0 /\ insecure_alg sig = false /\ (forall a, algs = [a] -> insecure_alg a = false)).
Proof. exact BPMCrypto_v2_exact. Qed.
Print Assumptions C05_BPMCrypto_v2_exact.

Theorem C05_BPMCrypto_v2_sha1 : bpm_crypto 2 1 [4] 28 11 = bad.
Proof. exact BPMCrypto_v2_sha1_rejected. Qed.
Print Assumptions C05_BPMCrypto_v2_sha1.

Theorem C05_KMCrypto_exact : forall a1 algs,
  (km_crypto 1 a1 algs = good <-> insecure_alg a1 = false /\ insecure_alg (hd 0 algs) = false) /\
  (km_crypto 2 a1 algs = good <-> insecure_alg a1 = false /\ forall a, In a algs -> insecure_alg a = false).
Proof. exact KMCrypto_exact. Qed.
Print Assumptions C05_KMCrypto_exact.

(** SaneBPMSecurityProps / StrictSaneBPMSecurityProps: a verdict for every manifest (former
    finding C05-SaneBPM-nil-TXTE) *)
Theorem C05_SaneBPM_total : forall (strict : bool) v nse flags pbet base0 vtdbar txte nseg,
  let r := (if strict then strict_sane_bpm else sane_bpm) v nse flags pbet base0 vtdbar txte nseg in
  r = good \/ r = bad.
Proof. exact SaneBPM_total. Qed.
Print Assumptions C05_SaneBPM_total.

Theorem C05_SaneBPM_failclosed : forall v nse flags pbet base0 vtdbar txte nseg,
  sane_bpm v nse flags pbet base0 vtdbar txte nseg = good ->
  (v = 1 \/ v = 2) /\ nse <> 0 /\ bpm_ok v flags pbet base0 vtdbar txte nseg.
Proof. exact SaneBPM_failclosed. Qed.
Print Assumptions C05_SaneBPM_failclosed.

Theorem C05_SaneBPM_accepts : forall v nse flags pbet base0 vtdbar txte nseg,
  v = 1 \/ v = 2 -> nse <> 0 ->
  bpm_ok v flags pbet base0 vtdbar txte nseg ->
  sane_bpm v nse flags pbet base0 vtdbar txte nseg = good.
Proof. exact SaneBPM_accepts. Qed.
Print Assumptions C05_SaneBPM_accepts.

Theorem C05_StrictSaneBPM_failclosed : forall v nse flags pbet base0 vtdbar txte nseg,
  strict_sane_bpm v nse flags pbet base0 vtdbar txte nseg = good ->
  (v = 1 \/ v = 2) /\ nse <> 0 /\
  bpm_ok v flags pbet base0 vtdbar txte nseg /\ bit flags 3 = true /\
  (v = 2 -> exists cf, txte = Some cf /\ bits cf 5 3 = 2).
Proof. exact StrictSaneBPM_failclosed. Qed.
Print Assumptions C05_StrictSaneBPM_failclosed.

Theorem C05_SaneBPM_former_witnesses :
  (forall v flags pbet base0 vtdbar txte nseg, sane_bpm v 0 flags pbet base0 vtdbar txte nseg = bad) /\
  sane_bpm 2 1 13 15 0 0 None 1 = bad /\ strict_sane_bpm 2 1 13 15 0 0 None 1 = bad.
Proof. exact SaneBPM_former_witnesses. Qed.
Print Assumptions C05_SaneBPM_former_witnesses.

(** * Examples: the hypotheses are satisfiable, correctly configured objects are accepted *)

(** header, microcode, startup ACM (64 KiB at 0xFFE40000, size read from its header), two
    adjacent BIOS startup modules up to 4 GiB *)
Definition ex_fit : list fent :=
  [(0, 2314885530818453087, 5, 256); (1, 4292870144, 0, 256); (2, 4293132288, 0, 256);
   (7, 4293918720, 32768, 256); (7, 4294443008, 32768, 256)].
Definition ex_mem : physmem := [(4293132312, 16384)].

Example C05_ex_fit : typed_table ex_fit /\ ibbs_in_space ex_fit /\
  (forall e, In e ex_fit -> ft e = T_IBB -> 0 < fs e /\ fa e + fs e * 16 < W64) /\
  (forall e, In e ex_fit -> ft e = T_SACM -> exists s, dsz ex_mem e = Ok s /\ 0 < s) /\
  no_ibb_overlap (dsz ex_mem) ex_fit = pass /\ no_acm_overlap (dsz ex_mem) ex_fit = pass /\
  acm_below_4g (dsz ex_mem) ex_fit = pass /\ ibb_covers_rv (dsz ex_mem) ex_fit = pass /\
  ibb_covers_fv (dsz ex_mem) ex_fit = pass /\ has_type T_IBB ex_fit = pass.
Proof.
  split; [|split; [|split; [|split; [|repeat split; vm_compute; reflexivity]]]].
  - intros e [<-|[<-|[<-|[<-|[<-|[]]]]]]; unfold fent_typed, W64; cbn; lia.
  - intros e [<-|[<-|[<-|[<-|[<-|[]]]]]] T; try discriminate T; unfold W64; cbn; lia.
  - intros e [<-|[<-|[<-|[<-|[<-|[]]]]]] T; try discriminate T; unfold W64; cbn; lia.
  - intros e [<-|[<-|[<-|[<-|[<-|[]]]]]] T; try discriminate T. exists 65536. split; [vm_compute; reflexivity|lia].
Qed.

Example C05_ex_covers_fit :
  ibb_covers_fit (dsz []) 4294770688 [(0, 2314885530818453087, 2, 256); (7, 4294443008, 32768, 256)] = pass.
Proof. vm_compute. reflexivity. Qed.

Example C05_ex_heap : heap_spec 2065694720 917504 2065629184 65536 /\
  heap_valid 2065694720 917504 2065629184 65536 4096 = pass.
Proof. split; [unfold heap_spec, W32, LEGACY_MIN_HEAP, MIN_SINIT; repeat split; try reflexivity; lia|vm_compute; reflexivity]. Qed.

(** DPR [0x7B000000, 0x7B400000), heap at its top, SINIT below *)
Example C05_ex_dpr : memory_is_dpr 2066743361 2066874368 917504 2066743296 131072 = pass /\
  dpr_spec (bits 2066743361 4 255 * MiB) ((bits 2066743361 20 4095 + 1) * MiB) 2066874368 917504 2066743296 131072.
Proof. split; [vm_compute; reflexivity|]. vm_compute. repeat split; intros; congruence. Qed.

(** SMRR = TSEG = [0x7B000000, 0x7B800000), k = 23 *)
Example C05_ex_smrr : bits 4286580736 12 1048575 * 4096 = W32 - 2 ^ 23 /\
  valid_smrr 2063597574 4286580736 2063597568 2071986176 = pass.
Proof. split; vm_compute; reflexivity. Qed.

Example C05_ex_nvindex : nv_index_config20 0 (ps_blob [98; 4; 4; 8] 11 70) = pass /\
  (exists h, parse_nvpub (ps_blob [98; 4; 4; 8] 11 70) = Some (11, PS20_ATTR, h, 70)) /\
  nv20_spec 0 11 PS20_ATTR 70.
Proof.
  split; [vm_compute; reflexivity|]. split; [eexists; vm_compute; reflexivity|].
  split; [reflexivity|]. exists 32. split; reflexivity.
Qed.

Example C05_ex_lcp : lcp_valid1 514 0 1 1 2 0 false = pass /\ lcp_valid2 11 768 11 1 8 8 = pass /\
  lcp2_spec 11 768 11 0 8 8.
Proof. split; [|split]; try (vm_compute; reflexivity). unfold lcp2_spec, LCP_V3. lia. Qed.

Example C05_ex_sinit : sinit_spec 17 2 true /\ sinit_tpm_spec 17 None 2 true = pass.
Proof. split; [|reflexivity]. split; [reflexivity|]. right. split; [reflexivity|]. vm_compute. discriminate. Qed.

(** HFSTS6 = FPF lock | immediate shutdown | protect BIOS, MSR 13Ah = capability | verified | FACB *)
Example C05_ex_me : sane_me_raw true 2 1073742024 4294967376 = good /\
  ~ me_disqualified 2 (decode_hfsts6 1073742024) (decode_bgmsr 4294967376) /\
  me_disqualified 2 (decode_hfsts6 (1073742024 + 16)) (decode_bgmsr 4294967376).
Proof.
  split; [vm_compute; reflexivity|]. split.
  - apply (proj1 (SaneME_exact _ _ _)). vm_compute. reflexivity.
  - left. vm_compute. reflexivity.
Qed.

Example C05_ex_bpm : bpm_ok 2 13 15 0 0 (Some 64) 1 /\ sane_bpm 2 1 13 15 0 0 (Some 64) 1 = good /\
  strict_sane_bpm 2 1 13 15 0 0 (Some 64) 1 = good /\ bpm_crypto 2 1 [11] 36 11 = good /\
  bpm_crypto 2 1 [4; 11] 64 11 = good /\ km_crypto 2 11 [11; 12] = good.
Proof.
  split; [|repeat split; vm_compute; reflexivity].
  unfold bpm_ok. repeat split; try (vm_compute; congruence).
  - intros _. left. reflexivity.
  - intros _. exists 64. split; reflexivity.
Qed.

(** host bridge, the ME 00:16.0 reporting "Boot Guard disabled", and a look-alike 03:10.0 whose
    dword at 0x6c decodes to a sane status: rejected; with the register contents swapped: accepted *)
Example C05_ex_two_candidates :
  sane_me_plat true 2 [ex_host; ex_me_bad; ex_vf_sane] false 4294967376 = bad /\
  get_hfsts6 [ex_host; ex_me_bad; ex_vf_sane] false = Some (1073742024 + 268435456) /\
  get_hfsts1 [ex_host; ex_me_bad; ex_vf_sane] false = Some 1 /\
  sane_me_plat true 2 [ex_host; mkdev 0 22 0 (p_cfg ex_vf_sane); mkdev 3 16 0 (p_cfg ex_me_bad)] false 4294967376 = good /\
  no_me [ex_host] /\ is_me ex_me_bad = true /\ is_me ex_vf_sane = true.
Proof. exact ex_two_candidates. Qed.
