(** C20 — the firmware diff is exact and its analysis totals are consistent.
    This file holds only the property theorems, each closed by [exact].

    Vocabulary (all defined in Model/Diff.v and Proofs/Diff.v):
    - [diff_with srt] / [analyze_with srt]: the model of [diff.Diff] /
      [diff.Analyze], parametric in the function used for [Ranges.Sort];
      [sort_contract srt] is what sort.Slice guarantees (a permutation sorted
      by Offset, any order among equal offsets).  The executable instance the
      correspondence check runs is [diff = diff_with isort] with
      [isort_contract : sort_contract isort] ([C20_sort_instance]).
    - [u64r r]: Offset and Length are uint64 values.  [nw r]: Offset+Length does
      not overflow uint64.  [inr a r]: address [a] belongs to [r].
      [within r m]: [r] lies inside [m].  [before a b]: [a] ends strictly
      before [b] begins.
    - [sort_and_merge srt ranges]: the merged requested ranges ([SortAndMerge]).
    - [mapper_ok mp good bad]: identity mapping, or [PhysMemMapper] with images
      of at most 4 GiB (the mapper places the image end at 4 GiB).
    - [pair_at mp good bad a]: the bytes of the two images at address [a]
      (index [a] resp. [a - (2^32 - len image)]).  [diff_nonign] / [equal_nonign]:
      that pair is not ignored (neither byte in the ignore set) and differs /
      is equal.
    Every theorem is conditional on the call returning ([= Ok _]): on requested
    ranges that leave an image the code panics (slice bounds), which the model
    reproduces as [Panic].

    Image OBJECTS (Model/DiffObjs.v, theorems [C20_object_*] / [C20_session_*]
    at the end): [image] is a [*biosimage.BIOSImage] with its state ([content],
    the parse cache [cache], and [pfact], the contract of parsing the content);
    [consistent im]: a filled cache holds what parsing the content gives (true
    of every object built by New / NewFromParsed, kept by every call).
    [step_with size_content srt pool o]: one call ([OpParse], [OpSize],
    [OpDiff], [OpAnalyze]) on a pool of objects, giving the new pool and the
    result; [after_with size_content srt pool ops]: the pool after the history
    [ops]; [fresh]: the same image as a never used object.  [size_content] is
    the model of [BIOSImage.Size()] (length of Content). *)
From Coq Require Import Sorting.Sorted.
From CSS Require Import Lib.Base Model.Diff Model.DiffObjs Proofs.Diff Proofs.DiffObjs.

Theorem C20_sort_instance : sort_contract isort.
Proof. exact isort_contract. Qed.
Print Assumptions C20_sort_instance.

(** Each reported range lies inside a merged requested range, is non-empty,
    starts at a differing non-ignored pair and contains no equal non-ignored
    pair (ignored pairs inside a run neither end nor split it). *)
Theorem C20_diff_sound :
  forall srt, sort_contract srt ->
  forall ranges mp good bad ign out,
    Forall u64r ranges -> mapper_ok mp good bad ->
    diff_with srt ranges mp good bad ign = Ok out ->
    forall r, In r out ->
      (exists m, In m (sort_and_merge srt ranges) /\ within r m) /\
      0 < len r /\
      diff_nonign ign mp good bad (off r) /\
      (forall a, inr a r -> ~ equal_nonign ign mp good bad a).
Proof. exact diff_sound. Qed.
Print Assumptions C20_diff_sound.

(** Each reported range is maximal: it ends where its merged requested range
    ends, or the next pair is an equal non-ignored one.  (Ignored pairs that
    follow the last differing pair are part of the range.) *)
Theorem C20_diff_maximal :
  forall srt, sort_contract srt ->
  forall ranges mp good bad ign out,
    Forall u64r ranges -> mapper_ok mp good bad ->
    diff_with srt ranges mp good bad ign = Ok out ->
    forall r, In r out ->
      exists m, In m (sort_and_merge srt ranges) /\ within r m /\
        (off r + len r = off m + len m \/
         (off r + len r < off m + len m /\ equal_nonign ign mp good bad (off r + len r))).
Proof. exact diff_maximal. Qed.
Print Assumptions C20_diff_maximal.

(** The reported ranges are sorted and pairwise disjoint (even non-adjacent). *)
Theorem C20_diff_sorted_disjoint :
  forall srt, sort_contract srt ->
  forall ranges mp good bad ign out,
    Forall u64r ranges -> mapper_ok mp good bad ->
    diff_with srt ranges mp good bad ign = Ok out ->
    StronglySorted before out.
Proof. exact diff_sorted. Qed.
Print Assumptions C20_diff_sorted_disjoint.

(** Every differing non-ignored pair of a merged requested range is inside a
    reported range. *)
Theorem C20_diff_complete :
  forall srt, sort_contract srt ->
  forall ranges mp good bad ign out,
    Forall u64r ranges -> mapper_ok mp good bad ->
    diff_with srt ranges mp good bad ign = Ok out ->
    forall m a, In m (sort_and_merge srt ranges) -> inr a m ->
      diff_nonign ign mp good bad a -> exists r, In r out /\ inr a r.
Proof. exact diff_complete. Qed.
Print Assumptions C20_diff_complete.

(** On success every merged requested range lies inside both images. *)
Theorem C20_diff_in_image :
  forall srt, sort_contract srt ->
  forall ranges mp good bad ign out,
    Forall u64r ranges -> mapper_ok mp good bad ->
    diff_with srt ranges mp good bad ign = Ok out ->
    Forall (fits mp good bad) (sort_and_merge srt ranges).
Proof. exact diff_ok_fits. Qed.
Print Assumptions C20_diff_in_image.

(** The merged requested ranges cover exactly the requested addresses —
    PARTIAL: needs that no requested range overflows uint64 ([Forall nw]);
    see [C20_requested_cover_overflow_refuted]. *)
Theorem C20_requested_cover_partial :
  forall srt ranges, sort_contract srt -> Forall u64r ranges -> Forall nw ranges ->
  forall a, (exists r, In r ranges /\ inr a r) <->
            (exists m, In m (sort_and_merge srt ranges) /\ inr a m).
Proof. exact requested_cover. Qed.
Print Assumptions C20_requested_cover_partial.

(** Soundness and completeness stated on the requested ranges themselves —
    PARTIAL: same extra hypothesis. *)
Theorem C20_diff_exact_on_requested_partial :
  forall srt ranges mp good bad ign out,
    sort_contract srt -> Forall u64r ranges -> Forall nw ranges -> mapper_ok mp good bad ->
    diff_with srt ranges mp good bad ign = Ok out ->
    (forall r a, In r out -> inr a r -> exists q, In q ranges /\ inr a q) /\
    (forall q a, In q ranges -> inr a q -> diff_nonign ign mp good bad a ->
                 exists r, In r out /\ inr a r).
Proof. exact diff_requested. Qed.
Print Assumptions C20_diff_exact_on_requested_partial.

(** Without that hypothesis: a requested range with Offset+Length >= 2^64 that
    follows an overlapping range is silently dropped ([MergeRanges] takes the
    wrapped end for the smaller one); a differing byte it requested, inside
    the image, is not reported.  Outside the property's quantifier (such a
    range is not a range of the image), recorded for completeness. *)
Theorem C20_requested_cover_overflow_refuted :
  exists ranges good bad out a,
    Forall u64r ranges /\
    diff ranges MIdentity good bad [] = Ok out /\
    (exists r, In r ranges /\ inr a r) /\ 0 <= a < zlen good /\
    diff_nonign [] MIdentity good bad a /\
    ~ (exists m, In m (sort_and_merge isort ranges) /\ inr a m) /\
    ~ (exists r, In r out /\ inr a r).
Proof. exact requested_cover_overflow_witness. Qed.
Print Assumptions C20_requested_cover_overflow_refuted.

(** The report entries are the given ranges sorted and merged, for at most 1000
    given ranges (the property's quantifier). *)
Theorem C20_analyze_entries :
  forall srt, sort_contract srt ->
  forall ranges mp ms good bad parse_ok rep,
    Forall u64r ranges -> mapper_ok mp good bad ->
    analyze_with srt ranges mp ms good bad parse_ok = Ok rep ->
    (length ranges <= 1000)%nat ->
    map e_range (r_entries rep) = sort_and_merge srt ranges.
Proof. exact analyze_entries. Qed.
Print Assumptions C20_analyze_entries.

(** For any number of ranges: sorted, merged, and — when more than 1000 merged
    ranges remain — merged again across gaps of up to 1023 bytes. *)
Theorem C20_analyze_entries_any :
  forall srt, sort_contract srt ->
  forall ranges mp ms good bad parse_ok rep,
    Forall u64r ranges -> mapper_ok mp good bad ->
    analyze_with srt ranges mp ms good bad parse_ok = Ok rep ->
    map e_range (r_entries rep) = analyze_ranges srt ranges.
Proof. exact analyze_entries_general. Qed.
Print Assumptions C20_analyze_entries_any.

(** Above 1000 ranges the entries are NOT the given ranges sorted and merged:
    1001 single bytes at the even addresses give one entry of 2001 bytes
    (BytesChanged 2001).  Outside the property's quantifier. *)
Theorem C20_analyze_entries_unbounded_refuted :
  exists ranges good bad rep,
    Forall u64r ranges /\
    analyze ranges MIdentity [] good bad true = Ok rep /\
    map e_range (r_entries rep) = [mkR 0 2001] /\
    length (sort_and_merge isort ranges) = 1001%nat /\
    map e_range (r_entries rep) <> sort_and_merge isort ranges.
Proof. exact analyze_entries_unbounded_witness. Qed.
Print Assumptions C20_analyze_entries_unbounded_refuted.

(** BytesChanged is the total length of the entries; FirstProblemOffset is the
    smallest start of the entries (MaxUint64 when there is none). *)
Theorem C20_totals :
  forall srt, sort_contract srt ->
  forall ranges mp ms good bad parse_ok rep,
    Forall u64r ranges -> mapper_ok mp good bad ->
    analyze_with srt ranges mp ms good bad parse_ok = Ok rep ->
    r_changed rep = sumZ (map (fun e => len (e_range e)) (r_entries rep)) /\
    (r_entries rep = [] -> r_first rep = W64 - 1) /\
    (forall e, In e (r_entries rep) -> r_first rep <= off (e_range e)) /\
    (r_entries rep <> [] -> exists e, In e (r_entries rep) /\ r_first rep = off (e_range e)).
Proof. exact analyze_totals. Qed.
Print Assumptions C20_totals.

(** Each entry's HammingDistance is the bit-wise distance of the two images on
    the entry's range ([ham_spec]: sum over the addresses of the range of
    popcount(g xor b)); the report's is the sum over the entries. *)
Theorem C20_hamming_sum :
  forall srt, sort_contract srt ->
  forall ranges mp ms good bad parse_ok rep,
    Forall u64r ranges -> mapper_ok mp good bad ->
    analyze_with srt ranges mp ms good bad parse_ok = Ok rep ->
    (forall e, In e (r_entries rep) -> e_hd e = ham_spec mp good bad (e_range e)) /\
    r_hd rep = sumZ (map e_hd (r_entries rep)).
Proof. exact analyze_hamming. Qed.
Print Assumptions C20_hamming_sum.

(** The same with the addresses at which the second image holds 0x00 or 0xFF
    excluded ([ham_spec_filtered]). *)
Theorem C20_hamming_filtered :
  forall srt, sort_contract srt ->
  forall ranges mp ms good bad parse_ok rep,
    Forall u64r ranges -> mapper_ok mp good bad ->
    analyze_with srt ranges mp ms good bad parse_ok = Ok rep ->
    (forall e, In e (r_entries rep) -> e_hdf e = ham_spec_filtered mp good bad (e_range e)) /\
    r_hdf rep = sumZ (map e_hdf (r_entries rep)).
Proof. exact analyze_hamming_filtered. Qed.
Print Assumptions C20_hamming_filtered.

(** Chunk [j] of measurement [i] is listed under an entry iff its reference
    shares an address with the entry's range; a measurement is listed only
    with at least one chunk.  [wf_measurements]: chunk references are uint64
    values whose Offset+Length does not overflow. *)
Theorem C20_related_exact :
  forall srt, sort_contract srt ->
  forall ranges mp ms good bad parse_ok rep,
    Forall u64r ranges -> mapper_ok mp good bad ->
    analyze_with srt ranges mp ms good bad parse_ok = Ok rep ->
    wf_measurements ms ->
    forall e, In e (r_entries rep) ->
      (forall i js, In (i, js) (e_rel e) -> js <> []) /\
      (forall i j,
        (exists js, In (i, js) (e_rel e) /\ In j js) <->
        (0 <= i /\ 0 <= j /\
         exists m c, nth_error ms (Z.to_nat i) = Some m /\ nth_error m (Z.to_nat j) = Some c /\
                     exists a, inr a c /\ inr a (e_range e))).
Proof. exact analyze_related. Qed.
Print Assumptions C20_related_exact.

(** The entries are pairwise disjoint and sorted, and the counters the code
    keeps in uint64 stay below len(image) resp. 8*len(image): the plain sums of
    the model are what the code computes. *)
Theorem C20_sums_bounded :
  forall srt, sort_contract srt ->
  forall ranges mp ms good bad parse_ok rep,
    Forall u64r ranges -> mapper_ok mp good bad -> zlen good + 1023 < W64 ->
    analyze_with srt ranges mp ms good bad parse_ok = Ok rep ->
    0 <= r_changed rep <= zlen good /\
    0 <= r_hd rep <= 8 * zlen good /\
    0 <= r_hdf rep <= r_hd rep.
Proof. exact analyze_bounded. Qed.
Print Assumptions C20_sums_bounded.

Theorem C20_analyze_entries_disjoint :
  forall srt, sort_contract srt ->
  forall ranges mp ms good bad parse_ok rep,
    Forall u64r ranges -> mapper_ok mp good bad -> zlen good + 1023 < W64 ->
    analyze_with srt ranges mp ms good bad parse_ok = Ok rep ->
    StronglySorted (sep 0) (analyze_ranges srt ranges).
Proof. exact analyze_ranges_sep. Qed.
Print Assumptions C20_analyze_entries_disjoint.

(** The hypotheses are satisfiable by non-trivial values: physical addressing,
    unsorted overlapping requested ranges with an empty one, an ignored pair
    inside the first run, ignored pairs at the end of the second. *)
Example C20_diff_example :
  Forall u64r ex_ranges /\ mapper_ok MPhys ex_good ex_bad /\
  sort_and_merge isort ex_ranges = [mkR (ex_base + 0) 9] /\
  diff ex_ranges MPhys ex_good ex_bad [255] = Ok [mkR (ex_base + 1) 3; mkR (ex_base + 6) 3].
Proof. exact ex_diff. Qed.

Example C20_analyze_example :
  exists rep,
    analyze [mkR (ex_base + 6) 3; mkR (ex_base + 1) 3] MPhys
            [[mkR (ex_base + 0) 2; mkR (ex_base + 4) 2]; [mkR (ex_base + 9) 1]; [mkR (ex_base + 8) 5]]
            ex_good ex_bad true = Ok rep /\
    map e_range (r_entries rep) = [mkR (ex_base + 1) 3; mkR (ex_base + 6) 3] /\
    map e_rel (r_entries rep) = [[(0, [0])]; [(2, [0])]] /\
    r_changed rep = 6 /\ r_first rep = ex_base + 1 /\ r_hd rep = 28 /\ r_hdf rep = 9.
Proof. exact ex_analyze. Qed.

(** ** Image objects and sessions

    [Diff] / [Analyze] called on objects in any state are the calls on the
    contents of the objects (so every theorem above holds for them). *)
Theorem C20_object_diff_is_content_call :
  forall srt ranges mp g b ign,
    diff_obj_with size_content srt ranges mp g b ign
    = diff_with srt ranges mp (content g) (content b) ign.
Proof. exact diff_obj_content. Qed.
Print Assumptions C20_object_diff_is_content_call.

Theorem C20_object_analyze_is_content_call :
  forall srt ranges mp ms g b,
    snd (analyze_obj_with size_content srt ranges mp ms g b)
    = analyze_with srt ranges mp ms (content g) (content b) (parsed_ok (parse_img g)).
Proof. exact analyze_obj_content. Qed.
Print Assumptions C20_object_analyze_is_content_call.

(** History independence: after ANY history of Parse / Size / Diff / Analyze
    calls on a pool of objects, a call returns what it returns on never used
    objects holding the same images. *)
Theorem C20_session_history_independent :
  forall srt pool ops o,
    Forall consistent pool ->
    snd (step_with size_content srt (after_with size_content srt pool ops) o)
    = snd (step_with size_content srt (map fresh pool) o).
Proof. exact session_history_independent. Qed.
Print Assumptions C20_session_history_independent.

(** No call changes an image. *)
Theorem C20_session_images_unchanged :
  forall srt pool ops,
    Forall consistent pool ->
    map content (after_with size_content srt pool ops) = map content pool.
Proof. exact session_images_unchanged. Qed.
Print Assumptions C20_session_images_unchanged.

(** A Diff / Analyze call anywhere in a session is the call of Model/Diff.v on
    the bytes the two objects were built from ([parses]: whether the good
    image's bytes parse). *)
Theorem C20_session_diff_is_content_call :
  forall srt pool ops ranges mp g b ign ig ib,
    Forall consistent pool -> nth_error pool g = Some ig -> nth_error pool b = Some ib ->
    snd (step_with size_content srt (after_with size_content srt pool ops) (OpDiff ranges mp g b ign))
    = RDiff (diff_with srt ranges mp (content ig) (content ib) ign).
Proof. exact session_diff_is_content_call. Qed.
Print Assumptions C20_session_diff_is_content_call.

Theorem C20_session_analyze_is_content_call :
  forall srt pool ops ranges mp ms g b ig ib,
    Forall consistent pool -> nth_error pool g = Some ig -> nth_error pool b = Some ib ->
    snd (step_with size_content srt (after_with size_content srt pool ops) (OpAnalyze ranges mp ms g b))
    = RAnalyze (analyze_with srt ranges mp ms (content ig) (content ib) (parses ig)).
Proof. exact session_analyze_is_content_call. Qed.
Print Assumptions C20_session_analyze_is_content_call.

(** The first sentence of the property, call by call in every session: sorted
    and disjoint; inside a merged requested range and maximal in it; non-empty,
    starting at a differing non-ignored pair, holding no equal non-ignored
    pair; covering every differing non-ignored pair — all with respect to the
    bytes the objects were built from. *)
Theorem C20_session_diff_exact :
  forall srt pool ops ranges mp g b ign ig ib out,
    sort_contract srt ->
    Forall consistent pool -> nth_error pool g = Some ig -> nth_error pool b = Some ib ->
    Forall u64r ranges -> mapper_ok mp (content ig) (content ib) ->
    snd (step_with size_content srt (after_with size_content srt pool ops) (OpDiff ranges mp g b ign))
      = RDiff (Ok out) ->
    StronglySorted before out /\
    (forall r, In r out ->
      (exists m, In m (sort_and_merge srt ranges) /\ within r m /\
         (off r + len r = off m + len m \/
          (off r + len r < off m + len m /\
           equal_nonign ign mp (content ig) (content ib) (off r + len r)))) /\
      0 < len r /\
      diff_nonign ign mp (content ig) (content ib) (off r) /\
      (forall a, inr a r -> ~ equal_nonign ign mp (content ig) (content ib) a)) /\
    (forall m a, In m (sort_and_merge srt ranges) -> inr a m ->
      diff_nonign ign mp (content ig) (content ib) a -> exists r, In r out /\ inr a r).
Proof. exact session_diff_exact. Qed.
Print Assumptions C20_session_diff_exact.

(** The theorems above depend on [Size()] being the length of Content: with a
    size taken from the parsed buffer of a parsed object (NOT the code; the
    variant [size_parsed_buffer]) the same question asked before and after
    [Parse] of a container image gets two answers, and the second reports a
    range holding an equal byte pair.  The faithful model gives one answer. *)
Theorem C20_object_size_matters_witness :
  Forall consistent wit_pool /\
  run_with size_content isort wit_pool [wit_q; OpParse 0; wit_q]
    = [RDiff (Ok [mkR (wit_base + 3) 1]); RParse true; RDiff (Ok [mkR (wit_base + 3) 1])] /\
  run_with size_parsed_buffer isort wit_pool [wit_q; OpParse 0; wit_q]
    = [RDiff (Ok [mkR (wit_base + 3) 1]); RParse true; RDiff (Ok [mkR (wit_base + 2) 4])] /\
  inr (wit_base + 2) (mkR (wit_base + 2) 4) /\
  equal_nonign [] MPhys wit_good wit_bad (wit_base + 2).
Proof. exact object_size_matters_witness. Qed.
Print Assumptions C20_object_size_matters_witness.

(** The hypotheses are satisfiable by a non-trivial session: a container image
    (2 bytes stripped by the parser), an object built by NewFromParsed, an
    unparsable image; Diff, Analyze (parses the good image), Size, the same
    Diff again, the roles swapped, Analyze on the unparsable image. *)
Example C20_session_example :
  Forall consistent ex_pool /\
  run ex_pool [wit_q; OpAnalyze [mkR (wit_base + 3) 1] MPhys [[mkR (wit_base + 3) 2]] 0 1; OpSize 0; wit_q;
               OpDiff [mkR (wit_base + 0) 6] MPhys 1 0 [7]; OpParse 2;
               OpAnalyze [mkR (wit_base + 3) 1] MPhys [] 2 0]
  = [RDiff (Ok [mkR (wit_base + 3) 1]);
     RAnalyze (Ok (mkRep [mkE (mkR (wit_base + 3) 1) 2 2 [(0, [0])]] (wit_base + 3) 1 2 2));
     RSize 6;
     RDiff (Ok [mkR (wit_base + 3) 1]);
     RDiff (Ok []);
     RParse false;
     RAnalyze (Err 1)].
Proof. exact ex_session. Qed.
